#!/bin/bash
# usage: regress.sh [repo-dir]   — all quick checks and all kill matrices with a private copy of the binary
# (so the checker can be rebuilt meanwhile); prints only what is not as expected. Evidence is NOT touched when a
# scratch repo is given (uses a scratch verif dir for evidence output).
repo=${1:-/repo}
tmp=$(mktemp -d /tmp/regress-XXXX)
mkdir -p $tmp/bin $tmp/evidence
cp /verif/bin/checker $tmp/bin/checker
cp /verif/known_findings.json $tmp/ 2>/dev/null
props="C01 C02 C04 C05 C06 C07 C08 C09 C10 C11 C12 C13 C14 C15 C16 C17 C18 C19 C20"
for p in $props; do
  ( $tmp/bin/checker -property $p -repo $repo -verif $tmp > $tmp/q_$p.out 2>&1 || echo "QUICK FAIL $p: $(grep -E '^  (violated|undecided)' $tmp/q_$p.out | head -3)" ) &
  while [ $(jobs -r | wc -l) -ge 8 ]; do sleep 0.2; done
done
wait
for p in $props; do
  ( $tmp/bin/checker -property $p -repo $repo -verif $tmp -mutants > $tmp/m_$p.out 2>&1; grep -v "^killed\|^silent-ok" $tmp/m_$p.out | sed "s/^/[$p] /" ) &
  while [ $(jobs -r | wc -l) -ge 4 ]; do sleep 0.5; done
done
wait
echo "regress done: $(cat $tmp/m_*.out | grep -c '^killed') killed, $(cat $tmp/m_*.out | grep -c '^silent-ok') silent-ok"
rm -rf $tmp
