#!/bin/bash
# usage: try_benign_par.sh [lanes]  — like try_benign.sh, against scratch worktrees of /repo HEAD (never /repo itself), N at a time.
cd /verif
lanes=${1:-4}
cp bin/checker /tmp/chk-benign
for k in $(seq 1 $lanes); do
  git -C /repo worktree remove --force /tmp/bt-$k >/dev/null 2>&1
  git -C /repo worktree add -q --detach /tmp/bt-$k HEAD || exit 2
done
run_one() {
  n=$1; k=$2
  out=$(REPO=/tmp/bt-$k CHECKER=/tmp/chk-benign JOBS=5 scripts/try_seed.sh benign/$n/patch.diff 2>&1)
  if echo "$out" | grep -q "ALARM\|does not apply\|refusing"; then
    echo "### $n: NOT SILENT"; echo "$out" | grep -E "^== |^  (violated|undecided)|apply|refusing" | cut -c1-300
  else
    echo "### $n: silent"
  fi
}
export -f run_one
i=0
for n in $(ls benign); do
  [ -f benign/$n/patch.diff ] || continue
  k=$(( i % lanes + 1 )); i=$((i+1))
  echo "$n $k"
done > /tmp/benign-jobs.txt
for k in $(seq 1 $lanes); do
  ( grep " $k\$" /tmp/benign-jobs.txt | while read n kk; do run_one $n $kk; done > /tmp/benign-lane-$k.out 2>&1 ) &
done
wait
cat /tmp/benign-lane-*.out
for k in $(seq 1 $lanes); do git -C /repo worktree remove --force /tmp/bt-$k >/dev/null 2>&1; done
git -C /repo worktree prune
