#!/bin/bash
# usage: try_benign.sh [names…]  — applies each behaviour-preserving refactoring kept under /verif/benign/<name>/patch.diff
# to /repo, runs every quick check, reverts. Every check must stay silent; prints what is not.
cd /verif
names=${@:-$(ls benign)}
rc=0
for n in $names; do
  [ -f benign/$n/patch.diff ] || continue
  out=$(scripts/try_seed.sh benign/$n/patch.diff 2>&1)
  if echo "$out" | grep -q "ALARM\|does not apply\|refusing"; then
    echo "### $n: NOT SILENT"; echo "$out" | grep -E "^== |^  (violated|undecided)|apply|refusing" | cut -c1-300; rc=1
  else
    echo "### $n: silent"
  fi
done
exit $rc
