#!/bin/bash
# usage: with_patch.sh <patch.diff> <props…>  — applies the patch to /repo, runs the given quick checks with evidence
# written to /tmp (not /verif/evidence), reverts; prints failing obligations.
patch=$(readlink -f "$1"); shift
cd /verif
git -C /repo diff --quiet || { echo "/repo dirty"; exit 2; }
git -C /repo apply "$patch" || exit 2
trap 'git -C /repo checkout -- . ; git -C /repo clean -fdq -- .' EXIT
for p in "$@"; do
  bin/checker -property $p -verif /tmp 2>&1 | grep -E "^  (violated|undecided)|quick:" | cut -c1-420
done
