#!/usr/bin/env python3
"""Generates /verif/MANIFEST.json from the table below (one entry per claimed property)."""
import json, os

ENV = "GOFLAGS=-mod=mod GOPROXY=off GOSUMDB=off GOTOOLCHAIN=local GOWORK=off"
BASE_NOTE = ("Trusted: Go type checker and go/ssa construction (x/tools v0.29.0), the accepted idioms listed in DESIGN.md for the rule, "
             "the anchors (functions/fields named by the rule) still denote the mechanism. Decides the structural necessary conditions named in the level text, not the run-time behaviour as a whole.")

CLAIMED = {
 "C13": dict(
  category="other",
  text="Static table agreement + decodability over the whole log-type universe: LogType constants = cases of String/FromString (inverse by constant evaluation) = cases of HydrateLog = SQL enum labels = handle_log branches; every Log constructor's payload type is the one HydrateLog rebuilds; interface-typed payload fields have a decoder; clock-derived timestamps are rounded to DatePrecision; hash covers previous hash + all Log fields. Holds for every log type/target at once (finite tables), which sampling tests cannot give; byte-level JSON equality is not decided.",
  design_ref="DESIGN.md §3 C13",
  technique="AST/constant table extraction + SSA provenance + lexical SQL scan (static analysis)"),

 "C02": dict(
  category="other",
  text="Decides, on every CFG path (hence for every schedule), the structural mechanism serializability rests on: balance read, execution and log hand-off happen with the account lock held; the lock is released only after the persistence signal of the appended log; the Read/Write lock sets derive from ResolveResources of the executed machine through Filter(not world) only; every switch clause of ResolveResources that can yield an account records it; lock compatibility matrix; production uses NewDefaultLocker. Necessary conditions of the property, not serializability itself (value-level, argued in DESIGN.md).",
  design_ref="DESIGN.md §3 C02",
  technique="path state machine over SSA CFGs (lock span), SSA provenance, sibling-clause rule, table extraction (static analysis)"),
 "C15": dict(
  category="other",
  text="Lock-manager discipline decided on all paths from every entry point of the package: guarded state only touched with the mutex held (lock-set machine with inlining), compatibility matrix and release symmetry as extracted tables, every release re-examines the queue before the mutex is dropped, the cancellation arm reconciles a concurrent grant under the mutex. Schedules are covered because the rules quantify over program paths; fairness is not decided.",
  design_ref="DESIGN.md §3 C15",
  technique="lock-set path analysis over SSA + table extraction (static analysis)"),
 "C05": dict(
  category="other",
  text="For every path from every entry point of package command (so for every interleaving of writers and every crash/restart point that re-runs Init): chain head store, transaction-id store and the hand-off to the batcher lie in one uninterrupted region of Commander.mu; the appended value is the chained head built on the current head; the stored id is lastTXID+1 and is the id given to the log; reads of the counters hold the mutex; single batch worker, FIFO pending under its mutex; Init reloads head and last id from the store before the worker starts; hash inputs. Hash values and PostgreSQL atomicity are not decided.",
  design_ref="DESIGN.md §3 C05",
  technique="mutex-region path state machine over SSA with context-sensitive inlining + SSA provenance (static analysis)"),
 "C06": dict(
  category="other",
  text="Acknowledgement ordering on every path: run() hands out the executor's log only after receiving on its done channel; every hand-off happens inside an executor run by run() (or is passed up with its channel); done is closed only in the batcher callback or on the dry-run edge; batch callbacks fire only from batcherJob.Terminated, which Runner.Run invokes only on jobs received from the channel the worker feeds on the nil-error edge of InsertLogs; a failing InsertLogs ends in panic on all paths; InsertLogs runs inside one RunInTx and drops no error; no executor returns an error after a hand-off.",
  design_ref="DESIGN.md §3 C06",
  technique="path state machines over SSA (dominance of ack by wait, error-edge analysis), who-may-call, error-discipline check (static analysis)"),
 "C07": dict(
  category="other",
  text="On every path of executionContext.run (all interleavings of duplicates): with a non-empty key, the key is reserved before the store lookup and before the executor, and released only by a defer of run (after the persistence wait); every log chained in package command — real and preview path, every kind of write since all funnel through one function — is built by a builder that stamps Parameters.IdempotencyKey; the lookup is ledger-scoped and keyed by the column. SQL uniqueness does not exist and is not decided; multi-process deployments are out of scope.",
  design_ref="DESIGN.md §3 C07",
  technique="path state machine over SSA (reservation span) + interprocedural builder provenance (static analysis)"),
 "C10": dict(
  category="other",
  text="In-flight guard spans store read→write on every path; the write is only reached on the not-reverted edge of the transaction read for the same id; overdraft flag is `force` at the revert site and constant false elsewhere, its text emitted only under the flag; the revert log is built from (id of the read transaction, new transaction) and the SQL trigger marks exactly that id scoped by ledger; the script is Reverse() of the read transaction; revert runs under the account lock (R02a). Reverse arithmetic / balance restoration not decided.",
  design_ref="DESIGN.md §3 C10",
  technique="path state machine over SSA + edge facts + SSA provenance + lexical SQL scan (static analysis)"),
 "C11": dict(
  category="other",
  text="For every path of every function that reserves a transaction reference: reservation precedes the store lookup, both precede the hand-off, no hand-off on the lookup-found path, and the reservation is released only after the persistence wait of the handed-off log; the lookup is ledger-scoped and keyed by reference. This reservation is the whole mechanism (no unique index), so its span is the necessary and sufficient structural condition within one process.",
  design_ref="DESIGN.md §3 C11",
  technique="path state machine over SSA with infeasible-edge pruning (static analysis)"),
 "C14": dict(
  category="other",
  text="The effect set of the write path (id counter, chain head, batcher hand-off, every monitor method) is enumerated from the code and, for each effect instruction, every path from every exported Commander method is shown to cross the DryRun == false edge (in the effect's function or at all of its call sites, recursively); the preview branch uses the real builder and only peeks at the next id. For every kind of write and every position in a history, because the rule is about program paths. Equality of later histories follows only if the effect set is complete (frozen list).",
  design_ref="DESIGN.md §3 C14",
  technique="edge-fact guard analysis with caller propagation over the resolved call structure (static analysis)"),
 "C16": dict(
  category="other",
  text="Every monitor call is reached only through the nil-error edge of the persisting call (which returns after the persistence wait, C06) and not in dry-run; every successful write path publishes; argument roles: the values given to each monitor method are the ones in the persisted log payload / read from the store, and ledgerMonitor maps each parameter to the payload field of the same role. Broker delivery not decided.",
  design_ref="DESIGN.md §3 C16",
  technique="path state machine over SSA + SSA provenance of call arguments (role table) (static analysis)"),
 "C18": dict(
  category="other",
  text="Loop structure of ProcessBulk decided over all paths through one iteration, hence for every sequence of elements/actions/outcomes and both values of continueOnFailure: exactly one result append per iteration (unknown actions and undecodable elements included), every return hands out the result slice and the failure flag, after a failure the loop continues only on the true edge of continueOnFailure, plain range over the parameter with no concurrency, the failure literal always sets the flag, and bulkHandler writes 400 before the body on every path where the flag may be true.",
  design_ref="DESIGN.md §3 C18",
  technique="per-iteration path state machine over SSA with inlined literals (static analysis)"),
 "C19": dict(
  category="proof",
  text="Every obligation is discharged statically for all routes, methods, versions and bodies: the gate passes only GET/HEAD/OPTIONS to the wrapped handler and nobody rewrites Request.Method; the gate is installed before any route on every path where readOnly may be true and the versioned routers exist only behind it; the extracted route table (all chi registration calls of the repository) shows that no safe-method, method-agnostic or middleware registration can reach a write sink through resolved calls, created/referenced function values and implementations of repository interfaces; floors ensure Post/Delete routes do reach every write (non-vacuity). Modulo chi/net-http routing semantics (trusted).",
  design_ref="DESIGN.md §3 C19",
  note="Trusted base: chi dispatches a Get/Head/Options route for that method only and applies Use-middlewares to everything registered afterwards including mounted routers; net/http; go/types + go/ssa; no reflection on the analysed paths. Ledger creation is not one of the four writes of the statement.",
  technique="route-table extraction + reachability over resolved call structure + edge-fact gate analysis (static analysis)"),
 "C04": dict(
  category="other",
  text="Only the isolation clause (`entries of one ledger never affect another ledger sharing the same database`) is decided, for every query the store builds and every SQL function/trigger of the schema: each bun.SelectQuery chain that selects from a ledger-partitioned table carries `ledger = ?` bound to Store.name (followed through helpers, Apply'd builders, CTEs); joins are seq-keyed; `_ledger` functions get Store.name; every statement scope in the migration that touches a partitioned table has `ledger = _ledger|new.ledger` (frozen seq-keyed exceptions), inserts set the column, callers pass the ledger through. Equality of the projections with a replay of the log (volumes, PIT, metadata history, double entry) is SQL value semantics and is NOT decided.",
  design_ref="DESIGN.md §3 C04",
  technique="query-chain dataflow over SSA (union-find of builder values + helper summaries) + lexical SQL scope scan (static analysis)"),
 "C20": dict(
  category="other",
  text="Static taint over all inputs: filter key/operator/value never reach the SQL fragment of any filter callback unsanitised (constant equality on all paths, constant-map lookup, quote-safe anchored regexp proved from its syntax tree, numeric/time types); the query combinators add only constant text; every SelectQuery format argument in ledgerstore derives from constants, Build results, rendered sub-queries or clean parameters (checked at all call sites). bun's quoting of bound arguments is trusted; cursor Column/Order are outside the statement.",
  design_ref="DESIGN.md §3 C20",
  technique="interprocedural SSA taint analysis with path-refined sanitisers and regexp/syntax safety proof (static analysis)"),
 "C17": dict(
  category="other",
  text="Only the token clause is decided (`every cursor token the server hands out is accepted back and stands for the same query, filters included`), for every cursor payload type at once: the instantiated type graphs of all cursor payloads are walked (exported+tagged fields, codec pairs, interface fields rebuilt by an enclosing UnmarshalJSON while every implementation encodes itself), encoder/decoder use the same base64 object and encoding/json, and the operator vocabulary emitted by the builders' MarshalJSON is accepted by the parser. Page arithmetic (next/previous/hasMore, exactly-once enumeration) is numerical and NOT decided.",
  design_ref="DESIGN.md §3 C17",
  technique="type-graph walk over instantiated generics + writer/reader table agreement (static analysis)"),
 "C09": dict(
  category="other",
  text="Structure of the posting→script→transaction path for every list of postings: client text never becomes script text (clean-provenance of every builder write; generated names are counters); one `send` per posting, in the parameter's order, on every path through the loop; source/destination/monetary lines are looked up by the current posting's own fields with the registration's key format; registered values are the posting's fields; vars exported name→value; metadata/reference/timestamp passed by name; vm.Run and OP_SEND copy postings field-by-field and position-by-position; v1 validates before translating, variables are validated before resolution. That the VM turns each generated send into exactly that posting is not decided (C08's undecided part).",
  design_ref="DESIGN.md §3 C09",
  technique="clean-provenance dataflow + per-iteration path state machine + field-role tables over SSA (static analysis)"),
 "C01": dict(
  category="other",
  text="The running-balance inequality itself is numerical and NOT decided. Decided necessary conditions, for all programs at once: the only balance-test-free debit (OP_TAKE_ALWAYS) is emitted only under a non-nil fallback whose address was just pushed, and a fallback exists only for @world or `allowing unbounded overdraft`; withdrawAlways is reachable only from that opcode; Machine.Balances is written only by its owners (inside tick only by OP_SAVE); money values are immutable (no in-place big.Int mutation on non-fresh receivers in internal/machine/**); a failing Execute yields no result, a short funding is ErrInsufficientFund; OP_TAKE_MAX refuses negative amounts before taking.",
  design_ref="DESIGN.md §3 C01",
  technique="path state machines with edge facts over SSA, who-may-write, receiver-freshness provenance, per-path affine-form (linear equality) evaluation of balance updates (static analysis)"),
 "C08": dict(
  category="other",
  text="Compiler/source equivalence is translation validation and is NOT decided. Decided: cached programs are never mutated (no element store / map update / append / copy / delete / sort on values derived from Program fields outside the compiler; shared money immutable); the cache key digests the whole script and the value stored under it is the program compiled from that script; opcode tables agree (constants = tick cases = OpcodeName cases = emitted bytes; operand width written = width consumed); the static type of every visited expression is compared or propagated at each call site (frozen polymorphic exceptions).",
  design_ref="DESIGN.md §3 C08",
  technique="derived-value alias dataflow over SSA + table extraction + unchecked-result rule (static analysis)"),
 "C12": dict(
  category="other",
  text="Sound panic-freedom is out of reach and NOT claimed. Decided clauses named by the property's mechanisms: writes into per-account balance maps go through checked lookups (frozen exceptions repay/ResolveBalances); the balance-variable registry is keyed by resource index; the VM terminates (P only advances by positive constants, every unfinished tick advanced P, Execute stops when finished, each ResolveResources iteration appends exactly one resource); no package-level state is written while compiling/running; shared programs are not mutated; compile-time type checks are applied. Explicit panics reachable in the machine packages are listed in the evidence (informational).",
  design_ref="DESIGN.md §3 C12",
  technique="checked-access dominance + progress path machine + who-may-write over SSA (static analysis)"),
}

ADDENDA = {
 "C02": " R02g: the sort.Interface that orders Program.Sources exchanges two elements in Swap. R02h: FilterNot (the `not world` filter) negates. R05h (shared): a batch never aliases the live buffer. R15c/R15d (shared with C15): a cancelled request gives back only what it was granted.",
 "C14": " R14g (necessary for `answers what the real write would answer`): the key a preview is looked up under is the request's key on every path. R14h: the v1 and v2 readers of the preview flag are siblings — the sets of values they read as a preview (extracted from their comparisons with constants) are equal and contain the documented boolean `true`. R11a (shared with C11): the reference reservation is released on every exit, previews included.",
 "C15": " R15f: every DefaultLocker field changed while queuing a request is changed again on the path that abandons a still-queued request. R15g: Remove writes every link and end field (read from the type shapes); RemoveFirst unlinks what it returns. R15h: RemoveValue's predicate is an equality; the releasing loops are left only when exhausted. R15i: FirstNode / Next return the end and the link the list's own walks use.",
 "C01": " Also decided (R01f), per enumerated path in the domain of affine forms over opaque symbols: the owners of Machine.Balances keep the books — withdrawAll/withdrawAlways debit exactly what they hand out, withdrawAll hands out 0 or balance+overdraft under a non-negativity guard, credit/repay add exactly the current part's amount to that part's own account, OP_SAVE only lowers a balance. R01g: the loop invariant `remaining + sum(parts) = requested` of Funding.Take/TakeMax (and of a shared helper they wrap) is re-established by every path through one iteration. R01h: every balance recorded by ResolveBalances for (account, asset) is Store.GetBalance of that same account and asset (or machine.Zero for world). R01i: MonetaryInt's arithmetic methods are the big.Int operations of the same name.",
 "C04": " R04c: every SQL text assembled in Go (constants, concatenation, Sprintf, phis) that names a partitioned table carries, in that table's own scope, a ledger predicate qualified by nothing or by the table/alias itself, or a sequence key. R04d (a necessary condition of the replay clause): every selection of `the latest move` (ORDER BY … LIMIT 1, DISTINCT ON … ORDER BY) in a referenced SQL function, an SQL text built in Go or a bun chain orders by the key under which the running-total column it feeds is maintained by the writer (seq for post_commit_volumes; effective_date, seq for post_commit_effective_volumes). The instant column such a selection is cut at agrees with that ordering (insertion_date with seq, effective_date with effective_date, seq). R04f (in-memory store): in the fold of postings into a balance the credit test is evaluated whenever the debit test held, and vice versa. R04g: a loop of the in-memory store folding amounts into a balance is left only when exhausted. R04h: the in-memory store selects records by equality of identifiers, from the filtered result. R04i: a slice is indexed from its end with its own length. R04j: a Last* method of the in-memory store indexes from the end.",
 "C05": " R05h: taking a batch splits the FIFO — {batch = pending, rest = fresh} or {batch = pending[:k], rest = pending[k:]} with one k — and nothing writes into the pending buffer in place (handed-out batches alias it). R05i: the hand-off cannot refuse (every returning path of Batcher.Append has queued its object). R05j: one persister (Runner.runner is called at exactly one site, the worker loop). R05k: lastTXID advances only where the allocation switch is true. R05l: the constant allocation switch of an append matches its log builder (uses / ignores the id). R05m: every log handed off was recorded as the chain head. R05n: every batch taken by the runner is dispatched. R05o/R05p: the log the chain is resumed from is the last one (own length, index from the end).",
 "C06": " R06g: when the completion channel carries the outcome of the persistence (chan error), no received outcome is discarded. R06h: the hand-off cannot refuse, so no request is rejected after the chain head and the transaction id were advanced for it. R06i: the job the batcher hands its runner returns the error of the persistence call (nil only behind its nil test): a failed batch is never acknowledged as persisted. R05h (shared): a batch never aliases the live buffer. R06j: the store's transaction wrapper hands the callback's error on. R06k: a write method never reports success once the execution failed.",
 "C07": " R07d: between the engine and the store the idempotency key is only ever copied (every store into a field of that name takes a parameter, a same-named field, a constant or a phi of those, never a computed value), so the key checked is the key persisted. R07e: the lookup of a key sees every committed log that carries it (query conditioned by key and ledger only; the in-memory store reads no other field). R07f: on the nil-error edge of the key lookup no write is executed. R07g: the key that is reserved and looked up is Parameters.IdempotencyKey itself on every path. R07h: Referencer.release gives back exactly the entry take reserved (same table, same key format, same arguments). R07i: execution contexts are built from the received Parameters. R07j: every Parameters built under internal/api carries the request's key. R07k: one documented header name across API versions. R07l: a release names what was taken.",
 "C08": " R08e: the address VisitExpr returns for push=false is used as the value only for types without a compound form, otherwise for the asset only. R08f: the text of a composite parse-tree node (antlr concatenates its tokens without white space) never identifies the node: no map key, lookup or equality between nodes in package compiler. R08g: the subtraction opcodes compute (value popped second) − (value popped first), the order in which the compiler pushed the operands. R08h: an arithmetic opcode is emitted only on paths where the static types of both operands were compared equal to the operand type of the opcode. R08i: number texts are parsed in base 10. R08j: a type check cannot be walked around (every successful return behind `type == constant`), also through typed-visit helpers. R08l: lexer and parser report to the collecting listener. R01f (shared with C01) on the VM's balance book-keeping. R08m: a literal's text loses its quotes only. R08n: the arithmetic and comparison methods of MonetaryInt are the big.Int operations (comparisons through Cmp, never a truncating conversion). R12h (shared with C12): a null number variable is refused.",
 "C09": " Text is read through string expressions (Sprintf = concatenation = strconv); generated names are provably unique; R09h de-duplication keys are injective; R09g no floating point meets an amount in the content-carrying packages; R09i each posting is decoded into a fresh value (no reuse of a decode target across iterations). R09k: an error answer ends the handler (no engine call, no second answer after it) in all handlers of internal/api. R09l: every TransactionData/RunScript built from a transaction request takes the request's Timestamp, Reference and Metadata by name. R08b (shared with C08): the compilation cache is keyed by a digest of the whole script.",
 "C10": " The guard may be taken through a helper; releasing it on a path whose take failed (ownership) is a violation. R10g: every reversed posting takes its four fields from one original posting. R10h: Referencer.release gives back exactly what take reserved. R10i: whole-element moves of Reverse go between mirror positions (affine, induction variables). R10k: the in-memory store finds the transaction to revert by identity. R10l: a release names what was taken. The structure rules of the posting-to-script translation (R09a/b/e/h) are read here too. R10m: only the request's own switch forces a revert. R10n: the revert marker maps the marker key to the reverted id. R10o: the last transaction is read from the end.",
 "C11": " R11c: the transaction reference is only ever copied between the engine and the store (same rule as R07d). R11d: the lookup of a reference sees every committed transaction that carries it, reverted ones included. R11e: Referencer.release gives back exactly what take reserved (a release that clears more lets a concurrent duplicate through). R11f: execution continues after the reference look-up only where the error is the not-found error. R11g: every handler that creates a transaction tests each CreateTransaction error for the conflict code. R11h: a release names what was taken. R11i: the not-found test is errors.Is(err, ErrNotFound). R11j/R11k: the reference travels from the request to the generated script.",
 "C12": " R12f: shared amounts are never modified in place (mutating big.Int methods only on fresh receivers). R12g: no error produced inside the compiler is dropped while its value result is used. R12h: pointer-typed values built from client text are nil-checked before the first dereference. R12i: every math/big division and integer / or % of the machine packages has a divisor that is a non-zero constant, a Rat.Denom() or a value tested in a dominating branch. R12j: the account lock taken for an execution is released on every exit of the executor (the lock-span path rule of C02 read for this property: a lock left behind blocks later executions). R12k: only a compiled program is cached. R12l: a type check cannot be walked around. R12m: arithmetic opcodes only for compared operand types. R12n: lexer and parser report to the collecting listener.",
 "C13": " R13g: exact amounts — no floating-point value meeting an amount type, no big.Float, no float parser in the content-carrying packages. R13h: the auxiliary struct a hand-written UnmarshalJSON decodes into declares every json key encoding/json writes for the type (case-insensitive, embedded promotion and shadowing as encoding/json computes them). Also under R13h: every field encoding/json writes for such a type is stored into the receiver by its UnmarshalJSON, and integers parsed inside these decoders are parsed 64 bits wide. R13j: the TargetType constant of a metadata log payload is the constant of the case it is built in. R13k: every log handed off was recorded as the chain head; R07b (shared): the key is on the log before it is hashed.",
 "C16": " R16d: the values passed to each monitor method are the ones persisted (payload of the written log / the parameters also stored in it) and the ledger monitor publishes on the topic, type and ledger of that event. R16f: every method of the publishing monitor hands a message to the publisher on every returning path. R06a/b (shared with C06): no entry point returns (and publishes) before the persistence signal of the log it handed off.",
 "C17": " R17d: the JSON kinds the query builders can write under their operator (nil slice/map/pointer = null) are all cases of the decoder's type switch. R17e/R17f: structural tables of the column and offset paginators (which comparison and order each direction uses, which row seeds next/previous, page-size+1 probe, trimming) agree between the branch that writes a cursor and the branch that reads it; the arithmetic itself is not decided. R17g: a loop that walks a listing page by page decodes the query of the following fetch from Cursor.Next. R17h: MapCursor carries every field of the page position. R17i: HasMore is `next != nil` of the pointer encoded into Next. R17j: the decoders of cursor contents store every decoded field into the receiver. R17k: api.FetchAllPaginated keeps every page it decoded.",
 "C18": " R18f: each bulk element is decoded into a fresh value. R18g: no argument of an engine call made in the bulk loop carries a value from an earlier iteration. R18h: an error answer ends the bulk handler (a body that failed to decode is never processed). R18i: no boolean query reader reads a negative spelling as true. R18j: the documented keys of a bulk element are json keys of v2.Element. R18k: results are appended at the end of the list. R18l: continueOnFailure is the parameter's value, not its presence.",
 "C19": " R19d: no function of the repository stores into http.Request.Method or chi.Context.RouteMethod (constant safe verbs excepted) or uses a third-party function that does. R19e: the switch reaches the router — every command-line flag named like the setting that fills api.Config.ReadOnly is declared on a flag set bound to the configuration registry. R19b distinguishes chi's Use (installs on the router) from With (returns a new router): only Use installs the gate; a With result gates only what is registered on it.",
 "C20": " R20d: no string that may hold client text is converted to a type bun renders verbatim or as an identifier (schema.Safe/Name/Ident/QueryWithArgs). R20e: the text of a rendered query (SelectQuery.String()) is never used as a format that is given arguments. R20f: client text fills only Sprintf verbs that stand between single quotes in the fragment builders of the filters.",
}
for _k, _v in ADDENDA.items():
    CLAIMED[_k]["text"] += _v

NOT_APPLICABLE = {
 "C03": "Purely numerical (rounding, caps, conservation over big.Int/big.Rat through a stack VM whose layout is data): no sound static argument within reach separates a correct Allocate/Take from an off-by-one; see DESIGN.md §3 C03.",
}

PENDING = "No static check registered for this property in the committed snapshot yet (rules designed in DESIGN.md §3, not built); not claimed."

def main():
    here = os.path.dirname(os.path.dirname(os.path.abspath(__file__)))
    props = [json.loads(l)["id"] for l in open(os.path.join(here, "properties.jsonl"))]
    checks = []
    for pid in props:
        if pid not in CLAIMED:
            continue
        c = CLAIMED[pid]
        checks.append({
            "property_id": pid,
            "quick_cmd": f"bin/checker -property {pid} -tier quick",
            "thorough_cmd": f"bin/checker -property {pid} -tier thorough",
            "evidence_file": f"/verif/evidence/{pid}.json",
            "replay_cmd_template": f"bin/checker -property {pid} -explain {{path}}",
            "engine": "checker",
            "level_claimed": {"category": c["category"], "text": c["text"], "design_ref": c["design_ref"]},
            "level_note": c.get("note", BASE_NOTE),
            "technique": c["technique"],
        })
    na = []
    for pid in props:
        if pid in CLAIMED:
            continue
        na.append({"property_id": pid, "reason": NOT_APPLICABLE.get(pid, PENDING)})
    m = {
        "version": 1,
        "setup_cmd": f"mkdir -p bin evidence && cd checker && {ENV} go build -o ../bin/checker .",
        "hooks": {
            "guard": "verif",
            "enable": "none needed: static analysis reads /repo's sources, nothing is instrumented (no verif-tagged files exist)",
            "baseline_off_cmd": "scripts/baseline.sh",
            "source_commits": [],
            "add_only": True,
        },
        "engines": [{
            "name": "checker",
            "path": "/verif/checker",
            "serves_properties": [c["property_id"] for c in checks],
            "kind_free_text": "repository-specific static analyser (go/packages + go/types + go/ssa + VTA call graph; lexical scan of the SQL migration); loads /repo's working tree on every run, executes no ledger code",
        }],
        "checks": checks,
        "not_applicable": na,
        "notes": "All checks are static analysis (see DESIGN.md). Known findings: known_findings.json. Seeded breaking changes: seeded/. `bin/checker -property Cnn -mutants` runs the overlay mutant kill matrix (informational).",
    }
    json.dump(m, open(os.path.join(here, "MANIFEST.json"), "w"), indent=1)
    print("claimed:", [c["property_id"] for c in checks], "n/a:", len(na))

if __name__ == "__main__":
    main()
