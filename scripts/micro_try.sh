#!/bin/bash
# usage: micro_try.sh <dir-with-out/*.diff> …  — runs, for every micro mutation P-k.diff, the quick check of its own
# property P against a scratch worktree (/tmp/wt-head) with the mutation applied; prints caught / MISSED.
export GOFLAGS=-mod=mod GOPROXY=off GOSUMDB=off GOTOOLCHAIN=local GOWORK=off
wt=/tmp/wt-head
bin=$(mktemp /tmp/checker-XXXX); cp /verif/bin/checker $bin; chmod +x $bin
for d in "$@"; do
  for f in $(ls $d/*.diff 2>/dev/null | sort); do
    name=$(basename $f .diff); prop=${name%%-*}
    git -C $wt checkout -q -- . ; git -C $wt clean -fdq
    if ! git -C $wt apply $f 2>/dev/null; then echo "$d/$name: patch does not apply"; continue; fi
    out=$($bin -repo $wt -verif /tmp/micro-ev -property $prop 2>&1)
    rc=$?
    if [ $rc -ne 0 ]; then
      echo "caught  $(basename $d)/$name: $(echo "$out" | grep -E '^  (violated|undecided)' | head -1 | cut -c1-160)"
    else
      echo "MISSED  $(basename $d)/$name: $(python3 -c "import json;print(json.load(open('$d/$name.json'))['what'][:150])" 2>/dev/null)"
    fi
  done
done
git -C $wt checkout -q -- . ; git -C $wt clean -fdq
rm -f $bin
