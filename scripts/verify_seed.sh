#!/bin/bash
# usage: verify_seed.sh <seed-dir>   (contains patch.diff, demo_test.go.txt, meta or SEED_REPORT with the demo's package)
# env: DEMO_PKG=<repo-relative package dir of the demo> [DEMO_RUN=<-run regexp>]
# Confirms in a scratch worktree: patch applies, builds, pinned suite still passes, demo fails with the patch and passes without.
set -u
export GOFLAGS=-mod=mod GOPROXY=off GOSUMDB=off GOTOOLCHAIN=local GOWORK=off
seed=$(readlink -f "$1")
pkg=${DEMO_PKG:?set DEMO_PKG}
run=${DEMO_RUN:-.}
wt=$(mktemp -d /tmp/vseed-XXXX)
git -C /repo worktree add -q --detach $wt HEAD || exit 2
trap 'git -C /repo worktree remove --force $wt >/dev/null 2>&1; rm -rf $wt' EXIT
cd $wt
git apply $seed/patch.diff || { echo "RESULT patch does not apply"; exit 1; }
go build ./... || { echo "RESULT does not build"; exit 1; }
(cd libs && go build ./...) || { echo "RESULT libs do not build"; exit 1; }
/verif/scripts/baseline.sh $wt || { echo "RESULT pinned suite changed"; exit 1; }
demo=$seed/demo_test.go.txt
echo "--- demo WITH the change"
/verif/scripts/witness.sh $wt $pkg $demo -run "$run" > $wt/with.out 2>&1; rcw=$?
tail -6 $wt/with.out
git apply -R $seed/patch.diff
echo "--- demo WITHOUT the change"
/verif/scripts/witness.sh $wt $pkg $demo -run "$run" > $wt/without.out 2>&1; rco=$?
tail -3 $wt/without.out
if [ $rcw -ne 0 ] && [ $rco -eq 0 ]; then echo "RESULT confirmed"; exit 0; fi
echo "RESULT not confirmed (with=$rcw without=$rco)"; exit 1
