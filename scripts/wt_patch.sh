#!/bin/bash
# usage: wt_patch.sh <patch.diff> <props…> — one patch against the scratch worktree /tmp/wt-head (never /repo)
wt=/tmp/wt-head; patch=$(readlink -f "$1"); shift
cp /verif/bin/checker /tmp/chk-wt; chmod +x /tmp/chk-wt
git -C $wt checkout -q -- . ; git -C $wt clean -fdq
git -C $wt apply $patch || exit 2
for p in "$@"; do /tmp/chk-wt -repo $wt -verif /tmp/micro-ev -property $p 2>&1 | grep -E "^  (violated|undecided)|quick:" | cut -c1-300; done
git -C $wt checkout -q -- . ; git -C $wt clean -fdq
