#!/bin/bash
# Runs the repository's pinned test suite (guard off — no hooks exist) and compares with BASELINE.json.
# Exit 0 when every stable_pass test passes.
export GOFLAGS=-mod=mod GOPROXY=off GOSUMDB=off GOTOOLCHAIN=local GOWORK=off
REPO=${1:-/repo}
out=$(mktemp)
for m in . ./libs; do
  (cd $REPO/$m && go test -mod=mod -json -vet=off -count=1 -timeout 25m ./... ) >> "$out" 2>/dev/null
done
python3 - "$out" <<'PY'
import json,sys
base=json.load(open('/root/.vp/BASELINE.json'))['stable_pass']
res={}
for l in open(sys.argv[1]):
    try: e=json.loads(l)
    except Exception: continue
    if e.get('Test') and e.get('Action') in('pass','fail','skip'):
        res[e['Package']+'::'+e['Test']]=e['Action']
bad=[t for t in base if res.get(t)!='pass']
print(f"baseline: {len(base)-len(bad)}/{len(base)} stable tests pass")
for t in bad[:40]: print("  NOT PASSING:",t,res.get(t))
sys.exit(1 if bad else 0)
PY
rc=$?
rm -f "$out"
exit $rc
