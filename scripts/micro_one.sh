#!/bin/bash
# usage: micro_one.sh <seeded-dir-name> <props…> — one seeded patch against the scratch worktree /tmp/wt-head
wt=/tmp/wt-head; d=/verif/seeded/$1; shift
cp /verif/bin/checker /tmp/chk-one; chmod +x /tmp/chk-one
git -C $wt checkout -q -- . ; git -C $wt clean -fdq
git -C $wt apply $d/patch.diff || exit 2
for p in "$@"; do /tmp/chk-one -repo $wt -verif /tmp/micro-ev -property $p 2>&1 | grep -E "^  (violated|undecided)|quick:" | cut -c1-300; done
git -C $wt checkout -q -- . ; git -C $wt clean -fdq
