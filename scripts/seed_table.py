#!/usr/bin/env python3
"""Runs every quick check against every seeded change (git apply / run / git checkout) and writes
seeded/<id>/detect.json plus the table of DESIGN.md §7.4 (between the SEED-TABLE markers)."""
import json, os, re, subprocess, sys
here = os.path.dirname(os.path.dirname(os.path.abspath(__file__)))
seeds = sorted(d for d in os.listdir(os.path.join(here, "seeded")) if os.path.exists(os.path.join(here, "seeded", d, "patch.diff")))
seeds = [d for d in seeds if os.path.exists(os.path.join(here, "seeded", d, "meta.json"))]
# --lanes N: run against N scratch worktrees of /repo HEAD in parallel (instead of patching /repo itself)
lanes = 0
args = sys.argv[1:]
if args and args[0] == "--lanes":
    lanes = int(args[1]); args = args[2:]
only = args
import concurrent.futures, queue, shutil
wts = queue.Queue()
if lanes:
    shutil.copy(os.path.join(here, "bin/checker"), "/tmp/chk-table")
    for k in range(lanes):
        wt = "/tmp/st-%d" % k
        subprocess.run(["git", "-C", "/repo", "worktree", "remove", "--force", wt], capture_output=True)
        subprocess.run(["git", "-C", "/repo", "worktree", "add", "-q", "--detach", wt, "HEAD"], check=True)
        wts.put(wt)
def run_seed(sid):
    env = dict(os.environ)
    wt = None
    if lanes:
        wt = wts.get(); env.update(REPO=wt, CHECKER="/tmp/chk-table", JOBS="4")
    try:
        return subprocess.run([os.path.join(here, "scripts/try_seed.sh"), os.path.join(here, "seeded", sid, "patch.diff")], capture_output=True, text=True, env=env).stdout
    finally:
        if wt: wts.put(wt)
todo = [sid for sid in seeds if not (only and sid not in only and os.path.exists(os.path.join(here, "seeded", sid, "detect.json")))]
outs = {}
with concurrent.futures.ThreadPoolExecutor(max_workers=max(lanes, 1)) as ex:
    for sid, out in zip(todo, ex.map(run_seed, todo)):
        outs[sid] = out
if lanes:
    for k in range(lanes):
        subprocess.run(["git", "-C", "/repo", "worktree", "remove", "--force", "/tmp/st-%d" % k], capture_output=True)
    subprocess.run(["git", "-C", "/repo", "worktree", "prune"])
rows = []
for sid in seeds:
    det = os.path.join(here, "seeded", sid, "detect.json")
    if sid not in outs:
        rows.append(json.load(open(det))); continue
    out = outs[sid]
    alarms, cur = {}, None
    for line in out.splitlines():
        m = re.match(r"== (C\d\d) ALARM", line)
        if m: cur = m.group(1); alarms[cur] = []; continue
        m = re.match(r"\s+(violated|undecided) (\S+)", line)
        if m and cur: alarms[cur].append(m.group(1) + " " + m.group(2))
    meta = json.load(open(os.path.join(here, "seeded", sid, "meta.json")))
    rec = {"seed": sid, "property": meta["property"], "applies": "does not apply" not in out and "refusing" not in out,
           "own_check_alarms": meta["property"] in alarms, "alarms": alarms}
    json.dump(rec, open(det, "w"), indent=1)
    rows.append(rec)
    print(sid, "own" if rec["own_check_alarms"] else "MISSED", sorted(alarms), flush=True)
def table_of(rows):
  lines = ["| seed | property | needs, to manifest | own check | first obligation reported | other checks alarming |", "|---|---|---|---|---|---|"]
  for r in rows:
    lines.append(row_of(r))
  return "\n".join(lines)
def row_of(r):
    meta = json.load(open(os.path.join(here, "seeded", r["seed"], "meta.json")))
    own = r["alarms"].get(r["property"], [])
    first = own[0].split(" ", 1)[1] if own else "—"
    if len(first) > 90: first = first[:87] + "…"
    others = ", ".join(sorted(k for k in r["alarms"] if k != r["property"])) or "—"
    needs = meta["needs_to_manifest"]
    if len(needs) > 110: needs = needs[:107] + "…"
    return f"| {r['seed']} | {r['property']} | {needs} | {'alarm' if r['own_check_alarms'] else ('n/a' if not r['applies'] else 'silent')} | `{first}` | {others} |"
p = os.path.join(here, "DESIGN.md")
s = open(p).read()
for tag, sel in (("SEED-TABLE", [r for r in rows if not r["seed"].startswith("micro-")]), ("MICRO-TABLE", [r for r in rows if r["seed"].startswith("micro-")])):
    if f"<!-- {tag}-BEGIN -->" in s:
        s = re.sub(rf"<!-- {tag}-BEGIN -->.*?<!-- {tag}-END -->", lambda m: f"<!-- {tag}-BEGIN -->\n" + table_of(sel) + f"\n<!-- {tag}-END -->", s, flags=re.S)
open(p, "w").write(s)
print("table written:", len(rows), "seeds;", sum(1 for r in rows if r["own_check_alarms"]), "alarm their own check")
