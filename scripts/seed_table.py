#!/usr/bin/env python3
"""Runs every quick check against every seeded change (git apply / run / git checkout) and writes
seeded/<id>/detect.json plus the table of DESIGN.md §7.4 (between the SEED-TABLE markers)."""
import json, os, re, subprocess, sys
here = os.path.dirname(os.path.dirname(os.path.abspath(__file__)))
seeds = sorted(d for d in os.listdir(os.path.join(here, "seeded")) if os.path.exists(os.path.join(here, "seeded", d, "patch.diff")))
only = sys.argv[1:]
rows = []
for sid in seeds:
    det = os.path.join(here, "seeded", sid, "detect.json")
    if only and sid not in only and os.path.exists(det):
        rows.append(json.load(open(det))); continue
    out = subprocess.run([os.path.join(here, "scripts/try_seed.sh"), os.path.join(here, "seeded", sid, "patch.diff")], capture_output=True, text=True).stdout
    alarms, cur = {}, None
    for line in out.splitlines():
        m = re.match(r"== (C\d\d) ALARM", line)
        if m: cur = m.group(1); alarms[cur] = []; continue
        m = re.match(r"\s+(violated|undecided) (\S+)", line)
        if m and cur: alarms[cur].append(m.group(1) + " " + m.group(2))
    meta = json.load(open(os.path.join(here, "seeded", sid, "meta.json")))
    rec = {"seed": sid, "property": meta["property"], "applies": "does not apply" not in out and "refusing" not in out,
           "own_check_alarms": meta["property"] in alarms, "alarms": alarms}
    json.dump(rec, open(det, "w"), indent=1)
    rows.append(rec)
    print(sid, "own" if rec["own_check_alarms"] else "MISSED", sorted(alarms), flush=True)
lines = ["| seed | property | needs, to manifest | own check | first obligation reported | other checks alarming |", "|---|---|---|---|---|---|"]
for r in rows:
    meta = json.load(open(os.path.join(here, "seeded", r["seed"], "meta.json")))
    own = r["alarms"].get(r["property"], [])
    first = own[0].split(" ", 1)[1] if own else "—"
    if len(first) > 90: first = first[:87] + "…"
    others = ", ".join(sorted(k for k in r["alarms"] if k != r["property"])) or "—"
    needs = meta["needs_to_manifest"]
    if len(needs) > 110: needs = needs[:107] + "…"
    lines.append(f"| {r['seed']} | {r['property']} | {needs} | {'alarm' if r['own_check_alarms'] else ('n/a' if not r['applies'] else 'silent')} | `{first}` | {others} |")
table = "\n".join(lines)
p = os.path.join(here, "DESIGN.md")
s = open(p).read()
if "SEEDED_TABLE_PLACEHOLDER" in s:
    s = s.replace("SEEDED_TABLE_PLACEHOLDER", "<!-- SEED-TABLE-BEGIN -->\n" + table + "\n<!-- SEED-TABLE-END -->")
else:
    s = re.sub(r"<!-- SEED-TABLE-BEGIN -->.*?<!-- SEED-TABLE-END -->", "<!-- SEED-TABLE-BEGIN -->\n" + table + "\n<!-- SEED-TABLE-END -->", s, flags=re.S)
open(p, "w").write(s)
print("table written:", len(rows), "seeds")
