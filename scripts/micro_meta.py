#!/usr/bin/env python3
"""Writes seeded/micro-*/meta.json from the sub-agent's agent.json once scripts/verify_seed.sh confirmed the seed
(summary file: lines `<dir> RESULT confirmed`)."""
import json, os, sys, subprocess
here = os.path.dirname(os.path.dirname(os.path.abspath(__file__)))
summary = sys.argv[1]
head = subprocess.run(["git", "-C", "/repo", "rev-parse", "--short", "HEAD"], capture_output=True, text=True).stdout.strip()
wave = sys.argv[2] if len(sys.argv) > 2 else "micro-mutation wave"
for line in open(summary):
    parts = line.split()
    if len(parts) < 3 or parts[1] != "RESULT":
        continue
    d, ok = parts[0], parts[2] == "confirmed"
    dd = os.path.join(here, "seeded", d)
    if not ok:
        print("NOT CONFIRMED:", line.strip()); continue
    a = json.load(open(os.path.join(dd, "agent.json")))
    meta = {"property": a["property"],
            "origin": "independent sub-agent given only property texts and a scratch worktree (%s: a 1-6 line mutation)" % wave,
            "what": a["what"], "needs_to_manifest": a["needs"],
            "demo": {"file": "demo_test.go.txt", "package_dir": a["package_dir"], "run": "DEMO_PKG=%s scripts/verify_seed.sh seeded/%s" % (a["package_dir"], d)},
            "confirmed": "patch applies to /repo HEAD %s, go build ok, pinned suite 429/429, demo fails with the patch and passes without (scripts/verify_seed.sh, run 2026-09-26)" % head}
    json.dump(meta, open(os.path.join(dd, "meta.json"), "w"), indent=1)
    print("meta:", d)
