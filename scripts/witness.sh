#!/bin/bash
# usage: witness.sh <repo-dir> <pkg-rel-dir> <witness-file> [go test args]
# Runs a witness _test.go against a checkout of the repository without writing into it (go test -overlay).
export GOFLAGS=-mod=mod GOPROXY=off GOSUMDB=off GOTOOLCHAIN=local GOWORK=off
repo=$1; pkg=$2; wit=$(readlink -f $3); shift 3
ov=$(mktemp --suffix=.json)
extra=""
if [ "$pkg" = "internal/storage/ledgerstore" ] || [ "$pkg" = "libs/bun/bunpaginate" ] || [ -n "${BLANK_TESTS:-}" ]; then
  # its TestMain needs Docker/PostgreSQL: blank every existing test file
  for f in $repo/$pkg/*_test.go; do extra="$extra \"$f\": \"\","; done
fi
mod=$repo; rel=$pkg
case "$pkg" in libs/*) mod=$repo/libs; rel=${pkg#libs/};; esac
echo "{\"Replace\": {$extra \"$repo/$pkg/zz_witness_test.go\": \"$wit\"}}" > $ov
(cd $mod && go test -vet=off -count=1 -overlay $ov "$@" ./$rel/)
rc=$?
rm -f $ov
exit $rc
