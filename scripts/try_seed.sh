#!/bin/bash
# usage: try_seed.sh <patch.diff> [props...]  — applies the patch to /repo, runs the quick checks, reverts.
# Prints, per property, whether it raised an alarm. /repo is always restored.
set -u
patch=$(readlink -f "$1"); shift
props=${@:-C01 C02 C04 C05 C06 C07 C08 C09 C10 C11 C12 C13 C14 C15 C16 C17 C18 C19 C20}
# env REPO=<scratch worktree of /repo at HEAD> runs against that copy instead (evidence then goes to a scratch directory)
REPO=${REPO:-/repo}
cd /verif
if ! git -C $REPO diff --quiet; then echo "$REPO is dirty, refusing"; exit 2; fi
git -C $REPO apply "$patch" || { echo "patch does not apply"; exit 2; }
trap 'git -C $REPO checkout -- . ; git -C $REPO clean -fdq -- . ' EXIT
tmp=$(mktemp -d)
extra=""; [ "$REPO" != /repo ] && extra="-repo $REPO -verif $tmp/ev"
chk=${CHECKER:-bin/checker}
for p in $props; do
  ( $chk $extra -property $p > $tmp/$p.out 2>&1; echo $? > $tmp/$p.rc ) &
  while [ $(jobs -r | wc -l) -ge ${JOBS:-6} ]; do sleep 0.2; done
done
wait
for p in $props; do
  rc=$(cat $tmp/$p.rc)
  if [ "$rc" != 0 ]; then
    echo "== $p ALARM (rc=$rc)"
    grep -E "^  (violated|undecided)" $tmp/$p.out | cut -c1-400
    grep -q "type errors\|load-failure" $tmp/$p.out && head -5 $tmp/$p.out
  fi
done
echo "silent: $(for p in $props; do [ "$(cat $tmp/$p.rc)" = 0 ] && echo -n "$p "; done)"
rm -rf $tmp
