package main

import (
	"go/token"
	"sort"
)

// oblSet collects the obligations of one path rule: an obligation is declared when its construct is
// found (expect) and stays discharged unless some path violates it.
type oblSet struct {
	c    *Ctx
	rule string
	m    map[string]*Obligation
}

func newOblSet(c *Ctx, rule string) *oblSet { return &oblSet{c: c, rule: rule, m: map[string]*Obligation{}} }

func (o *oblSet) expect(key string, p token.Pos, detail string) {
	if _, ok := o.m[key]; ok {
		return
	}
	o.m[key] = &Obligation{Rule: o.rule, Key: o.rule + ":" + key, Pos: o.c.pos(p), Status: Discharged, Detail: detail}
	o.c.NSites++
}

func (o *oblSet) violate(key string, p token.Pos, detail string, path []string) {
	if ob, ok := o.m[key]; ok && ob.Status == Violated {
		return
	}
	o.m[key] = &Obligation{Rule: o.rule, Key: o.rule + ":" + key, Pos: o.c.pos(p), Status: Violated, Detail: detail, Path: path}
}

func (o *oblSet) undecided(key string, p token.Pos, detail string) {
	if ob, ok := o.m[key]; ok && ob.Status != Discharged {
		return
	}
	o.m[key] = &Obligation{Rule: o.rule, Key: o.rule + ":" + key, Pos: o.c.pos(p), Status: Undecided, Detail: detail}
}

func (o *oblSet) count() int { return len(o.m) }

func (o *oblSet) flush() {
	keys := make([]string, 0, len(o.m))
	for k := range o.m {
		keys = append(keys, k)
	}
	sort.Strings(keys)
	for _, k := range keys {
		o.c.Obls = append(o.c.Obls, o.m[k])
	}
}
