package main

import (
	"fmt"
	"go/token"
	"go/types"

	"golang.org/x/tools/go/ssa"
)

const pkgMachine = modPath + "/internal/machine"

// ruleR02bResolve — sibling rule over the clauses of the type switch in Machine.ResolveResources:
// every clause whose resolved value may be an account address (interface-typed value that is not a
// freshly built non-account literal) must, on every path to the append of that value to m.Resources,
// have tested the value for "account" and recorded it in the involved-accounts map (or have tested
// it and found it not to be an account). The test may also sit once after the switch, on the merged
// value. The involved-accounts map must feed result #0 (range) and, indexed by Program.Sources,
// result #1.
func ruleR02bResolve(c *Ctx, rule string, fn *ssa.Function) {
	typeAccount, ok := c.Pkg(pkgMachine).Types.Scope().Lookup("TypeAccount").(*types.Const)
	if !ok {
		c.undecided(rule, "anchor:machine.TypeAccount", token.NoPos, "constant not found")
		return
	}
	accT := c.Named(pkgMachine, "AccountAddress")
	taVal, _ := constInt64(typeAccount)
	resField := c.MustField(rule, pkgVM, "Machine", "Resources")
	srcField := c.MustField(rule, pkgVM+"/program", "Program", "Sources")
	if resField == nil || srcField == nil || accT == nil {
		return
	}
	// the involved-accounts map
	var imap *ssa.MakeMap
	nMaps := 0
	for _, b := range fn.Blocks {
		for _, ins := range b.Instrs {
			if mm, ok := ins.(*ssa.MakeMap); ok {
				if mt, ok := mm.Type().Underlying().(*types.Map); ok && isNamed(mt.Key(), pkgMachine, "Address") {
					if bt, ok := mt.Elem().Underlying().(*types.Basic); ok && bt.Kind() == types.String {
						imap = mm
						nMaps++
					}
				}
			}
		}
	}
	if nMaps != 1 {
		c.undecided(rule, "ResolveResources:involved-map", fn.Pos(), fmt.Sprintf("expected exactly one map[machine.Address]string (the involved-accounts map) in ResolveResources, found %d", nMaps))
		return
	}
	// the append of the resolved value to m.Resources: find stores of `append(load m.Resources, …)` into m.Resources
	var phi *ssa.Phi
	var appendCall *ssa.Call
	for _, b := range fn.Blocks {
		for _, ins := range b.Instrs {
			val, _, ok := storeToField(ins, resField)
			if !ok {
				continue
			}
			call, ok := val.(*ssa.Call)
			if !ok {
				continue
			}
			if bi, ok := call.Call.Value.(*ssa.Builtin); !ok || bi.Name() != "append" || len(call.Call.Args) != 2 {
				continue
			}
			// second arg: slice of a varargs array whose element 0 is the value
			if sl, ok := call.Call.Args[1].(*ssa.Slice); ok {
				if arr, ok := sl.X.(*ssa.Alloc); ok {
					for _, r := range *arr.Referrers() {
						if ia, ok := r.(*ssa.IndexAddr); ok {
							for _, rr := range *ia.Referrers() {
								if st, ok := rr.(*ssa.Store); ok && st.Addr == ia {
									if p, ok := st.Val.(*ssa.Phi); ok {
										phi = p
										appendCall = call
									}
								}
							}
						}
					}
				}
			}
		}
	}
	if phi == nil {
		c.undecided(rule, "ResolveResources:append-of-resolved-value", fn.Pos(), "could not find `m.Resources = append(m.Resources, val)` with val merged from the switch clauses")
		return
	}
	// tracked values: distinct interface-typed edge values that may hold an account, plus the phi
	type tv struct {
		v     ssa.Value
		idx   int
		label string
	}
	var tracked []tv
	index := map[ssa.Value]int{}
	addTracked := func(v ssa.Value, label string) int {
		if i, ok := index[v]; ok {
			return i
		}
		i := len(tracked)
		index[v] = i
		tracked = append(tracked, tv{v, i, label})
		return i
	}
	phiIdx := addTracked(phi, "merged value")
	mayBeAccount := func(v ssa.Value) (bool, string) {
		if mi, ok := v.(*ssa.MakeInterface); ok {
			// concrete type known statically
			if types.Identical(mi.X.Type(), accT) {
				return true, "AccountAddress value"
			}
			return false, types.TypeString(mi.X.Type(), nil)
		}
		if _, ok := v.Type().Underlying().(*types.Interface); ok {
			return true, "value of interface type " + types.TypeString(v.Type(), func(p *types.Package) string { return p.Name() })
		}
		return false, ""
	}
	type clause struct {
		pred  *ssa.BasicBlock
		val   ssa.Value
		need  bool
		tidx  int
		label string
	}
	var clauses []clause
	for j, e := range phi.Edges {
		need, why := mayBeAccount(e)
		cl := clause{pred: phi.Block().Preds[j], val: e, need: need, label: clauseLabel(e)}
		if need {
			cl.tidx = addTracked(e, why)
		}
		clauses = append(clauses, cl)
	}
	if len(tracked) > 20 {
		c.undecided(rule, "ResolveResources:too-many-clauses", fn.Pos(), "more clause values than the rule tracks")
		return
	}
	notacc := func(i int) uint64 { return 1 << uint(2*i) }
	rec := func(i int) uint64 { return 1 << uint(2*i+1) }
	const pendShift = 56
	obl := newOblSet(c, rule)
	for _, cl := range clauses {
		if cl.need {
			obl.expect("ResolveResources:clause:"+cl.label, cl.val.Pos(), "the resolved value is tested for `account` and recorded in the involved-accounts map on every path")
		} else {
			obl.expect("ResolveResources:clause:"+cl.label, cl.val.Pos(), "exempt: concrete non-account value")
		}
	}
	valueReaches := func(from ssa.Value, target ssa.Value) bool {
		for d := 0; d < 8 && from != nil; d++ {
			if from == target {
				return true
			}
			switch x := from.(type) {
			case *ssa.ChangeType:
				from = x.X
			case *ssa.Convert:
				from = x.X
			case *ssa.TypeAssert:
				from = x.X
			case *ssa.Extract:
				if ta, ok := x.Tuple.(*ssa.TypeAssert); ok {
					from = ta.X
				} else {
					return false
				}
			default:
				return false
			}
		}
		return false
	}
	pr := &PathRule{
		Step: func(pc *PathCtx, s uint64, ins ssa.Instruction) uint64 {
			if v, ok := ins.(ssa.Value); ok {
				if i, ok := index[v]; ok {
					s &^= notacc(i) | rec(i)
				}
			}
			switch x := ins.(type) {
			case *ssa.MapUpdate:
				if x.Map == ssa.Value(imap) {
					for _, t := range tracked {
						if valueReaches(x.Value, t.v) {
							s |= rec(t.idx)
						}
					}
				}
			case *ssa.Call:
				if x == appendCall {
					if p := s >> pendShift; p != 0 {
						cl := clauses[int(p)-1]
						if s&(notacc(phiIdx)|rec(phiIdx)) == 0 {
							obl.violate("ResolveResources:clause:"+cl.label, cl.val.Pos(),
								"a resolved value that may be an account address ("+tracked[cl.tidx].label+") is appended to m.Resources on a path that neither records it in the involved-accounts map nor establishes that it is not an account: when it is used as a source, the write-lock set contains \"\" instead of the account",
								pc.Trail())
						}
					}
					s &^= uint64(0xff) << pendShift
				}
			}
			return s
		},
		Edge: func(pc *PathCtx, s uint64, from *ssa.BasicBlock, si int) (uint64, bool) {
			for _, f := range pc.edgeFacts(from, si) {
				// v.GetType() == TypeAccount
				if call, ok := f.X.(*ssa.Call); ok && call.Call.IsInvoke() && call.Call.Method.Name() == "GetType" {
					if n, ok := constInt(f.Y); ok && n == taVal {
						if i, ok := index[call.Call.Value]; ok && !f.Eq {
							s |= notacc(i)
						}
					}
				}
				// _, ok := v.(AccountAddress)
				if e, ok := f.X.(*ssa.Extract); ok && e.Index == 1 {
					if ta, ok := e.Tuple.(*ssa.TypeAssert); ok && ta.CommaOk && types.Identical(ta.AssertedType, accT) {
						if b, isB := constBool(f.Y); isB {
							isAcc := (b == f.Eq)
							if i, ok := index[ta.X]; ok && !isAcc {
								s |= notacc(i)
							}
						}
					}
				}
			}
			to := from.Succs[si]
			if to == phi.Block() {
				for j, cl := range clauses {
					if cl.pred == from {
						s &^= uint64(0xff) << pendShift
						if cl.need && s&(notacc(cl.tidx)|rec(cl.tidx)) == 0 {
							s |= uint64(j+1) << pendShift
						}
					}
				}
			}
			return s, true
		},
	}
	c.RunPaths(fn, 0, pr)
	obl.flush()

	// (iii) results: #0 ranges over the map, #1 looks the map up by Program.Sources
	rangeOK, lookupOK := false, false
	for _, b := range fn.Blocks {
		for _, ins := range b.Instrs {
			switch x := ins.(type) {
			case *ssa.Range:
				if x.X == ssa.Value(imap) {
					rangeOK = true
				}
			case *ssa.Lookup:
				if x.X == ssa.Value(imap) {
					// index: load of IndexAddr over load of field Sources
					if u, ok := x.Index.(*ssa.UnOp); ok && u.Op == token.MUL {
						if ia, ok := u.X.(*ssa.IndexAddr); ok {
							if f, _ := anyFieldRead(ia.X); sameField(f, srcField) {
								lookupOK = true
							}
						}
					}
				}
			}
		}
	}
	c.check(rangeOK, rule, "ResolveResources:involved-accounts-result", fn.Pos(), "result #0 is built by ranging over the involved-accounts map", "the involved-accounts map is not ranged over to build result #0")
	c.check(lookupOK, rule, "ResolveResources:involved-sources-result", fn.Pos(), "result #1 is built by looking Program.Sources up in the involved-accounts map", "result #1 (the write-lock set) is not built by looking every Program.Sources entry up in the involved-accounts map")
}

func clauseLabel(v ssa.Value) string {
	// name a clause by the kind of its value: stable across line changes
	switch x := v.(type) {
	case *ssa.MakeInterface:
		return "literal:" + types.TypeString(x.X.Type(), func(p *types.Package) string { return p.Name() })
	case *ssa.Extract:
		if call, ok := x.Tuple.(*ssa.Call); ok {
			if f := staticCallee(call); f != nil {
				return "result-of:" + f.Name()
			}
		}
		if lk, ok := x.Tuple.(*ssa.Lookup); ok {
			if f, _ := anyFieldRead(lk.X); f != nil {
				return "lookup:" + f.Name()
			}
			return "lookup"
		}
	case *ssa.UnOp:
		if f, _ := anyFieldRead(x); f != nil {
			return "field:" + f.Name()
		}
	case *ssa.Call:
		if f := staticCallee(x); f != nil {
			return "result-of:" + f.Name()
		}
	}
	return "value:" + v.Name()
}
