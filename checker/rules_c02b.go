package main

import (
	"fmt"
	"go/token"
	"go/types"

	"golang.org/x/tools/go/ssa"
)

const pkgMachine = modPath + "/internal/machine"

// ruleR02bResolve — sibling rule over the clauses of the type switch in Machine.ResolveResources:
// every clause whose resolved value may be an account address (interface-typed value that is not a
// freshly built non-account literal) must, on every path to the append of that value to m.Resources,
// have tested the value for "account" and recorded it in the involved-accounts map (or have tested
// it and found it not to be an account). The test may also sit once after the switch, on the merged
// value. The involved-accounts map must feed result #0 (range) and, indexed by Program.Sources,
// result #1.
func ruleR02bResolve(c *Ctx, rule string, fn *ssa.Function) {
	typeAccount, ok := c.Pkg(pkgMachine).Types.Scope().Lookup("TypeAccount").(*types.Const)
	if !ok {
		c.undecided(rule, "anchor:machine.TypeAccount", token.NoPos, "constant not found")
		return
	}
	accT := c.Named(pkgMachine, "AccountAddress")
	taVal, _ := constInt64(typeAccount)
	resField := c.MustField(rule, pkgVM, "Machine", "Resources")
	srcField := c.MustField(rule, pkgVM+"/program", "Program", "Sources")
	if resField == nil || srcField == nil || accT == nil {
		return
	}
	// the involved-accounts map
	var imap *ssa.MakeMap
	nMaps := 0
	for _, b := range fn.Blocks {
		for _, ins := range b.Instrs {
			if mm, ok := ins.(*ssa.MakeMap); ok {
				if mt, ok := mm.Type().Underlying().(*types.Map); ok && isNamed(mt.Key(), pkgMachine, "Address") {
					if bt, ok := mt.Elem().Underlying().(*types.Basic); ok && bt.Kind() == types.String {
						imap = mm
						nMaps++
					}
				}
			}
		}
	}
	if nMaps != 1 {
		c.undecided(rule, "ResolveResources:involved-map", fn.Pos(), fmt.Sprintf("expected exactly one map[machine.Address]string (the involved-accounts map) in ResolveResources, found %d", nMaps))
		return
	}
	// the map itself, or a load of the cell it lives in when a closure captures it (also from inside that closure)
	var imapCell *ssa.Alloc
	for _, r := range *imap.Referrers() {
		if st, ok := r.(*ssa.Store); ok && st.Val == ssa.Value(imap) {
			if a, ok := st.Addr.(*ssa.Alloc); ok && singleStore(a) == ssa.Value(imap) {
				imapCell = a
			}
		}
	}
	isImap := func(v ssa.Value) bool {
		if v == ssa.Value(imap) {
			return true
		}
		u, ok := v.(*ssa.UnOp)
		if !ok || u.Op != token.MUL || imapCell == nil {
			return false
		}
		if u.X == ssa.Value(imapCell) {
			return true
		}
		if fv, ok := u.X.(*ssa.FreeVar); ok {
			lit := fv.Parent()
			for i, f := range lit.FreeVars {
				if f != fv || lit.Parent() == nil {
					continue
				}
				for _, b := range lit.Parent().Blocks {
					for _, ins := range b.Instrs {
						if mc, ok := ins.(*ssa.MakeClosure); ok && mc.Fn == ssa.Value(lit) && i < len(mc.Bindings) && mc.Bindings[i] == ssa.Value(imapCell) {
							return true
						}
					}
				}
			}
		}
		return false
	}
	// the append of the resolved value to m.Resources: find stores of `append(load m.Resources, …)` into m.Resources
	var phi *ssa.Phi
	var appendCall *ssa.Call
	for _, b := range fn.Blocks {
		for _, ins := range b.Instrs {
			val, _, ok := storeToField(ins, resField)
			if !ok {
				continue
			}
			call, ok := val.(*ssa.Call)
			if !ok {
				continue
			}
			if bi, ok := call.Call.Value.(*ssa.Builtin); !ok || bi.Name() != "append" || len(call.Call.Args) != 2 {
				continue
			}
			// second arg: slice of a varargs array whose element 0 is the value
			if sl, ok := call.Call.Args[1].(*ssa.Slice); ok {
				if arr, ok := sl.X.(*ssa.Alloc); ok {
					for _, r := range *arr.Referrers() {
						if ia, ok := r.(*ssa.IndexAddr); ok {
							for _, rr := range *ia.Referrers() {
								if st, ok := rr.(*ssa.Store); ok && st.Addr == ia {
									if p, ok := st.Val.(*ssa.Phi); ok {
										phi = p
										appendCall = call
									}
								}
							}
						}
					}
				}
			}
		}
	}
	if phi == nil {
		c.undecided(rule, "ResolveResources:append-of-resolved-value", fn.Pos(), "could not find `m.Resources = append(m.Resources, val)` with val merged from the switch clauses")
		return
	}
	// tracked values: distinct interface-typed edge values that may hold an account, plus the phi
	type tv struct {
		v     ssa.Value
		idx   int
		label string
	}
	var tracked []tv
	index := map[ssa.Value]int{}
	addTracked := func(v ssa.Value, label string) int {
		if i, ok := index[v]; ok {
			return i
		}
		i := len(tracked)
		index[v] = i
		tracked = append(tracked, tv{v, i, label})
		return i
	}
	phiIdx := addTracked(phi, "merged value")
	mayBeAccount := func(v ssa.Value) (bool, string) {
		if mi, ok := v.(*ssa.MakeInterface); ok {
			// concrete type known statically
			if types.Identical(mi.X.Type(), accT) {
				return true, "AccountAddress value"
			}
			return false, types.TypeString(mi.X.Type(), nil)
		}
		if _, ok := v.Type().Underlying().(*types.Interface); ok {
			return true, "value of interface type " + types.TypeString(v.Type(), func(p *types.Package) string { return p.Name() })
		}
		return false, ""
	}
	type clause struct {
		pred  *ssa.BasicBlock
		val   ssa.Value
		need  bool
		tidx  int
		label string
	}
	var clauses []clause
	for j, e := range phi.Edges {
		need, why := mayBeAccount(e)
		cl := clause{pred: phi.Block().Preds[j], val: e, need: need, label: clauseLabel(e)}
		if need {
			cl.tidx = addTracked(e, why)
		}
		clauses = append(clauses, cl)
	}
	if len(tracked) > 20 {
		c.undecided(rule, "ResolveResources:too-many-clauses", fn.Pos(), "more clause values than the rule tracks")
		return
	}
	notacc := func(i int) uint64 { return 1 << uint(2*i) }
	rec := func(i int) uint64 { return 1 << uint(2*i+1) }
	const pendShift = 56
	obl := newOblSet(c, rule)
	for _, cl := range clauses {
		if cl.need {
			obl.expect("ResolveResources:clause:"+cl.label, cl.val.Pos(), "the resolved value is tested for `account` and recorded in the involved-accounts map on every path")
		} else {
			obl.expect("ResolveResources:clause:"+cl.label, cl.val.Pos(), "exempt: concrete non-account value")
		}
	}
	valueReaches := func(pc *PathCtx, from ssa.Value, target ssa.Value) bool {
		for d := 0; d < 8 && from != nil; d++ {
			from = pc.Resolve(from)
			if from == target {
				return true
			}
			switch x := from.(type) {
			case *ssa.ChangeType:
				from = x.X
			case *ssa.Convert:
				from = x.X
			case *ssa.TypeAssert:
				from = x.X
			case *ssa.Extract:
				if ta, ok := x.Tuple.(*ssa.TypeAssert); ok {
					from = ta.X
				} else {
					return false
				}
			default:
				return false
			}
		}
		return false
	}
	pr := &PathRule{
		// a local closure that records the account (`trackAccount(idx, val)`) is analysed inline
		Inline: func(ci ssa.CallInstruction) []*ssa.Function {
			if ci.Common().IsInvoke() {
				return nil
			}
			if lit := closureOf(ci.Common().Value, 0); lit != nil && lit.Parent() == fn {
				return []*ssa.Function{lit}
			}
			return nil
		},
		Step: func(pc *PathCtx, s uint64, ins ssa.Instruction) uint64 {
			if v, ok := ins.(ssa.Value); ok {
				if i, ok := index[v]; ok {
					s &^= notacc(i) | rec(i)
				}
			}
			switch x := ins.(type) {
			case *ssa.MapUpdate:
				if isImap(x.Map) {
					for _, t := range tracked {
						if valueReaches(pc, x.Value, t.v) {
							s |= rec(t.idx)
						}
					}
				}
			case *ssa.Call:
				if x == appendCall {
					if p := s >> pendShift; p != 0 {
						cl := clauses[int(p)-1]
						if s&(notacc(phiIdx)|rec(phiIdx)) == 0 {
							obl.violate("ResolveResources:clause:"+cl.label, cl.val.Pos(),
								"a resolved value that may be an account address ("+tracked[cl.tidx].label+") is appended to m.Resources on a path that neither records it in the involved-accounts map nor establishes that it is not an account: when it is used as a source, the write-lock set contains \"\" instead of the account",
								pc.Trail())
						}
					}
					s &^= uint64(0xff) << pendShift
				}
			}
			return s
		},
		Edge: func(pc *PathCtx, s uint64, from *ssa.BasicBlock, si int) (uint64, bool) {
			for _, f := range pc.edgeFacts(from, si) {
				// v.GetType() == TypeAccount
				if call, ok := f.X.(*ssa.Call); ok && call.Call.IsInvoke() && call.Call.Method.Name() == "GetType" {
					if n, ok := constInt(f.Y); ok && n == taVal {
						if i, ok := index[pc.Resolve(call.Call.Value)]; ok && !f.Eq {
							s |= notacc(i)
						}
					}
				}
				// _, ok := v.(AccountAddress)
				if e, ok := f.X.(*ssa.Extract); ok && e.Index == 1 {
					if ta, ok := e.Tuple.(*ssa.TypeAssert); ok && ta.CommaOk && types.Identical(ta.AssertedType, accT) {
						if b, isB := constBool(f.Y); isB {
							isAcc := (b == f.Eq)
							if i, ok := index[pc.Resolve(ta.X)]; ok && !isAcc {
								s |= notacc(i)
							}
						}
					}
				}
			}
			to := from.Succs[si]
			if to == phi.Block() {
				for j, cl := range clauses {
					if cl.pred == from {
						s &^= uint64(0xff) << pendShift
						if cl.need && s&(notacc(cl.tidx)|rec(cl.tidx)) == 0 {
							s |= uint64(j+1) << pendShift
						}
					}
				}
			}
			return s, true
		},
	}
	c.RunPaths(fn, 0, pr)
	obl.flush()

	// (iii) results: #0 ranges over the map, #1 looks the map up by Program.Sources
	rangeOK, lookupOK := false, false
	for _, b := range fn.Blocks {
		for _, ins := range b.Instrs {
			switch x := ins.(type) {
			case *ssa.Range:
				if isImap(x.X) {
					rangeOK = true
				}
			case *ssa.Lookup:
				if isImap(x.X) {
					// index: load of IndexAddr over load of field Sources
					if u, ok := x.Index.(*ssa.UnOp); ok && u.Op == token.MUL {
						if ia, ok := u.X.(*ssa.IndexAddr); ok {
							if f, _ := anyFieldRead(ia.X); sameField(f, srcField) {
								lookupOK = true
							}
						}
					}
				}
			}
		}
	}
	c.check(rangeOK, rule, "ResolveResources:involved-accounts-result", fn.Pos(), "result #0 is built by ranging over the involved-accounts map", "the involved-accounts map is not ranged over to build result #0")
	ruleR02bCompiler(c)
	c.check(lookupOK, rule, "ResolveResources:involved-sources-result", fn.Pos(), "result #1 is built by looking Program.Sources up in the involved-accounts map", "result #1 (the write-lock set) is not built by looking every Program.Sources entry up in the involved-accounts map")
}

func clauseLabel(v ssa.Value) string {
	// name a clause by the kind of its value: stable across line changes
	switch x := v.(type) {
	case *ssa.MakeInterface:
		return "literal:" + types.TypeString(x.X.Type(), func(p *types.Package) string { return p.Name() })
	case *ssa.Extract:
		if call, ok := x.Tuple.(*ssa.Call); ok {
			if f := staticCallee(call); f != nil {
				return "result-of:" + f.Name()
			}
		}
		if lk, ok := x.Tuple.(*ssa.Lookup); ok {
			if f, _ := anyFieldRead(lk.X); f != nil {
				return "lookup:" + f.Name()
			}
			return "lookup"
		}
	case *ssa.UnOp:
		if f, _ := anyFieldRead(x); f != nil {
			return "field:" + f.Name()
		}
	case *ssa.Call:
		if f := staticCallee(x); f != nil {
			return "result-of:" + f.Name()
		}
	}
	return "value:" + v.Name()
}

// ruleR02bCompiler (R02b-iv): every account the compiler makes debitable is declared as a source.
// In VisitSource: every OP_TAKE_ALL emission is followed, on every path to a nil-error return, by the
// registration of that account in the needed-accounts map; the function then copies the needed accounts
// into parseVisitor.sources in a block that dominates every nil-error return; CompileFull builds
// Program.Sources from parseVisitor.sources. OP_TAKE_ALL / OP_TAKE_ALWAYS are emitted nowhere else.
func ruleR02bCompiler(c *Ctx) {
	const rule = "R02b"
	vs := c.MustFn(rule, pkgCompiler, "parseVisitor.VisitSource")
	srcF := c.MustField(rule, pkgCompiler, "parseVisitor", "sources")
	progSources := c.MustField(rule, pkgProgram, "Program", "Sources")
	takeAll, ok1 := opConst(c, "OP_TAKE_ALL")
	takeAlways, ok2 := opConst(c, "OP_TAKE_ALWAYS")
	if vs == nil || srcF == nil || progSources == nil || !ok1 || !ok2 {
		return
	}
	// who may emit
	allowed := map[string]bool{"VisitSource": true, "TakeFromSource": true}
	// a helper that is only ever called (transitively) from the source visitor belongs to it
	var onlyFromSourceVisitor func(fn *ssa.Function, depth int) bool
	onlyFromSourceVisitor = func(fn *ssa.Function, depth int) bool {
		if allowed[origName(fn)] && fnPkgPath(fn) == pkgCompiler {
			return true
		}
		sites := c.CallersOf(fn)
		if len(sites) == 0 || depth > 4 {
			return false
		}
		for _, s := range sites {
			if s.Parent() == nil || !onlyFromSourceVisitor(s.Parent(), depth+1) {
				return false
			}
		}
		return true
	}
	for _, e := range opEmissions(c) {
		if e.isOK && (e.op == takeAll || e.op == takeAlways) {
			c.check(onlyFromSourceVisitor(e.fn, 0), rule, "compiler:"+fnName(e.fn)+":may-emit-withdrawals", e.ins.Pos(), "withdrawal opcodes are emitted by the source visitor only", "a withdrawal opcode is emitted outside the source visitor: the debited account is not declared in Program.Sources and is not write-locked")
		}
	}
	// the needed-accounts map: the MakeMap whose range feeds p.sources
	var needed *ssa.MakeMap
	var rangeBlock *ssa.BasicBlock
	for _, b := range vs.Blocks {
		for _, ins := range b.Instrs {
			mu, ok := ins.(*ssa.MapUpdate)
			if !ok {
				continue
			}
			if _, isSrc := fieldRead(mu.Map, srcF); !isSrc {
				continue
			}
			if ex, ok := mu.Key.(*ssa.Extract); ok {
				if nx, ok := ex.Tuple.(*ssa.Next); ok {
					if rg, ok := nx.Iter.(*ssa.Range); ok {
						if mm, ok := rg.X.(*ssa.MakeMap); ok {
							needed = mm
							rangeBlock = rg.Block()
						}
					}
				}
			}
		}
	}
	if needed == nil {
		c.bad(rule, "compiler:VisitSource:sources-declared", vs.Pos(), "VisitSource does not copy its needed accounts into parseVisitor.sources: Program.Sources is empty and no source account is write-locked")
		return
	}
	okDom := true
	for _, b := range vs.Blocks {
		if ret, ok := b.Instrs[len(b.Instrs)-1].(*ssa.Return); ok && len(ret.Results) == 4 && isNilConst(ret.Results[3]) {
			if !rangeBlock.Dominates(b) {
				okDom = false
			}
		}
	}
	c.check(okDom, rule, "compiler:VisitSource:sources-declared", vs.Pos(), "the copy of the needed accounts into parseVisitor.sources dominates every successful return", "VisitSource has a successful return that is not preceded by the declaration of its accounts as sources")
	// every TAKE_ALL emission is followed by needed[*accAddr] = {}
	okReg := true
	var trail []string
	nEm := 0
	emitsTakeAll := map[*ssa.Function]bool{}
	for _, e := range opEmissions(c) {
		if e.isOK && e.op == takeAll {
			emitsTakeAll[e.fn] = true
		}
	}
	pr := &PathRule{
		MaxDepth: 2,
		// an emit helper of the visitor (`takeAllWithZeroOverdraft`) is stepped through
		Inline: func(call ssa.CallInstruction) []*ssa.Function {
			if g := staticCallee(call); g != nil && g != vs && len(g.Blocks) > 0 && emitsTakeAll[g] && fnPkgPath(origin(g)) == pkgCompiler {
				return []*ssa.Function{g}
			}
			return nil
		},
		Step: func(pc *PathCtx, s uint64, ins ssa.Instruction) uint64 {
			for _, e := range opEmissions(c) {
				if e.ins == ins && e.isOK && e.op == takeAll {
					nEm++
					return s | 1
				}
			}
			if mu, ok := ins.(*ssa.MapUpdate); ok && mu.Map == ssa.Value(needed) {
				// key: *accAddr with accAddr the address result of a VisitExpr call
				if u, ok := mu.Key.(*ssa.UnOp); ok && u.Op == token.MUL {
					// the address result of a visit (VisitExpr: second result; a typed-visit helper: first result)
					if ex, ok := u.X.(*ssa.Extract); ok {
						if pt, ok := ex.Type().(*types.Pointer); ok && isNamed(pt.Elem(), pkgMachine, "Address") {
							return s &^ 1
						}
					}
				}
			}
			return s
		},
		Exit: func(pc *PathCtx, s uint64, ins ssa.Instruction) {
			if ret, ok := ins.(*ssa.Return); ok && pc.Fn() == vs && len(ret.Results) == 4 && isNilConst(ret.Results[3]) && s&1 != 0 {
				okReg = false
				trail = pc.Trail()
			}
		},
	}
	c.RunPaths(vs, 0, pr)
	if okReg && nEm > 0 {
		c.ok(rule, "compiler:VisitSource:debited-account-registered", vs.Pos(), "every OP_TAKE_ALL emission is followed by the registration of the account on every successful path")
	} else {
		c.add(rule, "compiler:VisitSource:debited-account-registered", vs.Pos(), Violated, "an account is drained (OP_TAKE_ALL) on a path that returns successfully without registering it as a needed/source account: it is debited without being write-locked", trail...)
	}
	// CompileFull: Program.Sources built from visitor.sources
	cf := c.MustFn(rule, pkgCompiler, "CompileFull")
	if cf != nil {
		okS := false
		// the Program may be assembled in CompileFull or in a helper of the package
		var blocks []*ssa.BasicBlock
		for _, f := range c.FuncsIn(pkgCompiler) {
			blocks = append(blocks, f.Blocks...)
		}
		for _, b := range blocks {
			for _, ins := range b.Instrs {
				if v, _, ok := storeToField(ins, progSources); ok {
					// v: phi/append chain fed by Next over Range(visitor.sources)
					seen := map[ssa.Value]bool{}
					var walk func(x ssa.Value, d int)
					walk = func(x ssa.Value, d int) {
						if x == nil || seen[x] || d > 12 {
							return
						}
						seen[x] = true
						switch y := x.(type) {
						case *ssa.Phi:
							for _, e := range y.Edges {
								walk(e, d+1)
							}
						case *ssa.ChangeType:
							walk(y.X, d+1)
						case *ssa.Call:
							// a helper of the package that returns the list (`p.sortedSources()`)
							if g := staticCallee(y); g != nil && len(g.Blocks) > 0 && fnPkgPath(origin(g)) == pkgCompiler {
								for _, gb := range g.Blocks {
									if ret, ok := gb.Instrs[len(gb.Instrs)-1].(*ssa.Return); ok && len(ret.Results) > 0 {
										walk(ret.Results[0], d+1)
									}
								}
							}
							if bi, ok := y.Call.Value.(*ssa.Builtin); ok && bi.Name() == "append" {
								walk(y.Call.Args[0], d+1)
								for _, e := range variadicElems(y.Call.Args[1]) {
									if ex, ok := e.(*ssa.Extract); ok {
										if nx, ok := ex.Tuple.(*ssa.Next); ok {
											if rg, ok := nx.Iter.(*ssa.Range); ok {
												if f, _ := anyFieldRead(rg.X); sameField(f, srcF) {
													okS = true
												}
											}
										}
									}
								}
							}
						}
					}
					walk(v, 0)
				}
			}
		}
		c.check(okS, rule, "compiler:CompileFull:Program.Sources-from-visitor.sources", cf.Pos(), "Program.Sources lists the keys of parseVisitor.sources", "Program.Sources is not built from the accounts the source visitor declared")
	}
}
