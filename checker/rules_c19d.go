package main

// R19d — the method the read-only gate tests is the method the router dispatches on.
//
// api.ReadOnly filters on (*http.Request).Method; chi dispatches on chi.Context.RouteMethod, which its own
// routing core copies from r.Method when it is empty. The two agree as long as nobody else writes either
// field. Rule: no function of the repository stores into http.Request.Method or chi.Context.RouteMethod
// (a constant safe verb excepted), and the repository references no third-party function (outside the
// standard library and chi's routing core) that does. Expected instance count on the unchanged tree: zero;
// the rule reports how many functions it scanned and how many third-party rewriters exist in the program
// (chi's middleware.GetHead among them), which serves as its positive control.

import (
	"fmt"
	"go/token"
	"sort"
	"strings"

	"golang.org/x/tools/go/ssa"
)

func ruleR19d(c *Ctx) {
	const rule = "R19d"
	safeVerb := map[string]bool{"GET": true, "HEAD": true, "OPTIONS": true}
	isMethodField := func(fa *ssa.FieldAddr) string {
		f := fieldOfAddr(fa)
		if f == nil || f.Pkg() == nil {
			return ""
		}
		st := fa.X.Type()
		switch {
		case f.Name() == "Method" && f.Pkg().Path() == "net/http" && basedOnTypeT(st, "net/http", "Request"):
			return "http.Request.Method"
		case f.Name() == "RouteMethod" && strings.HasPrefix(f.Pkg().Path(), "github.com/go-chi/chi") && basedOnTypeT(st, f.Pkg().Path(), "Context"):
			return "chi.Context.RouteMethod"
		}
		return ""
	}
	// stores per function
	type st struct {
		field string
		pos   token.Pos
		safe  bool
	}
	stores := map[*ssa.Function][]st{}
	for fn := range c.AllFns {
		if len(fn.Blocks) == 0 {
			continue
		}
		for _, b := range fn.Blocks {
			for _, ins := range b.Instrs {
				s, ok := ins.(*ssa.Store)
				if !ok {
					continue
				}
				fa, ok := s.Addr.(*ssa.FieldAddr)
				if !ok {
					continue
				}
				if name := isMethodField(fa); name != "" {
					v, isC := constString(s.Val)
					stores[fn] = append(stores[fn], st{name, s.Pos(), isC && safeVerb[v]})
				}
			}
		}
	}
	nRepo, nThird := 0, 0
	rewriters := map[*ssa.Function]bool{} // third-party functions that rewrite the method with a non-safe value
	var thirdNames []string
	for fn, ss := range stores {
		pk := fnPkgPath(origin(fn))
		unsafe := false
		for _, s := range ss {
			if !s.safe {
				unsafe = true
			}
		}
		switch {
		case inRepo(pk):
			for _, s := range ss {
				if s.safe {
					continue
				}
				c.bad(rule, fnName(fn)+":rewrites-"+s.field, s.pos, fmt.Sprintf("%s stores into %s: the read-only gate filters on r.Method while chi dispatches on the routing method, so a request presented to the gate as GET/HEAD can be routed to a POST/DELETE handler (or the other way round)", fnName(fn), s.field))
			}
		case isStdlib(pk) || isChiCore(pk, fn):
			// net/http builds requests; chi's mux copies r.Method into the routing context
		default:
			nThird++
			thirdNames = append(thirdNames, fnName(fn))
			if unsafe {
				rewriters[fn] = true
			}
		}
	}
	// references from repository code to third-party rewriters
	for _, fn := range c.RepoFuncs() {
		if len(fn.Blocks) == 0 {
			continue
		}
		nRepo++
		for _, b := range fn.Blocks {
			for _, ins := range b.Instrs {
				var ops []*ssa.Value
				for _, op := range ins.Operands(ops) {
					if f, ok := (*op).(*ssa.Function); ok && rewriters[origin(f)] {
						c.bad(rule, fnName(fn)+":uses-"+f.Name(), ins.Pos(), fmt.Sprintf("%s uses %s, which rewrites the request method or chi's routing method: the method tested by the read-only gate is no longer the one that selects the handler", fnName(fn), fnName(f)))
					}
				}
			}
		}
	}
	sort.Strings(thirdNames)
	c.Info["method_rewriters_in_dependencies"] = thirdNames
	if nRepo < 300 {
		c.undecided(rule, "floor:functions-scanned", token.NoPos, fmt.Sprintf("only %d repository functions scanned", nRepo))
		return
	}
	c.ok(rule, "request-method-is-never-rewritten", token.NoPos, fmt.Sprintf("%d repository functions scanned: none stores into http.Request.Method / chi.Context.RouteMethod or uses one of the %d third-party functions that do (%d of them with a non-safe value)", nRepo, nThird, len(rewriters)))
}

func isStdlib(pk string) bool {
	if pk == "" {
		return true
	}
	first := pk
	if i := strings.Index(pk, "/"); i >= 0 {
		first = pk[:i]
	}
	return !strings.Contains(first, ".")
}

// chi's routing core: the Mux and Context types themselves (not its middleware package)
func isChiCore(pk string, fn *ssa.Function) bool {
	return strings.HasPrefix(pk, "github.com/go-chi/chi") && !strings.Contains(pk, "/middleware")
}

func basedOnTypeT(t interface{ String() string }, pkgPath, name string) bool {
	s := t.String()
	return strings.Contains(s, pkgPath+"."+name)
}
