package main

// ssahelp.go — small SSA utilities shared by the rules: callee resolution, field identity,
// condition facts, backward provenance.

import (
	"go/constant"
	"go/token"
	"go/types"

	"golang.org/x/tools/go/ssa"
)

// fieldOfAddr returns the struct field object addressed by a FieldAddr.
func fieldOfAddr(fa *ssa.FieldAddr) *types.Var {
	t := fa.X.Type().Underlying()
	if p, ok := t.(*types.Pointer); ok {
		t = p.Elem().Underlying()
	}
	if st, ok := t.(*types.Struct); ok && fa.Field < st.NumFields() {
		return st.Field(fa.Field)
	}
	return nil
}

func fieldOfField(f *ssa.Field) *types.Var {
	if st, ok := f.X.Type().Underlying().(*types.Struct); ok && f.Field < st.NumFields() {
		return st.Field(f.Field)
	}
	return nil
}

// sameField compares field objects modulo generic instantiation (by origin).
func sameField(a, b *types.Var) bool {
	if a == nil || b == nil {
		return false
	}
	return a.Origin() == b.Origin()
}

// fieldRead reports whether v is a read of struct field f (load through FieldAddr, or Field of a
// struct value) and returns the base value.
func fieldRead(v ssa.Value, f *types.Var) (base ssa.Value, ok bool) {
	switch x := v.(type) {
	case *ssa.UnOp:
		if x.Op == token.MUL {
			if fa, ok := x.X.(*ssa.FieldAddr); ok && sameField(fieldOfAddr(fa), f) {
				return fa.X, true
			}
		}
	case *ssa.Field:
		if sameField(fieldOfField(x), f) {
			return x.X, true
		}
	}
	return nil, false
}

// anyFieldRead returns the field read by v, if v is a field read.
func anyFieldRead(v ssa.Value) (*types.Var, ssa.Value) {
	switch x := v.(type) {
	case *ssa.UnOp:
		if x.Op == token.MUL {
			if fa, ok := x.X.(*ssa.FieldAddr); ok {
				return fieldOfAddr(fa), fa.X
			}
		}
	case *ssa.Field:
		return fieldOfField(x), x.X
	}
	return nil, nil
}

// storeToField reports whether ins stores into field f; returns the stored value.
func storeToField(ins ssa.Instruction, f *types.Var) (val ssa.Value, base ssa.Value, ok bool) {
	st, isStore := ins.(*ssa.Store)
	if !isStore {
		return nil, nil, false
	}
	if fa, isFA := st.Addr.(*ssa.FieldAddr); isFA && sameField(fieldOfAddr(fa), f) {
		return st.Val, fa.X, true
	}
	return nil, nil, false
}

// staticCallee resolves the function called by a call instruction when it is known statically:
// direct calls, calls of closures, and calls through a local that holds exactly one closure
// (`recheck := func(){…}; recheck()`), including captured cells.
func staticCallee(call ssa.CallInstruction) *ssa.Function {
	cc := call.Common()
	if cc.IsInvoke() {
		return nil
	}
	if f := cc.StaticCallee(); f != nil {
		return f
	}
	return closureOf(cc.Value, 0)
}

func closureOf(v ssa.Value, depth int) *ssa.Function {
	if depth > 6 {
		return nil
	}
	switch x := v.(type) {
	case *ssa.Function:
		return x
	case *ssa.MakeClosure:
		if f, ok := x.Fn.(*ssa.Function); ok {
			return f
		}
	case *ssa.ChangeType:
		return closureOf(x.X, depth+1)
	case *ssa.UnOp:
		if x.Op == token.MUL {
			if s := singleStore(x.X); s != nil {
				return closureOf(s, depth+1)
			}
		}
	case *ssa.Phi:
		var f *ssa.Function
		for _, e := range x.Edges {
			g := closureOf(e, depth+1)
			if g == nil || (f != nil && g != f) {
				return nil
			}
			f = g
		}
		return f
	}
	return nil
}

// singleStore: if addr is a local cell (Alloc, or a FreeVar bound to an Alloc of the parent) that
// has exactly one Store in the function that owns it, return the stored value.
func singleStore(addr ssa.Value) ssa.Value {
	switch a := addr.(type) {
	case *ssa.Alloc:
		var val ssa.Value
		n := 0
		for _, r := range *a.Referrers() {
			if st, ok := r.(*ssa.Store); ok && st.Addr == a {
				val = st.Val
				n++
			}
		}
		// stores from closures capturing the cell
		if n == 1 && !cellStoredInClosures(a) {
			return val
		}
	case *ssa.FreeVar:
		fn := a.Parent()
		parent := fn.Parent()
		if parent == nil {
			return nil
		}
		// find the MakeClosure in the parent that binds this free var
		idx := -1
		for i, fv := range fn.FreeVars {
			if fv == a {
				idx = i
			}
		}
		if idx < 0 {
			return nil
		}
		for _, b := range parent.Blocks {
			for _, ins := range b.Instrs {
				if mc, ok := ins.(*ssa.MakeClosure); ok && mc.Fn == fn && idx < len(mc.Bindings) {
					return singleStore(mc.Bindings[idx])
				}
			}
		}
	}
	return nil
}

// cellStoredInClosures: does any closure that captures alloc store into it?
func cellStoredInClosures(a *ssa.Alloc) bool {
	for _, r := range *a.Referrers() {
		mc, ok := r.(*ssa.MakeClosure)
		if !ok {
			continue
		}
		fn, _ := mc.Fn.(*ssa.Function)
		if fn == nil {
			continue
		}
		for i, b := range mc.Bindings {
			if b != a || i >= len(fn.FreeVars) {
				continue
			}
			if freeVarStored(fn, fn.FreeVars[i]) {
				return true
			}
		}
	}
	return false
}

func freeVarStored(fn *ssa.Function, fv *ssa.FreeVar) bool {
	for _, r := range *fv.Referrers() {
		switch x := r.(type) {
		case *ssa.Store:
			if x.Addr == fv {
				return true
			}
		case *ssa.MakeClosure:
			inner, _ := x.Fn.(*ssa.Function)
			if inner == nil {
				continue
			}
			for i, b := range x.Bindings {
				if b == fv && i < len(inner.FreeVars) && freeVarStored(inner, inner.FreeVars[i]) {
					return true
				}
			}
		}
	}
	return false
}

// ifaceMethodOf returns the interface method object of an invoke-mode call.
func ifaceMethodOf(call ssa.CallInstruction) *types.Func {
	cc := call.Common()
	if cc.IsInvoke() {
		return cc.Method
	}
	return nil
}

// calleeObj is the types.Func called (static function/method or interface method), by origin.
func calleeObj(call ssa.CallInstruction) *types.Func {
	if m := ifaceMethodOf(call); m != nil {
		return m.Origin()
	}
	if f := staticCallee(call); f != nil {
		if o := f.Origin(); o != nil {
			f = o
		}
		if obj, ok := f.Object().(*types.Func); ok && obj != nil {
			return obj.Origin()
		}
	}
	return nil
}

// isCallTo: does the call resolve (statically or as interface invoke) to obj?
func isCallTo(call ssa.CallInstruction, obj *types.Func) bool {
	if obj == nil {
		return false
	}
	o := calleeObj(call)
	return o != nil && o == obj.Origin()
}

// callsFn: does the call statically resolve to fn (or an instantiation of it)?
func callsFn(call ssa.CallInstruction, fn *ssa.Function) bool {
	if fn == nil {
		return false
	}
	f := staticCallee(call)
	if f == nil {
		return false
	}
	if f == fn {
		return true
	}
	return f.Origin() != nil && f.Origin() == fn
}

// objFullName: "pkgpath.Name" or "(pkgpath.T).Name" of a called object, "" if unknown.
func calleeFullName(call ssa.CallInstruction) string {
	if o := calleeObj(call); o != nil {
		return o.FullName()
	}
	return ""
}

// allCalls iterates over every call-like instruction (Call, Defer, Go) of fn.
func allCalls(fn *ssa.Function, f func(ssa.CallInstruction)) {
	for _, b := range fn.Blocks {
		for _, ins := range b.Instrs {
			if ci, ok := ins.(ssa.CallInstruction); ok {
				f(ci)
			}
		}
	}
}

// withLiterals returns fn and all function literals nested in it.
func withLiterals(fn *ssa.Function) []*ssa.Function {
	out := []*ssa.Function{fn}
	for _, a := range fn.AnonFuncs {
		out = append(out, withLiterals(a)...)
	}
	return out
}

// strip removes value-preserving wrappers.
func strip(v ssa.Value) ssa.Value {
	for {
		switch x := v.(type) {
		case *ssa.ChangeType:
			v = x.X
		case *ssa.MakeInterface:
			v = x.X
		case *ssa.ChangeInterface:
			v = x.X
		case *ssa.Convert:
			v = x.X
		default:
			return v
		}
	}
}

func constString(v ssa.Value) (string, bool) {
	if c, ok := strip(v).(*ssa.Const); ok && c.Value != nil && c.Value.Kind() == constant.String {
		return constant.StringVal(c.Value), true
	}
	return "", false
}

func constInt(v ssa.Value) (int64, bool) {
	if c, ok := strip(v).(*ssa.Const); ok && c.Value != nil && c.Value.Kind() == constant.Int {
		n, exact := constant.Int64Val(c.Value)
		return n, exact
	}
	return 0, false
}

func constBool(v ssa.Value) (bool, bool) {
	if c, ok := strip(v).(*ssa.Const); ok && c.Value != nil && c.Value.Kind() == constant.Bool {
		return constant.BoolVal(c.Value), true
	}
	return false, false
}

func isNilConst(v ssa.Value) bool {
	c, ok := v.(*ssa.Const)
	return ok && c.Value == nil
}

// ---- condition facts ---------------------------------------------------------------------------

// Fact is an (in)equality known to hold after crossing a CFG edge.
type Fact struct {
	X, Y ssa.Value
	Eq   bool // X == Y when true, X != Y when false
}

// edgeFacts returns the facts established by leaving block b through successor index si.
func edgeFacts(b *ssa.BasicBlock, si int) []Fact {
	if len(b.Instrs) == 0 {
		return nil
	}
	iff, ok := b.Instrs[len(b.Instrs)-1].(*ssa.If)
	if !ok {
		return nil
	}
	return condFacts(iff.Cond, si == 0)
}

var trueConst = ssa.NewConst(constant.MakeBool(true), types.Typ[types.Bool])

func condFacts(cond ssa.Value, holds bool) []Fact {
	switch x := cond.(type) {
	case *ssa.UnOp:
		if x.Op == token.NOT {
			return condFacts(x.X, !holds)
		}
	case *ssa.BinOp:
		switch x.Op {
		case token.EQL:
			return []Fact{{x.X, x.Y, holds}}
		case token.NEQ:
			return []Fact{{x.X, x.Y, !holds}}
		}
	}
	return []Fact{{cond, trueConst, holds}}
}

// ---- provenance --------------------------------------------------------------------------------

// passThrough says which arguments of a call flow to its result unchanged enough for provenance
// purposes (nil = none). Rules supply their own tables; this is the common default.
type passFn func(call *ssa.Call) []ssa.Value

// roots walks backwards from v through value-preserving instructions and returns the set of origin
// values (parameters, call results, allocations, constants, field reads of roots, …).
func roots(v ssa.Value, pass passFn) []ssa.Value {
	seen := map[ssa.Value]bool{}
	var out []ssa.Value
	var walk func(v ssa.Value, d int)
	walk = func(v ssa.Value, d int) {
		if v == nil || seen[v] {
			return
		}
		seen[v] = true
		if d > 40 {
			out = append(out, v)
			return
		}
		switch x := v.(type) {
		case *ssa.ChangeType:
			walk(x.X, d+1)
		case *ssa.MakeInterface:
			walk(x.X, d+1)
		case *ssa.ChangeInterface:
			walk(x.X, d+1)
		case *ssa.Convert:
			walk(x.X, d+1)
		case *ssa.TypeAssert:
			walk(x.X, d+1)
		case *ssa.Slice:
			walk(x.X, d+1)
		case *ssa.Phi:
			for _, e := range x.Edges {
				walk(e, d+1)
			}
		case *ssa.Extract:
			// keep the Extract itself as a root when it extracts from a call (index-sensitive),
			// but see through pass-through calls
			if call, ok := x.Tuple.(*ssa.Call); ok && pass != nil {
				if args := pass(call); args != nil {
					for _, a := range args {
						walk(a, d+1)
					}
					return
				}
			}
			if ta, ok := x.Tuple.(*ssa.TypeAssert); ok && x.Index == 0 {
				walk(ta.X, d+1)
				return
			}
			out = append(out, v)
		case *ssa.UnOp:
			if x.Op == token.MUL {
				if s := singleStore(x.X); s != nil {
					walk(s, d+1)
					return
				}
				if a, ok := x.X.(*ssa.Alloc); ok {
					// multi-store local: all stored values
					n := 0
					for _, r := range *a.Referrers() {
						if st, ok := r.(*ssa.Store); ok && st.Addr == a {
							walk(st.Val, d+1)
							n++
						}
					}
					if n > 0 {
						return
					}
				}
				switch x.X.(type) {
				case *ssa.Extract, *ssa.Call, *ssa.Parameter, *ssa.Phi:
					// dereference of a pointer value: derives from the pointer
					walk(x.X, d+1)
					return
				}
			}
			out = append(out, v)
		case *ssa.Call:
			if pass != nil {
				if args := pass(x); args != nil {
					for _, a := range args {
						walk(a, d+1)
					}
					return
				}
			}
			out = append(out, v)
		default:
			out = append(out, v)
		}
	}
	walk(v, 0)
	return out
}

// extractOf: is v the idx-th result of call?
func extractOf(v ssa.Value, call ssa.Value, idx int) bool {
	e, ok := v.(*ssa.Extract)
	return ok && e.Tuple == call && e.Index == idx
}

// resultOf returns (call, index) if v is a (possibly extracted) call result.
func resultOf(v ssa.Value) (*ssa.Call, int) {
	switch x := v.(type) {
	case *ssa.Extract:
		if c, ok := x.Tuple.(*ssa.Call); ok {
			return c, x.Index
		}
	case *ssa.Call:
		return x, 0
	}
	return nil, -1
}

// paramIndex returns the index of v among fn's parameters, or -1.
func paramIndex(v ssa.Value) int {
	p, ok := v.(*ssa.Parameter)
	if !ok {
		return -1
	}
	for i, q := range p.Parent().Params {
		if q == p {
			return i
		}
	}
	return -1
}

// recvNamed returns the named receiver type name of a method ("" for functions).
func recvTypeName(fn *ssa.Function) string {
	if fn.Signature.Recv() == nil {
		return ""
	}
	t := fn.Signature.Recv().Type()
	if p, ok := t.(*types.Pointer); ok {
		t = p.Elem()
	}
	if n, ok := t.(*types.Named); ok {
		return n.Obj().Name()
	}
	return ""
}

func namedOf(t types.Type) *types.Named {
	t = types.Unalias(t)
	if p, ok := t.(*types.Pointer); ok {
		t = types.Unalias(p.Elem())
	}
	n, _ := t.(*types.Named)
	return n
}

func isNamed(t types.Type, pkgPath, name string) bool {
	n := namedOf(t)
	if n == nil || n.Obj().Pkg() == nil {
		return false
	}
	return n.Obj().Pkg().Path() == pkgPath && n.Obj().Name() == name
}

// rootBase walks from a field address / field read / load chain down to the value it is based on:
// &x.a.b, x.a.b, *(&x.a) … all yield x.
func rootBase(v ssa.Value) ssa.Value {
	for i := 0; i < 20; i++ {
		switch x := v.(type) {
		case *ssa.FieldAddr:
			v = x.X
		case *ssa.Field:
			v = x.X
		case *ssa.UnOp:
			if x.Op != token.MUL {
				return v
			}
			switch x.X.(type) {
			case *ssa.FieldAddr, *ssa.Field:
				v = x.X
			default:
				if s := singleStore(x.X); s != nil {
					v = s
				} else {
					return v
				}
			}
		default:
			return v
		}
	}
	return v
}

// basedOnType: walking the field/load chain below v, is some intermediate value of the named type?
func basedOnType(v ssa.Value, pkgPath, name string) bool {
	for i := 0; i < 20 && v != nil; i++ {
		if isNamed(v.Type(), pkgPath, name) {
			return true
		}
		switch x := v.(type) {
		case *ssa.FieldAddr:
			v = x.X
		case *ssa.Field:
			v = x.X
		case *ssa.UnOp:
			if x.Op != token.MUL {
				return false
			}
			v = x.X
		default:
			return false
		}
	}
	return false
}

// origin returns the generic origin of an instantiated function (fn itself otherwise).
func origin(fn *ssa.Function) *ssa.Function {
	if fn != nil && fn.Origin() != nil {
		return fn.Origin()
	}
	return fn
}

// origName: name of a function without instantiation suffix.
func origName(fn *ssa.Function) string { return origin(fn).Name() }
