package main

import (
	"fmt"
	"go/token"
	"go/types"
	"regexp"
	"sort"
	"strings"

	"golang.org/x/tools/go/ssa"
)

func init() {
	register("C14", propMeta{
		Level: "other",
		Explanation: "R14a (edge facts + caller propagation): the effect set of the write path — stores to Commander.lastTXID / lastLog, Batcher.Append, every bus.Monitor method — is enumerated in package command; for each effect instruction every path from every exported Commander method crosses the false edge of a test of Parameters.DryRun (in the function that contains the effect, or, when that function is unguarded, at every one of its call sites, recursively up to the exported methods). " +
			"R14b: the preview branch chains a log produced by the same builder value that the real branch hands to the commander, with the id that the next real transaction would get (peek, no store). R14h: the two readers of the flag (v1 `preview`, v2 `dryRun`, each version's getCommandParameters) are siblings: the sets of values they read as a preview, extracted from their comparisons with constants (raw = exact, ToUpper/ToLower/EqualFold = any case), are equal, and both contain the documented boolean `true`. R14g (a necessary condition of `answers what the real write would answer`): a preview goes through the same replay lookup as the real request — the idempotency key that executionContext.run reserves and searches the store for is Parameters.IdempotencyKey itself on every path, not a value that is empty for previews.",
		NotDecided:  "equality of later histories as a whole (follows from R14a if the effect set is complete; the set is the frozen list above plus the who-may-write rules of C05).",
		Trusted:     []string{"the effect set (counters, batcher hand-off, monitor) is what a preview could change; store reads are side-effect free"},
	}, func(c *Ctx) {
		ruleR14a(c, "R14a", nil)
		ruleR14b(c)
		ruleRequestKeyIsLookedUp(c, "R14g")
		ruleR14h(c, "R14h")
		ruleR11a(c)
	})
	register("C16", propMeta{
		Level: "other",
		Explanation: "R16a: every bus.Monitor call of package command is reached only through the nil-error edge of the call that persists the change (exec/run, which returns after the persistence wait, C06). R16b: not for previews (R14a restricted to the monitor methods). R16c: in every exported write method every path to a nil-error return passes a monitor call or the dry-run edge (at least once). " +
			"R16d (roles): the values passed to each monitor method are the ones persisted — RevertedTransaction(reverted ← transaction read from the store for the id, revert ← RevertTransaction of the persisted log payload), CommittedTransactions(← Transaction / AccountMetadata of the persisted payload), Saved/DeletedMetadata(← the parameters that were also stored in the log payload) — and ledgerMonitor maps each parameter to the payload field of the same role. R16f: every method of bus.ledgerMonitor required by bus.Monitor hands a message to the publisher on every returning path (package helpers stepped through): no filter drops the event of a committed change.",
		NotDecided:  "delivery by the broker (publish logs and drops errors); events for writes replayed through an idempotency key are published again (at-least-once).",
		Trusted:     []string{"watermill publisher"},
	}, func(c *Ctx) {
		ruleR16ac(c)
		ruleR06ab(c)
		ruleR14a(c, "R16b", func(kind string) bool { return strings.HasPrefix(kind, "monitor.") })
		ruleR16d(c)
		ruleR16f(c)
		// R16e: a write whose log was handed off cannot report failure — the methods publish only on the
		// nil-error edge, so such a path persists a change that is never published (shared with C06 R06f)
		ruleR06fAs(c, "R16e", "a path returns an error although the log was already handed to the batcher: the change is persisted but its event is never published (the write methods publish on the nil-error edge only)")
	})
}

type effectSite struct {
	fn   *ssa.Function
	ins  ssa.Instruction
	kind string
}

func (m *cmdModel) effects(c *Ctx) []effectSite {
	var out []effectSite
	isCtor := func(fn *ssa.Function) bool {
		return fn.Parent() == nil && (fn.Name() == "New" || (fn.Name() == "Init" && recvTypeName(fn) == "Commander"))
	}
	for _, fn := range m.fns {
		if isCtor(fn) || fn.Synthetic != "" {
			continue
		}
		for _, b := range fn.Blocks {
			for _, ins := range b.Instrs {
				if _, base, ok := storeToField(ins, m.fLastTXID); ok && !freshBase(base) {
					out = append(out, effectSite{fn, ins, "store.lastTXID"})
				}
				if _, base, ok := storeToField(ins, m.fLastLog); ok && !freshBase(base) {
					out = append(out, effectSite{fn, ins, "store.lastLog"})
				}
				// any other field of the Commander: state that outlives the request
				if st, ok := ins.(*ssa.Store); ok {
					if fa, ok := st.Addr.(*ssa.FieldAddr); ok && isNamed(fa.X.Type(), pkgCommand, "Commander") && !freshBase(fa.X) {
						f := fieldOfAddr(fa)
						if f != nil && !sameField(f, m.fLastTXID) && !sameField(f, m.fLastLog) {
							out = append(out, effectSite{fn, ins, "store." + f.Name()})
						}
					}
				}
				if ci, ok := ins.(ssa.CallInstruction); ok {
					if kind := commanderStateMutation(ci); kind != "" {
						out = append(out, effectSite{fn, ins, kind})
					}
					if isCallTo(ci, m.batcherAppend) {
						out = append(out, effectSite{fn, ins, "batcher.Append"})
					}
					if isCallTo(ci, m.insertLogs) && ifaceMethodOf(ci) != nil {
						out = append(out, effectSite{fn, ins, "store.InsertLogs"})
					}
					if mm := m.monitorCall(ci); mm != nil {
						out = append(out, effectSite{fn, ins, "monitor." + mm.Name()})
					}
				}
			}
		}
	}
	return out
}

var mutatingName = regexp.MustCompile(`^(Set|Add|Put|Store|Delete|Remove|Insert|Append|Push|Pop|Inc|Dec|Clear|Reset|Purge|Update|Write|Save|Swap|CompareAndSwap|LoadOrStore)`)

// commanderStateMutation: a call of a mutating-looking method (Set…, Add…, Delete…, …) on a value held in a
// field of the Commander, other than the fields whose protocol is checked elsewhere (the embedded batcher and the
// monitor are effects of their own; mu / running are synchronisation).
func commanderStateMutation(ci ssa.CallInstruction) string {
	cc := ci.Common()
	var recv ssa.Value
	var name string
	if cc.IsInvoke() {
		recv, name = cc.Value, cc.Method.Name()
	} else if f := cc.StaticCallee(); f != nil && f.Signature.Recv() != nil && len(cc.Args) > 0 {
		recv, name = cc.Args[0], origName(f)
	} else {
		return ""
	}
	if !mutatingName.MatchString(name) {
		return ""
	}
	// receiver: (address of / load of) a field of *Commander
	var fld *types.Var
	switch x := recv.(type) {
	case *ssa.FieldAddr:
		if isNamed(x.X.Type(), pkgCommand, "Commander") {
			fld = fieldOfAddr(x)
		}
	case *ssa.UnOp:
		if f, base := anyFieldRead(x); f != nil && isNamed(base.Type(), pkgCommand, "Commander") {
			fld = f
		}
	}
	if fld == nil {
		return ""
	}
	switch fld.Name() {
	case "mu", "running", "Batcher", "monitor":
		return ""
	}
	return "state." + fld.Name() + "." + name
}

// notDryAt: is ins reached only through edges establishing DryRun == false?
func (m *cmdModel) notDryAt(c *Ctx, fn *ssa.Function, target ssa.Instruction) bool {
	return guardedByFieldFact(c, fn, target, m.fDryRun, false)
}

func ruleR14a(c *Ctx, rule string, filter func(kind string) bool) {
	m := c.cmdModel(rule)
	if !m.ok {
		return
	}
	effs := m.effects(c)
	kinds := map[string]int{}
	type memoK struct {
		fn  *ssa.Function
		ins ssa.Instruction
	}
	memo := map[memoK]string{}
	// unguardedChain returns "" when every path from every entry to (fn, ins) is guarded, else a chain description
	var unguarded func(fn *ssa.Function, ins ssa.Instruction, depth int) string
	unguarded = func(fn *ssa.Function, ins ssa.Instruction, depth int) string {
		k := memoK{fn, ins}
		if v, ok := memo[k]; ok {
			return v
		}
		memo[k] = "" // recursion guard
		if m.notDryAt(c, fn, ins) {
			return ""
		}
		here := fnName(fn) + " (" + c.pos(ins.Pos()) + ")"
		if depth > 10 {
			memo[k] = here + " ← … (call chain too deep)"
			return memo[k]
		}
		var sites []ssa.CallInstruction
		for _, ci := range c.CallersOf(fn) {
			if fnPkgPath(ci.Parent()) == pkgCommand {
				sites = append(sites, ci)
			}
		}
		if len(sites) == 0 {
			// an entry point of the package: exported method or escaping literal
			memo[k] = here + " ← entry point"
			return memo[k]
		}
		for _, s := range sites {
			if why := unguarded(s.Parent(), s, depth+1); why != "" {
				memo[k] = here + " ← " + why
				return memo[k]
			}
		}
		return ""
	}
	for _, e := range effs {
		if filter != nil && !filter(e.kind) {
			continue
		}
		kinds[e.kind]++
		key := fnName(e.fn) + ":" + e.kind + ":not-in-dry-run"
		if why := unguarded(e.fn, e.ins, 0); why != "" {
			c.bad(rule, key, e.ins.Pos(), "effect `"+e.kind+"` is reachable in preview mode, no test of Parameters.DryRun on the way: "+why+". A dry run "+effectConsequence(e.kind))
		} else {
			c.ok(rule, key, e.ins.Pos(), "every path from the exported write methods crosses the DryRun == false edge")
		}
		c.NSites++
	}
	var ks []string
	for k, n := range kinds {
		ks = append(ks, fmt.Sprintf("%s×%d", k, n))
	}
	sort.Strings(ks)
	c.Info[rule+"_effects"] = ks
	// floors: the mechanism exists
	if filter == nil {
		for _, need := range []string{"store.lastTXID", "store.lastLog", "batcher.Append"} {
			if kinds[need] == 0 {
				c.undecided(rule, "floor:"+need, token.NoPos, "effect kind not found in package command: the write path moved")
			}
		}
	}
	nMon := 0
	for k, n := range kinds {
		if strings.HasPrefix(k, "monitor.") {
			nMon += n
		}
	}
	if nMon < len(m.monitorMethods) {
		c.undecided(rule, "floor:monitor-calls", token.NoPos, fmt.Sprintf("only %d monitor calls for %d monitor methods", nMon, len(m.monitorMethods)))
	}
}

func effectConsequence(kind string) string {
	switch {
	case kind == "store.lastTXID":
		return "consumes a transaction id."
	case kind == "store.lastLog":
		return "advances the in-memory chain head."
	case kind == "batcher.Append" || kind == "store.InsertLogs":
		return "persists a log entry."
	case strings.HasPrefix(kind, "state.") || strings.HasPrefix(kind, "store."):
		return "changes commander state that later requests read: the history after a preview differs from the history without it."
	default:
		return "publishes an event for a change that is never persisted."
	}
}

func ruleR14b(c *Ctx) {
	const rule = "R14b"
	m := c.cmdModel(rule)
	if !m.ok {
		return
	}
	n := 0
	for _, fn := range m.fns {
		// the function that tests DryRun and reaches Batcher.Append on the other side
		var dryChain *ssa.Call
		var realCall *ssa.Call
		for _, b := range fn.Blocks {
			for _, ins := range b.Instrs {
				call, ok := ins.(*ssa.Call)
				if !ok {
					continue
				}
				if isCallTo(call, m.chainLog) && guardedByFieldFact(c, fn, call, m.fDryRun, true) {
					dryChain = call
				}
				for _, f := range c.CalleesOf(call) {
					if m.appenders[f] && fnPkgPath(f) == pkgCommand && m.notDryAt(c, fn, call) {
						realCall = call
					}
				}
			}
		}
		// the preview may be built by a helper called on the DryRun edge (`return e.dryRunLog(builder), …`)
		var viaHelper *ssa.Call
		if dryChain == nil && realCall != nil {
			for _, b := range fn.Blocks {
				for _, ins := range b.Instrs {
					call, ok := ins.(*ssa.Call)
					if !ok {
						continue
					}
					h := staticCallee(call)
					if h == nil || fnPkgPath(h) != pkgCommand || len(h.Blocks) == 0 || !guardedByFieldFact(c, fn, call, m.fDryRun, true) {
						continue
					}
					allCalls(h, func(ci ssa.CallInstruction) {
						if hc, ok := ci.(*ssa.Call); ok && isCallTo(hc, m.chainLog) {
							dryChain, viaHelper = hc, call
						}
					})
				}
			}
		}
		if dryChain == nil || realCall == nil {
			continue
		}
		n++
		name := fnName(fn)
		// receiver of the preview ChainLog: result of calling builder B
		var builder ssa.Value
		if bc, ok := dryChain.Call.Args[0].(*ssa.Call); ok && !bc.Call.IsInvoke() {
			builder = bc.Call.Value
			if viaHelper != nil {
				// inside the helper the builder is a parameter: the value the function passed for it
				if p, ok := stripLoadOfParamCell(builder).(*ssa.Parameter); ok {
					if i := paramIndex(p); i >= 0 && i < len(viaHelper.Call.Args) {
						builder = viaHelper.Call.Args[i]
					}
				}
			}
		}
		same := false
		if builder != nil {
			bf := closureOf(builder, 0)
			for _, a := range realCall.Call.Args {
				if a == builder || strip(a) == strip(builder) || (bf != nil && closureOf(a, 0) == bf) {
					same = true
				}
			}
		}
		c.check(same, rule, name+":preview-built-by-the-real-builder", dryChain.Pos(), "the preview log is produced by the builder that the real branch hands off", "the preview branch does not build its log with the builder used by the real branch: the preview can answer something else than the real write would")
		// chained on nil (not on the live head) so that it cannot disturb the chain
		c.check(isNilConst(dryChain.Call.Args[1]), rule, name+":preview-not-chained-on-live-head", dryChain.Pos(), "ChainLog(nil)", "the preview log is chained on a live value")
	}
	if n == 0 {
		c.undecided(rule, "floor:dry-run-branch", token.NoPos, "no function of package command has a DryRun branch that chains a preview log next to the real hand-off")
	}
}

// ---- C16 -------------------------------------------------------------------------------------

func ruleR16ac(c *Ctx) {
	m := c.cmdModel("R16a")
	if !m.ok {
		return
	}
	oblA := newOblSet(c, "R16a")
	oblC := newOblSet(c, "R16c")
	defer oblA.flush()
	defer oblC.flush()
	const (
		okPersist = 1
		mon       = 2
		dry       = 4
		errNil    = 8
		persisted = 16
	)
	nFns := 0
	// notification closures: a function literal that does nothing but announce (it calls the monitor) and is handed to
	// a function of the package as a parameter (`runMetadataCommand(…, notify func())`) is decided where that
	// parameter is called
	notifyParams := map[*ssa.Function]map[*ssa.Parameter]*types.Func{}
	viaParam := map[*ssa.Function]bool{}
	for _, fn := range m.fns {
		if fn.Parent() == nil {
			continue
		}
		var mm *types.Func
		allCalls(fn, func(ci ssa.CallInstruction) {
			if x := m.monitorCall(ci); x != nil {
				mm = x
			}
		})
		if mm == nil {
			continue
		}
		all, any := true, false
		for _, b := range fn.Parent().Blocks {
			for _, ins := range b.Instrs {
				mc, ok := ins.(*ssa.MakeClosure)
				if !ok || mc.Fn != ssa.Value(fn) {
					continue
				}
				for _, r := range *mc.Referrers() {
					call, ok := r.(ssa.CallInstruction)
					g := (*ssa.Function)(nil)
					if ok {
						g = staticCallee(call)
					}
					bound := false
					if g != nil && fnPkgPath(origin(g)) == pkgCommand && len(g.Blocks) > 0 {
						for i, a := range call.Common().Args {
							if a == ssa.Value(mc) && i < len(g.Params) {
								if notifyParams[g] == nil {
									notifyParams[g] = map[*ssa.Parameter]*types.Func{}
								}
								notifyParams[g][g.Params[i]] = mm
								bound, any = true, true
							}
						}
					}
					if !bound {
						if _, isDbg := r.(*ssa.DebugRef); !isDbg {
							all = false
						}
					}
				}
			}
		}
		if all && any {
			viaParam[fn] = true
		}
	}
	monitorCallIn := func(fn *ssa.Function, ci ssa.CallInstruction) *types.Func {
		if mm := m.monitorCall(ci); mm != nil {
			return mm
		}
		if np := notifyParams[fn]; np != nil && !ci.Common().IsInvoke() {
			if p, ok := ci.Common().Value.(*ssa.Parameter); ok {
				return np[p]
			}
		}
		return nil
	}
	for _, fn := range m.fns {
		if viaParam[fn] {
			continue
		}
		hasMon := false
		allCalls(fn, func(ci ssa.CallInstruction) {
			if monitorCallIn(fn, ci) != nil {
				hasMon = true
			}
		})
		isFrame := notifyParams[fn] != nil
		isWriteEntry := isFrame || (fn.Parent() == nil && fn.Object() != nil && fn.Object().Exported() && recvTypeName(fn) == "Commander" && m.persisters[fn] && fn != m.run)
		if !hasMon && !isWriteEntry {
			continue
		}
		nFns++
		name := fnName(fn)
		et := newErrTracker(fn)
		persistErr := func(v ssa.Value) bool {
			// v is the error result of a call to a persister
			call, idx := resultOf(v)
			if call == nil {
				return false
			}
			for _, f := range c.CalleesOf(call) {
				if m.persisters[f] || notifyParams[f] != nil {
					ei := errResultIdx(f.Signature)
					if f.Signature.Results().Len() == 1 {
						return ei == 0 && v == ssa.Value(call)
					}
					return idx == ei
				}
			}
			return false
		}
		if isWriteEntry {
			oblC.expect(name+":event-on-every-successful-write", fn.Pos(), "every path to a nil-error return publishes the event (or is a dry run)")
		}
		pr := &PathRule{
			Step: func(pc *PathCtx, s uint64, ins ssa.Instruction) uint64 {
				if ci, ok := ins.(ssa.CallInstruction); ok {
					if mm := monitorCallIn(fn, ci); mm != nil {
						k := name + ":" + mm.Name() + ":after-persistence"
						oblA.expect(k, ci.Pos(), "reached only through the nil-error edge of the persisting call")
						if s&okPersist == 0 {
							oblA.violate(k, ci.Pos(), "monitor."+mm.Name()+" is called on a path that has not passed the nil-error edge of the call that persists the change: an event is published for a write that failed or is not yet persisted", pc.Trail())
						}
						return s | mon
					}
					// a frame of the package that runs an execution literal and then calls the notification literal it is
					// given (decided as a write entry of its own): the call persists and, on its nil-error edge, has published
					if g := staticCallee(ci); g != nil && notifyParams[g] != nil && g != fn {
						return (s | persisted | mon) &^ okPersist
					}
					for _, f := range c.CalleesOf(ci) {
						if m.persisters[f] {
							return (s | persisted) &^ okPersist
						}
					}
				}
				if changed, isNil := et.onStore(ins); changed {
					if isNil {
						return s | errNil
					}
					return s &^ errNil
				}
				return s
			},
			Edge: func(pc *PathCtx, s uint64, from *ssa.BasicBlock, si int) (uint64, bool) {
				for _, f := range pc.edgeFacts(from, si) {
					if isNilConst(f.Y) && persistErr(f.X) {
						if f.Eq {
							s |= okPersist
						} else {
							s &^= okPersist
						}
					}
					if _, isDry := fieldRead(f.X, m.fDryRun); isDry {
						if b, ok := constBool(f.Y); ok && (b == f.Eq) {
							s |= dry
						}
					}
				}
				return s, true
			},
			Exit: func(pc *PathCtx, s uint64, ins ssa.Instruction) {
				ret, ok := ins.(*ssa.Return)
				if !ok || !isWriteEntry {
					return
				}
				isNil := s&errNil != 0
				if known, dn := et.directNil(ret); known {
					isNil = dn
				}
				if isNil && s&persisted != 0 && s&(mon|dry) == 0 {
					oblC.violate(name+":event-on-every-successful-write", ret.Pos(), "a successful write returns without publishing its event", pc.Trail())
				}
			},
		}
		c.RunPaths(fn, 0, pr)
	}
	if nFns < 4 {
		oblA.undecided("floor:write-methods", token.NoPos, fmt.Sprintf("expected the four write methods, found %d functions with monitor calls", nFns))
	}
}

func ruleR16d(c *Ctx) {
	const rule = "R16d"
	m := c.cmdModel(rule)
	if !m.ok {
		return
	}
	// (1) ledgerMonitor: parameter -> payload field, by role table
	type role struct{ method, param, payloadType, field string }
	table := []role{
		{"RevertedTransaction", "reverted", "RevertedTransaction", "RevertedTransaction"},
		{"RevertedTransaction", "revert", "RevertedTransaction", "RevertTransaction"},
		{"CommittedTransactions", "#1", "CommittedTransactions", "Transactions"},
		{"CommittedTransactions", "#2", "CommittedTransactions", "AccountMetadata"},
		{"SavedMetadata", "#1", "SavedMetadata", "TargetType"},
		{"SavedMetadata", "#2", "SavedMetadata", "TargetID"},
		{"SavedMetadata", "#3", "SavedMetadata", "Metadata"},
		{"DeletedMetadata", "#1", "DeletedMetadata", "TargetType"},
		{"DeletedMetadata", "#2", "DeletedMetadata", "TargetID"},
		{"DeletedMetadata", "#3", "DeletedMetadata", "Key"},
	}
	mon := c.Named(pkgBus, "Monitor")
	it, _ := mon.Underlying().(*types.Interface)
	for _, r := range table {
		fn := c.Fn(pkgBus, "ledgerMonitor."+r.method)
		key := "ledgerMonitor." + r.method + ":" + r.field
		if fn == nil || len(fn.Blocks) == 0 {
			c.undecided(rule, key, token.NoPos, "bus.ledgerMonitor."+r.method+" not found")
			continue
		}
		c.seeFn(fn)
		// which parameter: by interface parameter name, or by position
		pidx := -1
		if strings.HasPrefix(r.param, "#") {
			fmt.Sscanf(r.param, "#%d", &pidx)
			pidx++ // receiver is param 0 in SSA; ctx is 1
		} else if it != nil {
			for i := 0; i < it.NumMethods(); i++ {
				if it.Method(i).Name() == r.method {
					sig := it.Method(i).Type().(*types.Signature)
					for j := 0; j < sig.Params().Len(); j++ {
						if sig.Params().At(j).Name() == r.param {
							pidx = j + 1
						}
					}
				}
			}
		}
		if pidx < 0 || pidx >= len(fn.Params) {
			c.undecided(rule, key, fn.Pos(), "cannot locate parameter "+r.param+" of Monitor."+r.method)
			continue
		}
		param := fn.Params[pidx]
		fld := c.Field(pkgBus, r.payloadType, r.field)
		if fld == nil {
			c.undecided(rule, key, fn.Pos(), "payload field bus."+r.payloadType+"."+r.field+" not found")
			continue
		}
		fed := false
		for _, fi := range flattenCalls(fn, pkgBus, 3) {
			if v, _, ok := storeToField(fi.ins, fld); ok {
				if fi.env.parent == nil && valueDerivesFromParam(v, param) {
					fed = true
				}
				for _, r := range rootsEnv(v, fi.env, pkgBus) {
					if r.v == ssa.Value(param) {
						fed = true
					}
					// dereference of the parameter (*reverted), or a slice literal holding it
					if u, ok := r.v.(*ssa.UnOp); ok && u.Op == token.MUL && u.X == ssa.Value(param) {
						fed = true
					}
				}
				if sl, ok := v.(*ssa.Slice); ok {
					for _, e := range variadicElems(sl) {
						for _, r := range rootsEnv(e, fi.env, pkgBus) {
							if r.v == ssa.Value(param) {
								fed = true
							}
						}
					}
				}
			}
		}
		c.check(fed, rule, key, fn.Pos(), "payload field "+r.field+" is fed from parameter "+param.Name(), "bus payload field "+r.payloadType+"."+r.field+" is not fed from the monitor parameter of the same role ("+param.Name()+"): the event misreports the change")
	}
	// (1b) topic, message type and ledger of each event — read off the method and the helpers of the package it goes
	// through (an `emit(ctx, eventType, payload)` helper, payload and envelope constructors)
	ledgerNameF := c.Field(pkgBus, "ledgerMonitor", "ledgerName")
	seenTopic := map[string]string{}
	for _, method := range []string{"CommittedTransactions", "SavedMetadata", "RevertedTransaction", "DeletedMetadata"} {
		fn := c.Fn(pkgBus, "ledgerMonitor."+method)
		key := "ledgerMonitor." + method + ":topic-type-and-ledger"
		if fn == nil || ledgerNameF == nil {
			c.undecided(rule, key, token.NoPos, "bus.ledgerMonitor."+method+" / ledgerName not found")
			continue
		}
		flat := flattenCalls(fn, pkgBus, 3)
		var problems []string
		nPub := 0
		topic := ""
		constOf := func(v ssa.Value, env *frameEnv) (string, bool) {
			out, n := "", 0
			for _, r := range rootsEnv(v, env, pkgBus) {
				if s, ok := constString(r.v); ok {
					if n > 0 && s != out {
						return "", false
					}
					out = s
					n++
				} else if _, isCall := r.v.(*ssa.Call); !isCall {
					return "", false
				}
			}
			return out, n > 0
		}
		for _, fi := range flat {
			ci, ok := fi.ins.(ssa.CallInstruction)
			if !ok {
				continue
			}
			cc := ci.Common()
			if !cc.IsInvoke() || cc.Method.Name() != "Publish" || !isNamed(cc.Value.Type(), "github.com/ThreeDotsLabs/watermill/message", "Publisher") {
				continue
			}
			nPub++
			t, okT := constOf(cc.Args[0], fi.env)
			if !okT {
				problems = append(problems, "the topic is not a constant")
				continue
			}
			topic = t
			if other, dup := seenTopic[topic]; dup && other != method {
				problems = append(problems, "the topic "+topic+" is also used by "+other)
			}
			seenTopic[topic] = method
			if !strings.Contains(strings.ToUpper(strings.ReplaceAll(topic, "_", "")), strings.ToUpper(method)) {
				problems = append(problems, "the topic "+topic+" does not name the kind of change "+method+" reports")
			}
		}
		// the envelope: its Type is the topic, its Payload the payload of this method; the payload's Ledger the monitor's
		typeOK, payloadOK, ledgerOK := false, false, false
		payloadT := c.Named(pkgBus, method)
		for _, fi := range flat {
			st, ok := fi.ins.(*ssa.Store)
			if !ok {
				continue
			}
			fa, ok := st.Addr.(*ssa.FieldAddr)
			if !ok {
				continue
			}
			switch fieldOfAddr(fa).Name() {
			case "Type":
				if t, ok := constOf(st.Val, fi.env); ok && t == topic && topic != "" {
					typeOK = true
				}
			case "Payload":
				for _, r := range rootsEnv(st.Val, fi.env, pkgBus) {
					t := r.v.Type()
					if pt, ok := t.Underlying().(*types.Pointer); ok {
						t = pt.Elem()
					}
					if payloadT != nil && namedOf(t) == payloadT {
						payloadOK = true
					}
				}
			case "Ledger":
				for _, r := range rootsEnv(st.Val, fi.env, pkgBus) {
					if f, _ := anyFieldRead(r.v); sameField(f, ledgerNameF) {
						ledgerOK = true
					}
				}
			}
		}
		if nPub == 1 && !typeOK {
			problems = append(problems, "the message type is not the topic "+topic)
		}
		if nPub == 1 && !payloadOK {
			problems = append(problems, "the message payload is not the "+method+" payload built by this method")
		}
		if !ledgerOK {
			problems = append(problems, "the payload's Ledger is not the monitor's ledger name")
		}
		if nPub != 1 {
			problems = append(problems, fmt.Sprintf("%d publish calls (expected one)", nPub))
		}
		c.check(len(problems) == 0, rule, key, fn.Pos(), "one publish; topic = message type = the method's kind; payload passed through; Ledger = ledgerName", "bus.ledgerMonitor."+method+": "+strings.Join(problems, "; ")+": subscribers receive the change under another type, ledger or content than the one persisted")
	}
	// (2) commander call sites: arguments carry the persisted roles
	for _, fn := range m.fns {
		allCalls(fn, func(ci ssa.CallInstruction) {
			mm := m.monitorCall(ci)
			if mm == nil {
				return
			}
			args := ci.Common().Args // invoke: args exclude receiver
			name := fnName(fn) + ":" + mm.Name()
			switch mm.Name() {
			case "RevertedTransaction":
				// args: ctx, reverted, revert
				rev := false
				for _, r := range roots(args[1], nil) {
					if call, idx := resultOf(r); call != nil && idx == 0 && isCallTo(call, m.getTx) {
						rev = true
					}
				}
				c.check(rev, rule, name+":reverted=transaction-read-from-store", ci.Pos(), "`reverted` is the transaction read from the store for the id", "the `reverted` argument of the event is not the transaction that was read from the store for the reverted id")
				c.check(argIsPayloadField(args[2], "RevertedTransactionLogPayload", "RevertTransaction", m, c), rule, name+":revert=new-transaction-of-the-log", ci.Pos(), "`revert` is RevertTransaction of the persisted log", "the `revert` argument of the event is not the RevertTransaction of the persisted log payload")
			case "CommittedTransactions":
				c.check(argIsPayloadField(args[1], "NewTransactionLogPayload", "Transaction", m, c), rule, name+":transaction-of-the-log", ci.Pos(), "the transaction of the persisted log", "the event does not carry the Transaction of the persisted log payload")
				c.check(argIsPayloadField(args[2], "NewTransactionLogPayload", "AccountMetadata", m, c), rule, name+":account-metadata-of-the-log", ci.Pos(), "the account metadata of the persisted log", "the event does not carry the AccountMetadata of the persisted log payload")
			case "SavedMetadata", "DeletedMetadata":
				// args are the method's own parameters (which the executor also stores into the log payload)
				for i := 1; i < len(args); i++ {
					okP := false
					for _, r := range roots(args[i], func(call *ssa.Call) []ssa.Value {
						if calleeFullName(call) == "fmt.Sprint" {
							return variadicElems(call.Call.Args[0])
						}
						return nil
					}) {
						if _, isP := r.(*ssa.Parameter); isP {
							okP = true
						}
					}
					c.check(okP, rule, fmt.Sprintf("%s:arg%d-is-request-parameter", name, i), ci.Pos(), "argument derives from the request parameter", "event argument does not derive from the request parameters that were written to the log")
				}
			}
		})
	}
	// (3) the metadata executors store the same parameters into the log payload
	for _, pt := range []string{"SetMetadataLogPayload", "DeleteMetadataLogPayload"} {
		st := c.Named(pkgLedger, pt)
		if st == nil {
			continue
		}
		for _, fn := range m.fns {
			if fn.Parent() == nil {
				continue
			}
			for _, b := range fn.Blocks {
				for _, ins := range b.Instrs {
					s, ok := ins.(*ssa.Store)
					if !ok {
						continue
					}
					fa, ok := s.Addr.(*ssa.FieldAddr)
					if !ok || !isNamed(fa.X.Type(), pkgLedger, pt) {
						continue
					}
					f := fieldOfAddr(fa)
					if f == nil || f.Name() == "TargetType" {
						continue
					}
					// value must derive from a captured request parameter of the enclosing method
					okV := false
					for _, r := range roots(s.Val, nil) {
						if _, isFV := r.(*ssa.FreeVar); isFV {
							okV = true
						}
						if _, isP := r.(*ssa.Parameter); isP {
							okV = true
						}
						if u, isU := r.(*ssa.UnOp); isU {
							if _, isFV := u.X.(*ssa.FreeVar); isFV {
								okV = true
							}
						}
					}
					c.check(okV, rule, fnName(fn)+":"+pt+"."+f.Name()+"-from-request", s.Pos(), "payload field is the captured request parameter", "log payload field "+pt+"."+f.Name()+" is not the request parameter")
				}
			}
		}
	}
}

func valueDerivesFromParam(v ssa.Value, p *ssa.Parameter) bool {
	for _, r := range roots(v, nil) {
		if r == ssa.Value(p) {
			return true
		}
	}
	// slice literal containing the parameter: []T{p}
	if sl, ok := v.(*ssa.Slice); ok {
		for _, e := range variadicElems(sl) {
			if valueDerivesFromParam(e, p) {
				return true
			}
		}
	}
	// dereference of the parameter (*reverted)
	if u, ok := v.(*ssa.UnOp); ok && u.Op == token.MUL && u.X == ssa.Value(p) {
		return true
	}
	return false
}

// argIsPayloadField: v (possibly dereferenced) is log.Data.(<payload>).<field> of the log returned by a persister.
func argIsPayloadField(v ssa.Value, payload, field string, m *cmdModel, c *Ctx) bool {
	v = strip(v)
	if u, ok := v.(*ssa.UnOp); ok && u.Op == token.MUL {
		if _, isField := u.X.(*ssa.FieldAddr); !isField {
			v = u.X // *ptr
		}
	}
	f, base := anyFieldRead(v)
	if f == nil || f.Name() != field {
		return false
	}
	// base: typeassert of <log>.Data to payload
	var ta *ssa.TypeAssert
	switch b := base.(type) {
	case *ssa.TypeAssert:
		ta = b
	case *ssa.Alloc:
		if s := singleStore(b); s != nil {
			ta, _ = s.(*ssa.TypeAssert)
		}
	case *ssa.UnOp:
		if a, ok := b.X.(*ssa.Alloc); ok {
			if s := singleStore(a); s != nil {
				ta, _ = s.(*ssa.TypeAssert)
			}
		}
	}
	if ta == nil || !isNamed(ta.AssertedType, pkgLedger, payload) {
		return false
	}
	df, lbase := anyFieldRead(ta.X)
	if df == nil || df.Name() != "Data" {
		return false
	}
	var fromPersister func(v ssa.Value, depth int) bool
	fromPersister = func(v ssa.Value, depth int) bool {
		if depth > 3 {
			return false
		}
		for _, r := range roots(v, nil) {
			if call, idx := resultOf(r); call != nil && idx == 0 {
				for _, fcal := range c.CalleesOf(call) {
					if m.persisters[fcal] {
						return true
					}
				}
			}
			// the parameter of a notification literal: what the frame it is handed to calls it with
			if p, ok := r.(*ssa.Parameter); ok {
				for _, a := range boundInFrame(p) {
					if fromPersister(a, depth+1) {
						return true
					}
				}
			}
		}
		return false
	}
	return fromPersister(rootBase(lbase), 0)
}

// boundInFrame: p is a parameter of a function literal that is handed to a function F of its package as a function
// value; the values F calls that function value with, at p's position.
func boundInFrame(p *ssa.Parameter) []ssa.Value {
	lit := p.Parent()
	if lit == nil || lit.Parent() == nil {
		return nil
	}
	idx := paramIndex(p)
	var out []ssa.Value
	for _, b := range lit.Parent().Blocks {
		for _, ins := range b.Instrs {
			mc, ok := ins.(*ssa.MakeClosure)
			if !ok || mc.Fn != ssa.Value(lit) {
				continue
			}
			for _, r := range *mc.Referrers() {
				call, ok := r.(ssa.CallInstruction)
				if !ok {
					continue
				}
				g := staticCallee(call)
				if g == nil || len(g.Blocks) == 0 {
					continue
				}
				for j, a := range call.Common().Args {
					if a != ssa.Value(mc) || j >= len(g.Params) {
						continue
					}
					np := g.Params[j]
					allCalls(g, func(ci ssa.CallInstruction) {
						if ci.Common().IsInvoke() || ci.Common().Value != ssa.Value(np) {
							return
						}
						if idx >= 0 && idx < len(ci.Common().Args) {
							out = append(out, ci.Common().Args[idx])
						}
					})
				}
			}
		}
	}
	return out
}

// ---- R16f: the publishing monitor publishes on every path ------------------------------------------------
//
// The commander calls the monitor once per persisted change (R16a/b/e); the monitor that is wired to the bus must
// turn every such call into a message. Each method of bus.ledgerMonitor required by bus.Monitor reaches
// message.Publisher.Publish on every returning path (helpers of the package are stepped through): no early return,
// no filter that drops an event for a change that is committed (a "do not announce twice" high-water mark drops the
// event of the slower of two concurrent writers).
func ruleR16f(c *Ctx) {
	const rule = "R16f"
	mon := c.Named(pkgBus, "Monitor")
	if mon == nil {
		c.undecided(rule, "anchor:bus.Monitor", token.NoPos, "interface not found")
		return
	}
	it, ok := mon.Underlying().(*types.Interface)
	if !ok {
		return
	}
	isPublish := func(ci ssa.CallInstruction) bool {
		cc := ci.Common()
		return cc.IsInvoke() && cc.Method.Name() == "Publish" && isNamed(cc.Value.Type(), "github.com/ThreeDotsLabs/watermill/message", "Publisher")
	}
	n := 0
	for i := 0; i < it.NumMethods(); i++ {
		name := it.Method(i).Name()
		fn := c.Fn(pkgBus, "ledgerMonitor."+name)
		key := "ledgerMonitor." + name + ":publishes-on-every-path"
		if fn == nil || len(fn.Blocks) == 0 {
			c.undecided(rule, key, token.NoPos, "bus.ledgerMonitor."+name+" not found")
			continue
		}
		n++
		c.seeFn(fn)
		obl := newOblSet(c, rule)
		obl.expect(key, fn.Pos(), "every returning path has handed a message to the publisher")
		pr := &PathRule{
			Inline: func(call ssa.CallInstruction) []*ssa.Function {
				if g := staticCallee(call); g != nil && fnPkgPath(origin(g)) == pkgBus && len(g.Blocks) > 0 {
					return []*ssa.Function{g}
				}
				return nil
			},
			MaxDepth: 3,
			Step: func(pc *PathCtx, s uint64, ins ssa.Instruction) uint64 {
				if ci, ok := ins.(ssa.CallInstruction); ok && isPublish(ci) {
					return s | 1
				}
				return s
			},
			Exit: func(pc *PathCtx, s uint64, ins ssa.Instruction) {
				if pc.parent != nil {
					return
				}
				if _, isRet := ins.(*ssa.Return); isRet && s&1 == 0 {
					obl.violate(key, ins.Pos(), "bus.ledgerMonitor."+name+" returns on a path that published nothing: a committed change is never announced", pc.Trail())
				}
			},
		}
		c.RunPaths(fn, 0, pr)
		obl.flush()
	}
	if n < 4 {
		c.undecided(rule, "floor:monitor-methods", token.NoPos, fmt.Sprintf("expected the four methods of bus.Monitor on ledgerMonitor, found %d", n))
	}
}
