package main

func init() {
	const acc = "internal/storage/ledgerstore/accounts.go"
	const txs = "internal/storage/ledgerstore/transactions.go"
	const bal = "internal/storage/ledgerstore/balances.go"
	const logs = "internal/storage/ledgerstore/logs.go"
	const utils = "internal/storage/ledgerstore/utils.go"
	const expr = "libs/query/expression.go"
	addMutants(
		Mutant{Property: "C20", Name: "address-guard-removed-accounts", File: acc,
			Old: "\t\t\t\tif !ledger.AccountFilterRegexp.MatchString(address) {\n\t\t\t\t\treturn \"\", nil, newErrInvalidQuery(\"invalid address pattern for column 'address'\")\n\t\t\t\t}\n", New: "", Expect: "R20a:(*internal/storage/ledgerstore.Store).accountQueryContext$1:value-never-becomes-sql-text"},
		Mutant{Property: "C20", Name: "address-guard-removed-destination", File: txs,
			Old: "\t\t\t\tif !ledger.AccountFilterRegexp.MatchString(address) {\n\t\t\t\t\treturn \"\", nil, newErrInvalidQuery(\"invalid address pattern for column 'destination'\")\n\t\t\t\t}\n", New: "", Expect: "R20a:(*internal/storage/ledgerstore.Store).transactionQueryContext$1:value-never-becomes-sql-text"},
		Mutant{Property: "C20", Name: "address-guard-only-logs", File: bal,
			Old: "\t\t\t\t\tif !ledger.AccountFilterRegexp.MatchString(address) {\n\t\t\t\t\t\treturn \"\", nil, newErrInvalidQuery(\"invalid address pattern for column 'address'\")\n\t\t\t\t\t}\n", New: "\t\t\t\t\tif !ledger.AccountFilterRegexp.MatchString(address) {\n\t\t\t\t\t\tneedMetadata = false\n\t\t\t\t\t}\n", Expect: "R20a:"},
		Mutant{Property: "C20", Name: "filter-regexp-loosened", File: "internal/account.go",
			Old: "const AccountFilterPattern = \"^(\" + AccountSegmentRegex + \")?(:(\" + AccountSegmentRegex + \")?)*$\"", New: "const AccountFilterPattern = \"^(\" + AccountSegmentRegex + \")?(:(\" + AccountSegmentRegex + \")?)*\"", Expect: "R20a:"},
		Mutant{Property: "C20", Name: "filter-regexp-allows-any-char", File: "internal/account.go",
			Old: "const AccountFilterPattern = \"^(\" + AccountSegmentRegex + \")?(:(\" + AccountSegmentRegex + \")?)*$\"", New: "const AccountFilterPattern = \"^(\" + AccountSegmentRegex + \"|[^:]+)?(:(\" + AccountSegmentRegex + \")?)*$\"", Expect: "R20a:"},
		Mutant{Property: "C20", Name: "metadata-key-formatted", File: acc,
			Old: "\t\t\treturn key + \" @> ?\", []any{map[string]any{\n\t\t\t\tmatch[0][1]: value,\n\t\t\t}}, nil\n\t\tcase balanceRegex", New: "\t\t\treturn fmt.Sprintf(\"%s -> '%s' = ?\", key, match[0][1]), []any{value}, nil\n\t\tcase balanceRegex",
			Edits: []Edit{{File: acc, Old: "import (\n\t\"context\"\n\t\"errors\"\n", New: "import (\n\t\"context\"\n\t\"errors\"\n\t\"fmt\"\n"}}, Expect: "R20a:(*internal/storage/ledgerstore.Store).accountQueryContext$1:key-never-becomes-sql-text"},
		Mutant{Property: "C20", Name: "operator-formatted-raw", File: logs,
			Old: "return fmt.Sprintf(\"%s %s ?\", key, query.DefaultComparisonOperatorsMapping[operator]), []any{value}, nil", New: "return fmt.Sprintf(\"%s %s ?\", key, strings.TrimPrefix(operator, \"$\")), []any{value}, nil",
			Edits: []Edit{{File: logs, Old: "import (\n\t\"context\"\n", New: "import (\n\t\"context\"\n\t\"strings\"\n"}}, Expect: "R20a:(*internal/storage/ledgerstore.Store).logsQueryBuilder$1$1:operator-never-becomes-sql-text"},
		Mutant{Property: "C20", Name: "reference-value-inlined", File: txs,
			Old: "\t\tcase key == \"reference\" || key == \"timestamp\":\n\t\t\treturn fmt.Sprintf(\"%s %s ?\", key, query.DefaultComparisonOperatorsMapping[operator]), []any{value}, nil", New: "\t\tcase key == \"reference\" || key == \"timestamp\":\n\t\t\treturn fmt.Sprintf(\"%s %s '%v'\", key, query.DefaultComparisonOperatorsMapping[operator], value), nil, nil", Expect: "R20a:(*internal/storage/ledgerstore.Store).transactionQueryContext$1:value-never-becomes-sql-text"},
		Mutant{Property: "C20", Name: "reference-value-as-bun-safe", File: txs,
			Old: "\t\tcase key == \"reference\" || key == \"timestamp\":\n\t\t\treturn fmt.Sprintf(\"%s %s ?\", key, query.DefaultComparisonOperatorsMapping[operator]), []any{value}, nil", New: "\t\tcase key == \"reference\" || key == \"timestamp\":\n\t\t\treturn fmt.Sprintf(\"%s %s ?\", key, query.DefaultComparisonOperatorsMapping[operator]), []any{bun.Safe(fmt.Sprint(value))}, nil", Expect: "R20d:"},
		Mutant{Property: "C20", Name: "key-as-bun-ident-after-constant-test", File: txs,
			Old: "\t\tcase key == \"reference\" || key == \"timestamp\":\n\t\t\treturn fmt.Sprintf(\"%s %s ?\", key, query.DefaultComparisonOperatorsMapping[operator]), []any{value}, nil", New: "\t\tcase key == \"reference\" || key == \"timestamp\":\n\t\t\treturn fmt.Sprintf(\"? %s ?\", query.DefaultComparisonOperatorsMapping[operator]), []any{bun.Ident(\"transactions.reference\"), value}, nil", Expect: "none", Benign: true},
		Mutant{Property: "C20", Name: "pit-as-safe-query-from-request", File: acc,
			Old: "\t\t\tWhere(\"accounts.address = ?\", q.Addr).", New: "\t\t\tWhere(\"accounts.address = ?\", bun.Safe(\"'\"+q.Addr+\"'\")).", Expect: "R20d:"},
		Mutant{Property: "C20", Name: "rendered-subquery-formatted-again-with-args", File: txs,
			Old: "Join(fmt.Sprintf(`left join lateral (%s) as transactions_metadata on true`, selectMetadata.String())).", New: "Join(fmt.Sprintf(`left join lateral (%s) as transactions_metadata on true and ? is not null`, selectMetadata.String()), store.name).", Expect: "R20e:"},
		Mutant{Property: "C20", Name: "unknown-key-passed-through", File: logs,
			Old: "\t\t\t\tdefault:\n\t\t\t\t\treturn \"\", nil, fmt.Errorf(\"unknown key '%s' when building query\", key)", New: "\t\t\t\tdefault:\n\t\t\t\t\treturn key + \" = ?\", []any{value}, nil", Expect: "R20a:(*internal/storage/ledgerstore.Store).logsQueryBuilder$1$1:key-never-becomes-sql-text"},
		Mutant{Property: "C20", Name: "combinator-operator-from-client", File: expr,
			Old: "\tcase \"$and\", \"$or\":\n\t\tand, err := parseSet(operator, value)", New: "\tcase \"$and\", \"$or\", \"$xor\":\n\t\tand, err := parseSet(operator, value)",
			Expect: "none", Benign: true},
		Mutant{Property: "C20", Name: "combinator-any-operator", File: expr,
			Old: "\tdefault:\n\t\treturn nil, fmt.Errorf(\"unexpected operator %s\", operator)\n\t}\n}", New: "\tdefault:\n\t\tif strings.HasPrefix(operator, \"$\") {\n\t\t\treturn parseSet(operator, value)\n\t\t}\n\t\treturn nil, fmt.Errorf(\"unexpected operator %s\", operator)\n\t}\n}", Expect: "R20b:"},
		Mutant{Property: "C20", Name: "not-formats-key", File: expr,
			Old: "func (k keyValue) Build(ctx Context) (string, []any, error) {\n\treturn ctx.BuildMatcher(k.key, k.operator, k.value)\n}", New: "func (k keyValue) Build(ctx Context) (string, []any, error) {\n\tsql, args, err := ctx.BuildMatcher(k.key, k.operator, k.value)\n\treturn sql + \" /* \" + k.key + \" */\", args, err\n}", Expect: "R20b:"},
		Mutant{Property: "C20", Name: "pit-column-from-request", File: acc,
			Old: "Apply(filterPIT(q.PIT, \"insertion_date\")).", New: "Apply(filterPIT(q.PIT, store.name+\"_date\")).", Expect: "R20c:"},
		Mutant{Property: "C20", Name: "address-in-where-format", File: acc,
			Old: "\t\t\tWhere(\"accounts.address = ?\", q.Addr).", New: "\t\t\tWhere(\"accounts.address = '\" + q.Addr + \"'\").", Expect: "R20c:"},
	)
}
