package main

// R12g — no error of the compiler's visitors is dropped. Every call, in package compiler, of a function
// whose results include *CompileError or error must use that result (compare, return, store or pass it).
// A dropped error lets an ill-formed construct through to code generation, and the VM then fails on a
// typed pop (F19: the portions check of a *source* allotment).
//
// R12h — variable values are never nil pointers. In machine.NewValueFromString every value of pointer
// type that becomes the result was either returned together with an error that was tested, or is a
// decoding target that is compared with nil on every path to its use (F20: JSON `null` for a number).

import (
	"fmt"
	"go/token"
	"go/types"

	"golang.org/x/tools/go/ssa"
)

func isErrorish(t types.Type) bool {
	if isNamed(t, "", "error") {
		return true
	}
	if n, ok := t.(*types.Named); ok && n.Obj().Pkg() == nil && n.Obj().Name() == "error" {
		return true
	}
	if p, ok := t.(*types.Pointer); ok {
		return isNamed(p.Elem(), pkgCompiler, "CompileError")
	}
	return false
}

func ruleR12g(c *Ctx) {
	const rule = "R12g"
	nCalls := 0
	for _, fn := range c.FuncsIn(pkgCompiler) {
		if len(fn.Blocks) == 0 || fn.Synthetic != "" {
			continue
		}
		n := 0
		for _, b := range fn.Blocks {
			for _, ins := range b.Instrs {
				call, ok := ins.(*ssa.Call)
				if !ok {
					continue
				}
				callee := staticCallee(call)
				if callee == nil || !inRepo(fnPkgPath(callee)) {
					continue
				}
				sig := callee.Signature
				errIdx := -1
				for i := 0; i < sig.Results().Len(); i++ {
					if isErrorish(sig.Results().At(i).Type()) {
						errIdx = i
					}
				}
				if errIdx < 0 {
					continue
				}
				nCalls++
				used := false
				for _, r := range *call.Referrers() {
					switch u := r.(type) {
					case *ssa.DebugRef:
					case *ssa.Extract:
						if u.Index == errIdx && hasRealReferrer(u) {
							used = true
						}
					default:
						if sig.Results().Len() == 1 {
							used = true
						}
						if _, isRet := r.(*ssa.Return); isRet {
							used = true
						}
					}
				}
				if !used {
					n++
					c.bad(rule, fmt.Sprintf("%s:error-of-%s-used#%d", fnName(fn), callee.Name(), n), call.Pos(), fmt.Sprintf("%s drops the error returned by %s: a construct the callee rejects is compiled anyway, and the program fails inside the VM (panic on a typed pop) instead of being refused", fnName(fn), fnName(callee)))
				}
			}
		}
	}
	c.NSites += nCalls
	if nCalls < 40 {
		c.undecided(rule, "floor:error-returning-calls", token.NoPos, fmt.Sprintf("only %d calls of error-returning repository functions found in package compiler", nCalls))
		return
	}
	c.ok(rule, "compiler-errors-are-never-dropped", token.NoPos, fmt.Sprintf("%d calls of error-returning functions in package compiler: every error result is used", nCalls))
}

func hasRealReferrer(v ssa.Value) bool {
	refs := v.Referrers()
	if refs == nil {
		return false
	}
	for _, r := range *refs {
		if _, isDbg := r.(*ssa.DebugRef); !isDbg {
			return true
		}
	}
	return false
}

func ruleR12h(c *Ctx) {
	const rule = "R12h"
	fn := c.MustFn(rule, pkgMachine, "NewValueFromString")
	if fn == nil {
		return
	}
	n := 0
	for _, b := range fn.Blocks {
		for _, ins := range b.Instrs {
			mi, ok := ins.(*ssa.MakeInterface)
			if !ok || !isNamed(mi.Type(), pkgMachine, "Value") {
				continue
			}
			if _, isPtr := mi.X.Type().Underlying().(*types.Pointer); !isPtr {
				continue
			}
			n++
			key := fmt.Sprintf("NewValueFromString:pointer-value-not-nil#%d", n)
			why, ok := nonNilPointer(c, fn, mi, mi.X)
			c.check(ok, rule, key, mi.Pos(), why, "a value of pointer type ("+mi.X.Type().String()+") becomes a variable value without having been shown non-nil ("+why+"): JSON `null` yields a nil pointer that the VM dereferences")
		}
	}
	if n == 0 {
		c.ok(rule, "NewValueFromString:no-pointer-values", fn.Pos(), "no pointer-typed value is produced")
	}
}

// nonNilPointer: is v non-nil at use? Accepted: the pointer result of a call whose error result was tested
// nil on every path to the use; a load of a local that was compared with nil (non-nil edge) on every path.
func nonNilPointer(c *Ctx, fn *ssa.Function, use ssa.Instruction, v ssa.Value) (string, bool) {
	if ex, ok := v.(*ssa.Extract); ok {
		if call, ok := ex.Tuple.(*ssa.Call); ok {
			sig := call.Call.Signature()
			errIdx := errResultIdx(sig)
			if errIdx >= 0 && errIdx != ex.Index {
				if guardedByFact(c, fn, use, func(f Fact) (bool, bool) {
					if e2, ok := f.X.(*ssa.Extract); ok && e2.Tuple == ssa.Value(call) && e2.Index == errIdx && isNilConst(f.Y) {
						return true, f.Eq
					}
					return false, false
				}) {
					return "returned by " + calleeFullName(call) + " together with an error that is nil on this path", true
				}
			}
		}
		return "result of a call whose error is not tested on every path", false
	}
	if u, ok := v.(*ssa.UnOp); ok && u.Op == token.MUL {
		if a, ok := u.X.(*ssa.Alloc); ok {
			if guardedByFact(c, fn, use, func(f Fact) (bool, bool) {
				if l, ok := f.X.(*ssa.UnOp); ok && l.Op == token.MUL && l.X == ssa.Value(a) && isNilConst(f.Y) {
					return true, !f.Eq
				}
				return false, false
			}) {
				return "compared with nil on every path to its use", true
			}
			return "decoded into a local that is never compared with nil", false
		}
	}
	if _, ok := v.(*ssa.Alloc); ok {
		return "address of a local", true
	}
	return "provenance not recognised", false
}

// guardedByFact: every path from the entry to `use` crosses an edge on which match reports (relevant, holds=true)
// after the last edge on which it reported (relevant, holds=false).
func guardedByFact(c *Ctx, fn *ssa.Function, use ssa.Instruction, match func(Fact) (relevant, holds bool)) bool {
	ok, seen := true, false
	pr := &PathRule{
		Edge: func(pc *PathCtx, s uint64, from *ssa.BasicBlock, si int) (uint64, bool) {
			for _, f := range pc.edgeFacts(from, si) {
				if rel, holds := match(f); rel {
					if holds {
						s |= 1
					} else {
						s &^= 1
					}
				}
			}
			return s, true
		},
		Step: func(pc *PathCtx, s uint64, ins ssa.Instruction) uint64 {
			if ins == use {
				seen = true
				if s&1 == 0 {
					ok = false
				}
			}
			return s
		},
	}
	c.RunPaths(fn, 0, pr)
	return ok && seen
}
