package main

// Mutants for the rules added after the micro-mutation wave (one-token / one-line changes).
func init() {
	const mach = "internal/machine/vm/machine.go"
	const comp = "internal/machine/script/compiler/compiler.go"
	const txn = "internal/transaction.go"
	const v1tx = "internal/api/v1/controllers_transactions.go"
	const logf = "internal/log.go"
	const iter = "libs/bun/bunpaginate/iterate.go"
	const cmdr = "internal/engine/command/commander.go"
	const v1u = "internal/api/v1/utils.go"
	const v2q = "internal/api/v2/query.go"
	const bulk = "internal/api/v2/controllers_bulk.go"
	const rtr = "internal/api/router.go"
	const refr = "internal/engine/command/reference.go"
	const batch = "internal/engine/utils/batching/batcher.go"
	addMutants(
		// R08g
		Mutant{Property: "C08", Name: "monetary-sub-operands-swapped", File: mach,
			Old: "\t\t\tAmount: a.Amount.Sub(b.Amount),", New: "\t\t\tAmount: b.Amount.Sub(a.Amount),", Expect: "R08g:tick:OP_MONETARY_SUB"},
		Mutant{Property: "C08", Name: "isub-pops-left-first", File: mach,
			Old: "\tcase program.OP_ISUB:\n\t\tb := pop[machine.Number](m)\n\t\ta := pop[machine.Number](m)", New: "\tcase program.OP_ISUB:\n\t\ta := pop[machine.Number](m)\n\t\tb := pop[machine.Number](m)", Expect: "R08g:tick:OP_ISUB"},
		Mutant{Property: "C08", Name: "benign-isub-named-operands", File: mach,
			Old: "\tcase program.OP_ISUB:\n\t\tb := pop[machine.Number](m)\n\t\ta := pop[machine.Number](m)\n\t\tm.pushValue(a.Sub(b))", New: "\tcase program.OP_ISUB:\n\t\tright := pop[machine.Number](m)\n\t\tleft := pop[machine.Number](m)\n\t\tdiff := left.Sub(right)\n\t\tm.pushValue(diff)", Expect: "none", Benign: true},
		// R08h
		Mutant{Property: "C08", Name: "number-plus-monetary-accepted", File: comp,
			Old: "\t\t\tif rhsType != machine.TypeNumber {", New: "\t\t\tif rhsType != machine.TypeNumber && rhsType != machine.TypeMonetary {", Expect: "R08h:"},
		Mutant{Property: "C08", Name: "monetary-rhs-unchecked", File: comp,
			Old: "\t\t\tif rhsType != machine.TypeMonetary {\n\t\t\t\treturn 0, nil, LogicError(c, fmt.Errorf(\n\t\t\t\t\t\"tried to do an arithmetic operation with incompatible left and right-hand side operand types: %s and %s\",\n\t\t\t\t\tlhsType, rhsType))\n\t\t\t}\n", New: "\t\t\t_ = rhsType\n", Expect: "R08h:"},
		Mutant{Property: "C08", Name: "benign-rhs-compared-with-lhs", File: comp,
			Old: "\t\t\tif rhsType != machine.TypeMonetary {", New: "\t\t\tif rhsType != lhsType {", Expect: "none", Benign: true},
		// R09l
		Mutant{Property: "C09", Name: "v2-postings-request-loses-reference", File: txn,
			Old: "\t\t\tTimestamp: req.Timestamp,\n\t\t\tReference: req.Reference,\n", New: "\t\t\tTimestamp: req.Timestamp,\n", Expect: "R09l:"},
		Mutant{Property: "C09", Name: "v1-script-request-loses-metadata", File: v1tx,
			Old: "\t\tReference: payload.Reference,\n\t\tMetadata:  payload.Metadata,\n\t}", New: "\t\tReference: payload.Reference,\n\t}", Expect: "R09l:"},
		Mutant{Property: "C09", Name: "v2-script-request-timestamp-now", File: txn,
			Old: "\t\tScript:    req.Script.ToCore(),\n\t\tTimestamp: req.Timestamp,", New: "\t\tScript:    req.Script.ToCore(),\n\t\tTimestamp: Now(),", Expect: "R09l:"},
		Mutant{Property: "C09", Name: "benign-request-fields-assigned-one-by-one", File: txn,
			Old: "\treturn &RunScript{\n\t\tScript:    req.Script.ToCore(),\n\t\tTimestamp: req.Timestamp,\n\t\tReference: req.Reference,\n\t\tMetadata:  req.Metadata,\n\t}", New: "\tret := &RunScript{}\n\tret.Script = req.Script.ToCore()\n\tret.Metadata = req.Metadata\n\tret.Reference = req.Reference\n\tret.Timestamp = req.Timestamp\n\treturn ret", Expect: "none", Benign: true},
		// R13h extensions
		Mutant{Property: "C13", Name: "delete-metadata-key-not-restored", File: logf,
			Old: "\t\tTargetID:   id,\n\t\tKey:        x.Key,\n", New: "\t\tTargetID:   id,\n", Expect: "R13h:ledger.DeleteMetadataLogPayload.UnmarshalJSON:decoded-Key"},
		Mutant{Property: "C13", Name: "set-metadata-id-parsed-32-bits", File: logf,
			Old: "\t\tid, err = strconv.ParseUint(string(x.TargetID), 10, 64)", New: "\t\tid, err = strconv.ParseUint(string(x.TargetID), 10, 32)", Nth: 1, Expect: "R13h:ledger.SetMetadataLogPayload.UnmarshalJSON:ParseUint"},
		Mutant{Property: "C13", Name: "benign-payload-filled-field-by-field", File: logf,
			Old: "\t*s = DeleteMetadataLogPayload{\n\t\tTargetType: x.TargetType,\n\t\tTargetID:   id,\n\t\tKey:        x.Key,\n\t}", New: "\ts.TargetType = x.TargetType\n\ts.TargetID = id\n\ts.Key = x.Key", Expect: "none", Benign: true},
		// R17g
		Mutant{Property: "C17", Name: "iterate-follows-previous", File: iter,
			Old: "UnmarshalCursor(cursor.Next, newQuery.Interface())", New: "UnmarshalCursor(cursor.Previous, newQuery.Interface())", Expect: "R17g:"},
		Mutant{Property: "C17", Name: "benign-iterate-token-in-local", File: iter,
			Old: "\t\tif err := UnmarshalCursor(cursor.Next, newQuery.Interface()); err != nil {", New: "\t\tnextToken := cursor.Next\n\t\tif err := UnmarshalCursor(nextToken, newQuery.Interface()); err != nil {", Expect: "none", Benign: true},
		// R12j
		Mutant{Property: "C12", Name: "unlock-deferred-after-run", File: cmdr,
			Old: "\t\tdefer unlock(ctx)\n\n\t\terr = m.ResolveBalances(ctx, commander.store)", New: "\t\terr = m.ResolveBalances(ctx, commander.store)",
			Edits:  []Edit{{File: cmdr, Old: "\t\t\treturn nil, nil, NewErrMachine(err)\n\t\t}\n\n\t\tif len(result.Postings) == 0 {", New: "\t\t\treturn nil, nil, NewErrMachine(err)\n\t\t}\n\t\tdefer unlock(ctx)\n\n\t\tif len(result.Postings) == 0 {"}},
			Expect: "R12j:"},
		// R14h
		Mutant{Property: "C14", Name: "v2-true-case-sensitive", File: v2q,
			Old: "strings.ToUpper(dryRunAsString) == \"TRUE\"", New: "dryRunAsString == \"true\"", Expect: "R14h:"},
		Mutant{Property: "C14", Name: "v1-true-not-accepted", File: v1u,
			Old: " || strings.ToUpper(dryRunAsString) == \"TRUE\"", New: "", Expect: "R14h:"},
		Mutant{Property: "C14", Name: "benign-both-readers-use-equalfold", File: v2q,
			Old: "strings.ToUpper(dryRunAsString) == \"YES\" || strings.ToUpper(dryRunAsString) == \"TRUE\"", New: "strings.EqualFold(dryRunAsString, \"yes\") || strings.EqualFold(dryRunAsString, \"true\")",
			Edits:  []Edit{{File: v1u, Old: "strings.ToUpper(dryRunAsString) == \"YES\" || strings.ToUpper(dryRunAsString) == \"TRUE\"", New: "strings.EqualFold(dryRunAsString, \"yes\") || strings.EqualFold(dryRunAsString, \"true\")"}},
			Expect: "none", Benign: true},
		// R18h / R09k
		Mutant{Property: "C18", Name: "bulk-decode-error-falls-through", File: bulk,
			Old: "\t\tsharedapi.BadRequest(w, ErrValidation, err)\n\t\treturn\n\t}\n\n\tw.Header()", New: "\t\tsharedapi.BadRequest(w, ErrValidation, err)\n\t}\n\n\tw.Header()", Expect: "R18h:"},
		Mutant{Property: "C09", Name: "v1-invalid-payload-falls-through", File: v1tx,
			Old: "\t\tsharedapi.BadRequest(w, ErrValidation, errors.New(\"invalid payload: should contain either postings or script\"))\n\t\treturn\n", New: "\t\tsharedapi.BadRequest(w, ErrValidation, errors.New(\"invalid payload: should contain either postings or script\"))\n", Expect: "R09k:"},
		// R19b With vs Use
		Mutant{Property: "C19", Name: "gate-installed-with-With", File: rtr,
			Old: "\t\tmux.Use(ReadOnly)", New: "\t\tmux.With(ReadOnly)", Expect: "R19b:"},
		// R07h / R10h / R11e
		Mutant{Property: "C11", Name: "release-clears-the-table", File: refr,
			Old: "\tr.references[ref].Delete(fmt.Sprintf(\"%d/%s\", ref, key))", New: "\tr.references[ref].Clear()", Expect: "R11e:"},
		Mutant{Property: "C07", Name: "release-deletes-another-format", File: refr,
			Old: "\tr.references[ref].Delete(fmt.Sprintf(\"%d/%s\", ref, key))", New: "\tr.references[ref].Delete(fmt.Sprintf(\"%d-%s\", ref, key))", Expect: "R07h:"},
		Mutant{Property: "C10", Name: "release-deletes-from-another-table", File: refr,
			Old: "\tr.references[ref].Delete(fmt.Sprintf(\"%d/%s\", ref, key))", New: "\tr.references[referenceIks].Delete(fmt.Sprintf(\"%d/%s\", ref, key))", Expect: "R10h:"},
		Mutant{Property: "C11", Name: "benign-referencer-key-helper", File: refr,
			Old: "\tr.references[ref].Delete(fmt.Sprintf(\"%d/%s\", ref, key))", New: "\tr.references[ref].Delete(referenceKey(ref, key))",
			Edits: []Edit{
				{File: refr, Old: "\t_, loaded := r.references[ref].LoadOrStore(fmt.Sprintf(\"%d/%s\", ref, key), struct{}{})", New: "\t_, loaded := r.references[ref].LoadOrStore(referenceKey(ref, key), struct{}{})"},
				{File: refr, Old: "func NewReferencer() *Referencer {", New: "func referenceKey(ref Reference, key any) string {\n\treturn fmt.Sprintf(\"%d/%s\", ref, key)\n}\n\nfunc NewReferencer() *Referencer {"},
			}, Expect: "none", Benign: true},
		// R06i
		Mutant{Property: "C06", Name: "batch-job-swallows-the-persistence-error", File: batch,
			Old: "\t\treturn runner(ctx, collectionutils.Map(job.items, func(from *pending[T]) T {\n\t\t\treturn from.object\n\t\t})...)", New: "\t\t_ = runner(ctx, collectionutils.Map(job.items, func(from *pending[T]) T {\n\t\t\treturn from.object\n\t\t})...)\n\t\treturn nil", Expect: "R06i:"},
		Mutant{Property: "C06", Name: "benign-batch-job-error-in-local", File: batch,
			Old: "\t\treturn runner(ctx, collectionutils.Map(job.items, func(from *pending[T]) T {\n\t\t\treturn from.object\n\t\t})...)", New: "\t\tobjects := collectionutils.Map(job.items, func(from *pending[T]) T {\n\t\t\treturn from.object\n\t\t})\n\t\tif err := runner(ctx, objects...); err != nil {\n\t\t\treturn err\n\t\t}\n\t\treturn nil", Expect: "none", Benign: true},
	)
}
