package main

func init() {
	const cmdr = "internal/engine/command/commander.go"
	const ctxf = "internal/engine/command/context.go"
	const bat = "internal/engine/utils/batching/batcher.go"
	addMutants(
		Mutant{Property: "C05", Name: "handoff-outside-mutex", File: cmdr,
			Old: "\tcommander.lastLog = chainedLog\n\tcommander.Append(chainedLog, callback)\n\n\treturn chainedLog\n}",
			New: "\tcommander.lastLog = chainedLog\n\tcommander.mu.Unlock()\n\tcommander.Append(chainedLog, callback)\n\tcommander.mu.Lock()\n\n\treturn chainedLog\n}",
			Expect: "R05a:"},
		Mutant{Property: "C05", Name: "txid-allocated-in-own-region", File: cmdr,
			Old: "\tcommander.mu.Lock()\n\tdefer commander.mu.Unlock()\n\n\tnextTXID := big.NewInt(0).Add(commander.lastTXID, big.NewInt(1))\n\tchainedLog :=",
			New: "\tcommander.mu.Lock()\n\tnextTXID := big.NewInt(0).Add(commander.lastTXID, big.NewInt(1))\n\tif allocateTXID {\n\t\tcommander.lastTXID = nextTXID\n\t}\n\tcommander.mu.Unlock()\n\tcommander.mu.Lock()\n\tdefer commander.mu.Unlock()\n\tchainedLog :=",
			Expect: "R05a:(*internal/engine/command.Commander).appendLog:txid-published-with-its-log"},
		Mutant{Property: "C05", Name: "dry-run-consumes-id", File: cmdr,
			Old: "func (commander *Commander) peekNextTXID() *big.Int {\n\tcommander.mu.Lock()\n\tdefer commander.mu.Unlock()\n\n\treturn big.NewInt(0).Add(commander.lastTXID, big.NewInt(1))",
			New: "func (commander *Commander) peekNextTXID() *big.Int {\n\tcommander.mu.Lock()\n\tdefer commander.mu.Unlock()\n\n\tcommander.lastTXID = big.NewInt(0).Add(commander.lastTXID, big.NewInt(1))\n\treturn commander.lastTXID",
			Expect: "R05a:(*internal/engine/command.Commander).peekNextTXID:txid-published-with-its-log"},
		Mutant{Property: "C05", Name: "peek-without-mutex", File: cmdr,
			Old: "func (commander *Commander) peekNextTXID() *big.Int {\n\tcommander.mu.Lock()\n\tdefer commander.mu.Unlock()\n\n", New: "func (commander *Commander) peekNextTXID() *big.Int {\n", Expect: "R05g:"},
		Mutant{Property: "C05", Name: "txid-plus-two", File: cmdr,
			Old: "\tnextTXID := big.NewInt(0).Add(commander.lastTXID, big.NewInt(1))\n\tchainedLog", New: "\tnextTXID := big.NewInt(0).Add(commander.lastTXID, big.NewInt(2))\n\tchainedLog", Expect: "R05b:"},
		Mutant{Property: "C05", Name: "chain-on-nil", File: cmdr,
			Old: "logBuilder(nextTXID).ChainLog(commander.lastLog)", New: "logBuilder(nextTXID).ChainLog(nil)", Expect: "R05a:(*internal/engine/command.Commander).appendLog:chained-on-current-head"},
		Mutant{Property: "C05", Name: "log-gets-other-id", File: cmdr,
			Old: "logBuilder(nextTXID).ChainLog(commander.lastLog)", New: "logBuilder(commander.lastTXID).ChainLog(commander.lastLog)", Expect: "R05b:"},
		Mutant{Property: "C05", Name: "two-workers", File: cmdr,
			Old: "batching.NewBatcher(store.InsertLogs, 1, 4096)", New: "batching.NewBatcher(store.InsertLogs, 2, 4096)", Expect: "R05d:"},
		Mutant{Property: "C05", Name: "pending-without-mutex", File: bat,
			Old: "\ts.mu.Lock()\n\ts.pending = append(s.pending, &pending[T]{\n\t\tcallback: callback,\n\t\tobject:   object,\n\t})\n\ts.mu.Unlock()", New: "\ts.pending = append(s.pending, &pending[T]{\n\t\tcallback: callback,\n\t\tobject:   object,\n\t})", Expect: "R05d:"},
		Mutant{Property: "C05", Name: "init-skips-last-log", File: cmdr,
			Old: "\tcommander.lastLog, err = commander.store.GetLastLog(ctx)\n\tif err != nil && !storageerrors.IsNotFoundError(err) {\n\t\treturn err\n\t}\n\treturn nil", New: "\treturn nil", Expect: "R05e:Init"},
		Mutant{Property: "C05", Name: "run-before-init", File: "internal/engine/ledger.go",
			Old: "\tif err := l.commander.Init(ctx); err != nil {\n\t\tpanic(err)\n\t}\n\tgo l.commander.Run(logging.ContextWithField(ctx, \"component\", \"commander\"))", New: "\tgo l.commander.Run(logging.ContextWithField(ctx, \"component\", \"commander\"))\n\tif err := l.commander.Init(ctx); err != nil {\n\t\tpanic(err)\n\t}", Expect: "R05e:"},
		Mutant{Property: "C05", Name: "id-not-from-previous", File: "internal/log.go",
			Old: "ret.ID = ret.ID.Add(previous.ID, big.NewInt(1))", New: "ret.ID = ret.ID.Add(ret.ID, big.NewInt(1))", Expect: "R05f:ChainLog:id=previous.id+1"},
	)
}
