package main

import (
	"sort"
	"fmt"
	"go/token"
	"go/types"
	"strings"

	"golang.org/x/tools/go/ssa"
)

func init() {
	register("C02", propMeta{
		Level: "other",
		Explanation: "Decides the structural mechanism that serializability of concurrent transactions rests on, for all schedules at once (path quantification replaces schedule quantification). " +
			"R02a (path state machine over every function that calls Locker.Lock): on every CFG path the balance read (ResolveBalances), the execution (vm.Run) and the log hand-off happen while the account lock is held, and the lock is released (directly or by defer) only on paths that have waited for the persistence signal of the appended log (or where the append failed); every production call site of ResolveBalances/vm.Run lies in such a function. " +
			"R02b: the Read/Write sets passed to Lock derive from ResolveResources' results of the same machine through Filter(not world) only; in ResolveResources every clause that can yield an account records it in the involved-accounts map; sources map lookup; compiler emits sources for TAKE_ALL/TAKE_ALWAYS. " +
			"R02c: lock compatibility matrix of DefaultLocker.tryLock (shared with C15). R02d: the production commander is built with NewDefaultLocker; NoOpLocker is unreferenced in production code. R05h (shared with C05): taking a batch from the batcher never aliases the buffer later appends write into — the completion callback that releases the account lock belongs to the log that was persisted. R15c/R15d (shared with C15): giving accounts back and re-examining the queue happen under the mutex, and a cancelled request gives back only what it was granted. R02h: collectionutils.FilterNot (the `not world` filter of the lock request) returns the negation of the predicate it is given. R02g: the sort.Interface the compiler orders Program.Sources with (machine.Addresses) exchanges two elements in Swap — each stored from the value the other index held before either store (a sequential assignment drops a source account from the write set).",
		NotDecided:  "that lock + persistence wait + read-your-writes of the store imply serializability (argued in DESIGN.md, not checked); PostgreSQL isolation; the arithmetic of balances.",
		Trusted:     []string{"sync.Mutex / channel / defer semantics", "the store's balance read observes every log whose InsertLogs has returned"},
		Assumptions: []string{"callbacks given to Batcher.Append run only after a successful InsertLogs (checked under C06 R06c)"},
	}, func(c *Ctx) {
		ruleR02a(c, "R02a")
		ruleSwapExchanges(c, "R02g", pkgMachine, 1)
		ruleR05h(c)
		ruleFilterNotNegates(c, "R02h")
		ruleR02b(c)
		ruleR15b(c, "R02c")
		ruleR15cd(c)
		ruleR02d(c)
	})
}

const (
	lkHELD     = 1 << 0
	lkAPPENDED = 1 << 1
	lkWAITED   = 1 << 2
	lkRELEASED = 1 << 3
)

// vmCritical classifies calls into the VM that read balances or execute a program.
func (m *cmdModel) vmCritical(c *Ctx, ci ssa.CallInstruction) string {
	for _, f := range c.CalleesOf(ci) {
		pk := fnPkgPath(f)
		if pk != pkgVM {
			continue
		}
		name := f.Name()
		if name == "Run" || name == "Execute" {
			return "vm." + name
		}
		memo := m.balMemo
		if c.reachesStatic(f, func(x ssa.CallInstruction) bool { return isCallTo(x, m.getBalance) }, memo, 0) {
			return "vm." + name
		}
	}
	return ""
}

func ruleR02a(c *Ctx, rule string) {
	m := c.cmdModel(rule)
	if !m.ok {
		return
	}
	if m.balMemo == nil {
		m.balMemo = map[*ssa.Function]int{}
	}
	obl := newOblSet(c, rule)
	defer obl.flush()
	lockFns := map[*ssa.Function]bool{}
	nLock := 0
	for _, fn := range c.RepoFuncs() {
		var lockCalls []*ssa.Call
		allCalls(fn, func(ci ssa.CallInstruction) {
			if call, ok := ci.(*ssa.Call); ok && isCallTo(ci, m.lockMethod) && ifaceMethodOf(ci) != nil {
				lockCalls = append(lockCalls, call)
			}
		})
		for _, lc := range lockCalls {
			nLock++
			lockFns[fn] = true
			lockSpanMachine(c, m, obl, fn, lc)
		}
	}
	if nLock == 0 {
		obl.undecided("floor:lock-sites", token.NoPos, "no call of command.Locker.Lock found in production code: transactions are executed without account locks, or the mechanism moved")
	}
	// every production call site of a critical VM operation must be in a function that takes the lock
	nCrit := 0
	for _, fn := range c.RepoFuncs() {
		if strings.HasPrefix(fnPkgPath(fn), modPath+"/internal/machine") {
			continue // the VM itself and its examples (static in-memory store)
		}
		allCalls(fn, func(ci ssa.CallInstruction) {
			if what := m.vmCritical(c, ci); what != "" {
				nCrit++
				key := fnName(fn) + ":" + what + ":under-lock"
				if lockFns[fn] {
					obl.expect(key, ci.Pos(), "executed in a function that holds the account lock (state checked by the lock-span machine)")
				} else if by := calledOnlyFromLockFns(c, fn, lockFns, 0); by != "" {
					// a phase of the locked function (`e.runMachine(…)` called by `run`, which takes the lock): the lock-span
					// machine of the caller steps through it with the lock state
					obl.expect(key, ci.Pos(), "executed in a helper that only "+by+" calls, with the account lock held (checked inline by the lock-span machine)")
				} else {
					obl.violate(key, ci.Pos(), what+" is called in a function that never takes the account lock: balances are read / a script is executed without excluding concurrent spenders", nil)
				}
			}
		})
	}
	if nCrit < 2 {
		obl.undecided("floor:critical-sites", token.NoPos, fmt.Sprintf("expected the production call sites of ResolveBalances and vm.Run, found %d", nCrit))
	}
}

// calledOnlyFromLockFns: fn is a function of package command whose every call site lies in a function that takes the
// account lock, or in another such helper (depth 2). Returns the callers' names, or "".
func calledOnlyFromLockFns(c *Ctx, fn *ssa.Function, lockFns map[*ssa.Function]bool, depth int) string {
	if fnPkgPath(origin(fn)) != pkgCommand || depth > 2 {
		return ""
	}
	var names []string
	n := 0
	for _, site := range c.CallersOf(fn) {
		p := site.Parent()
		if p == nil || (p.Synthetic != "" && !strings.HasPrefix(p.Synthetic, "instance of")) {
			continue
		}
		if strings.HasSuffix(c.Fset.Position(site.Pos()).Filename, "_test.go") {
			continue
		}
		n++
		if lockFns[p] {
			names = append(names, origName(p))
			continue
		}
		if by := calledOnlyFromLockFns(c, p, lockFns, depth+1); by != "" {
			names = append(names, origName(p))
			continue
		}
		return ""
	}
	if n == 0 {
		return ""
	}
	sort.Strings(names)
	return strings.Join(dedupStrings(names), ", ")
}

func lockSpanMachine(c *Ctx, m *cmdModel, obl *oblSet, fn *ssa.Function, lockCall *ssa.Call) {
	name := fnName(fn)
	var unlockVal ssa.Value
	for _, r := range *lockCall.Referrers() {
		if e, ok := r.(*ssa.Extract); ok && e.Index == 0 {
			unlockVal = e
		}
	}
	if unlockVal == nil {
		obl.violate(name+":unlock-kept", lockCall.Pos(), "the Unlock function returned by Locker.Lock is discarded: the accounts stay locked forever or the lock protects nothing", nil)
		return
	}
	// escape check
	for _, r := range *unlockVal.Referrers() {
		switch x := r.(type) {
		case *ssa.Call:
			if x.Call.Value == unlockVal {
				continue
			}
		case *ssa.Defer:
			if x.Call.Value == unlockVal {
				continue
			}
		case *ssa.DebugRef:
			continue
		}
		obl.undecided(name+":unlock-escapes", r.Pos(), "the Unlock function escapes (stored, captured or passed on): outside the idioms this rule decides (direct call, defer)")
		return
	}
	isRelease := func(cc *ssa.CallCommon) bool { return cc.Value == unlockVal }
	keySpan := name + ":release-after-persist"
	keyHeld := name + ":critical-ops-under-lock"
	obl.expect(keySpan, lockCall.Pos(), "on every path the lock is released only after the persistence signal of the appended log (or when nothing was appended)")
	obl.expect(keyHeld, lockCall.Pos(), "balance read, execution and log hand-off happen with the lock held on every path")
	nAppend := 0
	release := func(pc *PathCtx, s uint64, pos token.Pos) uint64 {
		if s&lkAPPENDED != 0 && s&lkWAITED == 0 {
			pc.Note("lock released here at %s", c.pos(pos))
			obl.violate(keySpan, pos, "the account lock is released on a path that handed a log to the batcher but has not waited for its persistence: a concurrent transaction can read balances that do not include this one", pc.Trail())
		}
		return (s &^ lkHELD) | lkRELEASED
	}
	// phases of the locked function that contain a critical operation are stepped through with the lock state
	hasCritical := map[*ssa.Function]int{}
	var critIn func(g *ssa.Function, depth int) bool
	critIn = func(g *ssa.Function, depth int) bool {
		if st, ok := hasCritical[g]; ok {
			return st == 1
		}
		hasCritical[g] = 2
		found := false
		allCalls(g, func(ci ssa.CallInstruction) {
			if m.vmCritical(c, ci) != "" {
				found = true
			}
			if h := staticCallee(ci); h != nil && depth < 2 && fnPkgPath(origin(h)) == pkgCommand && len(h.Blocks) > 0 && h != g {
				if critIn(h, depth+1) {
					found = true
				}
			}
		})
		if found {
			hasCritical[g] = 1
		}
		return found
	}
	rulePR := &PathRule{
		Inline: func(call ssa.CallInstruction) []*ssa.Function {
			g := staticCallee(call)
			if g == nil || fnPkgPath(origin(g)) != pkgCommand || len(g.Blocks) == 0 || g == fn {
				return nil
			}
			if cl, ok := call.(*ssa.Call); ok {
				if _, _, isAppend := m.appendCall(c, cl); isAppend {
					return nil
				}
			}
			if critIn(g, 0) {
				return []*ssa.Function{g}
			}
			return nil
		},
		MaxDepth: 3,
		DeferID: func(d *ssa.Defer) int {
			if isRelease(&d.Call) {
				return 0
			}
			return -1
		},
		RunDeferred: func(pc *PathCtx, s uint64, d *ssa.Defer) uint64 { return release(pc, s, d.Pos()) },
		Step: func(pc *PathCtx, s uint64, ins ssa.Instruction) uint64 {
			if w := m.waitedDone(c, ins); w != nil && m.handoffChan(c, w) != nil {
				pc.Note("waited for persistence at %s", c.pos(ins.Pos()))
				return s | lkWAITED
			}
			switch x := ins.(type) {
			case *ssa.Call:
				if x == lockCall {
					pc.Note("Lock at %s", c.pos(x.Pos()))
					return lkHELD
				}
				if isRelease(&x.Call) {
					return release(pc, s, x.Pos())
				}
				if what := m.vmCritical(c, x); what != "" {
					if s&lkHELD == 0 {
						obl.violate(keyHeld, x.Pos(), what+" executes on a path where the account lock is not held (not yet taken or already released)", pc.Trail())
					}
					return s
				}
				if _, _, ok := m.appendCall(c, x); ok {
					nAppend++
					pc.Note("log handed off at %s", c.pos(x.Pos()))
					if s&lkHELD == 0 {
						obl.violate(keyHeld, x.Pos(), "the log is handed to the batcher on a path where the account lock is not held", pc.Trail())
					}
					return (s | lkAPPENDED) &^ lkWAITED
				}
			case *ssa.UnOp:
				if x.Op == token.ARROW {
					if e, ok := x.X.(*ssa.Extract); ok {
						if call, ok := e.Tuple.(*ssa.Call); ok {
							if ci, _, ok := m.appendCall(c, call); ok && ci == e.Index {
								pc.Note("waited for persistence at %s", c.pos(x.Pos()))
								return s | lkWAITED
							}
						}
					}
				}
			}
			return s
		},
		Edge: func(pc *PathCtx, s uint64, from *ssa.BasicBlock, si int) (uint64, bool) {
			for _, f := range pc.edgeFacts(from, si) {
				// Lock's own error != nil: nothing is held
				if e, ok := f.X.(*ssa.Extract); ok && e.Tuple == ssa.Value(lockCall) && e.Index == 1 && isNilConst(f.Y) && !f.Eq {
					return s &^ lkHELD, true
				}
				// append's own error != nil: nothing was appended
				if e, ok := f.X.(*ssa.Extract); ok && isNilConst(f.Y) && !f.Eq {
					if call, ok := e.Tuple.(*ssa.Call); ok {
						if _, ei, ok := m.appendCall(c, call); ok && ei == e.Index {
							return s &^ (lkAPPENDED | lkWAITED), true
						}
					}
				}
			}
			return s, true
		},
		Exit: func(pc *PathCtx, s uint64, ins ssa.Instruction) {
			if pc.parent != nil {
				return
			}
			if _, isRet := ins.(*ssa.Return); isRet && s&lkHELD != 0 {
				obl.violate(name+":released-on-every-exit", ins.Pos(), "a path returns with the account lock still held", pc.Trail())
			}
		},
	}
	obl.expect(name+":released-on-every-exit", lockCall.Pos(), "every returning path releases the lock")
	c.RunPaths(fn, 0, rulePR)
	if nAppend == 0 {
		obl.undecided(name+":floor:append-in-lock-function", lockCall.Pos(), "the function that takes the account lock never hands a log to the batcher: the mechanism moved, the lock-span rule cannot be decided")
	}
}

// ---- R02b ------------------------------------------------------------------------------------

func ruleR02b(c *Ctx) {
	const rule = "R02b"
	m := c.cmdModel(rule)
	if !m.ok {
		return
	}
	resolveRes := c.MustFn(rule, pkgVM, "Machine.ResolveResources")
	if resolveRes == nil {
		return
	}
	accRead := c.MustField(rule, pkgCommand, "Accounts", "Read")
	accWrite := c.MustField(rule, pkgCommand, "Accounts", "Write")
	if accRead == nil || accWrite == nil {
		return
	}
	filterPass := func(call *ssa.Call) []ssa.Value {
		if f := staticCallee(call); f != nil {
			o := f
			if f.Origin() != nil {
				o = f.Origin()
			}
			if fnPkgPath(o) == libsPath+"/collectionutils" && o.Name() == "Filter" {
				return []ssa.Value{call.Call.Args[0]}
			}
		}
		return nil
	}
	n := 0
	for _, fn := range c.RepoFuncs() {
		allCalls(fn, func(ci ssa.CallInstruction) {
			call, ok := ci.(*ssa.Call)
			if !ok || !isCallTo(ci, m.lockMethod) || ifaceMethodOf(ci) == nil {
				return
			}
			n++
			name := fnName(fn)
			arg := call.Call.Args[1]
			// the Accounts value: load of a local composite literal; find the stores into its fields
			var cell *ssa.Alloc
			if u, ok := arg.(*ssa.UnOp); ok && u.Op == token.MUL {
				cell, _ = u.X.(*ssa.Alloc)
			}
			// … or the result of a helper of the package that builds it (`m, accounts, err := prepare(…)`): the
			// literal of the helper's successful return, and the machine it returns alongside
			var helperCall *ssa.Call
			var helperMach ssa.Value // the machine value inside the helper
			helperMachIdx := -1
			// pure builder: `Lock(ctx, accountsToLock(involvedAccounts, involvedSources))` — the literal is in the
			// builder, its fields derive from the builder's parameters, i.e. from the arguments of the call
			var builderCall *ssa.Call
			if cell == nil {
				if bc, ok := arg.(*ssa.Call); ok {
					if h := staticCallee(bc); h != nil && inRepo(fnPkgPath(h)) && len(h.Blocks) > 0 {
						for _, b := range h.Blocks {
							if ret, ok := b.Instrs[len(b.Instrs)-1].(*ssa.Return); ok && len(ret.Results) == 1 {
								if u, ok := ret.Results[0].(*ssa.UnOp); ok && u.Op == token.MUL {
									if a, ok := u.X.(*ssa.Alloc); ok {
										cell, builderCall = a, bc
									}
								}
							}
						}
					}
				}
			}
			if cell == nil {
				if ex, ok := arg.(*ssa.Extract); ok {
					if hc, ok := ex.Tuple.(*ssa.Call); ok {
						if h := staticCallee(hc); h != nil && inRepo(fnPkgPath(h)) && len(h.Blocks) > 0 {
							ei := errResultIdx(h.Signature)
							for _, b := range h.Blocks {
								ret, ok := b.Instrs[len(b.Instrs)-1].(*ssa.Return)
								if !ok || ex.Index >= len(ret.Results) {
									continue
								}
								if ei >= 0 && !isNilConst(ret.Results[ei]) {
									continue // failure returns carry no lock set
								}
								if u, ok := ret.Results[ex.Index].(*ssa.UnOp); ok && u.Op == token.MUL {
									if a, ok := u.X.(*ssa.Alloc); ok {
										cell, helperCall = a, hc
										for j, rv := range ret.Results {
											if strings.HasSuffix(rv.Type().String(), "vm.Machine") {
												helperMach, helperMachIdx = rv, j
											}
										}
									}
								}
							}
						}
					}
				}
			}
			if cell == nil {
				c.undecided(rule, name+":lock-argument", call.Pos(), "the Accounts argument of Lock is not a local composite literal (of the function or of a helper returning it): outside the accepted idiom")
				return
			}
			var readVal, writeVal ssa.Value
			for _, r := range *cell.Referrers() {
				if fa, ok := r.(*ssa.FieldAddr); ok {
					for _, rr := range *fa.Referrers() {
						if st, ok := rr.(*ssa.Store); ok && st.Addr == fa {
							if sameField(fieldOfAddr(fa), accRead) {
								readVal = st.Val
							}
							if sameField(fieldOfAddr(fa), accWrite) {
								writeVal = st.Val
							}
						}
					}
				}
			}
			check := func(field string, v ssa.Value, wantIdx int) {
				key := name + ":" + field + "-set-derivation"
				if v == nil {
					c.bad(rule, key, call.Pos(), "Accounts."+field+" is never set: no account is locked for "+strings.ToLower(field))
					return
				}
				rs := roots(v, filterPass)
				if builderCall != nil {
					var sub []ssa.Value
					for _, r := range rs {
						if p, ok := r.(*ssa.Parameter); ok {
							if i := paramIndex(p); i >= 0 && i < len(builderCall.Call.Args) {
								sub = append(sub, roots(builderCall.Call.Args[i], filterPass)...)
								continue
							}
						}
						sub = append(sub, r)
					}
					rs = sub
				}
				okAll := len(rs) > 0
				var rr *ssa.Call
				for _, r := range rs {
					cl, idx := resultOf(r)
					if cl == nil || !callsFn(cl, resolveRes) || idx != wantIdx {
						okAll = false
					} else {
						rr = cl
					}
				}
				if !okAll {
					c.bad(rule, key, call.Pos(), fmt.Sprintf("Accounts.%s does not derive (through Filter only) from result #%d of Machine.ResolveResources: the %s-lock set is not the set of accounts the script %s", field, wantIdx, strings.ToLower(field), map[int]string{0: "touches", 1: "debits"}[wantIdx]))
					return
				}
				// the filter may only exclude "world"
				if fc, ok := v.(*ssa.Call); ok && filterPass(fc) != nil {
					if !isNotWorldFilter(fc.Call.Args[1]) {
						c.bad(rule, key, call.Pos(), "the lock set is filtered by something other than FilterNot(FilterEq(\"world\")): accounts other than world may be left unlocked")
						return
					}
				}
				// same machine: ResolveResources receiver must be the machine that is executed in this function
				mach := rr.Call.Args[0]
				sameMachine := true
				if helperCall != nil {
					// resolved inside the helper: the helper must hand that very machine back, and the function must
					// execute the machine it received from the helper
					if helperMach == nil || helperMach != mach {
						sameMachine = false
					}
					mach = nil
					for _, r := range *helperCall.Referrers() {
						if ex, ok := r.(*ssa.Extract); ok && ex.Index == helperMachIdx {
							mach = ex
						}
					}
				}
				allCalls(fn, func(x ssa.CallInstruction) {
					if what := m.vmCritical(c, x); what != "" && len(x.Common().Args) > 0 {
						if x.Common().Args[0] != mach {
							sameMachine = false
						}
					}
				})
				c.check(sameMachine, rule, key, call.Pos(), "derives from ResolveResources of the machine that is executed, through Filter(not world)", "the machine whose resources were resolved for locking is not the machine that is executed")
			}
			check("Read", readVal, 0)
			check("Write", writeVal, 1)
		})
	}
	c.NSites += n
	if n == 0 {
		c.undecided(rule, "floor:lock-sites", token.NoPos, "no Locker.Lock call site")
	}
	ruleR02bResolve(c, rule, resolveRes)
}

func isNotWorldFilter(v ssa.Value) bool {
	call, ok := v.(*ssa.Call)
	if !ok {
		return false
	}
	f := staticCallee(call)
	if f == nil || f.Origin() == nil || f.Origin().Name() != "FilterNot" {
		if f == nil || f.Name() != "FilterNot" {
			return false
		}
	}
	inner, ok := call.Call.Args[0].(*ssa.Call)
	if !ok {
		return false
	}
	g := staticCallee(inner)
	if g == nil {
		return false
	}
	gn := g.Name()
	if g.Origin() != nil {
		gn = g.Origin().Name()
	}
	if gn != "FilterEq" {
		return false
	}
	s, ok := constString(inner.Call.Args[0])
	return ok && s == "world"
}

// ---- R02d ------------------------------------------------------------------------------------

func ruleR02d(c *Ctx) {
	const rule = "R02d"
	newCmd := c.MustFn(rule, pkgCommand, "New")
	newLocker := c.MustFn(rule, pkgCommand, "NewDefaultLocker")
	if newCmd == nil || newLocker == nil {
		return
	}
	// NoOpLocker referenced from production code?
	if sp := c.SSAPkg(pkgCommand); sp != nil {
		if g, ok := sp.Members["NoOpLocker"].(*ssa.Global); ok {
			for _, fn := range c.RepoFuncs() {
				if fn.Synthetic != "" && fn.Name() == "init" {
					continue
				}
				for _, b := range fn.Blocks {
					for _, ins := range b.Instrs {
						for _, op := range ins.Operands(nil) {
							if *op == ssa.Value(g) {
								c.bad(rule, "NoOpLocker-in-production:"+fnName(fn), ins.Pos(), "command.NoOpLocker is used by production code: transactions run without account locks")
							}
						}
					}
				}
			}
		}
	}
	n := 0
	for _, ci := range c.CallersOf(newCmd) {
		call, ok := ci.(*ssa.Call)
		if !ok {
			continue
		}
		n++
		key := "locker-argument:" + fnName(call.Parent())
		rs := roots(call.Call.Args[1], nil)
		okAll := len(rs) > 0
		for _, r := range rs {
			cl, _ := resultOf(r)
			if cl == nil || !callsFn(cl, newLocker) {
				okAll = false
			}
		}
		c.check(okAll, rule, key, call.Pos(), "the commander is built with NewDefaultLocker()", "the commander is built with a locker that is not NewDefaultLocker(): account locking is not guaranteed")
	}
	if n == 0 {
		c.undecided(rule, "floor:command.New-call-sites", token.NoPos, "no production call site of command.New")
	}
	_ = types.Typ
}
