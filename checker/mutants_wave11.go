package main

// Mutants for the rules added after the fourth micro-mutation wave.
func init() {
	const mon = "internal/machine/monetary.go"
	const inmem = "internal/storage/inmemory.go"
	const cmdr = "internal/engine/command/commander.go"
	const jobs = "internal/engine/utils/job/jobs.go"
	const comp = "internal/machine/script/compiler/compiler.go"
	const bulk = "internal/api/v2/bulk.go"
	const cbulk = "internal/api/v2/controllers_bulk.go"
	const sqle = "internal/storage/sqlutils/errors.go"
	const nums = "internal/numscript.go"
	const ll = "libs/collectionutils/linked_list.go"
	const lutils = "internal/storage/ledgerstore/utils.go"
	const v1u = "internal/api/v1/utils.go"
	const lock = "internal/engine/command/lock.go"
	addMutants(
		Mutant{Property: "C01", Name: "neg-implemented-with-abs", File: mon,
			Old: "(&big.Int{}).Neg((*big.Int)(a))", New: "(&big.Int{}).Abs((*big.Int)(a))", Expect: "R01i:"},
		Mutant{Property: "C04", Name: "last-log-indexed-with-the-number-of-transactions", File: inmem,
			Old: "\treturn m.logs[len(m.logs)-1], nil", New: "\treturn m.logs[len(m.transactions)-1], nil", Expect: "R04i:"},
		Mutant{Property: "C05", Name: "head-advances-only-with-transactions", File: cmdr,
			Old: "\tif allocateTXID {\n\t\tcommander.lastTXID = nextTXID\n\t}\n\tcommander.lastLog = chainedLog\n", New: "\tif allocateTXID {\n\t\tcommander.lastTXID = nextTXID\n\t\tcommander.lastLog = chainedLog\n\t}\n", Expect: "R05m:"},
		Mutant{Property: "C13", Name: "head-advances-only-with-transactions", File: cmdr,
			Old: "\tif allocateTXID {\n\t\tcommander.lastTXID = nextTXID\n\t}\n\tcommander.lastLog = chainedLog\n", New: "\tif allocateTXID {\n\t\tcommander.lastTXID = nextTXID\n\t\tcommander.lastLog = chainedLog\n\t}\n", Expect: "R13k:"},
		Mutant{Property: "C05", Name: "batch-taken-before-a-worker-is-free", File: jobs,
			Old: "\t\t\tif r.parkedWorkers.Load() > 0 {\n\t\t\t\tif job := r.nextJob(); job != nil {\n\t\t\t\t\tr.jobs <- job\n\t\t\t\t\tr.parkedWorkers.Add(-1)\n\t\t\t\t}\n\t\t\t}", New: "\t\t\tif job := r.nextJob(); job != nil {\n\t\t\t\tif r.parkedWorkers.Load() > 0 {\n\t\t\t\t\tr.jobs <- job\n\t\t\t\t\tr.parkedWorkers.Add(-1)\n\t\t\t\t}\n\t\t\t}", Expect: "R05n:"},
		Mutant{Property: "C06", Name: "delete-metadata-reports-success-on-failure", File: cmdr,
			Old: "\t\treturn executionContext.AppendLog(ctx, log)\n\t})\n\tif err != nil {\n\t\treturn err\n\t}\n\n\tif !parameters.DryRun {\n\t\tcommander.monitor.DeletedMetadata", New: "\t\treturn executionContext.AppendLog(ctx, log)\n\t})\n\tif err != nil {\n\t\treturn nil\n\t}\n\n\tif !parameters.DryRun {\n\t\tcommander.monitor.DeletedMetadata", Expect: "R06k:"},
		Mutant{Property: "C07", Name: "v1-key-read-from-the-query-string", File: v1u,
			Old: "\tidempotencyKey := r.Header.Get(\"Idempotency-Key\")", New: "\tidempotencyKey := r.URL.Query().Get(\"Idempotency-Key\")", Expect: "R07j:"},
		Mutant{Property: "C08", Name: "string-literal-loses-its-blanks", File: comp,
			Old: "\t\t\tInner: machine.String(strings.Trim(c.GetText(), `\"`)),", New: "\t\t\tInner: machine.String(strings.Trim(c.GetText(), `\" `)),", Expect: "R08m:"},
		Mutant{Property: "C10", Name: "bulk-revert-forced-by-continue-on-failure", File: bulk,
			Old: "l.RevertTransaction(ctx, parameters, req.ID, req.Force)", New: "l.RevertTransaction(ctx, parameters, req.ID, req.Force || continueOnFailure)", Expect: "R10m:"},
		Mutant{Property: "C11", Name: "any-error-is-not-found", File: sqle,
			Old: "\treturn errors.Is(err, ErrNotFound)", New: "\treturn err != nil", Expect: "R11i:"},
		Mutant{Property: "C11", Name: "generated-script-loses-the-reference", File: nums,
			Old: "\t\tReference: txData.Reference,\n\t}\n}", New: "\t}\n}", Expect: "R11k:"},
		Mutant{Property: "C15", Name: "next-walks-backwards", File: ll,
			Old: "func (n *LinkedListNode[T]) Next() *LinkedListNode[T] {\n\treturn n.nextNode", New: "func (n *LinkedListNode[T]) Next() *LinkedListNode[T] {\n\treturn n.previousNode", Expect: "R15i:LinkedListNode.Next"},
		Mutant{Property: "C15", Name: "first-node-is-the-tail", File: ll,
			Old: "func (r *LinkedList[T]) FirstNode() *LinkedListNode[T] {\n\treturn r.firstNode", New: "func (r *LinkedList[T]) FirstNode() *LinkedListNode[T] {\n\treturn r.lastNode", Expect: "R15i:LinkedList.FirstNode"},
		Mutant{Property: "C15", Name: "cancelled-waiter-releases-the-holder", File: lock,
			Old: "\t\tdefaultLocker.mu.Lock()\n\t\tselect {\n\t\tcase <-intent.acquired:\n\t\t\tintent.unlock(ctx, defaultLocker)\n\t\t\trecheck()", New: "\t\tdefaultLocker.mu.Lock()\n\t\tintent.unlock(ctx, defaultLocker)\n\t\tselect {\n\t\tcase <-intent.acquired:\n\t\t\trecheck()", Expect: "R15d:"},
		Mutant{Property: "C18", Name: "revert-result-put-in-front", File: bulk,
			Old: "\t\t\t\tret = append(ret, Result{\n\t\t\t\t\tData:         tx,\n\t\t\t\t\tResponseType: element.Action,\n\t\t\t\t})\n\t\t\t}\n\t\tcase ActionDeleteMetadata:", New: "\t\t\t\tret = append([]Result{{\n\t\t\t\t\tData:         tx,\n\t\t\t\t\tResponseType: element.Action,\n\t\t\t\t}}, ret...)\n\t\t\t}\n\t\tcase ActionDeleteMetadata:", Expect: "R18k:"},
		Mutant{Property: "C18", Name: "continue-on-failure-by-presence", File: cbulk,
			Old: "sharedapi.QueryParamBool(r, \"continueOnFailure\")", New: "r.URL.Query().Has(\"continueOnFailure\")", Expect: "R18l:"},
		Mutant{Property: "C20", Name: "address-lands-outside-the-quotes", File: lutils,
			Old: "\t\tparts = append(parts, fmt.Sprintf(\"%s = '%s'\", key, address))", New: "\t\tparts = append(parts, fmt.Sprintf(\"%s = '%s'\", address, key))", Expect: "R20f:"},
	)
}
