package main

import (
	"fmt"
	"go/token"
	"go/types"
	"strings"

	"golang.org/x/tools/go/ssa"
)

func init() {
	register("C07", propMeta{
		Level: "other",
		Explanation: "R07a (path machine over executionContext.run): on every path with a non-empty idempotency key the key is reserved (Referencer.take, kind referenceIks) before the store lookup and before the executor runs, the reservation is released by a defer of run itself (so after the persistence wait, R06a) and never earlier. " +
			"R07k: the header every API version reads the idempotency key from is one constant, declared as a header parameter in the OpenAPI document of the repository; R07l: every Referencer.release names the kind and key of a take of the same function; R07i: every execution context of the commander is built from the command.Parameters the entry point received (not a rebuilt value that loses the key); R07j: every command.Parameters composite built under internal/api (v1, v2, bulk) fills IdempotencyKey from the request. " +
			"R07b: every log that is chained in package command (both the real and the preview path) comes from a builder whose every return has, when the key is non-empty, passed through Log.WithIdempotencyKey(Parameters.IdempotencyKey) — for every kind of write, because all kinds funnel through the same function. R07c: the store lookup by key is ledger-scoped and filters on the key column. R07d: between the engine and the store the key is only ever copied. R07f: on the nil-error edge of the store lookup (a log carrying the key exists) no write is executed, whatever else the found log is compared with. R07h: Referencer.release performs exactly one mutation, Delete, of the entry take stored (same table, same key expression). R07g: the key that is reserved and looked up is Parameters.IdempotencyKey itself on every path. R07e: the lookup sees every committed log carrying the key — in the PostgreSQL store its query is conditioned by the key and the ledger only, in the other stores it reads no other field of the stored records — so no committed holder of the key is filtered out of the check.",
		NotDecided:  "uniqueness in SQL (there is no unique index on idempotency_key; the in-memory reservation plus the lookup is the whole mechanism); behaviour across several processes sharing one ledger.",
		Trusted:     []string{"sync.Map LoadOrStore/Delete semantics", "defer ordering"},
		Assumptions: []string{"a single process writes to a ledger (the Referencer is in-memory)"},
	}, func(c *Ctx) {
		ruleR07a(c)
		ruleR07b(c)
		ruleStoreLookupScoped(c, "R07c", "Store.ReadLogWithIdempotencyKey", "idempotency_key")
		ruleVerbatimField(c, "R07d", "IdempotencyKey", 3)
		ruleExactLookup(c, "R07e", c.IfaceMethod(pkgCommand, "Store", "ReadLogWithIdempotencyKey"), "IdempotencyKey", "idempotency_key")
		ruleRequestKeyIsLookedUp(c, "R07g")
		ruleReferencerSymmetric(c, "R07h")
		ruleParametersReachContext(c, "R07i")
		ruleAPIParametersCarryKey(c, "R07j")
		ruleIdempotencyHeaderAgrees(c, "R07k")
		ruleReleaseMatchesTake(c, "R07l")
	})
	register("C11", propMeta{
		Level: "other",
		Explanation: "R11a (path machine over every function that reserves a transaction reference): with a non-empty reference, the reservation (Referencer.take, kind referenceTxReference) precedes the store lookup; the log is handed off only after reservation and lookup, never on the path where the lookup found a transaction; the reservation is released (directly or by defer) only on paths that have waited for the persistence signal of the handed-off log or handed nothing off. R11b: the lookup is ledger-scoped and filters on the reference column. R11c: the reference is only ever copied between the engine and the store. R11e: Referencer.release gives back exactly the entry take reserved (one Delete, same table and key). R11h: every Referencer.release in package command names the kind and key of a take of the same function (a release under another kind frees a reference reservation another request holds). R11g: every HTTP handler that creates a transaction tests the error of each CreateTransaction call for the conflict code of the engine (in the handler or a helper the error is handed to). R11f: after the store look-up of the reference, execution continues (compile, lock, append) only on paths where the look-up error was shown to be the not-found error. R11d: the lookup sees every committed transaction carrying the reference (query conditioned by reference and ledger only; in-memory store reads no other field) — a reverted transaction still holds its reference.",
		NotDecided:  "there is no SQL fallback (no unique index on reference): the in-memory reservation spanning lookup→persistence is the whole mechanism, which is what is decided; several processes on one ledger are out of scope.",
		Trusted:     []string{"sync.Map semantics", "the store lookup observes every log whose InsertLogs returned"},
	}, func(c *Ctx) {
		ruleR11a(c)
		ruleStoreLookupScoped(c, "R11b", "Store.GetTransactionByReference", "reference")
		ruleVerbatimField(c, "R11c", "Reference", 3)
		ruleExactLookup(c, "R11d", c.IfaceMethod(pkgCommand, "Store", "GetTransactionByReference"), "Reference", "reference")
		ruleReferencerSymmetric(c, "R11e")
		ruleLookupErrorEndsRequest(c, "R11f")
		ruleConflictIsAnswered(c, "R11g")
		ruleReleaseMatchesTake(c, "R11h")
		ruleNotFoundIsNotFound(c, "R11i")
		ruleR09l(c, "R11j")
		ruleReferencePassesThrough(c, "R11k")
	})
	register("C10", propMeta{
		Level: "other",
		Explanation: "R10a: in RevertTransaction the in-flight guard (take, kind referenceReverts, keyed by the id) precedes the store read of the transaction and is released only after the write returned (defer). R10b: the write is reached only on the false edge of a test of Transaction.Reverted of the transaction read for the same id. R10c: TxToScriptData's overdraft flag is the `force` parameter at the revert call site and the constant false everywhere else, and inside TxToScriptData the `allowing unbounded overdraft` text is written only under that flag. " +
			"R10d: the REVERTED_TRANSACTION branch of the handle_log trigger calls revert_transaction with the JSON key of RevertedTransactionLogPayload.RevertedTransactionID, and revert_transaction sets reverted_at scoped by id and ledger; the revert log constructor stores the reverted id and the new transaction in the right fields. R10e: the revert executes under the account lock (R02a, same executor). R10f: the reverse postings passed to the script are Transaction.Reverse() of the transaction that was read. R10h: Referencer.release gives back exactly the entry take reserved. R10k: the in-memory store selects the transaction to revert (and to flag as reverted) by equality of identifiers, from the filtered result. R10l: every Referencer.release in package command names the kind and key of a take of the same function. R10i: in the Reverse methods of slice types of package ledger every whole-element move goes between mirror positions (destination index + source index = len − 1, affine in the loop variable). The revert is executed through the posting→script translation, whose structural rules (R09a provenance, R09b one send per posting in order, R09e attribution, R09h injective keys) are obligations here as well. R10g: in the Reverse functions of package ledger every reversed posting takes its fields from ONE original posting (endpoints swapped inside an element, or all fields stored from the same element).",
		NotDecided:  "that the reversed list is in mirrored order, and balance restoration as a value-level fact.",
		Trusted:     []string{"PL/pgSQL semantics of the scanned statements"},
	}, func(c *Ctx) {
		ruleR10ab(c)
		ruleR10c(c)
		ruleR10d(c)
		ruleR10g(c)
		ruleReverseMirrors(c, "R10i")
		ruleInMemoryIdentityLookups(c, "R10k")
		ruleReleaseMatchesTake(c, "R10l")
		ruleForceIsTheRequests(c, "R10m")
		ruleComputeMetadataMaps(c, "R10n")
		ruleLastMeansLast(c, "R10o")
		ruleRevertTranslation(c)
		ruleReferencerSymmetric(c, "R10h")
		ruleR02a(c, "R10e")
	})
}

// sameSource: do a and b denote the same datum — the same SSA value, or loads of the same field?
func sameSource(a, b ssa.Value) bool {
	a, b = strip(a), strip(b)
	if a == b {
		return true
	}
	fa, _ := anyFieldRead(a)
	fb, _ := anyFieldRead(b)
	return fa != nil && sameField(fa, fb)
}

func (m *cmdModel) takeKind(c *Ctx, ci ssa.CallInstruction) (kind string, key ssa.Value, ok bool) {
	if !callsFn(ci, m.take) {
		return "", nil, false
	}
	args := ci.Common().Args
	return c.refKindOf(args[1], 0), args[2], true
}

func (m *cmdModel) releaseKind(c *Ctx, ci ssa.CallInstruction) (kind string, key ssa.Value, ok bool) {
	if !callsFn(ci, m.release) {
		return "", nil, false
	}
	args := ci.Common().Args
	return c.refKindOf(args[1], 0), args[2], true
}

// refKindOf names the reservation kind denoted by v: a constant, or a parameter / captured parameter of a
// helper that every call site binds to the same constant.
func (c *Ctx) refKindOf(v ssa.Value, depth int) string {
	if depth > 5 {
		return ""
	}
	if n := c.refKindName(v); n != "" {
		return n
	}
	v = strip(v)
	switch x := v.(type) {
	case *ssa.Parameter:
		idx := paramIndex(x)
		kind := ""
		for _, site := range c.CallersOf(x.Parent()) {
			args := site.Common().Args
			if idx >= len(args) {
				return ""
			}
			k := c.refKindOf(args[idx], depth+1)
			if k == "" || (kind != "" && k != kind) {
				return ""
			}
			kind = k
		}
		return kind
	case *ssa.UnOp:
		if x.Op == token.MUL {
			if s := singleStore(x.X); s != nil {
				return c.refKindOf(s, depth+1)
			}
		}
	}
	// a field of a reservation object (`r.ref` of `&reservation{ref: ref, key: key}`): what is stored into that field
	if f, _ := anyFieldRead(v); f != nil {
		kind, n := "", 0
		for _, fn := range c.FuncsIn(pkgCommand) {
			for _, b := range fn.Blocks {
				for _, ins := range b.Instrs {
					if sv, _, ok := storeToField(ins, f); ok {
						n++
						k := c.refKindOf(sv, depth+1)
						if k == "" || (kind != "" && k != kind) {
							return ""
						}
						kind = k
					}
				}
			}
		}
		if n > 0 {
			return kind
		}
	}
	return ""
}

// isReservationWrapper: fn takes a reservation and hands it to its caller (it returns a releaser: a function value
// or an object): the span is decided in the callers, where the wrapper is analysed inline.
func (m *cmdModel) isReservationWrapper(c *Ctx, fn *ssa.Function) bool {
	if len(c.CallersOf(fn)) == 0 || fn.Parent() != nil {
		return false
	}
	releases := false
	allCalls(fn, func(ci ssa.CallInstruction) {
		if callsFn(ci, m.release) {
			releases = true
		}
	})
	if releases {
		return false
	}
	rs := fn.Signature.Results()
	for i := 0; i < rs.Len(); i++ {
		switch t := rs.At(i).Type().Underlying().(type) {
		case *types.Signature:
			return true
		case *types.Pointer:
			if _, ok := t.Elem().Underlying().(*types.Struct); ok {
				return true
			}
		}
	}
	return false
}

const (
	rvTAKEN = 1 << iota
	rvEMPTY
	rvRELEASED
	rvLOOKED
	rvFOUND
	rvAPPENDED
	rvWAITED
	rvNOTREVERTED
	rvPERSISTED
	rvNOTFOUND
)

func ruleR07a(c *Ctx) {
	const rule = "R07a"
	m := c.cmdModel(rule)
	if !m.ok {
		return
	}
	obl := newOblSet(c, rule)
	defer obl.flush()
	nFns := 0
	for _, fn := range m.fns {
		var keyVal ssa.Value
		allCalls(fn, func(ci ssa.CallInstruction) {
			if k, key, ok := m.takeKind(c, ci); ok && k == "referenceIks" {
				keyVal = key
			}
		})
		if keyVal == nil {
			// the reservation taken through a wrapper that hands back a releaser (`reservation, err := e.reserveIdempotencyKey(ik)`)
			allCalls(fn, func(ci ssa.CallInstruction) {
				if g := staticCallee(ci); g != nil && fnPkgPath(origin(g)) == pkgCommand && m.isReservationWrapper(c, g) && m.reachesTake(c, g, "referenceIks") {
					if args := ci.Common().Args; len(args) > 0 {
						keyVal = args[len(args)-1]
					}
				}
			})
		}
		if keyVal == nil || m.isReservationWrapper(c, fn) {
			continue
		}
		nFns++
		name := fnName(fn)
		kRes := name + ":key-reserved-before-lookup-and-execution"
		kRel := name + ":reservation-spans-persistence"
		obl.expect(kRes, fn.Pos(), "with a non-empty key, take(referenceIks) precedes ReadLogWithIdempotencyKey and the execution on every path")
		obl.expect(kRel, fn.Pos(), "the reservation is released only after the persistence wait of the log handed off under it (or when nothing was handed off)")
		kFound := name + ":found-key-is-answered-not-executed"
		obl.expect(kFound, fn.Pos(), "on the nil-error edge of ReadLogWithIdempotencyKey no write is executed")
		isKeyEmptyFact := func(f Fact) (empty bool, ok bool) {
			s, isStr := constString(f.Y)
			if !isStr || s != "" {
				return false, false
			}
			if sameSource(f.X, keyVal) {
				return f.Eq, true
			}
			if _, isIK := fieldRead(f.X, m.fIK); isIK {
				return f.Eq, true
			}
			return false, false
		}
		release := func(pc *PathCtx, s uint64, pos token.Pos) uint64 {
			if s&rvAPPENDED != 0 && s&rvWAITED == 0 {
				pc.Note("key released at %s", c.pos(pos))
				obl.violate(kRel, pos, "the idempotency-key reservation is released on a path that handed a log off but has not waited for its persistence: a concurrent duplicate passes the reservation, does not find the log in the store yet, and takes effect a second time", pc.Trail())
			}
			if s&rvTAKEN == 0 && s&rvEMPTY == 0 {
				obl.violate(kRel, pos, "the idempotency-key reservation is released on a path that does not own it (take failed or was not called): the reservation of the in-flight request holding the key is dropped", pc.Trail())
			}
			return (s &^ rvTAKEN) | rvRELEASED
		}
		var takeCall *ssa.Call
		pr := &PathRule{
			Inline: m.inlineReservationHelpers(c, "referenceIks"),
			DeferID: func(d *ssa.Defer) int {
				if k, _, ok := m.releaseKind(c, d); ok && k == "referenceIks" {
					return 0
				}
				if m.releasesKind(c, d, "referenceIks") {
					return 0 // `defer reservation.release()`
				}
				return -1
			},
			RunDeferred: func(pc *PathCtx, s uint64, d *ssa.Defer) uint64 { return release(pc, s, d.Pos()) },
			Step: func(pc *PathCtx, s uint64, ins ssa.Instruction) uint64 {
				if w := m.waitedDone(c, ins); w != nil && m.handoffChan(c, w) != nil {
					return s | rvWAITED
				}
				switch x := ins.(type) {
				case *ssa.Call:
					if k, _, ok := m.takeKind(c, x); ok && k == "referenceIks" {
						takeCall = x
						return (s | rvTAKEN) &^ rvRELEASED
					}
					if k, _, ok := m.releaseKind(c, x); ok && k == "referenceIks" {
						return release(pc, s, x.Pos())
					}
					if m.releasesKind(c, x, "referenceIks") {
						return release(pc, s, x.Pos())
					}
					if isCallTo(x, m.readLogIK) && ifaceMethodOf(x) != nil {
						if s&rvTAKEN == 0 {
							obl.violate(kRes, x.Pos(), "the store is searched for the idempotency key on a path that does not hold the reservation of the key", pc.Trail())
						}
						return (s | rvLOOKED) &^ (rvFOUND | rvNOTFOUND)
					}
					if _, _, ok := m.appendCall(c, x); ok {
						if s&rvFOUND != 0 {
							obl.violate(kFound, x.Pos(), "the write is executed on a path where the store lookup FOUND a log carrying the key (its error is nil): the key takes effect a second time — whatever else the found log is compared with (its type, its date), a key that is recorded answers from its record", pc.Trail())
						}
						if s&rvEMPTY == 0 && (s&rvTAKEN == 0 || s&rvLOOKED == 0) {
							what := "without holding the reservation of the idempotency key"
							if s&rvTAKEN != 0 {
								what = "without having searched the store for the idempotency key"
							}
							obl.violate(kRes, x.Pos(), "the write is executed "+what+" on a path where the key is not known to be empty: two requests with the same key can both take effect", pc.Trail())
						}
						return (s | rvAPPENDED) &^ rvWAITED
					}
				case *ssa.UnOp:
					if x.Op == token.ARROW {
						if e, ok := x.X.(*ssa.Extract); ok {
							if call, ok := e.Tuple.(*ssa.Call); ok {
								if ci, _, ok := m.appendCall(c, call); ok && ci == e.Index {
									return s | rvWAITED
								}
							}
						}
					}
				}
				return s
			},
			Edge: func(pc *PathCtx, s uint64, from *ssa.BasicBlock, si int) (uint64, bool) {
				for _, f := range pc.edgeFacts(from, si) {
					if empty, ok := isKeyEmptyFact(f); ok {
						if empty {
							s |= rvEMPTY
						} else {
							s &^= rvEMPTY
						}
					}
					// the lookup's own error: nil = a log carrying the key exists
					if e, ok := f.X.(*ssa.Extract); ok && isNilConst(f.Y) {
						if call, ok := e.Tuple.(*ssa.Call); ok && isCallTo(call, m.readLogIK) && ifaceMethodOf(call) != nil && e.Index == 1 {
							// a second test of the same error that contradicts the first is an infeasible edge
							if f.Eq {
								if s&rvNOTFOUND != 0 {
									return s, false
								}
								s |= rvFOUND
							} else {
								if s&rvFOUND != 0 {
									return s, false
								}
								s |= rvNOTFOUND
							}
						}
					}
					if isNilConst(f.Y) && !f.Eq {
						// error edge of take: the key is not owned
						if call, ok := f.X.(*ssa.Call); ok && takeCall != nil && call == takeCall {
							s &^= rvTAKEN
							s |= rvRELEASED
						}
						if e, ok := f.X.(*ssa.Extract); ok {
							if call, ok := e.Tuple.(*ssa.Call); ok {
								if _, ei, ok := m.appendCall(c, call); ok && ei == e.Index {
									s &^= rvAPPENDED | rvWAITED
								}
							}
						}
					}
				}
				return s, true
			},
			Exit: func(pc *PathCtx, s uint64, ins ssa.Instruction) {
				if _, isRet := ins.(*ssa.Return); isRet && s&rvTAKEN != 0 && pc.Fn() == fn {
					obl.violate(kRel, ins.Pos(), "a path returns while still holding the idempotency-key reservation: the key can never be used again", pc.Trail())
				}
			},
		}
		allCalls(fn, func(ci ssa.CallInstruction) {
			if call, ok := ci.(*ssa.Call); ok {
				if k, _, ok := m.takeKind(c, call); ok && k == "referenceIks" {
					takeCall = call
				}
			}
		})
		c.RunPaths(fn, 0, pr)
	}
	if nFns == 0 {
		obl.violate("floor:key-reservation", token.NoPos, "no function of package command reserves the idempotency key (take(referenceIks, …)): concurrent duplicates both pass the store lookup", nil)
	}
	// every hand-off reachable with a key goes through a reserving function: the functions that reserve must be
	// on every path from the exported write methods to a hand-off. Checked as: run (the function every write
	// goes through) reserves, or calls a function that does.
	reserves := func(fn *ssa.Function) bool {
		memo := map[*ssa.Function]int{}
		return c.reachesStatic(fn, func(ci ssa.CallInstruction) bool {
			k, _, ok := m.takeKind(c, ci)
			return ok && k == "referenceIks"
		}, memo, 0)
	}
	c.check(reserves(m.run), rule, "run:reserves-the-key", m.run.Pos(), "executionContext.run (through which every write goes) reserves the idempotency key, directly or through a callee", "executionContext.run no longer reserves the idempotency key")
}

// returnsAfterFailedTake: the current path's last blocks are the error branch of a take call.
func returnsAfterFailedTake(pc *PathCtx) bool {
	// the return block is reached through an edge `take(...) != nil`
	n := pc.cur
	for i := 0; i < 3; i++ {
		p, ok := pc.par[n]
		if !ok {
			return false
		}
		for si, succ := range p.b.Succs {
			if succ != n.b {
				continue
			}
			for _, f := range edgeFacts(p.b, si) {
				if call, ok := f.X.(*ssa.Call); ok && isNilConst(f.Y) && !f.Eq {
					if fn := staticCallee(call); fn != nil && fn.Name() == "take" {
						return true
					}
				}
			}
		}
		n = p
	}
	return false
}

// ---- R07b ------------------------------------------------------------------------------------

func ruleR07b(c *Ctx) {
	const rule = "R07b"
	m := c.cmdModel(rule)
	if !m.ok {
		return
	}
	obl := newOblSet(c, rule)
	defer obl.flush()
	nChain := 0
	for _, fn := range m.fns {
		allCalls(fn, func(ci ssa.CallInstruction) {
			if !isCallTo(ci, m.chainLog) {
				return
			}
			nChain++
			key := fnName(fn) + ":chained-log-carries-the-key"
			obl.expect(key, ci.Pos(), "the log that is chained carries Parameters.IdempotencyKey whenever it is non-empty")
			if why := logIsStamped(c, m, ci.Common().Args[0], 0, map[ssa.Value]bool{}); why != "" {
				obl.violate(key, ci.Pos(), "a log is chained whose IdempotencyKey is not set from Parameters.IdempotencyKey ("+why+"): a retry with the same key is not found by ReadLogWithIdempotencyKey and takes effect again", nil)
			}
		})
	}
	if nChain < 2 {
		obl.undecided("floor:chain-sites", token.NoPos, fmt.Sprintf("expected the real and the preview ChainLog call sites in package command, found %d", nChain))
	}
}

// logIsStamped returns "" when every source of the *Log value v has the idempotency key set (or the
// key is known to be empty), otherwise a description of the unstamped source.
func logIsStamped(c *Ctx, m *cmdModel, v ssa.Value, depth int, seen map[ssa.Value]bool) string {
	if depth > 8 {
		return "provenance too deep"
	}
	if seen[v] {
		return ""
	}
	seen[v] = true
	switch x := v.(type) {
	case *ssa.Call:
		if isCallTo(x, m.withIK) {
			if isRequestKeyValue(c, m, x.Call.Args[1], 0) {
				return ""
			}
			return "WithIdempotencyKey called with something else than Parameters.IdempotencyKey"
		}
		callees := c.CalleesOf(x)
		if len(callees) == 0 {
			return "log produced by an unresolved call at " + c.pos(x.Pos())
		}
		for _, f := range callees {
			if why := builderStamps(c, m, f, depth+1, seen); why != "" {
				return why
			}
		}
		return ""
	case *ssa.Phi:
		for _, e := range x.Edges {
			if why := logIsStamped(c, m, e, depth+1, seen); why != "" {
				return why
			}
		}
		return ""
	case *ssa.Parameter:
		fn := x.Parent()
		idx := paramIndex(x)
		sites := c.CallersOf(fn)
		if len(sites) == 0 {
			return "log parameter of " + fnName(fn) + " with no resolved caller"
		}
		for _, s := range sites {
			if idx < len(s.Common().Args) {
				if why := logIsStamped(c, m, s.Common().Args[idx], depth+1, seen); why != "" {
					return why
				}
			}
		}
		return ""
	case *ssa.FreeVar:
		return "captured log " + x.Name() + " (not stamped in the builder)"
	case *ssa.UnOp:
		if x.Op == token.MUL {
			if s := singleStore(x.X); s != nil {
				return logIsStamped(c, m, s, depth+1, seen)
			}
			if fv, ok := x.X.(*ssa.FreeVar); ok {
				return "captured log " + fv.Name() + " used as is"
			}
		}
	}
	return "log value of unrecognised shape at " + c.pos(v.Pos())
}

// builderStamps checks a function returning *Log: on every path to a return, either the key is known
// empty or the returned log went through WithIdempotencyKey(Parameters.IdempotencyKey).
func builderStamps(c *Ctx, m *cmdModel, fn *ssa.Function, depth int, seen map[ssa.Value]bool) string {
	if len(fn.Blocks) == 0 {
		return "builder " + fnName(fn) + " has no body"
	}
	const (
		empty   = 1
		stamped = 2
	)
	why := ""
	pr := &PathRule{
		Step: func(pc *PathCtx, s uint64, ins ssa.Instruction) uint64 {
			if call, ok := ins.(*ssa.Call); ok && isCallTo(call, m.withIK) {
				if isRequestKeyValue(c, m, call.Call.Args[1], 0) {
					return s | stamped
				}
			}
			if v, _, ok := storeToField(ins, m.fLogIK); ok {
				if isRequestKeyValue(c, m, v, 0) {
					return s | stamped
				}
			}
			return s
		},
		Edge: func(pc *PathCtx, s uint64, from *ssa.BasicBlock, si int) (uint64, bool) {
			for _, f := range pc.edgeFacts(from, si) {
				if isRequestKeyValue(c, m, f.X, 0) {
					if str, ok := constString(f.Y); ok && str == "" {
						if f.Eq {
							s |= empty
						} else {
							s &^= empty
						}
					}
				}
			}
			return s, true
		},
		Exit: func(pc *PathCtx, s uint64, ins ssa.Instruction) {
			if _, ok := ins.(*ssa.Return); ok && s&(empty|stamped) == 0 && why == "" {
				why = "builder " + fnName(fn) + " returns a log at " + c.pos(ins.Pos()) + " without setting the key"
			}
		},
	}
	c.RunPaths(fn, 0, pr)
	if why == "" {
		return ""
	}
	// not stamped here: maybe the builder only forwards another builder's log which is stamped
	allStamped := true
	nRet := 0
	for _, b := range fn.Blocks {
		if ret, ok := b.Instrs[len(b.Instrs)-1].(*ssa.Return); ok && len(ret.Results) == 1 {
			nRet++
			if w := logIsStamped(c, m, ret.Results[0], depth+1, seen); w != "" {
				allStamped = false
			}
		}
	}
	if nRet > 0 && allStamped {
		return ""
	}
	return why
}

// ---- store lookups are ledger scoped (R07c, R11b) -----------------------------------------------

func ruleStoreLookupScoped(c *Ctx, rule, method, column string) {
	fn := c.MustFn(rule, pkgLedgerstore, method)
	if fn == nil {
		return
	}
	nameField := c.MustField(rule, pkgLedgerstore, "Store", "name")
	if nameField == nil {
		return
	}
	hasLedger, hasCol := false, false
	for _, f := range withLiterals(fn) {
		allCalls(f, func(ci ssa.CallInstruction) {
			n := calleeFullName(ci)
			if n != "(*github.com/uptrace/bun.SelectQuery).Where" {
				return
			}
			format, ok := constString(ci.Common().Args[1])
			if !ok {
				return
			}
			if matchesLedgerPredicate(format) && whereArgFromField(ci, nameField) {
				hasLedger = true
			}
			if strings.Contains(format, column+" = ?") {
				hasCol = true
			}
		})
	}
	c.check(hasLedger, rule, method+":ledger-scoped", fn.Pos(), "the lookup filters on `ledger = ?` bound to Store.name", "the lookup "+method+" does not filter on the ledger name: an entry of another ledger in the same bucket satisfies it")
	c.check(hasCol, rule, method+":filters-on-"+column, fn.Pos(), "the lookup filters on `"+column+" = ?`", "the lookup "+method+" does not filter on "+column)
}

func matchesLedgerPredicate(format string) bool {
	f := strings.ToLower(strings.TrimSpace(format))
	for _, part := range strings.Split(f, " and ") {
		p := strings.TrimSpace(part)
		if p == "ledger = ?" || strings.HasSuffix(p, ".ledger = ?") {
			return true
		}
	}
	return false
}

// whereArgFromField: does one of the variadic arguments of a Where(...) call read the given field?
func whereArgFromField(ci ssa.CallInstruction, f *types.Var) bool {
	args := ci.Common().Args
	if len(args) < 3 {
		return false
	}
	for _, v := range variadicElems(args[2]) {
		if _, ok := fieldRead(strip(v), f); ok {
			return true
		}
	}
	return false
}

// variadicElems returns the values stored into the backing array of a variadic slice argument.
func variadicElems(v ssa.Value) []ssa.Value {
	sl, ok := v.(*ssa.Slice)
	if !ok {
		return nil
	}
	arr, ok := sl.X.(*ssa.Alloc)
	if !ok {
		return nil
	}
	var out []ssa.Value
	for _, r := range *arr.Referrers() {
		if ia, ok := r.(*ssa.IndexAddr); ok {
			for _, rr := range *ia.Referrers() {
				if st, ok := rr.(*ssa.Store); ok && st.Addr == ia {
					out = append(out, st.Val)
				}
			}
		}
	}
	return out
}


// returnedClosure: the function literal a call result denotes when the (static) callee returns one literal at
// that result index on every return (a helper such as `reserve` returning its release function).
func returnedClosure(c *Ctx, v ssa.Value) *ssa.Function {
	if f := closureOf(v, 0); f != nil {
		return f
	}
	call, idx := resultOf(v)
	if call == nil {
		return nil
	}
	var out *ssa.Function
	for _, callee := range c.CalleesOf(call) {
		for _, b := range callee.Blocks {
			ret, ok := b.Instrs[len(b.Instrs)-1].(*ssa.Return)
			if !ok || idx >= len(ret.Results) {
				continue
			}
			r := ret.Results[idx]
			// result cells
			if u, ok := r.(*ssa.UnOp); ok {
				if a, ok := u.X.(*ssa.Alloc); ok {
					for _, ref := range *a.Referrers() {
						if st, ok := ref.(*ssa.Store); ok && st.Addr == ssa.Value(a) {
							if f := closureOf(st.Val, 0); f != nil {
								if out != nil && out != f {
									return nil
								}
								out = f
							}
						}
					}
					continue
				}
			}
			if isNilConst(r) {
				continue
			}
			f := closureOf(r, 0)
			if f == nil || (out != nil && out != f) {
				return nil
			}
			out = f
		}
	}
	return out
}

// releasesKind: is ci a release of the given reservation kind — a direct Referencer.release call, or a call of a
// function value whose body performs one?
func (m *cmdModel) releasesKind(c *Ctx, ci ssa.CallInstruction, kind string) bool {
	if k, _, ok := m.releaseKind(c, ci); ok {
		return k == kind
	}
	cc := ci.Common()
	if g := cc.StaticCallee(); g != nil && !cc.IsInvoke() {
		// a method of a reservation object: `func (r *reservation) release() { r.referencer.release(r.ref, r.key) }`
		if g == m.release || len(g.Blocks) == 0 || fnPkgPath(origin(g)) != pkgCommand || g.Signature.Results().Len() > 0 {
			return false
		}
		found := false
		allCalls(g, func(x ssa.CallInstruction) {
			if k, _, ok := m.releaseKind(c, x); ok && k == kind {
				found = true
			}
		})
		return found
	}
	if cc.IsInvoke() || cc.StaticCallee() != nil {
		return false
	}
	f := returnedClosure(c, cc.Value)
	if f == nil {
		return false
	}
	found := false
	allCalls(f, func(x ssa.CallInstruction) {
		if k, _, ok := m.releaseKind(c, x); ok && k == kind {
			found = true
		}
	})
	return found
}

// helperTakeError: is v the error result of a call to a package helper that returns the error of its take?
func (m *cmdModel) helperTakeError(c *Ctx, v ssa.Value, kind string) bool {
	call, idx := resultOf(v)
	if call == nil {
		return false
	}
	for _, h := range c.CalleesOf(call) {
		if fnPkgPath(h) != pkgCommand || h == m.take || idx != errResultIdx(h.Signature) || !m.reachesTake(c, h, kind) {
			continue
		}
		cells := resultCells(h)
		fromTake := func(x ssa.Value) bool {
			for _, r := range roots(x, nil) {
				if cl, ok := r.(*ssa.Call); ok && callsFn(cl, m.take) {
					return true
				}
			}
			return false
		}
		for _, b := range h.Blocks {
			for _, ins := range b.Instrs {
				switch x := ins.(type) {
				case *ssa.Store:
					if a, ok := x.Addr.(*ssa.Alloc); ok && cells[idx] == a && fromTake(x.Val) {
						return true
					}
				case *ssa.Return:
					if idx < len(x.Results) && fromTake(x.Results[idx]) {
						return true
					}
				}
			}
		}
	}
	return false
}

// helperNilMeansTaken: v is the error result of a helper that returns a nil error only on paths where its take
// succeeded: every return's error result is the take's own error, or a nil constant reached through the nil edge
// of the take's error.
func (m *cmdModel) helperNilMeansTaken(c *Ctx, v ssa.Value, kind string) bool {
	call, idx := resultOf(v)
	if call == nil {
		return false
	}
	all := false
	for _, h := range c.CalleesOf(call) {
		if fnPkgPath(h) != pkgCommand || h == m.take || idx != errResultIdx(h.Signature) || !m.reachesTake(c, h, kind) {
			continue
		}
		ok := true
		isTakeErr := func(x ssa.Value) bool {
			for _, r := range roots(x, nil) {
				if cl, isC := r.(*ssa.Call); isC && callsFn(cl, m.take) {
					return true
				}
			}
			return false
		}
		cells := resultCells(h)
		pr := &PathRule{
			Edge: func(pc *PathCtx, s uint64, from *ssa.BasicBlock, si int) (uint64, bool) {
				for _, f := range pc.edgeFacts(from, si) {
					if isNilConst(f.Y) && isTakeErr(f.X) {
						if f.Eq {
							s |= 1
						} else {
							s &^= 1
						}
					}
				}
				return s, true
			},
			Step: func(pc *PathCtx, s uint64, ins ssa.Instruction) uint64 {
				check := func(x ssa.Value) {
					if isTakeErr(x) {
						return
					}
					if isNilConst(x) {
						if s&1 == 0 {
							ok = false
						}
						return
					}
					// another error value: assumed non-nil only when it is a fresh error
					if _, isCall := x.(*ssa.Call); !isCall {
						if _, isMI := x.(*ssa.MakeInterface); !isMI {
							ok = false
						}
					}
				}
				switch x := ins.(type) {
				case *ssa.Store:
					if a, isA := x.Addr.(*ssa.Alloc); isA && cells[idx] == a {
						check(x.Val)
					}
				case *ssa.Return:
					if idx < len(x.Results) && cells[idx] == nil {
						check(x.Results[idx])
					}
				}
				return s
			},
		}
		c.RunPaths(h, 0, pr)
		if !ok {
			return false
		}
		all = true
	}
	return all
}

// reachesTake: does fn (through static callees of the package) reach a take of this kind?
func (m *cmdModel) reachesTake(c *Ctx, fn *ssa.Function, kind string) bool {
	memo := map[*ssa.Function]int{}
	return c.reachesStatic(fn, func(ci ssa.CallInstruction) bool {
		k, _, ok := m.takeKind(c, ci)
		return ok && k == kind
	}, memo, 0)
}

// reservationKey: the value reserved in fn — the key argument of a direct take, or the argument passed to a
// helper whose parameter is the key of its take.
func (m *cmdModel) reservationKey(c *Ctx, fn *ssa.Function, kind string) ssa.Value {
	var key ssa.Value
	allCalls(fn, func(ci ssa.CallInstruction) {
		if k, kv, ok := m.takeKind(c, ci); ok && k == kind {
			key = kv
			return
		}
		if key != nil {
			return
		}
		for _, h := range c.CalleesOf(ci) {
			if fnPkgPath(h) != pkgCommand || h == m.take {
				continue
			}
			allCalls(h, func(x ssa.CallInstruction) {
				if k, kv, ok := m.takeKind(c, x); ok && k == kind {
					if p, ok := stripLoadOfParamCell(strip(kv)).(*ssa.Parameter); ok {
						if i := paramIndex(p); i >= 0 && i < len(ci.Common().Args) {
							key = ci.Common().Args[i]
						}
					}
				}
			})
		}
	})
	return key
}

// reachesStoreLookup: does fn (through static callees of the package) read a transaction or a log from the store?
func (m *cmdModel) reachesStoreLookup(c *Ctx, fn *ssa.Function) bool {
	return c.reachesStatic(fn, func(ci ssa.CallInstruction) bool {
		return ifaceMethodOf(ci) != nil && (isCallTo(ci, m.getTxByRef) || isCallTo(ci, m.readLogIK) || isCallTo(ci, m.getTx))
	}, map[*ssa.Function]int{}, 0)
}

// inlineReservationHelpers: package functions that take or release reservations, or look the store up, but do not
// themselves hand off.
func (m *cmdModel) inlineReservationHelpers(c *Ctx, kind string) func(ci ssa.CallInstruction) []*ssa.Function {
	return func(ci ssa.CallInstruction) []*ssa.Function {
		var out []*ssa.Function
		for _, f := range c.CalleesOf(ci) {
			if fnPkgPath(f) != pkgCommand || f == m.take || f == m.release || m.appenders[f] || m.persisters[f] {
				continue
			}
			if m.reachesTake(c, f, kind) || m.reachesStoreLookup(c, f) {
				out = append(out, f)
			}
		}
		return out
	}
}

// ---- R11a ------------------------------------------------------------------------------------

func ruleR11a(c *Ctx) {
	const rule = "R11a"
	m := c.cmdModel(rule)
	if !m.ok {
		return
	}
	obl := newOblSet(c, rule)
	defer obl.flush()
	nFns := 0
	for _, fn := range m.fns {
		// the functions where reservation and write meet: they reach a take of the kind and hand a log off
		hasHandoff := false
		allCalls(fn, func(ci ssa.CallInstruction) {
			if _, _, ok := m.appendCall(c, ci); ok {
				hasHandoff = true
			}
		})
		if !hasHandoff || !m.reachesTake(c, fn, "referenceTxReference") {
			continue
		}
		keyVal := m.reservationKey(c, fn, "referenceTxReference")
		if keyVal == nil {
			continue
		}
		nFns++
		name := fnName(fn)
		kOrder := name + ":reserved-before-lookup-and-handoff"
		kSpan := name + ":reservation-spans-persistence"
		kConf := name + ":existing-reference-rejected"
		obl.expect(kOrder, fn.Pos(), "with a non-empty reference: take precedes the store lookup, both precede the hand-off")
		obl.expect(kSpan, fn.Pos(), "the reservation is released only after the persistence wait (or when nothing was handed off)")
		obl.expect(kConf, fn.Pos(), "no hand-off on the path where the lookup found a transaction")
		var lookup *ssa.Call
		release := func(pc *PathCtx, s uint64, pos token.Pos) uint64 {
			if s&rvAPPENDED != 0 && s&rvWAITED == 0 {
				pc.Note("reference released at %s", c.pos(pos))
				obl.violate(kSpan, pos, "the reference reservation is released on a path that handed the log off but has not waited for its persistence: a concurrent request with the same reference passes the store lookup and is committed too", pc.Trail())
			}
			if s&rvTAKEN == 0 {
				pc.Note("release at %s without owning the reservation", c.pos(pos))
				obl.violate(kSpan, pos, "the reference reservation is released on a path that does not own it (the take failed): the reservation of the in-flight request holding this reference is dropped, and a third request can pass both checks", pc.Trail())
			}
			return (s &^ rvTAKEN) | rvRELEASED
		}
		pr := &PathRule{
			Inline: m.inlineReservationHelpers(c, "referenceTxReference"),
			DeferID: func(d *ssa.Defer) int {
				if m.releasesKind(c, d, "referenceTxReference") {
					return 0
				}
				return -1
			},
			RunDeferred: func(pc *PathCtx, s uint64, d *ssa.Defer) uint64 { return release(pc, s, d.Pos()) },
			Step: func(pc *PathCtx, s uint64, ins ssa.Instruction) uint64 {
				if w := m.waitedDone(c, ins); w != nil && m.handoffChan(c, w) != nil {
					return s | rvWAITED
				}
				switch x := ins.(type) {
				case *ssa.Call:
					if k, _, ok := m.takeKind(c, x); ok && k == "referenceTxReference" {
						return s | rvTAKEN
					}
					if m.releasesKind(c, x, "referenceTxReference") {
						return release(pc, s, x.Pos())
					}
					if isCallTo(x, m.getTxByRef) && ifaceMethodOf(x) != nil {
						lookup = x
						if s&rvTAKEN == 0 {
							obl.violate(kOrder, x.Pos(), "the store is searched for the reference on a path that does not hold the reservation of the reference", pc.Trail())
						}
						if len(x.Call.Args) > 1 && !sameSource(pc.Resolve(x.Call.Args[1]), keyVal) {
							obl.violate(kOrder, x.Pos(), "the store lookup is not made with the reference that was reserved", pc.Trail())
						}
						return s | rvLOOKED
					}
					if _, _, ok := m.appendCall(c, x); ok {
						if s&rvEMPTY == 0 && (s&rvTAKEN == 0 || s&rvLOOKED == 0) {
							obl.violate(kOrder, x.Pos(), "the log is handed off on a path where the reference may be non-empty but was not reserved and looked up", pc.Trail())
						}
						if s&rvFOUND != 0 {
							obl.violate(kConf, x.Pos(), "the log is handed off on the path where the store already holds a transaction with this reference", pc.Trail())
						}
						return (s | rvAPPENDED) &^ rvWAITED
					}
				case *ssa.UnOp:
					if x.Op == token.ARROW {
						if e, ok := x.X.(*ssa.Extract); ok {
							if call, ok := e.Tuple.(*ssa.Call); ok {
								if ci, _, ok := m.appendCall(c, call); ok && ci == e.Index {
									return s | rvWAITED
								}
							}
						}
					}
				}
				return s
			},
			Edge: func(pc *PathCtx, s uint64, from *ssa.BasicBlock, si int) (uint64, bool) {
				for _, f := range pc.edgeFacts(from, si) {
					if str, ok := constString(f.Y); ok && str == "" && sameSource(f.X, keyVal) {
						if f.Eq {
							s |= rvEMPTY
						} else {
							s &^= rvEMPTY
						}
					}
					// error edge of the take itself (or of a helper passing it on): the reference is not owned
					if call, ok := f.X.(*ssa.Call); ok && isNilConst(f.Y) && !f.Eq {
						if k, _, ok := m.takeKind(c, call); ok && k == "referenceTxReference" {
							s &^= rvTAKEN
						}
					}
					if isNilConst(f.Y) && m.helperTakeError(c, f.X, "referenceTxReference") {
						if !f.Eq {
							s &^= rvTAKEN
						} else if s&(rvTAKEN|rvRELEASED) == 0 && m.helperNilMeansTaken(c, f.X, "referenceTxReference") {
							return s, false // the helper reports no error only when its take succeeded
						}
					}
					if e, ok := f.X.(*ssa.Extract); ok && isNilConst(f.Y) {
						if call, ok := e.Tuple.(*ssa.Call); ok {
							if lookup != nil && call == lookup && e.Index == 1 {
								// err == nil / err != nil of the lookup; contradictory re-tests are infeasible paths
								if f.Eq {
									if s&rvNOTFOUND != 0 {
										return s, false
									}
									s |= rvFOUND
								} else {
									if s&rvFOUND != 0 {
										return s, false
									}
									s |= rvNOTFOUND
								}
							}
							if _, ei, ok := m.appendCall(c, call); ok && ei == e.Index && !f.Eq {
								s &^= rvAPPENDED | rvWAITED
							}
						}
					}
				}
				return s, true
			},
			Exit: func(pc *PathCtx, s uint64, ins ssa.Instruction) {
				if _, isRet := ins.(*ssa.Return); isRet && s&rvTAKEN != 0 && pc.Fn() == fn {
					obl.violate(kSpan, ins.Pos(), "a path returns while still holding the reference reservation: the reference can never be used again", pc.Trail())
				}
			},
		}
		// pre-scan for the lookup call so that FOUND facts resolve on the first visit
		allCalls(fn, func(ci ssa.CallInstruction) {
			if call, ok := ci.(*ssa.Call); ok && isCallTo(ci, m.getTxByRef) {
				lookup = call
			}
		})
		c.RunPaths(fn, 0, pr)
	}
	if nFns == 0 {
		obl.violate("floor:reference-reservation", token.NoPos, "no function of package command reserves the transaction reference (take(referenceTxReference, …)): two concurrent requests with one reference both pass the store lookup", nil)
	}
}

// ---- C10 -------------------------------------------------------------------------------------

func ruleR10ab(c *Ctx) {
	const rule = "R10a"
	m := c.cmdModel(rule)
	if !m.ok {
		return
	}
	obl := newOblSet(c, rule)
	oblB := newOblSet(c, "R10b")
	oblF := newOblSet(c, "R10f")
	defer obl.flush()
	defer oblB.flush()
	defer oblF.flush()
	fn := c.MustFn(rule, pkgCommand, "Commander.RevertTransaction")
	if fn == nil {
		return
	}
	name := "RevertTransaction"
	const kind = "referenceReverts"
	kGuard := name + ":in-flight-guard-spans-read-and-write"
	kRev := name + ":refused-when-already-reverted"
	obl.expect(kGuard, fn.Pos(), "take(referenceReverts, id) precedes the store read; released only after the write returned, and only by its owner")
	oblB.expect(kRev, fn.Pos(), "the write is reached only on the false edge of Transaction.Reverted of the transaction read for the same id")
	var keyVal ssa.Value
	if m.reachesTake(c, fn, kind) {
		keyVal = m.reservationKey(c, fn, kind)
	}
	if keyVal == nil {
		obl.violate(kGuard, fn.Pos(), "RevertTransaction does not reserve the transaction id (no take(referenceReverts, id), directly or through a helper): two concurrent reverts both read `not reverted` and both append a revert", nil)
		return
	}
	var getTxCall *ssa.Call
	allCalls(fn, func(ci ssa.CallInstruction) {
		if call, ok := ci.(*ssa.Call); ok && isCallTo(ci, m.getTx) && ifaceMethodOf(ci) != nil {
			getTxCall = call
		}
	})
	nPersist := 0
	release := func(pc *PathCtx, s uint64, pos token.Pos, deferred bool) uint64 {
		if !deferred && s&rvPERSISTED == 0 && s&rvLOOKED != 0 && s&rvTAKEN != 0 {
			obl.violate(kGuard, pos, "the in-flight guard is released between the read of the transaction and the revert write", pc.Trail())
		}
		if s&rvTAKEN == 0 {
			pc.Note("release at %s without owning the guard", c.pos(pos))
			obl.violate(kGuard, pos, "the in-flight guard is released on a path that does not own it (the take failed: another revert of this transaction is in flight): the owner's guard is dropped, and a third request can read `not reverted` and revert the transaction a second time", pc.Trail())
		}
		return (s &^ rvTAKEN) | rvRELEASED
	}
	pr := &PathRule{
		Inline: m.inlineReservationHelpers(c, kind),
		DeferID: func(d *ssa.Defer) int {
			if m.releasesKind(c, d, kind) {
				return 0
			}
			return -1
		},
		RunDeferred: func(pc *PathCtx, s uint64, d *ssa.Defer) uint64 { return release(pc, s, d.Pos(), true) },
		Step: func(pc *PathCtx, s uint64, ins ssa.Instruction) uint64 {
			call, ok := ins.(*ssa.Call)
			if !ok {
				return s
			}
			if k, _, ok := m.takeKind(c, call); ok && k == kind {
				return s | rvTAKEN
			}
			if m.releasesKind(c, call, kind) {
				return release(pc, s, call.Pos(), false)
			}
			if call == getTxCall {
				if s&rvTAKEN == 0 {
					obl.violate(kGuard, call.Pos(), "the transaction is read from the store on a path that does not hold the in-flight guard", pc.Trail())
				}
				if len(call.Call.Args) > 1 && !sameSource(pc.Resolve(call.Call.Args[1]), keyVal) {
					obl.violate(kGuard, call.Pos(), "the transaction that is read is not the one whose id is guarded", pc.Trail())
				}
				return s | rvLOOKED
			}
			for _, f := range c.CalleesOf(call) {
				if m.persisters[f] {
					nPersist++
					if s&rvTAKEN == 0 || s&rvLOOKED == 0 {
						obl.violate(kGuard, call.Pos(), "the revert is written on a path that does not hold the in-flight guard (or did not read the transaction under it)", pc.Trail())
					}
					if s&rvNOTREVERTED == 0 {
						oblB.violate(kRev, call.Pos(), "the revert is written on a path that has not established that the transaction is not yet reverted: a transaction can be reverted twice", pc.Trail())
					}
					return s | rvPERSISTED
				}
			}
			return s
		},
		Edge: func(pc *PathCtx, s uint64, from *ssa.BasicBlock, si int) (uint64, bool) {
			for _, f := range pc.edgeFacts(from, si) {
				// error edge of the take itself (or of a helper passing it on): the guard is not owned
				if call, ok := f.X.(*ssa.Call); ok && isNilConst(f.Y) && !f.Eq {
					if k, _, ok := m.takeKind(c, call); ok && k == kind {
						s &^= rvTAKEN
					}
				}
				if isNilConst(f.Y) && m.helperTakeError(c, f.X, kind) {
					if !f.Eq {
						s &^= rvTAKEN
					} else if s&(rvTAKEN|rvRELEASED) == 0 && m.helperNilMeansTaken(c, f.X, kind) {
						return s, false // the helper reports no error only when its take succeeded
					}
				}
				if base, ok := fieldRead(f.X, m.fReverted); ok {
					fromRead := false
					for _, r := range roots(rootBase(base), nil) {
						if call, idx := resultOf(r); call != nil && call == getTxCall && idx == 0 {
							fromRead = true
						}
					}
					if b, isB := constBool(f.Y); isB && fromRead {
						if (b == f.Eq) == false {
							s |= rvNOTREVERTED
						} else {
							s &^= rvNOTREVERTED
						}
					}
				}
			}
			return s, true
		},
		Exit: func(pc *PathCtx, s uint64, ins ssa.Instruction) {
			if _, isRet := ins.(*ssa.Return); isRet && s&rvTAKEN != 0 && pc.Fn() == fn {
				obl.violate(kGuard, ins.Pos(), "a path returns while still holding the in-flight guard: the transaction can never be reverted again", pc.Trail())
			}
		},
	}
	c.RunPaths(fn, 0, pr)
	if nPersist == 0 {
		obl.undecided(name+":floor:write", fn.Pos(), "RevertTransaction does not reach executionContext.run")
	}
	// R10f: the script is built from Reverse() of the transaction that was read
	txToScript := c.Fn(pkgLedger, "TxToScriptData")
	reverse := c.methodObj(pkgLedger, "TransactionData", "Reverse")
	postingsField := c.Field(pkgLedger, "TransactionData", "Postings")
	if txToScript == nil || reverse == nil || postingsField == nil {
		oblF.undecided(name+":anchors", fn.Pos(), "TxToScriptData / Transaction.Reverse / TransactionData.Postings not found")
		return
	}
	kF := name + ":script-is-reverse-of-the-read-transaction"
	oblF.expect(kF, fn.Pos(), "the postings given to TxToScriptData are Transaction.Reverse() of the transaction read for the id")
	found := false
	// in the method or in an execution literal nested in it (`runAndNotify(…, func() { return commander.exec(…) }, …)`)
	var sitesF []ssa.CallInstruction
	for _, lf := range withLiterals(fn) {
		allCalls(lf, func(ci ssa.CallInstruction) { sitesF = append(sitesF, ci) })
	}
	for _, ci := range sitesF {
		ci := ci
		if !callsFn(ci, txToScript) {
			continue
		}
		found = true
		// arg0: TransactionData literal (load of local); its Postings field store
		arg := ci.Common().Args[0]
		var cell *ssa.Alloc
		if u, ok := arg.(*ssa.UnOp); ok && u.Op == token.MUL {
			cell, _ = u.X.(*ssa.Alloc)
		}
		okRev := false
		if cell != nil {
			for _, r := range *cell.Referrers() {
				fa, ok := r.(*ssa.FieldAddr)
				if !ok || !sameField(fieldOfAddr(fa), postingsField) {
					continue
				}
				for _, rr := range *fa.Referrers() {
					st, ok := rr.(*ssa.Store)
					if !ok || st.Addr != fa {
						continue
					}
					// st.Val = load of field Postings of X, X = result of Reverse(read tx)
					// (a variable captured by the execution literal is the value the method stored into it)
					src := rootBaseThroughCalls(st.Val)
					if fv, isFV := src.(*ssa.FreeVar); isFV {
						if b := freeVarBinding(fv); b != nil {
							src = rootBaseThroughCalls(b)
						}
					}
					for _, root := range roots(src, nil) {
						if call, ok := root.(*ssa.Call); ok && isCallTo(call, reverse) {
							recv := rootBase(call.Call.Args[0])
							if fv, isFV := recv.(*ssa.FreeVar); isFV {
								if b := freeVarBinding(fv); b != nil {
									recv = rootBase(b)
								}
							}
							for _, r2 := range roots(recv, nil) {
								if c2, idx := resultOf(r2); c2 != nil && c2 == getTxCall && idx == 0 {
									okRev = true
								}
							}
						}
					}
				}
			}
		}
		if !okRev {
			oblF.violate(kF, ci.Pos(), "the postings of the revert script are not Reverse() of the transaction that was read from the store for this id", nil)
		}
	}
	if !found {
		oblF.undecided(kF, fn.Pos(), "RevertTransaction does not call TxToScriptData")
	}
}

// rootBaseThroughCalls: like rootBase, for `x.Field` where x is a struct value returned by a call.
func rootBaseThroughCalls(v ssa.Value) ssa.Value {
	v = rootBase(v)
	if a, ok := v.(*ssa.Alloc); ok {
		if s := singleStore(a); s != nil {
			return s
		}
	}
	return v
}

func ruleR10c(c *Ctx) {
	const rule = "R10c"
	txToScript := c.MustFn(rule, pkgLedger, "TxToScriptData")
	revert := c.MustFn(rule, pkgCommand, "Commander.RevertTransaction")
	if txToScript == nil || revert == nil {
		return
	}
	n := 0
	for _, ci := range c.CallersOf(txToScript) {
		n++
		caller := ci.Parent()
		arg := ci.Common().Args[1]
		key := "overdraft-flag:" + fnName(caller)
		inRevert := caller == revert
		for up := caller; up != nil && !inRevert; up = up.Parent() {
			inRevert = up == revert
		}
		if inRevert {
			// must be the parameter named force (seen from an execution literal: the captured parameter)
			arg = normCaptured(strip(arg))
			p, ok := arg.(*ssa.Parameter)
			c.check(ok && p.Name() == "force", rule, key, ci.Pos(), "the revert passes its `force` parameter", "the revert does not pass its `force` parameter as the unbounded-overdraft flag: an unforced revert can overdraw, or a forced one cannot")
		} else {
			b, ok := constBool(arg)
			c.check(ok && !b, rule, key, ci.Pos(), "constant false", "a posting-mode transaction is compiled with unbounded overdraft allowed")
		}
	}
	if n < 2 {
		c.undecided(rule, "floor:TxToScriptData-call-sites", token.NoPos, fmt.Sprintf("expected the revert and the posting-mode call sites, found %d", n))
	}
	// inside: the overdraft text is written only under the flag
	flag := txToScript.Params[1]
	nW := 0
	for _, b := range txToScript.Blocks {
		for _, ins := range b.Instrs {
			call, ok := ins.(*ssa.Call)
			if !ok || calleeFullName(call) != "(*strings.Builder).WriteString" {
				continue
			}
			s, ok := constString(call.Call.Args[1])
			if !ok || !strings.Contains(s, "overdraft") {
				continue
			}
			nW++
			guarded := guardedByValueFact(c, txToScript, call, flag, true)
			c.check(guarded, rule, "TxToScriptData:overdraft-text-under-flag", call.Pos(), "written only on the true edge of the flag", "the `allowing unbounded overdraft` clause is emitted on a path that does not test the flag")
		}
	}
	// any other write that mentions overdraft through Sprintf etc. is out of the accepted idiom
	if nW == 0 {
		c.undecided(rule, "TxToScriptData:overdraft-text", txToScript.Pos(), "no constant `… overdraft` text written by TxToScriptData: forced reverts can no longer overdraw, or the text is built differently")
	}
}

// guardedByValueFact: target is reached only through edges establishing v == want (v a bool value).
func guardedByValueFact(c *Ctx, fn *ssa.Function, target ssa.Instruction, v ssa.Value, want bool) bool {
	ok, seen := true, false
	pr := &PathRule{
		Edge: func(pc *PathCtx, s uint64, from *ssa.BasicBlock, si int) (uint64, bool) {
			for _, f := range pc.edgeFacts(from, si) {
				if f.X == v {
					if b, isB := constBool(f.Y); isB {
						if (b == f.Eq) == want {
							s |= 1
						} else {
							s &^= 1
						}
					}
				}
			}
			return s, true
		},
		Step: func(pc *PathCtx, s uint64, ins ssa.Instruction) uint64 {
			if ins == target {
				seen = true
				if s&1 == 0 {
					ok = false
				}
			}
			return s
		},
	}
	c.RunPaths(fn, 0, pr)
	return ok && seen
}

func ruleR10d(c *Ctx) {
	const rule = "R10d"
	schema, err := loadSQLSchema(c, migrationSQL)
	if err != nil {
		c.undecided(rule, "anchor:migration", token.NoPos, err.Error())
		return
	}
	payload := c.Named(pkgLedger, "RevertedTransactionLogPayload")
	if payload == nil {
		c.undecided(rule, "anchor:RevertedTransactionLogPayload", token.NoPos, "type not found")
		return
	}
	st := payload.Underlying().(*types.Struct)
	idTag, txTag := "", ""
	for i := 0; i < st.NumFields(); i++ {
		switch st.Field(i).Name() {
		case "RevertedTransactionID":
			idTag = jsonTagName(st, i)
		case "RevertTransaction":
			txTag = jsonTagName(st, i)
		}
	}
	hl := schema.Func("handle_log")
	if hl == nil {
		c.undecided(rule, "anchor:sql.handle_log", token.NoPos, "not found")
		return
	}
	// find the REVERTED_TRANSACTION branch: tokens from `new.type = 'REVERTED_TRANSACTION' then` to the matching `end if`
	b := hl.Body
	start, end := -1, -1
	for i := 0; i+4 < len(b); i++ {
		if b[i].Text == "new" && b[i+2].Text == "type" && b[i+4].Kind == 's' && b[i+4].Text == "REVERTED_TRANSACTION" {
			start = i
			depth := 0
			for j := i; j < len(b); j++ {
				if b[j].Text == "if" && (j == 0 || b[j-1].Text != "end") {
					depth++
				}
				if b[j].Text == "end" && j+1 < len(b) && b[j+1].Text == "if" {
					depth--
					if depth <= 0 {
						end = j
						break
					}
				}
			}
			break
		}
	}
	if start < 0 || end < 0 {
		c.bad(rule, "handle_log:revert-branch", token.NoPos, "handle_log has no REVERTED_TRANSACTION branch: the reverted flag is never projected")
		return
	}
	// an `elsif` / `else` of the same chain ends the branch
	{
		depth := 0
		for j := start + 1; j < end; j++ {
			if b[j].Text == "if" && b[j-1].Text != "end" {
				depth++
			}
			if b[j].Text == "end" && j+1 < len(b) && b[j+1].Text == "if" {
				depth--
			}
			if depth == 0 && (b[j].Text == "elsif" || b[j].Text == "elseif" || b[j].Text == "else") && j > start+5 {
				end = j
				break
			}
		}
	}
	// local variables initialised once (`_transaction jsonb = new.data -> 'transaction';`) stand for their initialiser
	locals := sqlLocalInits(b)
	mentions := func(lo, hi int, tag string) bool {
		for j := lo; j < hi; j++ {
			if b[j].Kind == 's' && b[j].Text == tag {
				return true
			}
			if b[j].Kind == 'w' {
				for _, t := range locals[b[j].Text] {
					if t.Kind == 's' && t.Text == tag {
						return true
					}
				}
			}
		}
		return false
	}
	callsRevert, usesIDKey, insertsTx, usesTxKey := false, false, false, false
	for i := start; i < end; i++ {
		if b[i].Text == "revert_transaction" || b[i].Text == "insert_transaction" {
			// its argument list: until the closing paren at the same depth
			d := b[i+1].Depth
			j := i + 2
			for j < end && !(b[j].Text == ")" && b[j].Depth == d) {
				j++
			}
			if b[i].Text == "revert_transaction" {
				callsRevert = true
				if mentions(i+2, j, idTag) {
					usesIDKey = true
				}
			} else {
				insertsTx = true
				if mentions(i+2, j, txTag) {
					usesTxKey = true
				}
			}
		}
	}
	c.check(callsRevert && usesIDKey, rule, "handle_log:revert-branch-marks-the-reverted-id", token.NoPos, "revert_transaction(new.ledger, new.data->>'"+idTag+"', …)", "the REVERTED_TRANSACTION branch of handle_log does not call revert_transaction with the JSON key `"+idTag+"` of RevertedTransactionLogPayload.RevertedTransactionID: the original is never (or the wrong one is) marked reverted")
	c.check(insertsTx && usesTxKey, rule, "handle_log:revert-branch-inserts-the-new-transaction", token.NoPos, "insert_transaction(new.ledger, new.data->'"+txTag+"', …)", "the REVERTED_TRANSACTION branch does not insert the reverting transaction from JSON key `"+txTag+"`")
	// revert_transaction: update transactions set reverted_at … where id = _id and ledger = _ledger
	if rt := schema.Func("revert_transaction"); rt != nil {
		setsFlag, byID, byLedger := false, false, false
		t := rt.Body
		for i := 0; i+2 < len(t); i++ {
			if t[i].Text == "reverted_at" && t[i+1].Text == "=" {
				setsFlag = true
			}
			if t[i].Text == "id" && t[i+1].Text == "=" && t[i+2].Text == "_id" {
				byID = true
			}
			if t[i].Text == "ledger" && t[i+1].Text == "=" && t[i+2].Text == "_ledger" {
				byLedger = true
			}
		}
		c.check(setsFlag && byID && byLedger, rule, "revert_transaction:sets-reverted_at-by-id-and-ledger", token.NoPos, "update … set reverted_at … where id = _id and ledger = _ledger", "SQL function revert_transaction does not set reverted_at for exactly (id, ledger)")
	} else {
		c.undecided(rule, "anchor:sql.revert_transaction", token.NoPos, "not found")
	}
	// the constructor stores the roles in the right fields
	if ctor := c.MustFn(rule, pkgLedger, "NewRevertedTransactionLog"); ctor != nil {
		okID, okTx := false, false
		for _, bb := range ctor.Blocks {
			for _, ins := range bb.Instrs {
				st, ok := ins.(*ssa.Store)
				if !ok {
					continue
				}
				if fa, ok := st.Addr.(*ssa.FieldAddr); ok {
					f := fieldOfAddr(fa)
					if f != nil && f.Name() == "RevertedTransactionID" && st.Val == ssa.Value(ctor.Params[1]) {
						okID = true
					}
					if f != nil && f.Name() == "RevertTransaction" && st.Val == ssa.Value(ctor.Params[2]) {
						okTx = true
					}
				}
			}
		}
		c.check(okID && okTx, rule, "NewRevertedTransactionLog:roles", ctor.Pos(), "revertedTxID -> RevertedTransactionID, tx -> RevertTransaction", "NewRevertedTransactionLog stores its arguments in the wrong payload fields")
	}
	// the commander passes (timestamp, id of the read transaction, new tx)
	m := c.cmdModel(rule)
	if m.ok {
		if ctor := c.Fn(pkgLedger, "NewRevertedTransactionLog"); ctor != nil {
			n := 0
			for _, ci := range c.CallersOf(ctor) {
				if fnPkgPath(ci.Parent()) != pkgCommand {
					continue
				}
				n++
				arg := ci.Common().Args[1]
				f, base := anyFieldRead(arg)
				fromRead := false
				if f != nil && f.Name() == "ID" {
					for _, r := range roots(rootBase(base), nil) {
						if call, idx := resultOf(r); call != nil && idx == 0 && isCallTo(call, m.getTx) {
							fromRead = true
						}
					}
				}
				// the literal receives the new transaction as its first parameter
				newTx := false
				if p, ok := ci.Common().Args[2].(*ssa.Parameter); ok && paramIndex(p) == 0 {
					newTx = true
				}
				c.check(fromRead && newTx, rule, "revert-log:built-from-read-id-and-new-tx:"+fnName(ci.Parent()), ci.Pos(), "reverted id = ID of the transaction read from the store; reverting tx = the transaction being created", "the revert log is not built from (ID of the transaction read from the store, the newly created transaction)")
			}
			if n == 0 {
				c.undecided(rule, "floor:revert-log-construction", token.NoPos, "package command never builds a revert log")
			}
		}
	}
}


// sqlLocalInits: PL/pgSQL locals of a function body that are given a value in the declare section
// (`name type = expr;` / `:=` / `default`) and never assigned again: name -> tokens of the initialiser.
func sqlLocalInits(b []sqlTok) map[string][]sqlTok {
	out := map[string][]sqlTok{}
	di, bi := -1, -1
	for i, t := range b {
		if t.Text == "declare" && di < 0 {
			di = i
		}
		if t.Text == "begin" && di >= 0 && bi < 0 {
			bi = i
		}
	}
	if di < 0 || bi < 0 {
		return out
	}
	i := di + 1
	for i < bi {
		j := i
		for j < bi && b[j].Text != ";" {
			j++
		}
		// declaration b[i:j]
		if j > i && b[i].Kind == 'w' {
			for k := i + 1; k < j; k++ {
				if b[k].Text == "=" || b[k].Text == "default" || (b[k].Text == ":" && k+1 < j && b[k+1].Text == "=") {
					init := k + 1
					if b[k].Text == ":" {
						init = k + 2
					}
					out[b[i].Text] = append([]sqlTok(nil), b[init:j]...)
					break
				}
			}
		}
		i = j + 1
	}
	// reassigned in the body: not a constant alias
	for k := bi; k+1 < len(b); k++ {
		if _, ok := out[b[k].Text]; ok && b[k].Kind == 'w' && (k == 0 || b[k-1].Text == ";" || b[k-1].Text == "then" || b[k-1].Text == "begin" || b[k-1].Text == "loop" || b[k-1].Text == "else") {
			if b[k+1].Text == "=" || b[k+1].Text == ":" {
				delete(out, b[k].Text)
			}
		}
	}
	return out
}

// isRequestKeyValue: v is Parameters.IdempotencyKey — read directly, captured by a builder adapter, or handed down
// through a parameter that every call site binds to it (`logComputer.withIdempotencyKey(e.parameters.IdempotencyKey)`).
func isRequestKeyValue(c *Ctx, m *cmdModel, v ssa.Value, depth int) bool {
	if depth > 5 || v == nil {
		return false
	}
	v = strip(v)
	if _, ok := fieldRead(v, m.fIK); ok {
		return true
	}
	v = normCaptured(v)
	if _, ok := fieldRead(v, m.fIK); ok {
		return true
	}
	p, ok := v.(*ssa.Parameter)
	if !ok {
		return false
	}
	sites := c.CallersOf(p.Parent())
	idx := paramIndex(p)
	if len(sites) == 0 || idx < 0 {
		return false
	}
	for _, s := range sites {
		if idx >= len(s.Common().Args) || !isRequestKeyValue(c, m, s.Common().Args[idx], depth+1) {
			return false
		}
	}
	return true
}
