package main

// Mutants for the rules added after the third micro-mutation wave.
func init() {
	const slice = "libs/collectionutils/slice.go"
	const inmem = "internal/storage/inmemory.go"
	const ectx = "internal/engine/command/context.go"
	const lstore = "internal/storage/ledgerstore/store.go"
	const v2q = "internal/api/v2/query.go"
	const comp = "internal/machine/script/compiler/compiler.go"
	const ll = "libs/collectionutils/linked_list.go"
	const lock = "internal/engine/command/lock.go"
	const poff = "libs/bun/bunpaginate/pagination_offset.go"
	const utils = "internal/storage/ledgerstore/utils.go"
	const bulk = "internal/api/v2/bulk.go"
	const ccomp = "internal/engine/command/compiler.go"
	addMutants(
		Mutant{Property: "C02", Name: "filter-not-does-not-negate", File: slice,
			Old: "\t\treturn !t(t2)", New: "\t\treturn t(t2)", Expect: "R02h:"},
		Mutant{Property: "C04", Name: "get-transaction-returns-the-first", File: inmem,
			Old: "\treturn &filtered[0].Transaction, nil", New: "\treturn &m.transactions[0].Transaction, nil", Expect: "R04h:"},
		Mutant{Property: "C10", Name: "revert-flags-the-oldest-transaction", File: inmem,
			Old: "\t\t\t\treturn transaction.ID.Cmp(payload.RevertedTransactionID) == 0", New: "\t\t\t\treturn transaction.ID.Cmp(payload.RevertedTransactionID) <= 0", Expect: "R10k:"},
		Mutant{Property: "C10", Name: "get-transaction-matches-smaller-ids", File: inmem,
			Old: "\t\treturn transaction.ID.Cmp(txID) == 0", New: "\t\treturn transaction.ID.Cmp(txID) <= 0", Expect: "R10k:"},
		Mutant{Property: "C05", Name: "metadata-logs-allocate-an-id", File: ectx,
			Old: "\treturn e.appendLog(ctx, false, func(*big.Int) *ledger.Log {", New: "\treturn e.appendLog(ctx, true, func(*big.Int) *ledger.Log {", Expect: "R05l:"},
		Mutant{Property: "C05", Name: "transaction-logs-do-not-allocate", File: ectx,
			Old: "\treturn e.appendLog(ctx, true, logBuilder)", New: "\treturn e.appendLog(ctx, false, logBuilder)", Expect: "R05l:"},
		Mutant{Property: "C06", Name: "transaction-wrapper-swallows-the-error", File: lstore,
			Old: "\t\treturn callback(tx)", New: "\t\t_ = callback(tx)\n\t\treturn nil", Expect: "R06j:"},
		Mutant{Property: "C07", Name: "v2-reads-another-header", File: v2q,
			Old: "r.Header.Get(\"Idempotency-Key\")", New: "r.Header.Get(\"IdempotencyKey\")", Expect: "R07k:"},
		Mutant{Property: "C07", Name: "run-releases-another-kind", File: ectx,
			Old: "\t\tdefer e.commander.referencer.release(referenceIks, ik)", New: "\t\tdefer e.commander.referencer.release(referenceTxReference, ik)", Expect: "R07l:"},
		Mutant{Property: "C11", Name: "run-releases-a-reference-reservation", File: ectx,
			Old: "\t\tdefer e.commander.referencer.release(referenceIks, ik)", New: "\t\tdefer e.commander.referencer.release(referenceTxReference, ik)", Expect: "R11h:"},
		Mutant{Property: "C08", Name: "lexer-errors-not-collected", File: comp,
			Old: "\tlexer.AddErrorListener(errListener)\n", New: "", Expect: "R08l:"},
		Mutant{Property: "C12", Name: "parser-errors-not-collected", File: comp,
			Old: "\tp.AddErrorListener(errListener)\n", New: "", Expect: "R12n:"},
		Mutant{Property: "C09", Name: "cache-key-from-a-prefix-of-the-script", File: ccomp,
			Old: "\t_, err := digest.Write([]byte(script))", New: "\t_, err := digest.Write([]byte(script[:len(script)/2]))", Expect: "R08b:"},
		Mutant{Property: "C15", Name: "remove-value-matches-other-values", File: ll,
			Old: "\t\treturn (any)(t) == (any)(t2)", New: "\t\treturn (any)(t) != (any)(t2)", Expect: "R15h:LinkedList.RemoveValue"},
		Mutant{Property: "C15", Name: "unlock-stops-at-a-shared-account", File: lock,
			Old: "\t\tif atomicValue.Add(-1) == 0 {\n\t\t\tdelete(chain.readLocks, account)\n\t\t}", New: "\t\tif atomicValue.Add(-1) != 0 {\n\t\t\tbreak\n\t\t}\n\t\tdelete(chain.readLocks, account)", Expect: "R15h:unlock"},
		Mutant{Property: "C16", Name: "run-does-not-wait-before-returning", File: ectx,
			Old: "\tchainedLog, done, err := executor(e)\n\tif err != nil {\n\t\treturn nil, err\n\t}\n\t<-done\n", New: "\tchainedLog, _, err := executor(e)\n\tif err != nil {\n\t\treturn nil, err\n\t}\n", Expect: "R06a:"},
		Mutant{Property: "C17", Name: "offset-hasmore-from-trimmed-page", File: poff,
			Old: "\t\tHasMore:  next != nil,", New: "\t\tHasMore:  len(ret) > int(query.PageSize),", Expect: "R17i:"},
		Mutant{Property: "C17", Name: "cursor-options-not-restored", File: utils,
			Old: "\t\tOptions:  x.Options,\n", New: "", Expect: "R17j:"},
		Mutant{Property: "C18", Name: "element-key-renamed", File: bulk,
			Old: "`json:\"ik\"`", New: "`json:\"idempotencyKey\"`", Expect: "R18j:"},
		Mutant{Property: "C12", Name: "number-branch-tests-the-left-type-twice", File: comp,
			Old: "\t\t\tif rhsType != machine.TypeNumber {", New: "\t\t\tif lhsType != machine.TypeNumber {", Expect: "R12m:"},
	)
}
