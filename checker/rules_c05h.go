package main

import (
	"fmt"
	"go/token"
	"go/types"
	"sort"
	"strings"

	"golang.org/x/tools/go/ssa"
)

// ---- R05h: the batch handed to the worker and what stays pending split the FIFO -------------------------
//
// Batcher.pending is the FIFO of chained logs awaiting InsertLogs (hand-off order = chain order). Whatever takes
// a batch out of it must hand over the oldest entries, keep exactly the others, in order, and never write into the
// backing array that a handed-out batch still aliases. Decided on the shape of every writer of the field in
// package batching:
//   (a) no in-place write through a slice of pending (element store, copy into it, append to a slice of it that
//       has an upper bound, a mutating slices/sort call);
//   (b) every store to pending that is not `append(pending, x)` is paired with the batch handed over on the same
//       path (stored into batcherJob.items or returned): {batch = pending, pending' = fresh} or
//       {batch = pending[:k], pending' = pending[k:]} with the same k.

func ruleR05h(c *Ctx) {
	const rule = "R05h"
	pending := c.MustFieldLike(rule, pkgBatching, "Batcher", "pending", func(t types.Type) bool { _, ok := t.Underlying().(*types.Slice); return ok })
	items := c.MustField(rule, pkgBatching, "batcherJob", "items")
	if pending == nil || items == nil {
		return
	}
	// bodies to analyse: one per source function of the package (generic body, or a ground instance of it)
	var fns []*ssa.Function
	seen := map[*ssa.Function]bool{}
	for _, fn := range c.FuncsIn(pkgBatching) {
		o := origin(fn)
		if seen[o] || fn.Synthetic != "" {
			continue
		}
		body := o
		if len(body.Blocks) == 0 {
			for _, inst := range c.AllInstancesOf(o) {
				if len(inst.Blocks) > 0 {
					body = inst
					break
				}
			}
		}
		if len(body.Blocks) == 0 {
			continue
		}
		seen[o] = true
		fns = append(fns, body)
	}
	sort.Slice(fns, func(i, j int) bool { return fns[i].Pos() < fns[j].Pos() })

	// derived: v is (a slice of) the current pending buffer; bounded: some Slice on the way has an upper bound
	var derived func(v ssa.Value, depth int) (load *ssa.UnOp, bounded bool, ok bool)
	derived = func(v ssa.Value, depth int) (*ssa.UnOp, bool, bool) {
		if depth > 6 {
			return nil, false, false
		}
		switch x := v.(type) {
		case *ssa.UnOp:
			if _, ok := fieldRead(x, pending); ok {
				return x, false, true
			}
		case *ssa.Slice:
			if l, b, ok := derived(x.X, depth+1); ok {
				return l, b || x.High != nil, true
			}
		case *ssa.Phi:
			for _, e := range x.Edges {
				if l, b, ok := derived(e, depth+1); ok {
					return l, b, true
				}
			}
		case *ssa.ChangeType:
			return derived(x.X, depth+1)
		}
		return nil, false, false
	}
	before := func(a, b ssa.Instruction) bool { // a executes before b on every path reaching b
		if a.Block() == b.Block() {
			for _, ins := range a.Block().Instrs {
				if ins == a {
					return true
				}
				if ins == b {
					return false
				}
			}
		}
		return a.Block().Dominates(b.Block())
	}
	sameBound := func(a, b ssa.Value) bool {
		if a == b {
			return true
		}
		if ka, ok := constInt(a); ok {
			if kb, ok2 := constInt(b); ok2 {
				return ka == kb
			}
			return false
		}
		fa, ba := anyFieldRead(a)
		fb, bb := anyFieldRead(b)
		if fa != nil && fb != nil && sameField(fa, fb) && rootBase(ba) == rootBase(bb) && !sameField(fa, pending) {
			return true // two loads of the same configuration field of the same receiver (no writer outside the constructor is checked below)
		}
		return false
	}

	nStores, nInPlaceSites := 0, 0
	for _, fn := range fns {
		c.seeFn(fn)
		name := fnName(origin(fn))
		// ---- (a) in-place writes
		for _, b := range fn.Blocks {
			for _, ins := range b.Instrs {
				switch x := ins.(type) {
				case *ssa.Store:
					if ia, ok := x.Addr.(*ssa.IndexAddr); ok {
						if _, _, ok := derived(ia.X, 0); ok {
							nInPlaceSites++
							c.add(rule, name+":no-in-place-write-to-pending", x.Pos(), Violated, "an element of the pending buffer is overwritten in place: batches already handed to the worker alias that array, their entries change under the worker (lost, duplicated or reordered log entries)")
						}
					}
				case *ssa.Call:
					if bi, ok := x.Call.Value.(*ssa.Builtin); ok {
						switch bi.Name() {
						case "copy":
							if _, _, ok := derived(x.Call.Args[0], 0); ok {
								nInPlaceSites++
								c.add(rule, name+":no-in-place-write-to-pending", x.Pos(), Violated, "copy writes into the pending buffer in place: a batch already handed to the worker aliases that array, its entries are overwritten by later ones (lost, duplicated and reordered log entries)")
							}
						case "append":
							if _, bounded, ok := derived(x.Call.Args[0], 0); ok && bounded {
								nInPlaceSites++
								c.add(rule, name+":no-in-place-write-to-pending", x.Pos(), Violated, "append to a slice of pending that has an upper bound overwrites the entries behind that bound, which a handed-out batch or the kept tail still hold")
							}
						}
						continue
					}
					if x.Call.IsInvoke() {
						continue
					}
					callee := calleeFullName(x)
					for _, a := range x.Call.Args {
						if _, _, ok := derived(a, 0); !ok {
							continue
						}
						if f := staticCallee(x); f != nil && inRepo(fnPkgPath(origin(f))) {
							continue // repository helpers of the package are analysed themselves when they take the receiver; a slice argument is read-only unless they store through it, which (a) sees there
						}
						switch {
						case hasPrefixAny(callee, "slices.Delete", "slices.Insert", "slices.Reverse", "slices.Sort", "slices.Compact", "slices.Replace", "sort.", "slices.Grow"):
							nInPlaceSites++
							c.add(rule, name+":no-in-place-write-to-pending", x.Pos(), Violated, callee+" rearranges the pending buffer in place: hand-off order is the chain order, and handed-out batches alias the array")
						default:
							// readers (len/cap are builtins; Map, Clone, … copy out)
						}
					}
				}
			}
		}
		// ---- (b) stores to the field
		for _, b := range fn.Blocks {
			for _, ins := range b.Instrs {
				val, _, ok := storeToField(ins, pending)
				if !ok {
					continue
				}
				st := ins.(*ssa.Store)
				// append(pending, x…): the FIFO tail (R05d checks Append does exactly this)
				if call, ok := val.(*ssa.Call); ok {
					if bi, ok := call.Call.Value.(*ssa.Builtin); ok && bi.Name() == "append" {
						if l, bounded, ok := derived(call.Call.Args[0], 0); ok && !bounded && before(l, st) {
							continue
						}
					}
				}
				if fn.Name() == "NewBatcher" {
					continue
				}
				nStores++
				key := fmt.Sprintf("%s:batch-and-rest-split-pending#%d", name, nStores)
				// classify the value kept
				keptKind, keptK := "other", ssa.Value(nil)
				switch x := val.(type) {
				case *ssa.MakeSlice:
					keptKind = "fresh"
				case *ssa.Const:
					if x.Value == nil {
						keptKind = "fresh"
					}
				case *ssa.Slice:
					if l, ok := x.X.(*ssa.UnOp); ok {
						if _, isP := fieldRead(l, pending); isP && before(l, st) && x.High == nil && x.Max == nil && x.Low != nil {
							keptKind, keptK = "suffix", x.Low
						}
					}
					if l, ok := x.X.(*ssa.UnOp); ok {
						if _, isP := fieldRead(l, pending); isP && x.High != nil {
							if k, isC := constInt(x.High); isC && k == 0 {
								keptKind = "emptied-in-place"
							}
						}
					}
					if _, ok := x.X.(*ssa.Alloc); ok {
						keptKind = "fresh" // make([]T, const) and []T{…}: a slice of a new array
					}
				}
				// the batch handed over on the paths through this store
				type hand struct {
					v   ssa.Value
					at  ssa.Instruction
					how string
				}
				var hands []hand
				for _, b2 := range fn.Blocks {
					for _, i2 := range b2.Instrs {
						if v, _, ok := storeToField(i2, items); ok {
							hands = append(hands, hand{v, i2, "stored into batcherJob.items"})
						}
						if r, ok := i2.(*ssa.Return); ok {
							for _, rv := range r.Results {
								if sl, ok := rv.Type().Underlying().(*types.Slice); ok && types.Identical(sl, pending.Type().Underlying()) {
									hands = append(hands, hand{rv, i2, "returned"})
								} else if ok && typeShort(sl.Elem()) == typeShort(pending.Type().Underlying().(*types.Slice).Elem()) {
									hands = append(hands, hand{rv, i2, "returned"})
								}
							}
						}
					}
				}
				var paired []hand
				for _, h := range hands {
					if st.Block() == h.at.Block() || cfgReaches(st.Block(), h.at.Block()) || cfgReaches(h.at.Block(), st.Block()) {
						paired = append(paired, h)
					}
				}
				if len(paired) == 0 {
					c.undecided(rule, key, st.Pos(), "pending is replaced here but no batch is handed over (stored into batcherJob.items or returned) on a path through this store: the split cannot be paired")
					continue
				}
				verdict, msg := Discharged, ""
				for _, h := range paired {
					// resolve phis along the path through the store
					cands := []ssa.Value{h.v}
					if phi, ok := h.v.(*ssa.Phi); ok {
						var sel []ssa.Value
						for i, p := range phi.Block().Preds {
							if p == st.Block() || st.Block().Dominates(p) {
								sel = append(sel, phi.Edges[i])
							}
						}
						if len(sel) > 0 {
							cands = sel
						} else {
							cands = phi.Edges
						}
					}
					for _, hv := range cands {
						hk, hK := "other", ssa.Value(nil)
						switch x := hv.(type) {
						case *ssa.UnOp:
							if _, isP := fieldRead(x, pending); isP && before(x, st) {
								hk = "whole"
							}
						case *ssa.Slice:
							if l, ok := x.X.(*ssa.UnOp); ok {
								if _, isP := fieldRead(l, pending); isP && before(l, st) && x.High != nil {
									if x.Low == nil {
										hk, hK = "prefix", x.High
									} else if k, ok := constInt(x.Low); ok && k == 0 {
										hk, hK = "prefix", x.High
									}
								}
							}
						}
						switch {
						case keptKind == "fresh" && hk == "whole":
						case keptKind == "suffix" && hk == "prefix" && sameBound(keptK, hK):
						case keptKind == "fresh" && hk == "prefix" && boundIsWholeLength(st, hK, pending):
							// `head := q[:n]; if n == len(q) { q = nil }`: under the guard the prefix is the whole list
						case keptKind == "fresh" && hk == "prefix":
							verdict, msg = Violated, "the batch is a prefix of pending but the rest is discarded: the entries behind the batch are never persisted"
						case keptKind == "emptied-in-place" && (hk == "whole" || hk == "prefix"):
							verdict, msg = Violated, "pending is emptied by re-slicing the array that was just handed over as the batch: the next Append overwrites the entries the worker is persisting"
						case keptKind == "suffix" && hk == "whole":
							verdict, msg = Violated, "the whole pending list is handed over while a tail of it is kept: those entries are persisted twice"
						case keptKind == "suffix" && hk == "prefix":
							verdict, msg = Violated, "the batch ends and the kept tail starts at different bounds: entries are skipped or persisted twice"
						default:
							if verdict == Discharged {
								verdict, msg = Undecided, "the batch ("+hk+", "+h.how+") and the value kept pending ("+keptKind+") are not one of the two recognised splits of the FIFO (whole/fresh, prefix[:k]/suffix[k:])"
							}
						}
					}
				}
				switch verdict {
				case Discharged:
					c.ok(rule, key, st.Pos(), "the batch handed over and the entries kept are a prefix/suffix split of pending ("+keptKind+")")
				case Violated:
					c.add(rule, key, st.Pos(), Violated, msg)
				default:
					c.undecided(rule, key, st.Pos(), msg)
				}
			}
		}
	}
	if nStores < 2 {
		c.undecided(rule, "floor:pending-replacements", token.NoPos, fmt.Sprintf("expected the two replacements of Batcher.pending when a batch is taken (full batch, whole list); found %d", nStores))
	}
	c.Info["pending_replacements"] = nStores
}

func hasPrefixAny(s string, ps ...string) bool {
	for _, p := range ps {
		if len(s) >= len(p) && s[:len(p)] == p {
			return true
		}
	}
	return false
}

// cfgReaches: is there a control-flow path from a to b (a != b, or a cycle through a)?
func cfgReaches(a, b *ssa.BasicBlock) bool {
	seen := map[*ssa.BasicBlock]bool{}
	work := append([]*ssa.BasicBlock(nil), a.Succs...)
	for len(work) > 0 {
		x := work[len(work)-1]
		work = work[:len(work)-1]
		if seen[x] {
			continue
		}
		seen[x] = true
		if x == b {
			return true
		}
		work = append(work, x.Succs...)
	}
	return false
}

// boundIsWholeLength: the store is executed only where `k == len(pending)` holds (it is dominated by the true edge
// of that comparison, or by the false edge of `k != len(pending)` / `k < len(pending)`).
func boundIsWholeLength(st *ssa.Store, k ssa.Value, pending *types.Var) bool {
	isLenOfPending := func(v ssa.Value) bool {
		call, ok := v.(*ssa.Call)
		if !ok {
			return false
		}
		bi, ok := call.Call.Value.(*ssa.Builtin)
		if !ok || bi.Name() != "len" || len(call.Call.Args) != 1 {
			return false
		}
		_, isP := fieldRead(call.Call.Args[0], pending)
		return isP
	}
	fn := st.Parent()
	for _, b := range fn.Blocks {
		ifi, ok := b.Instrs[len(b.Instrs)-1].(*ssa.If)
		if !ok {
			continue
		}
		cmp, ok := ifi.Cond.(*ssa.BinOp)
		if !ok {
			continue
		}
		var other ssa.Value
		switch {
		case cmp.X == k:
			other = cmp.Y
		case cmp.Y == k:
			other = cmp.X
		default:
			continue
		}
		if !isLenOfPending(other) {
			continue
		}
		var holds *ssa.BasicBlock
		switch cmp.Op {
		case token.EQL:
			holds = b.Succs[0]
		case token.NEQ:
			holds = b.Succs[1]
		case token.LSS: // k < len: false edge means k >= len; with batch = q[:k] valid, k == len
			if cmp.X == k {
				holds = b.Succs[1]
			}
		case token.GEQ:
			if cmp.X == k {
				holds = b.Succs[0]
			}
		}
		if holds == nil || len(holds.Preds) != 1 {
			continue
		}
		if holds == st.Block() || holds.Dominates(st.Block()) {
			return true
		}
	}
	return false
}

// ---- the hand-off cannot refuse -------------------------------------------------------------------------------
//
// Commander.appendLog advances the chain head (and the transaction id) and then hands the log to Batcher.Append,
// all under one mutex (R05a–c). That is only sound while the hand-off cannot refuse: if Append may return without
// having queued the object (context already cancelled, queue "full", …) the head has moved onto a log that will
// never be persisted — the next log is persisted with a gap in the ids and a hash over a phantom entry, and the
// request that was refused has left a trace. Rule: every returning path of Batcher.Append (helpers of the package
// stepped through) has appended its object to the pending list.
func ruleAppendAlwaysEnqueues(c *Ctx, rule string) {
	app := c.MustFn(rule, pkgBatching, "Batcher.Append")
	pending := c.MustFieldLike(rule, pkgBatching, "Batcher", "pending", func(t types.Type) bool { _, ok := t.Underlying().(*types.Slice); return ok })
	if app == nil || pending == nil {
		return
	}
	bodies := []*ssa.Function{app}
	if len(app.Blocks) == 0 {
		bodies = c.AllInstancesOf(app)
	}
	for _, fn := range bodies {
		if len(fn.Blocks) == 0 {
			continue
		}
		key := "Batcher.Append:enqueues-on-every-path"
		obl := newOblSet(c, rule)
		obl.expect(key, fn.Pos(), "every returning path of Append has put the object at the tail of pending")
		pr := &PathRule{
			Inline: func(call ssa.CallInstruction) []*ssa.Function {
				if g := staticCallee(call); g != nil && fnPkgPath(origin(g)) == pkgBatching && len(g.Blocks) > 0 {
					return []*ssa.Function{g}
				}
				return nil
			},
			MaxDepth: 3,
			Step: func(pc *PathCtx, s uint64, ins ssa.Instruction) uint64 {
				if v, _, ok := storeToField(ins, pending); ok {
					if call, ok := v.(*ssa.Call); ok {
						if bi, ok := call.Call.Value.(*ssa.Builtin); ok && bi.Name() == "append" {
							return s | 1
						}
					}
				}
				return s
			},
			Exit: func(pc *PathCtx, s uint64, ins ssa.Instruction) {
				if pc.parent != nil {
					return
				}
				if _, isRet := ins.(*ssa.Return); isRet && s&1 == 0 {
					obl.violate(key, ins.Pos(), "Batcher.Append returns on a path that queued nothing: the commander has already moved the chain head (and the transaction id) onto that log, so the next persisted log skips an id and chains on an entry that is never persisted, and the refused request has left a trace", pc.Trail())
				}
			},
		}
		c.RunPaths(fn, 0, pr)
		obl.flush()
		break
	}
}

// ---- R05j: one persister ---------------------------------------------------------------------------------------
//
// Batches reach the store in chain order because exactly one worker takes them from the jobs channel, one after the
// other (R05d: the commander's batcher has one worker). That also needs the runner function (InsertLogs) to be
// invoked from nowhere else: a second call site — a "flush what is still queued" loop in the stop branch of
// Runner.Run, a synchronous fast path — is a second persister that can overtake the worker, so that ids k+1.. are
// stored before (or without) id k. Rule: in package job the field Runner.runner is called at exactly one site.
func ruleR05j(c *Ctx) {
	const rule = "R05j"
	runnerField := c.MustFieldLike(rule, pkgJob, "Runner", "runner", func(t types.Type) bool {
		sig, ok := t.Underlying().(*types.Signature)
		return ok && sig.Params().Len() == 2 && sig.Results().Len() == 1
	})
	if runnerField == nil {
		return
	}
	type site struct {
		fn   *ssa.Function
		call ssa.CallInstruction
	}
	var sites []site
	seenPos := map[token.Pos]bool{}
	for _, fn := range c.FuncsIn(pkgJob) {
		if fn.Synthetic != "" && !strings.HasPrefix(fn.Synthetic, "instance of") {
			continue
		}
		allCalls(fn, func(ci ssa.CallInstruction) {
			if _, ok := fieldRead(ci.Common().Value, runnerField); ok && !ci.Common().IsInvoke() {
				if !seenPos[ci.Pos()] { // the generic body and its instances are one source site
					seenPos[ci.Pos()] = true
					sites = append(sites, site{fn, ci})
				}
			}
		})
	}
	sort.Slice(sites, func(i, j int) bool { return sites[i].call.Pos() < sites[j].call.Pos() })
	switch {
	case len(sites) == 0:
		c.undecided(rule, "floor:runner-call", token.NoPos, "no call of Runner.runner found in package job")
	case len(sites) == 1:
		c.ok(rule, "job.Runner:runner-called-at-one-site", sites[0].call.Pos(), "the persistence function is invoked by the worker loop only")
	default:
		for _, s := range sites[1:] {
			c.bad(rule, "job.Runner:runner-called-at-one-site", s.call.Pos(), fmt.Sprintf("Runner.runner (InsertLogs) is also invoked in %s, besides the worker loop at %s: two persisters run concurrently, a later batch can reach the store before (or without) the one it is chained on", fnName(origin(s.fn)), c.pos(sites[0].call.Pos())))
		}
	}
}

// ---- R06i: the batch job reports the outcome of the persistence --------------------------------------------
//
// The job runner stops the process when a job fails (R06d) and fires the acknowledgement callbacks when it succeeds
// (R06c). The job of a batcher is "call the persistence function on the batch": the function NewBatcher hands to the
// runner must return the error of that call on every path — `_ = runner(…); return nil` acknowledges writes that
// were never persisted.
func ruleR06i(c *Ctx) {
	const rule = "R06i"
	nb := c.MustFn(rule, pkgBatching, "NewBatcher")
	if nb == nil {
		return
	}
	bodies := []*ssa.Function{nb}
	if len(nb.Blocks) == 0 {
		bodies = c.AllInstancesOf(nb)
	}
	if len(bodies) == 0 {
		c.undecided(rule, "anchor:NewBatcher-body", token.NoPos, "no body of NewBatcher found")
		return
	}
	fn := bodies[0]
	if len(fn.Params) == 0 {
		return
	}
	runnerParam := fn.Params[0]
	n := 0
	var lits []*ssa.Function
	var collect func(g *ssa.Function)
	collect = func(g *ssa.Function) {
		for _, a := range g.AnonFuncs {
			lits = append(lits, a)
			collect(a)
		}
	}
	collect(fn)
	for _, lit := range lits {
		// the calls of the persistence function in this literal
		var runnerCalls []*ssa.Call
		allCalls(lit, func(ci ssa.CallInstruction) {
			call, ok := ci.(*ssa.Call)
			if !ok || ci.Common().IsInvoke() || staticCallee(ci) != nil {
				return
			}
			for _, r := range roots(ci.Common().Value, nil) {
				if fv, ok := r.(*ssa.FreeVar); ok && fv.Name() == runnerParam.Name() {
					runnerCalls = append(runnerCalls, call)
				}
				if r == ssa.Value(runnerParam) {
					runnerCalls = append(runnerCalls, call)
				}
			}
		})
		if len(runnerCalls) == 0 || lit.Signature.Results().Len() != 1 {
			continue
		}
		n++
		c.seeFn(lit)
		key := "NewBatcher:job-returns-the-error-of-the-persistence"
		obl := newOblSet(c, rule)
		obl.expect(key, lit.Pos(), "every return of the job is the error of the persistence call (nil only behind its nil edge)")
		isRunnerCall := func(v ssa.Value) bool {
			for _, rc := range runnerCalls {
				if v == ssa.Value(rc) {
					return true
				}
			}
			return false
		}
		pr := &PathRule{
			Edge: func(pc *PathCtx, s uint64, from *ssa.BasicBlock, si int) (uint64, bool) {
				for _, f := range pc.edgeFacts(from, si) {
					if isRunnerCall(f.X) && isNilConst(f.Y) {
						if f.Eq {
							s |= 1
						} else {
							s &^= 1
						}
					}
				}
				return s, true
			},
			Step: func(pc *PathCtx, s uint64, ins ssa.Instruction) uint64 {
				if v, ok := ins.(ssa.Value); ok && isRunnerCall(v) {
					return (s | 2) &^ 1
				}
				return s
			},
			Exit: func(pc *PathCtx, s uint64, ins ssa.Instruction) {
				ret, ok := ins.(*ssa.Return)
				if !ok || pc.parent != nil || len(ret.Results) != 1 {
					return
				}
				v := ret.Results[0]
				derived := false
				for _, r := range roots(v, nil) {
					if isRunnerCall(r) {
						derived = true
					}
					// a wrapped error: errors.Wrap(err, …), fmt.Errorf("…%w", err)
					if call, ok := r.(*ssa.Call); ok && !isRunnerCall(call) {
						for _, a := range call.Call.Args {
							for _, rr := range roots(a, nil) {
								if isRunnerCall(rr) {
									derived = true
								}
							}
							for _, e := range variadicElems(a) {
								for _, rr := range roots(e, nil) {
									if isRunnerCall(rr) {
										derived = true
									}
								}
							}
						}
					}
				}
				switch {
				case derived:
				case isNilConst(v) && s&1 != 0:
				case isNilConst(v) && s&2 == 0:
					obl.violate(key, ret.Pos(), "the job returns nil on a path that did not call the persistence function", pc.Trail())
				default:
					obl.violate(key, ret.Pos(), "the job returns a value that is not the error of the persistence call, on a path where that error may be non-nil: a failed InsertLogs is reported as a success, the batch callbacks acknowledge writes that were never persisted", pc.Trail())
				}
			},
		}
		c.RunPaths(lit, 0, pr)
		obl.flush()
	}
	if n == 0 {
		c.undecided(rule, "floor:batch-job", token.NoPos, "no literal of NewBatcher calls the persistence function it was given")
	}
}
