package main

// R15g — the queue of waiting requests stays a well-formed doubly-linked list.
//
// The lock manager keeps its waiting requests in collectionutils.LinkedList (head and tail pointers, nodes linked both
// ways). Two structural facts of unlinking, read from the shape of the types (every field of the node type that points
// to a node is a link; every field of the list type that points to a node is an end):
//   - LinkedListNode.Remove writes every link field of a node and every end field of the list: the neighbour's links
//     around the removed node, and the head / tail when the removed node was the first / the last. (If the tail keeps
//     pointing to a removed node, the next Append links the new request behind a node no walk reaches: it is never
//     granted.)
//   - a LinkedList method that hands out a node it found (RemoveFirst) has unlinked that node on every path that
//     returns it (otherwise a cancelled request stays queued and is granted later, to nobody).

import (
	"fmt"
	"go/token"
	"go/types"
	"sort"
	"strings"

	"golang.org/x/tools/go/ssa"
)

func ruleR15g(c *Ctx, rule string) {
	pkgCU := libsPath + "/collectionutils"
	nodeT := c.Named(pkgCU, "LinkedListNode")
	listT := c.Named(pkgCU, "LinkedList")
	if nodeT == nil || listT == nil {
		c.undecided(rule, "anchor:LinkedList", token.NoPos, "collectionutils.LinkedList / LinkedListNode not found")
		return
	}
	isNodePtr := func(t types.Type) bool {
		p, ok := types.Unalias(t).(*types.Pointer)
		if !ok {
			return false
		}
		n, ok := types.Unalias(p.Elem()).(*types.Named)
		return ok && n.Origin() == nodeT.Origin()
	}
	linkFields := func(n *types.Named) []string {
		var out []string
		st, _ := n.Underlying().(*types.Struct)
		for i := 0; st != nil && i < st.NumFields(); i++ {
			if isNodePtr(st.Field(i).Type()) {
				out = append(out, st.Field(i).Name())
			}
		}
		return out
	}
	want := map[string]string{}
	for _, f := range linkFields(nodeT) {
		want["node."+f] = "link"
	}
	for _, f := range linkFields(listT) {
		want["list."+f] = "end"
	}
	if len(want) < 4 {
		c.undecided(rule, "anchor:links", token.NoPos, fmt.Sprintf("expected two link fields in the node type and two end fields in the list type, found %d", len(want)))
		return
	}
	var remove *ssa.Function
	finderOf := map[string]*ssa.Function{}
	for f := range c.AllFns {
		if fnPkgPath(origin(f)) != pkgCU || len(f.Blocks) == 0 {
			continue
		}
		o := origin(f)
		// generic bodies are analysed through one instance, chosen deterministically
		switch recvTypeName(o) {
		case "LinkedListNode":
			if o.Name() == "Remove" && (remove == nil || f.String() < remove.String()) {
				remove = f
			}
		case "LinkedList":
			if rs := o.Signature.Results(); rs.Len() == 1 && isNodePtr(rs.At(0).Type()) && strings.HasPrefix(o.Name(), "Remove") {
				if old := finderOf[o.Name()]; old == nil || f.String() < old.String() {
					finderOf[o.Name()] = f
				}
			}
		}
	}
	var finders []*ssa.Function
	for _, f := range finderOf {
		finders = append(finders, f)
	}
	if remove == nil {
		c.undecided(rule, "anchor:LinkedListNode.Remove", token.NoPos, "not found")
		return
	}
	c.seeFn(remove)
	written := map[string]bool{}
	// Remove and the methods of the two types it is made of
	parts := []*ssa.Function{remove}
	seenPart := map[*ssa.Function]bool{remove: true}
	for i := 0; i < len(parts) && i < 12; i++ {
		allCalls(parts[i], func(ci ssa.CallInstruction) {
			if g := staticCallee(ci); g != nil && fnPkgPath(origin(g)) == pkgCU && len(g.Blocks) > 0 && !seenPart[g] {
				switch recvTypeName(origin(g)) {
				case "LinkedListNode", "LinkedList":
					seenPart[g] = true
					parts = append(parts, g)
				}
			}
		})
	}
	for _, part := range parts {
	for _, b := range part.Blocks {
		for _, ins := range b.Instrs {
			st, ok := ins.(*ssa.Store)
			if !ok {
				continue
			}
			fa, ok := st.Addr.(*ssa.FieldAddr)
			if !ok {
				continue
			}
			f := fieldOfAddr(fa)
			if f == nil {
				continue
			}
			pt, _ := types.Unalias(fa.X.Type()).(*types.Pointer)
			if pt == nil {
				continue
			}
			if n, ok := types.Unalias(pt.Elem()).(*types.Named); ok {
				switch n.Origin() {
				case nodeT.Origin():
					written["node."+f.Name()] = true
				case listT.Origin():
					written["list."+f.Name()] = true
				}
			}
		}
	}
	}
	var names []string
	for k := range want {
		names = append(names, k)
	}
	sort.Strings(names)
	for _, k := range names {
		key := "LinkedListNode.Remove:updates-" + k
		if written[k] {
			c.ok(rule, key, remove.Pos(), "unlinking writes the "+want[k]+" field")
		} else {
			c.bad(rule, key, remove.Pos(), "LinkedListNode.Remove never writes the "+want[k]+" field "+strings.TrimPrefix(strings.TrimPrefix(k, "node."), "list.")+": after removing a node at that position the list keeps pointing to it (a request appended behind a removed tail is reachable by no walk and is never granted)")
		}
	}
	sort.Slice(finders, func(i, j int) bool { return origName(finders[i]) < origName(finders[j]) })
	nF := 0
	for _, fn := range finders {
		// wrappers that return what another finder returns are decided there
		delegates := false
		for _, b := range fn.Blocks {
			if ret, ok := b.Instrs[len(b.Instrs)-1].(*ssa.Return); ok && len(ret.Results) == 1 {
				if call, ok := ret.Results[0].(*ssa.Call); ok {
					if g := staticCallee(call); g != nil && finderOf[origName(g)] != nil && origin(g) != origin(fn) {
						delegates = true
					}
				}
			}
		}
		if delegates {
			continue
		}
		nF++
		c.seeFn(fn)
		key := "LinkedList." + origName(fn) + ":returned-node-is-unlinked"
		idx := map[ssa.Value]uint{}
		const (
			retSet uint64 = 1 << 58
			retOK  uint64 = 1 << 59
		)
		bad := token.NoPos
		c.RunPaths(fn, 0, &PathRule{
			Step: func(pc *PathCtx, s uint64, ins ssa.Instruction) uint64 {
				switch x := ins.(type) {
				case *ssa.Phi:
					if i, ok := idx[x]; ok {
						s &^= 1 << i
					}
				case *ssa.Store:
					// `return node` in a function with deferred calls: the result is spilled into a cell first
					if al, ok := x.Addr.(*ssa.Alloc); ok && isNodePtr(al.Type().Underlying().(*types.Pointer).Elem()) {
						s &^= retSet | retOK
						if !isNilConst(x.Val) {
							s |= retSet
							if i, have := idx[x.Val]; have && s&(1<<i) != 0 {
								s |= retOK
							}
						}
					}
				case *ssa.Call:
					if g := staticCallee(x); g != nil && origin(g) == origin(remove) && len(x.Call.Args) > 0 {
						v := x.Call.Args[0]
						if _, have := idx[v]; !have && len(idx) < 50 {
							idx[v] = uint(len(idx))
						}
						return s | 1<<idx[v]
					}
				}
				return s
			},
			Exit: func(pc *PathCtx, s uint64, ins ssa.Instruction) {
				r, ok := ins.(*ssa.Return)
				if !ok || len(r.Results) != 1 || isNilConst(r.Results[0]) {
					return
				}
				if ld, ok := r.Results[0].(*ssa.UnOp); ok && ld.Op == token.MUL {
					if _, isCell := ld.X.(*ssa.Alloc); isCell {
						if s&retSet != 0 && s&retOK == 0 {
							bad = r.Pos()
						}
						return
					}
				}
				if i, have := idx[r.Results[0]]; !have || s&(1<<i) == 0 {
					bad = r.Pos()
				}
			},
		})
		if bad.IsValid() {
			c.bad(rule, key, bad, "LinkedList."+origName(fn)+" returns a node it has not unlinked: the caller believes the request left the queue (a cancelled request stays queued and is granted later, to nobody; its accounts stay locked)")
		} else {
			c.ok(rule, key, fn.Pos(), "every returned node was unlinked on the path that returns it")
		}
	}
	if nF == 0 {
		c.undecided(rule, "floor:finders", token.NoPos, "no LinkedList method that searches and removes a node found (RemoveFirst confirmed by reading)")
	}
}
