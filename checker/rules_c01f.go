package main

// R01f — bookkeeping of Machine.Balances by its owners, decided per path in the affine domain
// (affine.go). For every enumerated path (loop bodies at most once):
//
//   withdrawAll(account, asset, overdraft)   success paths: exactly one part is handed out; the cell
//        m.Balances[account][asset] is the only one written; new + taken ≡ old (what is handed out is
//        what is debited); taken ≡ 0, or taken ≡ old + overdraft on a path whose guards say taken > 0
//        (never more than balance + granted overdraft, never a negative amount).
//   withdrawAlways(account, mon)             success paths: taken ≡ mon.Amount and new + taken ≡ old.
//   credit(account, funding) / repay(funding) every cell written belongs to the credited account
//        (credit: the parameter; repay: the part's own account) and asset funding.Asset, and it grows by
//        exactly 0 or the amount of the part of the current iteration.
//   OP_SAVE clause of tick                   every store lowers the cell: new ≡ prev − X with X ≥ 0 on
//        the path's guards, or new ≡ 0 with prev > 0 guarded or the entry absent.
//
// A tracked balance that grows by anything else than a credit lets a later send take funds the account
// does not have (the seeded withdrawAll variant; F17: `save [A *]` raising a negative balance to zero).

import (
	"fmt"
	"go/token"
	"go/types"
	"strings"

	"golang.org/x/tools/go/ssa"
)

func ruleR01f(c *Ctx) {
	const rule = "R01f"
	balF := c.MustField(rule, pkgVM, "Machine", "Balances")
	amountF := c.MustField(rule, pkgMachine, "FundingPart", "Amount")
	if balF == nil || amountF == nil {
		return
	}
	var zero *ssa.Global
	if p := c.SSAPkg(pkgMachine); p != nil {
		zero, _ = p.Members["Zero"].(*ssa.Global)
	}
	if zero == nil {
		c.undecided(rule, "anchor:machine.Zero", token.NoPos, "package variable machine.Zero not found")
		return
	}
	isCell := func(m ssa.Value) (string, bool) {
		var lk *ssa.Lookup
		switch x := m.(type) {
		case *ssa.Lookup:
			lk = x
		case *ssa.Extract:
			if l, ok := x.Tuple.(*ssa.Lookup); ok && x.Index == 0 {
				lk = l
			}
		}
		if lk == nil {
			return "", false
		}
		if _, ok := fieldRead(lk.X, balF); !ok {
			return "", false
		}
		return "bal[" + descr(lk.Index, 0) + "]", true
	}
	// helpers of the machine that read or write the tracked balances, or build funding parts, are evaluated as part
	// of the owner that calls them (`m.trackedBalance(…)`, `m.debit(…)`)
	touchMemo := map[*ssa.Function]int{}
	var touches func(g *ssa.Function, depth int) bool
	touches = func(g *ssa.Function, depth int) bool {
		if st, ok := touchMemo[g]; ok {
			return st == 1
		}
		touchMemo[g] = 2
		found := false
		for _, b := range g.Blocks {
			for _, ins := range b.Instrs {
				switch x := ins.(type) {
				case *ssa.UnOp:
					if _, ok := fieldRead(x, balF); ok {
						found = true
					}
				case *ssa.Store:
					if fa, ok := x.Addr.(*ssa.FieldAddr); ok && sameField(fieldOfAddr(fa), amountF) {
						found = true
					}
				case *ssa.Call:
					if h := staticCallee(x); h != nil && depth < 2 && fnPkgPath(origin(h)) == pkgVM && len(h.Blocks) > 0 && h != g {
						if touches(h, depth+1) {
							found = true
						}
					}
				}
			}
		}
		if found {
			touchMemo[g] = 1
		}
		return found
	}
	owners := map[string]bool{"withdrawAll": true, "withdrawAlways": true, "credit": true, "repay": true, "tick": true}
	inline := func(call *ssa.Call) *ssa.Function {
		g := staticCallee(call)
		if g == nil || fnPkgPath(origin(g)) != pkgVM || len(g.Blocks) == 0 || g.Parent() != nil || owners[g.Name()] {
			return nil
		}
		if g.Signature.Recv() == nil || !touches(g, 0) {
			return nil
		}
		return g
	}
	mk := func(fn *ssa.Function, visit func(p *affPath)) *affEval {
		return &affEval{c: c, fn: fn, isCell: isCell, amountF: amountF, zero: zero, visit: visit, inline: inline}
	}
	retErrNil := func(p *affPath) bool {
		if p.ret == nil || len(p.ret.Results) == 0 {
			return false
		}
		return isNilConst(p.ret.Results[len(p.ret.Results)-1])
	}

	// ---- withdrawAll
	if fn := c.MustFn(rule, pkgVM, "Machine.withdrawAll"); fn != nil && len(fn.Params) == 4 {
		obl := newOblSet(c, rule)
		kCons, kCap := "withdrawAll:debits-exactly-what-it-hands-out", "withdrawAll:hands-out-at-most-balance-plus-overdraft"
		obl.expect(kCons, fn.Pos(), "on every success path new balance + amount handed out ≡ old balance")
		obl.expect(kCap, fn.Pos(), "on every success path the amount handed out is 0, or balance + overdraft under a guard saying it is not negative")
		cell := "bal[" + fn.Params[1].Name() + "][" + fn.Params[2].Name() + "]"
		over := affSym(fn.Params[3].Name())
		nOK := 0
		ev := mk(fn, func(p *affPath) {
			if !retErrNil(p) {
				return
			}
			nOK++
			for _, s := range p.stores {
				if s.cell != cell {
					obl.violate(kCons, s.ins.Pos(), fmt.Sprintf("withdrawAll writes the balance cell %s, not the one of the account and asset it was asked to withdraw from (%s)", s.cell, cell), []string{p.trail()})
				}
			}
			if len(p.parts) != 1 {
				obl.violate(kCons, p.ret.Pos(), fmt.Sprintf("a success path hands out %d funding parts (expected one)", len(p.parts)), []string{p.trail()})
				return
			}
			taken, old, nw := p.parts[0], affSym("old:"+cell), p.cell(cell)
			if !nw.plus(taken, 1).equal(old) {
				obl.violate(kCons, p.ret.Pos(), fmt.Sprintf("on path %s the tracked balance becomes `%s` while `%s` is handed out: balance and funding no longer add up to the old balance, so a later send of the same script can take funds the account does not have (or loses funds it has)", p.trail(), nw, taken), []string{p.trail()})
			}
			if !taken.isZero() && !(taken.equal(old.plus(over, 1)) && impliesNonNegative(p.guards, taken)) {
				obl.violate(kCap, p.ret.Pos(), fmt.Sprintf("on path %s the amount handed out is `%s` under guards %v: not provably 0 or a non-negative balance + overdraft", p.trail(), taken, p.guards), []string{p.trail()})
			}
		})
		if !ev.run(nil) {
			c.undecided(rule, "withdrawAll:path-budget", fn.Pos(), "too many paths")
		}
		if nOK == 0 {
			c.undecided(rule, "withdrawAll:success-paths", fn.Pos(), "no success path found")
		}
		obl.flush()
	}

	// ---- withdrawAlways
	if fn := c.MustFn(rule, pkgVM, "Machine.withdrawAlways"); fn != nil && len(fn.Params) == 3 {
		obl := newOblSet(c, rule)
		k := "withdrawAlways:debits-exactly-what-it-hands-out"
		obl.expect(k, fn.Pos(), "on every success path the amount handed out is mon.Amount and new balance + amount ≡ old balance")
		monName := fn.Params[2].Name()
		cell := "bal[" + fn.Params[1].Name() + "][" + monName + ".Asset]"
		nOK := 0
		ev := mk(fn, func(p *affPath) {
			if !retErrNil(p) {
				return
			}
			nOK++
			if len(p.parts) != 1 {
				obl.violate(k, p.ret.Pos(), fmt.Sprintf("a success path hands out %d funding parts (expected one)", len(p.parts)), []string{p.trail()})
				return
			}
			for _, s := range p.stores {
				if s.cell != cell {
					obl.violate(k, s.ins.Pos(), fmt.Sprintf("withdrawAlways writes the balance cell %s instead of %s", s.cell, cell), []string{p.trail()})
				}
			}
			taken, old, nw := p.parts[0], affSym("old:"+cell), p.cell(cell)
			if !taken.equal(affSym(monName + ".Amount")) {
				obl.violate(k, p.ret.Pos(), fmt.Sprintf("the amount handed out is `%s`, not the requested %s.Amount", taken, monName), []string{p.trail()})
			}
			if !nw.plus(taken, 1).equal(old) {
				obl.violate(k, p.ret.Pos(), fmt.Sprintf("on path %s the tracked balance becomes `%s` while `%s` is handed out", p.trail(), nw, taken), []string{p.trail()})
			}
		})
		if !ev.run(nil) {
			c.undecided(rule, "withdrawAlways:path-budget", fn.Pos(), "too many paths")
		}
		if nOK == 0 {
			c.undecided(rule, "withdrawAlways:success-paths", fn.Pos(), "no success path found")
		}
		obl.flush()
	}

	// ---- credit / repay
	for _, name := range []string{"credit", "repay"} {
		fn := c.MustFn(rule, pkgVM, "Machine."+name)
		if fn == nil {
			continue
		}
		obl := newOblSet(c, rule)
		k := name + ":adds-exactly-the-part-amount-to-its-own-account"
		obl.expect(k, fn.Pos(), "every cell written grows by 0 or by the amount of the current part, and belongs to the credited account and the funding's asset")
		funding := fn.Params[len(fn.Params)-1].Name()
		nStores := 0
		ev := mk(fn, func(p *affPath) {
			prev := map[string]aff{}
			for _, s := range p.stores {
				nStores++
				before, ok := prev[s.cell]
				if !ok {
					before = affSym("old:" + s.cell)
				}
				prev[s.cell] = s.val
				delta := s.val.plus(before, -1)
				if delta.isZero() {
					continue
				}
				// delta must be one symbol <funding>.Parts[i].Amount with coefficient 1
				var sym string
				if len(delta) == 1 {
					for sname, co := range delta {
						if co == 1 {
							sym = sname
						}
					}
				}
				partPrefix := funding + ".Parts["
				if sym == "" || !strings.HasPrefix(sym, partPrefix) || !strings.HasSuffix(sym, "].Amount") {
					obl.violate(k, s.ins.Pos(), fmt.Sprintf("on path %s the cell %s changes by `%s`, which is not the amount of one part of the funding: the tracked balance grows by more (or something else) than what was received", p.trail(), s.cell, delta), []string{p.trail()})
					continue
				}
				part := strings.TrimSuffix(sym, ".Amount")
				wantAcc := part + ".Account"
				if name == "credit" {
					wantAcc = fn.Params[1].Name()
				}
				wantCell := "bal[" + wantAcc + "][" + funding + ".Asset]"
				if s.cell != wantCell {
					obl.violate(k, s.ins.Pos(), fmt.Sprintf("the amount of %s is added to %s instead of %s: an account is credited with funds another one received", part, s.cell, wantCell), []string{p.trail()})
				}
			}
		})
		if !ev.run(nil) {
			c.undecided(rule, name+":path-budget", fn.Pos(), "too many paths")
		}
		if nStores == 0 {
			obl.violate(k, fn.Pos(), name+" never stores into Machine.Balances: received funds are not (or not visibly) added to the tracked balance", nil)
		}
		obl.flush()
	}

	// ---- OP_SAVE clause of tick
	tick := c.MustFn(rule, pkgVM, "Machine.tick")
	if tick == nil {
		return
	}
	lo, hi := opClauseRange(c, "OP_SAVE")
	if !lo.IsValid() {
		c.undecided(rule, "anchor:OP_SAVE-clause", tick.Pos(), "the OP_SAVE clause of Machine.tick was not found")
		return
	}
	inR := map[*ssa.BasicBlock]bool{}
	for _, b := range tick.Blocks {
		for _, ins := range b.Instrs {
			if ins.Pos().IsValid() && ins.Pos() >= lo && ins.Pos() <= hi {
				inR[b] = true
				break
			}
		}
	}
	// the entry of the clause: the in-range block that dominates every other in-range block
	var entry *ssa.BasicBlock
	for _, b := range tick.Blocks {
		if !inR[b] {
			continue
		}
		all := true
		for o := range inR {
			if !b.Dominates(o) {
				all = false
			}
		}
		if all {
			entry = b
		}
	}
	// the dispatch comparison of the switch dominates the other clauses too: step into the clause body
	if entry != nil {
		for _, sb := range entry.Succs {
			if !inR[sb] || sb == entry {
				continue
			}
			all := true
			for o := range inR {
				if o != entry && !sb.Dominates(o) {
					all = false
				}
			}
			if all {
				entry = sb
				break
			}
		}
		// the region: everything the clause body dominates (blocks without positions included)
		for _, b := range tick.Blocks {
			inR[b] = entry.Dominates(b)
		}
	}
	if entry == nil {
		c.undecided(rule, "anchor:OP_SAVE-clause-entry", tick.Pos(), "no entry block for the OP_SAVE clause")
		return
	}
	obl := newOblSet(c, rule)
	k := "tick:OP_SAVE:only-lowers-the-balance"
	obl.expect(k, lo, "every store of the OP_SAVE clause lowers the cell: prev − X with X ≥ 0 guarded, or 0 with prev > 0 guarded / entry absent")
	nStores := 0
	ev := mk(tick, func(p *affPath) {
		prev := map[string]aff{}
		for _, s := range p.stores {
			nStores++
			before, ok := prev[s.cell]
			if !ok {
				before = affSym("old:" + s.cell)
			}
			prev[s.cell] = s.val
			x := before.plus(s.val, -1) // what is removed
			if impliesNonNegative(p.guards, x) {
				continue
			}
			if s.val.isZero() && (impliesPositive(p.guards, before) || cellAbsent(p, s)) {
				continue
			}
			obl.violate(k, s.ins.Pos(), fmt.Sprintf("on path %s OP_SAVE stores `%s` into %s (previous content `%s`) under guards %v: the store is not provably a decrease, so `save` can raise what later sends may take from the account", p.trail(), s.val, s.cell, before, p.guards), []string{p.trail()})
		}
	})
	ev.inRange = func(b *ssa.BasicBlock) bool { return inR[b] }
	if !ev.run(entry) {
		c.undecided(rule, "tick:OP_SAVE:path-budget", lo, "too many paths")
	}
	if nStores == 0 {
		c.undecided(rule, "tick:OP_SAVE:stores", lo, "the OP_SAVE clause stores nothing into Machine.Balances")
	}
	obl.flush()
}

// cellAbsent: the path carries the fact that the comma-ok lookup of the stored cell reported `false`.
func cellAbsent(p *affPath, s affStore) bool {
	mu, ok := s.ins.(*ssa.MapUpdate)
	if !ok {
		return false
	}
	for _, f := range p.facts {
		ex, ok := f.X.(*ssa.Extract)
		if !ok || ex.Index != 1 {
			continue
		}
		lk, ok := ex.Tuple.(*ssa.Lookup)
		if !ok || !lk.CommaOk {
			continue
		}
		if descr(lk.X, 0) != descr(mu.Map, 0) || descr(lk.Index, 0) != descr(mu.Key, 0) {
			continue
		}
		if b, isB := constBool(f.Y); isB && (b == f.Eq) == false {
			return true
		}
	}
	return false
}

// opClauseRange: source range of the `case program.<op>:` clause of Machine.tick.
func opClauseRange(c *Ctx, op string) (token.Pos, token.Pos) {
	pp, fd := c.FuncDecl(pkgVM, "Machine.tick")
	if fd == nil {
		return token.NoPos, token.NoPos
	}
	for _, sw := range switchesIn(fd.Body) {
		for _, cl := range clausesOf(sw.Body) {
			for _, e := range cl.Exprs {
				if k := constObj(pp, e); k != nil && k.Name() == op && len(cl.Body) > 0 {
					return cl.Pos, cl.Body[len(cl.Body)-1].End()
				}
			}
		}
	}
	return token.NoPos, token.NoPos
}


// ---- R01h: the balance tracked for (account, asset) is the store's balance of that account and asset -------
//
// ResolveBalances fills Machine.Balances before execution; every debit is then checked against it. Each entry
// m.Balances[A][K] written there is the result of Store.GetBalance(ctx, string(A), string(K)) for the same A and K
// (wrapped in NewMonetaryIntFromBigInt), or machine.Zero for the account "world". A shortcut that fills the entry
// from something else — the amount of a balance() variable that happens to have the same asset but reads another
// account — lets the script spend what another account holds.
func ruleR01h(c *Ctx) {
	const rule = "R01h"
	balF := c.MustField(rule, pkgVM, "Machine", "Balances")
	fn := c.MustFn(rule, pkgVM, "Machine.ResolveBalances")
	if balF == nil || fn == nil {
		return
	}
	var zero *ssa.Global
	if p := c.SSAPkg(pkgMachine); p != nil {
		zero, _ = p.Members["Zero"].(*ssa.Global)
	}
	stripConv := func(v ssa.Value) ssa.Value {
		for i := 0; i < 6; i++ {
			switch x := v.(type) {
			case *ssa.Convert:
				v = x.X
			case *ssa.ChangeType:
				v = x.X
			default:
				return v
			}
		}
		return v
	}
	fns := []*ssa.Function{fn}
	allCalls(fn, func(ci ssa.CallInstruction) {
		if g := staticCallee(ci); g != nil && fnPkgPath(origin(g)) == pkgVM && len(g.Blocks) > 0 && g.Signature.Recv() != nil && g != fn {
			fns = append(fns, g)
		}
	})
	n := 0
	for _, f := range fns {
		for _, b := range f.Blocks {
			for _, ins := range b.Instrs {
				mu, ok := ins.(*ssa.MapUpdate)
				if !ok {
					continue
				}
				// inner map = m.Balances[A]: looked up, or a new map that is stored there, or a local holding either
				accKey := innerMapAccount(mu.Map, balF, 0)
				if accKey == nil {
					continue
				}
				n++
				key := fmt.Sprintf("%s:balance-entry-is-the-store-balance#%d", origName(f), n)
				acc, asset := stripConv(accKey), stripConv(mu.Key)
				v := mu.Value
				// machine.Zero (the account "world")
				if u, ok := v.(*ssa.UnOp); ok && u.Op == token.MUL && zero != nil && u.X == ssa.Value(zero) {
					c.ok(rule, key, mu.Pos(), "machine.Zero (the unbounded account)")
					continue
				}
				okSrc := false
				why := "its value is not the result of Store.GetBalance"
				if a2, k2, found := storeBalanceArgs(v, nil, stripConv, 0); found {
					{
						switch {
						case a2 != acc:
							why = "it is the store's balance of another account (" + descr(a2, 0) + ") than the one it is recorded under (" + descr(acc, 0) + ")"
						case k2 != asset:
							why = "it is the store's balance for another asset (" + descr(k2, 0) + ") than the one it is recorded under (" + descr(asset, 0) + ")"
						default:
							okSrc = true
						}
					}
				}
				c.check(okSrc, rule, key, mu.Pos(), "the entry is Store.GetBalance of the same account and asset",
					"ResolveBalances records a balance for ("+descr(acc, 0)+", "+descr(asset, 0)+") but "+why+": sends of the script are checked against funds the account does not hold")
			}
		}
	}
	if n < 2 {
		c.undecided(rule, "floor:balance-entries", token.NoPos, fmt.Sprintf("expected the world and the store entries written by ResolveBalances, found %d", n))
	}
}

// innerMapAccount: v is the per-account map m.Balances[A] — the result of that lookup, a map that is stored under
// m.Balances[A], or a phi of those for one A; returns A.
func innerMapAccount(v ssa.Value, balF *types.Var, depth int) ssa.Value {
	if depth > 4 {
		return nil
	}
	switch x := v.(type) {
	case *ssa.Lookup:
		if _, isBal := fieldRead(x.X, balF); isBal {
			return x.Index
		}
	case *ssa.Extract:
		if lk, ok := x.Tuple.(*ssa.Lookup); ok && x.Index == 0 {
			return innerMapAccount(lk, balF, depth+1)
		}
	case *ssa.MakeMap:
		if x.Referrers() != nil {
			for _, r := range *x.Referrers() {
				if mu, ok := r.(*ssa.MapUpdate); ok && mu.Value == ssa.Value(x) {
					if _, isBal := fieldRead(mu.Map, balF); isBal {
						return mu.Key
					}
				}
			}
		}
	case *ssa.Phi:
		var acc ssa.Value
		for _, e := range x.Edges {
			a := innerMapAccount(e, balF, depth+1)
			if a == nil || (acc != nil && a != acc) {
				return nil
			}
			acc = a
		}
		return acc
	case *ssa.UnOp:
		if x.Op == token.MUL {
			if sv := singleStore(x.X); sv != nil {
				return innerMapAccount(sv, balF, depth+1)
			}
		}
	}
	return nil
}

// storeBalanceArgs: v is (NewMonetaryIntFromBigInt of) the first result of Store.GetBalance(ctx, A, K), computed here
// or by a helper of the package (`fetchBalance(ctx, store, address, asset)`, whose parameters are bound to the call's
// arguments); returns A and K as values of the outermost frame.
func storeBalanceArgs(v ssa.Value, bind map[*ssa.Parameter]ssa.Value, stripConv func(ssa.Value) ssa.Value, depth int) (acc, asset ssa.Value, ok bool) {
	if depth > 3 {
		return nil, nil, false
	}
	resolve := func(x ssa.Value) ssa.Value {
		x = stripConv(x)
		if p, isP := x.(*ssa.Parameter); isP && bind != nil {
			if a, has := bind[p]; has {
				return stripConv(a)
			}
		}
		if u, isU := x.(*ssa.UnOp); isU && u.Op == token.MUL {
			if p, isP := stripLoadOfParamCell(u).(*ssa.Parameter); isP && bind != nil {
				if a, has := bind[p]; has {
					return stripConv(a)
				}
			}
		}
		return x
	}
	switch x := v.(type) {
	case *ssa.Call:
		g := staticCallee(x)
		if g == nil {
			return nil, nil, false
		}
		if g.Name() == "NewMonetaryIntFromBigInt" && len(x.Call.Args) == 1 {
			return storeBalanceArgs(x.Call.Args[0], bind, stripConv, depth)
		}
		if fnPkgPath(origin(g)) == pkgVM && len(g.Blocks) > 0 {
			nb := map[*ssa.Parameter]ssa.Value{}
			for i, p := range g.Params {
				if i < len(x.Call.Args) {
					nb[p] = resolve(x.Call.Args[i])
				}
			}
			// every non-error return of the helper must be the store's balance of the same arguments
			var a0, k0 ssa.Value
			n := 0
			for _, b := range g.Blocks {
				ret, isRet := b.Instrs[len(b.Instrs)-1].(*ssa.Return)
				if !isRet || len(ret.Results) == 0 {
					continue
				}
				if len(ret.Results) > 1 && !isNilConst(ret.Results[len(ret.Results)-1]) {
					continue // an error return
				}
				a, k, found := storeBalanceArgs(ret.Results[0], nb, stripConv, depth+1)
				if !found || (n > 0 && (a != a0 || k != k0)) {
					return nil, nil, false
				}
				a0, k0 = a, k
				n++
			}
			return a0, k0, n > 0
		}
	case *ssa.Extract:
		if x.Index != 0 {
			return nil, nil, false
		}
		if gb, isCall := x.Tuple.(*ssa.Call); isCall {
			if gb.Call.IsInvoke() && gb.Call.Method.Name() == "GetBalance" && len(gb.Call.Args) == 3 {
				return resolve(gb.Call.Args[1]), resolve(gb.Call.Args[2]), true
			}
			// (balance, err) := helper(…)
			if g := staticCallee(gb); g != nil && fnPkgPath(origin(g)) == pkgVM && len(g.Blocks) > 0 {
				return storeBalanceArgs(gb, bind, stripConv, depth)
			}
		}
	}
	return nil, nil, false
}
