package main

// Rules of the command layer added after the second micro-mutation wave.

import (
	"fmt"
	"go/token"
	"go/types"
	"sort"
	"strings"

	"golang.org/x/tools/go/ssa"
)

// R07i — the request's parameters reach the execution context as they were received.
//
// Every entry point of the commander (CreateTransaction / RevertTransaction through exec, SaveMeta, DeleteMetadata)
// builds its execution context — the object that looks the idempotency key up, reserves it and stamps it on the log
// — from the command.Parameters it was called with, not from a rebuilt value (`Parameters{DryRun: p.DryRun}` loses
// the key: a retried request is executed again).
func ruleParametersReachContext(c *Ctx, rule string) {
	newCtx := c.MustFn(rule, pkgCommand, "newExecutionContext")
	if newCtx == nil {
		return
	}
	isParams := func(t types.Type) bool { return isNamed(t, pkgCommand, "Parameters") }
	n := 0
	var sites []ssa.CallInstruction
	for _, ci := range c.CallersOf(newCtx) {
		sites = append(sites, ci)
	}
	sort.Slice(sites, func(i, j int) bool { return sites[i].Pos() < sites[j].Pos() })
	for _, ci := range sites {
		fn := ci.Parent()
		if strings.HasSuffix(c.Fset.Position(fn.Pos()).Filename, "_test.go") {
			continue
		}
		var arg ssa.Value
		for _, a := range ci.Common().Args {
			if isParams(a.Type()) {
				arg = a
			}
		}
		if arg == nil {
			continue
		}
		n++
		c.seeFn(fn)
		key := fnName(fn) + ":context-built-from-the-received-parameters"
		ok := true
		what := ""
		for _, r := range roots(arg, nil) {
			switch x := r.(type) {
			case *ssa.Parameter:
				if !isParams(x.Type()) {
					ok, what = false, "a parameter of another type"
				}
			case *ssa.UnOp:
				// the spilled parameter
				if al, isAl := x.X.(*ssa.Alloc); isAl {
					if sv := singleStore(al); sv != nil {
						if p, isP := sv.(*ssa.Parameter); isP && isParams(p.Type()) {
							continue
						}
					}
					ok, what = false, "a value built locally"
				} else if _, isFV := x.X.(*ssa.FreeVar); !isFV {
					ok, what = false, "a computed value"
				}
			case *ssa.FreeVar:
			default:
				ok, what = false, fmt.Sprintf("%T", r)
			}
		}
		if ok {
			c.ok(rule, key, ci.Pos(), "newExecutionContext is given the Parameters the entry point received")
		} else {
			c.bad(rule, key, ci.Pos(), "the execution context is built from "+what+" instead of the command.Parameters the entry point received: the idempotency key (or the preview flag) of the request is lost before it is looked up and recorded")
		}
	}
	if n < 2 {
		c.undecided(rule, "floor:execution-contexts", token.NoPos, fmt.Sprintf("expected at least 2 call sites of newExecutionContext (the transaction executor and the metadata writes), found %d", n))
	}
}

// R07j — every command.Parameters the API builds carries the request's idempotency key.
//
// The API layer builds command.Parameters in three places (v1 and v2 getCommandParameters from the header, the bulk
// processor from the element's `ik`). In each composite of that type built under internal/api the field
// IdempotencyKey is stored from a non-constant value.
func ruleAPIParametersCarryKey(c *Ctx, rule string) {
	fIK := c.Field(pkgCommand, "Parameters", "IdempotencyKey")
	if fIK == nil {
		c.undecided(rule, "anchor:Parameters.IdempotencyKey", token.NoPos, "not found")
		return
	}
	n := 0
	var fns []*ssa.Function
	for _, fn := range c.RepoFuncs() {
		if strings.HasPrefix(fnPkgPath(origin(fn)), modPath+"/internal/api") && len(fn.Blocks) > 0 && fn.Synthetic == "" &&
			!strings.HasSuffix(c.Fset.Position(fn.Pos()).Filename, "_test.go") {
			fns = append(fns, fn)
		}
	}
	sort.Slice(fns, func(i, j int) bool { return fns[i].Pos() < fns[j].Pos() })
	for _, fn := range fns {
		k := 0
		for _, b := range fn.Blocks {
			for _, ins := range b.Instrs {
				al, ok := ins.(*ssa.Alloc)
				if !ok || !isNamed(al.Type().Underlying().(*types.Pointer).Elem(), pkgCommand, "Parameters") {
					continue
				}
				stores, keyed, fromQuery := 0, false, false
				for _, r := range *al.Referrers() {
					fa, ok := r.(*ssa.FieldAddr)
					if !ok {
						continue
					}
					for _, r2 := range *fa.Referrers() {
						if st, ok := r2.(*ssa.Store); ok && st.Addr == ssa.Value(fa) {
							stores++
							if sameField(fieldOfAddr(fa), fIK) {
								if _, isConst := st.Val.(*ssa.Const); !isConst {
									keyed = true
								}
								// from the request: a header, or the key the bulk element carries — not a query parameter
								for _, r := range roots(st.Val, nil) {
									if call, ok := r.(*ssa.Call); ok && strings.HasSuffix(calleeFullName(call), "url.Values).Get") {
										keyed = false
										fromQuery = true
									}
								}
							}
						}
					}
				}
				if stores == 0 {
					continue // a cell that receives a whole value (a spilled parameter, a result)
				}
				n++
				k++
				c.seeFn(fn)
				key := fmt.Sprintf("%s:parameters#%d:carry-the-idempotency-key", fnName(fn), k)
				if keyed {
					c.ok(rule, key, al.Pos(), "Parameters.IdempotencyKey is filled from the request")
				} else if fromQuery {
					c.bad(rule, key, al.Pos(), "the idempotency key is read from the URL query instead of the Idempotency-Key header: clients that send the documented header get no idempotency")
				} else {
					c.bad(rule, key, al.Pos(), "a command.Parameters is built for a request without its idempotency key: the write is neither looked up nor recorded under the key, a retry executes it again")
				}
			}
		}
	}
	if n < 2 {
		c.undecided(rule, "floor:parameters-built", token.NoPos, fmt.Sprintf("expected at least 2 command.Parameters composites under internal/api (the query-parameter reader(s) and the bulk processor), found %d", n))
	}
}

// R05k — only a log that carries a new transaction consumes a transaction id.
//
// The function that advances Commander.lastTXID (appendLog: `lastTXID = lastTXID + 1`) is told by a boolean parameter
// whether the log allocates an id (transactions and reverts do, metadata logs do not). The advance happens only on
// paths on which that parameter was tested true: otherwise every metadata write leaves a hole in the sequence of
// transaction ids.
func ruleTXIDAdvanceGuarded(c *Ctx, rule string) {
	m := c.cmdModel(rule)
	if !m.ok {
		return
	}
	n := 0
	for _, fn := range c.FuncsIn(pkgCommand) {
		if len(fn.Blocks) == 0 || strings.HasSuffix(c.Fset.Position(fn.Pos()).Filename, "_test.go") {
			continue
		}
		var advances []*ssa.Store
		for _, b := range fn.Blocks {
			for _, ins := range b.Instrs {
				v, _, ok := storeToField(ins, m.fLastTXID)
				if !ok {
					continue
				}
				if derivesFromAdd(v, 0) {
					advances = append(advances, ins.(*ssa.Store))
				}
			}
		}
		if len(advances) == 0 {
			continue
		}
		var flags []*ssa.Parameter
		for _, p := range fn.Params {
			if b, ok := p.Type().Underlying().(*types.Basic); ok && b.Kind() == types.Bool {
				flags = append(flags, p)
			}
		}
		n++
		c.seeFn(fn)
		key := fnName(fn) + ":id-consumed-only-when-asked"
		if len(flags) == 0 {
			c.ok(rule, key, advances[0].Pos(), "the function has no allocation switch: every log it appends is a transaction log (callers decide)")
			continue
		}
		isAdv := map[ssa.Instruction]bool{}
		for _, a := range advances {
			isAdv[a] = true
		}
		bad := token.NoPos
		c.RunPaths(fn, 0, &PathRule{
			Edge: func(pc *PathCtx, s uint64, from *ssa.BasicBlock, si int) (uint64, bool) {
				for _, f := range pc.edgeFacts(from, si) {
					for _, p := range flags {
						if f.X == ssa.Value(p) {
							if b, isC := constBool(f.Y); isC && b == f.Eq {
								s |= 1
							}
						}
					}
				}
				return s, true
			},
			Step: func(pc *PathCtx, s uint64, ins ssa.Instruction) uint64 {
				if isAdv[ins] && s&1 == 0 {
					bad = ins.Pos()
				}
				return s
			},
		})
		if bad.IsValid() {
			c.bad(rule, key, bad, fnName(fn)+" advances Commander.lastTXID on a path where its allocation switch ("+flags[0].Name()+") was not tested true: logs that carry no transaction (metadata) consume transaction ids, the ids of committed transactions are no longer consecutive")
		} else {
			c.ok(rule, key, advances[0].Pos(), "lastTXID is advanced only where "+flags[0].Name()+" is true")
		}
	}
	if n == 0 {
		c.undecided(rule, "floor:id-advance", token.NoPos, "no function of package command advances Commander.lastTXID by an addition")
	}
}

// R13j — a metadata log names the kind of target it was written for.
//
// SaveMeta and DeleteMetadata switch on the target type and build the log payload in each case; the constant stored
// in the payload's TargetType is the constant of the case it is built in. (A payload saying TRANSACTION with an
// account address as id cannot be read back: the decoder parses a transaction id as an integer.)
func ruleTargetTypeAgrees(c *Ctx, rule string) {
	n := 0
	var fns []*ssa.Function
	for _, fn := range c.FuncsIn(pkgCommand) {
		if len(fn.Blocks) > 0 && !strings.HasSuffix(c.Fset.Position(fn.Pos()).Filename, "_test.go") {
			fns = append(fns, fn)
		}
	}
	sort.Slice(fns, func(i, j int) bool { return fns[i].Pos() < fns[j].Pos() })
	for _, fn := range fns {
		// stores of a constant into a field TargetType of a log payload
		at := map[ssa.Instruction]string{}
		for _, b := range fn.Blocks {
			for _, ins := range b.Instrs {
				st, ok := ins.(*ssa.Store)
				if !ok {
					continue
				}
				fa, ok := st.Addr.(*ssa.FieldAddr)
				if !ok {
					continue
				}
				f := fieldOfAddr(fa)
				if f == nil || f.Name() != "TargetType" {
					continue
				}
				if k, ok := constString(st.Val); ok {
					at[ins] = k
				}
			}
		}
		if len(at) == 0 {
			continue
		}
		consts := map[string]uint{}
		universe := map[string]bool{}
		if p := c.Pkg(pkgLedger); p != nil {
			sc := p.Types.Scope()
			for _, name := range sc.Names() {
				if k, ok := sc.Lookup(name).(*types.Const); ok && strings.HasPrefix(name, "MetaTargetType") {
					universe[strings.Trim(k.Val().ExactString(), "\"")] = true
				}
			}
		}
		bad := map[ssa.Instruction]string{}
		seen := map[ssa.Instruction]bool{}
		c.RunPaths(fn, 0, &PathRule{
			Edge: func(pc *PathCtx, s uint64, from *ssa.BasicBlock, si int) (uint64, bool) {
				for _, f := range pc.edgeFacts(from, si) {
					if !f.Eq {
						continue
					}
					x, y := f.X, f.Y
					if _, isC := x.(*ssa.Const); isC {
						x, y = y, x
					}
					k, ok := constString(y)
					if !ok || !universe[k] {
						continue
					}
					if b, isB := x.Type().Underlying().(*types.Basic); !isB || b.Info()&types.IsString == 0 {
						continue
					}
					i, have := consts[k]
					if !have {
						if len(consts) >= 16 {
							continue
						}
						i = uint(len(consts))
						consts[k] = i
					}
					s |= 1 << i
				}
				return s, true
			},
			Step: func(pc *PathCtx, s uint64, ins ssa.Instruction) uint64 {
				k, ok := at[ins]
				if !ok {
					return s
				}
				seen[ins] = true
				for other, i := range consts {
					if s&(1<<i) != 0 && other != k {
						bad[ins] = other
					}
				}
				return s
			},
		})
		var inss []ssa.Instruction
		for ins := range at {
			inss = append(inss, ins)
		}
		sort.Slice(inss, func(i, j int) bool { return inss[i].Pos() < inss[j].Pos() })
		for i, ins := range inss {
			n++
			c.seeFn(fn)
			key := fmt.Sprintf("%s:payload#%d:target-type-of-its-case", fnName(fn), i+1)
			if other, isBad := bad[ins]; isBad {
				c.bad(rule, key, ins.Pos(), fmt.Sprintf("the log payload built in the case for target type %q says TargetType %q: the stored entry names another kind of target than the one it was written for and cannot be read back (the id of a transaction target is parsed as an integer)", other, at[ins]))
			} else {
				c.ok(rule, key, ins.Pos(), "the payload's TargetType is the constant of the case it is built in")
			}
		}
	}
	if n < 4 {
		c.undecided(rule, "floor:metadata-payloads", token.NoPos, fmt.Sprintf("expected at least 4 metadata log payloads with a constant TargetType in package command (SaveMeta ×2, DeleteMetadata ×2), found %d", n))
	}
}

// R11f — a failed look-up of the reference is not read as "the reference is free".
//
// After the store was asked for the transaction holding the reference, execution goes on (compile, lock, append) only
// on paths on which the returned error was shown to be the not-found error. Any other error (time-out, connection
// loss) ends the request: treating it as not-found commits a second transaction under the same reference.
func ruleLookupErrorEndsRequest(c *Ctx, rule string) {
	m := c.cmdModel(rule)
	if !m.ok {
		return
	}
	n := 0
	for _, fn := range m.fns {
		var lookups []*ssa.Call
		allCalls(fn, func(ci ssa.CallInstruction) {
			if call, ok := ci.(*ssa.Call); ok && ci.Common().IsInvoke() && ci.Common().Method.Name() == "GetTransactionByReference" {
				lookups = append(lookups, call)
			}
		})
		for _, lk := range lookups {
			n++
			c.seeFn(fn)
			key := fnName(fn) + ":lookup-error-other-than-not-found-ends-the-request"
			var errV ssa.Value
			for _, r := range *lk.Referrers() {
				if ex, ok := r.(*ssa.Extract); ok && ex.Index == 1 {
					errV = ex
				}
			}
			if errV == nil {
				c.bad(rule, key, lk.Pos(), "the error of the reference look-up is dropped")
				continue
			}
			const (
				looked uint64 = 1 << iota
				notFound
				nonNil
				isNil
			)
			isErr := func(v ssa.Value) bool {
				for _, r := range roots(v, nil) {
					if r == errV {
						return true
					}
				}
				return false
			}
			bad := token.NoPos
			c.RunPaths(fn, 0, &PathRule{
				Edge: func(pc *PathCtx, s uint64, from *ssa.BasicBlock, si int) (uint64, bool) {
					iff, ok := from.Instrs[len(from.Instrs)-1].(*ssa.If)
					if !ok || s&looked == 0 {
						return s, true
					}
					// the same error tested twice: the second test has the outcome of the first
					for _, f := range pc.edgeFacts(from, si) {
						if f.X == errV && isNilConst(f.Y) {
							if f.Eq {
								if s&nonNil != 0 {
									return s, false
								}
								s |= isNil
							} else {
								if s&isNil != 0 {
									return s, false
								}
								s |= nonNil
							}
						}
					}
					cond, neg := iff.Cond, false
					for {
						u, ok := cond.(*ssa.UnOp)
						if !ok || u.Op != token.NOT {
							break
						}
						cond, neg = u.X, !neg
					}
					if call, ok := cond.(*ssa.Call); ok && len(call.Call.Args) >= 1 && isErr(call.Call.Args[len(call.Call.Args)-1]) {
						name := ""
						if g := staticCallee(call); g != nil {
							name = g.Name()
						}
						if strings.Contains(name, "NotFound") && (si == 0) != neg {
							s |= notFound
						}
					}
					return s, true
				},
				Step: func(pc *PathCtx, s uint64, ins ssa.Instruction) uint64 {
					if ins == ssa.Instruction(lk) {
						return s | looked
					}
					ci, ok := ins.(ssa.CallInstruction)
					if !ok || s&looked == 0 || s&notFound != 0 {
						return s
					}
					name := ""
					if ci.Common().IsInvoke() {
						name = ci.Common().Method.Name()
					} else if g := staticCallee(ci); g != nil {
						name = g.Name()
					}
					switch name {
					case "Compile", "Lock", "AppendLog", "ResolveResources", "ResolveBalances", "Run":
						if _, isDefer := ins.(*ssa.Defer); !isDefer {
							bad = ins.Pos()
						}
					}
					return s
				},
			})
			if bad.IsValid() {
				c.bad(rule, key, bad, "the execution goes on after the reference look-up on a path where its error was not shown to be `not found`: a store failure is read as `the reference is free` and a second transaction is committed under the same reference")
			} else {
				c.ok(rule, key, lk.Pos(), "execution continues only where the look-up error is the not-found error")
			}
		}
	}
	if n == 0 {
		c.undecided(rule, "floor:reference-lookups", token.NoPos, "no executor looks a reference up in the store")
	}
}

// R12k — only a program that compiled is cached.
//
// command.Compiler stores into its cache only on paths where the compiler returned a nil error: a nil program cached
// under the digest of a script that does not compile makes the next submission of the same text dereference nil.
func ruleCacheOnlyCompiled(c *Ctx, rule string) {
	fn := c.MustFn(rule, pkgCommand, "Compiler.Compile")
	if fn == nil {
		return
	}
	compile := c.Fn(pkgCompiler, "Compile")
	var sets []*ssa.Call
	var comp *ssa.Call
	for _, fi := range flattenCalls(fn, pkgCommand, 3) {
		call, ok := fi.ins.(*ssa.Call)
		if !ok {
			continue
		}
		if call.Call.IsInvoke() && call.Call.Method.Name() == "Set" && len(call.Call.Args) == 2 {
			sets = append(sets, call)
		}
		if compile != nil && callsFn(call, compile) {
			comp = call
		}
	}
	key := "Compiler.Compile:cache-filled-only-after-success"
	if comp == nil || len(sets) == 0 {
		c.undecided(rule, key, fn.Pos(), "the call of compiler.Compile or the cache store was not found in command.Compiler.Compile")
		return
	}
	var errV ssa.Value
	for _, r := range *comp.Referrers() {
		if ex, ok := r.(*ssa.Extract); ok && ex.Index == 1 {
			errV = ex
		}
	}
	isSet := map[ssa.Instruction]bool{}
	for _, s := range sets {
		isSet[s] = true
	}
	bad := token.NoPos
	c.RunPaths(fn, 0, &PathRule{
		MaxDepth: 3,
		Inline: func(call ssa.CallInstruction) []*ssa.Function {
			if g := staticCallee(call); g != nil && len(g.Blocks) > 0 && fnPkgPath(origin(g)) == pkgCommand {
				return []*ssa.Function{g}
			}
			return nil
		},
		Edge: func(pc *PathCtx, s uint64, from *ssa.BasicBlock, si int) (uint64, bool) {
			for _, f := range pc.edgeFacts(from, si) {
				if errV != nil && f.X == errV && isNilConst(f.Y) && f.Eq {
					s |= 1
				}
			}
			return s, true
		},
		Step: func(pc *PathCtx, s uint64, ins ssa.Instruction) uint64 {
			if isSet[ins] && s&1 == 0 {
				bad = ins.Pos()
			}
			return s
		},
	})
	if bad.IsValid() {
		c.bad(rule, key, bad, "command.Compiler.Compile stores into the cache on a path where the compilation error was not tested nil: a script that does not compile leaves a nil program under its digest, and the next submission of the same text dereferences it")
	} else {
		c.ok(rule, key, sets[0].Pos(), "the cache is filled only behind the nil test of the compilation error")
	}
}

// ruleRevertTranslation (C10): a revert is executed by translating the reversed postings through TxToScriptData; the
// structural rules of that translation (R09a provenance, R09b one send per posting in order, R09e attribution, R09h
// injective de-duplication keys) are therefore obligations of the revert as well.
func ruleRevertTranslation(c *Ctx) {
	fn := c.MustFn("R09a", pkgLedger, "TxToScriptData")
	if fn == nil {
		return
	}
	nameF := c.MustField("R09a", pkgLedger, "variable", "name")
	valueF := c.MustField("R09a", pkgLedger, "variable", "value")
	postingsF := c.MustField("R09b", pkgLedger, "TransactionData", "Postings")
	if nameF == nil || valueF == nil || postingsF == nil {
		return
	}
	pf := func(n string) *types.Var { return c.Field(pkgLedger, "Posting", n) }
	fSource, fDest, fAsset, fAmount := pf("Source"), pf("Destination"), pf("Asset"), pf("Amount")
	if fSource == nil || fDest == nil || fAsset == nil || fAmount == nil {
		c.undecided("R09a", "anchor:ledger.Posting-fields", token.NoPos, "Posting fields not found")
		return
	}
	runTxScriptRules(c, fn, nameF, valueF, postingsF, fSource, fDest, fAsset, fAmount)
}

// R11g — a reused reference is answered as a conflict.
//
// Every HTTP handler of the API that creates a transaction tests the error of each CreateTransaction call for the
// engine's conflict code (IsInvalidTransactionError(err, ErrInvalidTransactionCodeConflict)), in the handler or in a
// helper the error is handed to. Without the test the request is still refused, but as a generic validation error:
// "rejected with a conflict" no longer holds for that API version.
func ruleConflictIsAnswered(c *Ctx, rule string) {
	code := ""
	if p := c.Pkg(pkgCommand); p != nil {
		if k, ok := p.Types.Scope().Lookup("ErrInvalidTransactionCodeConflict").(*types.Const); ok {
			code = strings.Trim(k.Val().ExactString(), "\"")
		}
	}
	if code == "" {
		c.undecided(rule, "anchor:ErrInvalidTransactionCodeConflict", token.NoPos, "constant not found")
		return
	}
	isConflictTest := func(call *ssa.Call) (ssa.Value, bool) {
		g := staticCallee(call)
		if g == nil || fnPkgPath(origin(g)) != pkgCommand || len(call.Call.Args) < 2 {
			return nil, false
		}
		for _, a := range call.Call.Args[1:] {
			if k, ok := constString(a); ok && k == code {
				return call.Call.Args[0], true
			}
		}
		return nil, false
	}
	var testedIn func(fn *ssa.Function, errV ssa.Value, depth int) bool
	testedIn = func(fn *ssa.Function, errV ssa.Value, depth int) bool {
		found := false
		derives := func(v ssa.Value) bool {
			for _, r := range roots(v, nil) {
				if r == errV {
					return true
				}
			}
			return v == errV
		}
		allCalls(fn, func(ci ssa.CallInstruction) {
			call, ok := ci.(*ssa.Call)
			if !ok || found {
				return
			}
			if a, ok := isConflictTest(call); ok && derives(a) {
				found = true
				return
			}
			if g := staticCallee(call); g != nil && depth < 2 && len(g.Blocks) > 0 && strings.HasPrefix(fnPkgPath(origin(g)), modPath+"/internal/api") {
				for i, a := range call.Call.Args {
					if derives(a) && i < len(g.Params) && testedIn(g, g.Params[i], depth+1) {
						found = true
					}
				}
			}
		})
		return found
	}
	n := 0
	var fns []*ssa.Function
	for _, p := range []string{pkgV1, pkgV2} {
		fns = append(fns, c.FuncsIn(p)...)
	}
	sort.Slice(fns, func(i, j int) bool { return fns[i].Pos() < fns[j].Pos() })
	for _, fn := range fns {
		if len(fn.Blocks) == 0 || strings.HasSuffix(c.Fset.Position(fn.Pos()).Filename, "_test.go") {
			continue
		}
		ps := fn.Signature.Params()
		if fn.Signature.Recv() != nil || ps.Len() != 2 || !isNamed(ps.At(0).Type(), "net/http", "ResponseWriter") {
			continue
		}
		k := 0
		allCalls(fn, func(ci ssa.CallInstruction) {
			call, ok := ci.(*ssa.Call)
			if !ok || !ci.Common().IsInvoke() || ci.Common().Method.Name() != "CreateTransaction" {
				return
			}
			var errV ssa.Value
			for _, r := range *call.Referrers() {
				if ex, ok := r.(*ssa.Extract); ok && ex.Index == 1 {
					errV = ex
				}
			}
			n++
			k++
			c.seeFn(fn)
			key := fmt.Sprintf("%s:CreateTransaction#%d:conflict-code-is-tested", fnName(fn), k)
			if errV != nil && testedIn(fn, errV, 0) {
				c.ok(rule, key, call.Pos(), "the error is tested for the engine's conflict code")
			} else {
				c.bad(rule, key, call.Pos(), "the error of this CreateTransaction call is never tested for the engine's conflict code: a reused reference is answered as a generic validation error, not as a conflict")
			}
		})
	}
	if n < 2 {
		c.undecided(rule, "floor:create-transaction-handlers", token.NoPos, fmt.Sprintf("expected at least 2 CreateTransaction calls in HTTP handlers (v1, v2), found %d", n))
	}
}

// R04g — the in-memory balance examines every posting.
//
// A loop of the in-memory store that folds amounts into a balance (it calls big.Int.Add / Sub) leaves only when its
// range is exhausted: no break and no return inside (a `break` on the first posting of another asset ignores the
// postings behind it).
func ruleFoldExaminesAll(c *Ctx, rule string) {
	n := 0
	var fns []*ssa.Function
	for _, fn := range c.FuncsIn(modPath + "/internal/storage") {
		if len(fn.Blocks) > 0 && !strings.HasSuffix(c.Fset.Position(fn.Pos()).Filename, "_test.go") {
			fns = append(fns, fn)
		}
	}
	sort.Slice(fns, func(i, j int) bool { return fns[i].Pos() < fns[j].Pos() })
	for _, fn := range fns {
		// strongly connected components of the CFG
		for _, scc := range cfgSCCs(fn) {
			in := map[*ssa.BasicBlock]bool{}
			for _, b := range scc {
				in[b] = true
			}
			folds := false
			for _, b := range scc {
				for _, ins := range b.Instrs {
					if call, ok := ins.(*ssa.Call); ok && callFolds(c, call, 0) {
						folds = true
					}
				}
			}
			if !folds {
				continue
			}
			n++
			c.seeFn(fn)
			key := fmt.Sprintf("%s:fold#%d:leaves-only-when-exhausted", fnName(fn), n)
			// exits: edges from the component to the outside; the range test is the exit taken from the block
			// that also decides to enter the body (an If one of whose successors is in the component)
			var bad token.Pos
			exits := 0
			for _, b := range scc {
				for _, s := range b.Succs {
					if !in[s] {
						exits++
						if !isRangeTest(b) {
							bad = b.Instrs[len(b.Instrs)-1].Pos()
							if !bad.IsValid() && len(b.Instrs) > 1 {
								bad = b.Instrs[0].Pos()
							}
							if !bad.IsValid() {
								bad = fn.Pos()
							}
						}
					}
				}
			}
			if bad.IsValid() {
				c.bad(rule, key, bad, "a loop that folds postings into a balance is left before its range is exhausted (break / return inside): the postings behind that point are not counted, the balance is not the replay of the log")
			} else {
				c.ok(rule, key, scc[0].Instrs[0].Pos(), "the loop is left only when its range is exhausted")
			}
		}
	}
	if n == 0 {
		c.undecided(rule, "floor:folds", token.NoPos, "no loop of internal/storage folds amounts into a balance (InMemoryStore.GetBalance confirmed by reading)")
	}
}

// callFolds: the call adds to or subtracts from a big.Int, itself or in a helper of the repository it calls.
func callFolds(c *Ctx, call ssa.CallInstruction, depth int) bool {
	switch calleeFullName(call) {
	case "(*math/big.Int).Add", "(*math/big.Int).Sub":
		return true
	}
	if depth >= 3 {
		return false
	}
	var callees []*ssa.Function
	if g := staticCallee(call); g != nil {
		callees = []*ssa.Function{g}
	} else if !call.Common().IsInvoke() {
		callees = c.CalleesOf(call) // a function value handed down (`forEachPosting(func(p) { … })`)
	}
	for _, g := range callees {
		if len(g.Blocks) == 0 || !inRepo(fnPkgPath(origin(g))) {
			continue
		}
		found := false
		allCalls(g, func(ci ssa.CallInstruction) {
			if !found && callFolds(c, ci, depth+1) {
				found = true
			}
		})
		if found {
			return true
		}
	}
	return false
}

// isRangeTest: the block ends in the test of a range loop (index < length, or the ok of a map / channel / string
// iteration step).
func isRangeTest(b *ssa.BasicBlock) bool {
	iff, ok := b.Instrs[len(b.Instrs)-1].(*ssa.If)
	if !ok {
		return false
	}
	switch x := iff.Cond.(type) {
	case *ssa.BinOp:
		if x.Op != token.LSS {
			return false
		}
		// k < len(slice) with k the incremented index
		if call, ok := x.Y.(*ssa.Call); ok {
			if bi, ok := call.Call.Value.(*ssa.Builtin); ok && bi.Name() == "len" {
				return true
			}
		}
		return false
	case *ssa.Extract:
		_, isNext := x.Tuple.(*ssa.Next)
		return isNext && x.Index == 0
	}
	return false
}

// cfgSCCs: the non-trivial strongly connected components (loops) of a function's control-flow graph.
func cfgSCCs(fn *ssa.Function) [][]*ssa.BasicBlock {
	index := map[*ssa.BasicBlock]int{}
	low := map[*ssa.BasicBlock]int{}
	on := map[*ssa.BasicBlock]bool{}
	var stack []*ssa.BasicBlock
	var out [][]*ssa.BasicBlock
	k := 0
	var visit func(b *ssa.BasicBlock)
	visit = func(b *ssa.BasicBlock) {
		k++
		index[b], low[b] = k, k
		stack = append(stack, b)
		on[b] = true
		for _, s := range b.Succs {
			if index[s] == 0 {
				visit(s)
				if low[s] < low[b] {
					low[b] = low[s]
				}
			} else if on[s] && index[s] < low[b] {
				low[b] = index[s]
			}
		}
		if low[b] == index[b] {
			var comp []*ssa.BasicBlock
			for {
				x := stack[len(stack)-1]
				stack = stack[:len(stack)-1]
				on[x] = false
				comp = append(comp, x)
				if x == b {
					break
				}
			}
			self := false
			for _, s := range b.Succs {
				if s == b {
					self = true
				}
			}
			if len(comp) > 1 || self {
				sort.Slice(comp, func(i, j int) bool { return comp[i].Index < comp[j].Index })
				out = append(out, comp)
			}
		}
	}
	for _, b := range fn.Blocks {
		if index[b] == 0 {
			visit(b)
		}
	}
	sort.Slice(out, func(i, j int) bool { return out[i][0].Index < out[j][0].Index })
	return out
}

// R10i — reversing the postings mirrors their positions.
//
// In the Reverse methods of the slice types of package ledger, a whole element stored at index a and loaded from
// index b (in-place swap or copy into a new slice) satisfies a + b = len − 1, with a, b affine in the loop variable
// and the length.
func ruleReverseMirrors(c *Ctx, rule string) {
	n := 0
	var fns []*ssa.Function
	for _, fn := range c.FuncsIn(pkgLedger) {
		if !strings.HasPrefix(fn.Name(), "Revers") || fn.Signature.Recv() == nil || len(fn.Blocks) == 0 {
			continue
		}
		if _, ok := fn.Signature.Recv().Type().Underlying().(*types.Slice); !ok {
			continue
		}
		fns = append(fns, fn)
	}
	sort.Slice(fns, func(i, j int) bool { return fns[i].Pos() < fns[j].Pos() })
	type aff struct {
		ok           bool
		length, c0   int64
		vars         map[any]int64 // loop counters (keyed by the loop header block) and opaque phis
	}
	var eval func(v ssa.Value, depth int) aff
	eval = func(v ssa.Value, depth int) aff {
		r := aff{ok: true, vars: map[any]int64{}}
		if depth > 8 {
			r.ok = false
			return r
		}
		switch x := v.(type) {
		case *ssa.Const:
			n, ok := constInt(x)
			r.ok, r.c0 = ok, n
		case *ssa.Call:
			if bi, ok := x.Call.Value.(*ssa.Builtin); ok && bi.Name() == "len" {
				r.length = 1
			} else {
				r.ok = false
			}
		case *ssa.Phi:
			// an induction variable `v = init; v += step` is init + step·t, t the iteration count of its loop
			if len(x.Edges) == 2 {
				for k := 0; k < 2; k++ {
					bo, ok := x.Edges[k].(*ssa.BinOp)
					if !ok || (bo.Op != token.ADD && bo.Op != token.SUB) || bo.X != ssa.Value(x) {
						continue
					}
					step, ok := constInt(bo.Y)
					if !ok {
						continue
					}
					if bo.Op == token.SUB {
						step = -step
					}
					init := eval(x.Edges[1-k], depth+1)
					if !init.ok {
						break
					}
					init.vars[x.Block()] += step
					return init
				}
			}
			r.vars[x] = 1
		case *ssa.BinOp:
			a, b := eval(x.X, depth+1), eval(x.Y, depth+1)
			if !a.ok || !b.ok || (x.Op != token.ADD && x.Op != token.SUB) {
				r.ok = false
				return r
			}
			sign := int64(1)
			if x.Op == token.SUB {
				sign = -1
			}
			r.length, r.c0 = a.length+sign*b.length, a.c0+sign*b.c0
			for k, v := range a.vars {
				r.vars[k] += v
			}
			for k, v := range b.vars {
				r.vars[k] += sign * v
			}
		case *ssa.Convert:
			return eval(x.X, depth+1)
		default:
			r.ok = false
		}
		return r
	}
	for _, fn := range fns {
		k := 0
		for _, b := range fn.Blocks {
			for _, ins := range b.Instrs {
				st, ok := ins.(*ssa.Store)
				if !ok {
					continue
				}
				dst, ok := st.Addr.(*ssa.IndexAddr)
				if !ok {
					continue
				}
				val := st.Val
				// an element transformed on the way (`p[j].Reversed()`): the element the transformation is applied to
				if call, isCall := val.(*ssa.Call); isCall && len(call.Call.Args) >= 1 && !call.Call.IsInvoke() {
					val = call.Call.Args[0]
				}
				ld, ok := val.(*ssa.UnOp)
				if !ok || ld.Op != token.MUL {
					continue
				}
				src, ok := ld.X.(*ssa.IndexAddr)
				if !ok {
					continue
				}
				n++
				k++
				c.seeFn(fn)
				key := fmt.Sprintf("%s.%s:element-move#%d:positions-mirror", recvTypeName(fn), fn.Name(), k)
				a, bb := eval(dst.Index, 0), eval(src.Index, 0)
				if !a.ok || !bb.ok {
					c.undecided(rule, key, st.Pos(), "the indices of the element move are not affine in the loop variable and the length")
					continue
				}
				sumVars := map[any]int64{}
				for v, co := range a.vars {
					sumVars[v] += co
				}
				for v, co := range bb.vars {
					sumVars[v] += co
				}
				good := a.length+bb.length == 1 && a.c0+bb.c0 == -1
				for _, co := range sumVars {
					if co != 0 {
						good = false
					}
				}
				// both indices must move with the loop (a constant pair would satisfy the sum for one element only)
				if len(a.vars) == 0 && len(bb.vars) == 0 {
					good = false
				}
				if good {
					c.ok(rule, key, st.Pos(), "destination index + source index = len − 1")
				} else {
					c.bad(rule, key, st.Pos(), recvTypeName(fn)+".Reverse moves an element between two positions that are not mirror images (destination + source ≠ len − 1): for more than three postings the revert is not the original in reverse order")
				}
			}
		}
	}
	if n == 0 {
		c.undecided(rule, "floor:element-moves", token.NoPos, "no Reverse method of a slice type of package ledger moves whole elements (Postings.Reverse confirmed by reading)")
	}
}

// derivesFromAdd: v is the result of a big.Int addition, directly or as what a helper of the repository returns.
func derivesFromAdd(v ssa.Value, depth int) bool {
	for _, r := range roots(v, nil) {
		call, ok := r.(*ssa.Call)
		if !ok {
			continue
		}
		if calleeFullName(call) == "(*math/big.Int).Add" {
			return true
		}
		if g := staticCallee(call); g != nil && depth < 2 && len(g.Blocks) > 0 && inRepo(fnPkgPath(origin(g))) {
			for _, b := range g.Blocks {
				if ret, ok := b.Instrs[len(b.Instrs)-1].(*ssa.Return); ok && len(ret.Results) > 0 && derivesFromAdd(ret.Results[0], depth+1) {
					return true
				}
			}
		}
	}
	return false
}
