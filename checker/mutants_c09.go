package main

func init() {
	const nums = "internal/numscript.go"
	const run = "internal/machine/vm/run.go"
	const mach = "internal/machine/vm/machine.go"
	const cmdr = "internal/engine/command/commander.go"
	addMutants(
		Mutant{Property: "C09", Name: "address-inlined-in-script", File: nums,
			Old: "\t\t\tsb.WriteString(fmt.Sprintf(\"\\tsource = $%s\", src.name))", New: "\t\t\tsb.WriteString(fmt.Sprintf(\"\\tsource = @%s\", src.value))", Expect: "R09a:"},
		Mutant{Property: "C09", Name: "amount-inlined-in-script", File: nums,
			Old: "\t\tsb.WriteString(fmt.Sprintf(\"send $%s (\\n\", mon.name))", New: "\t\tsb.WriteString(fmt.Sprintf(\"send [%s] (\\n\", mon.value))", Expect: "R09a:"},
		Mutant{Property: "C09", Name: "zero-amount-postings-skipped", File: nums,
			Old: "\t\tsb.WriteString(fmt.Sprintf(\"send $%s (\\n\", mon.name))", New: "\t\tif p.Amount.Sign() == 0 {\n\t\t\tcontinue\n\t\t}\n\t\tsb.WriteString(fmt.Sprintf(\"send $%s (\\n\", mon.name))", Expect: "R09b:"},
		Mutant{Property: "C09", Name: "destination-looked-up-by-source", File: nums,
			Old: "\t\t\tdest, ok := accountsToVars[p.Destination]", New: "\t\t\tdest, ok := accountsToVars[p.Source]", Expect: "R09e:"},
		Mutant{Property: "C09", Name: "monetary-key-ignores-asset", File: nums,
			Old: "\t\tm := fmt.Sprintf(\"[%s %s]\", p.Amount.String(), p.Asset)", New: "\t\tm := fmt.Sprintf(\"[%s %s]\", p.Amount.String(), txData.Postings[0].Asset)", Expect: "R09e:"},
		Mutant{Property: "C09", Name: "variable-value-swapped", File: nums,
			Old: "\t\t\t\t\tname:  fmt.Sprintf(\"va%d\", i),\n\t\t\t\t\tvalue: p.Destination,", New: "\t\t\t\t\tname:  fmt.Sprintf(\"va%d\", i),\n\t\t\t\t\tvalue: p.Source,", Expect: "R09e:"},
		Mutant{Property: "C09", Name: "reference-dropped", File: nums,
			Old: "\t\tReference: txData.Reference,\n\t}\n}", New: "\t}\n}", Expect: "R09c:TxToScriptData:passes-Reference"},
		Mutant{Property: "C09", Name: "timestamp-not-applied", File: cmdr,
			Old: "\t\t\t\tWithDate(script.Timestamp).\n", New: "\t\t\t\tWithDate(ledger.Now()).\n", Expect: "R09c:"},
		Mutant{Property: "C09", Name: "run-swaps-endpoints", File: run,
			Old: "\t\t\tSource:      posting.Source,\n\t\t\tDestination: posting.Destination,", New: "\t\t\tSource:      posting.Destination,\n\t\t\tDestination: posting.Source,", Expect: "R09f:vm.Run:posting."},
		Mutant{Property: "C09", Name: "run-reverses-order", File: run,
			Old: "\t\tresult.Postings[j] = ledger.Posting{", New: "\t\tresult.Postings[len(m.Postings)-1-j] = ledger.Posting{", Expect: "R09f:vm.Run:posting-positions"},
		Mutant{Property: "C09", Name: "run-drops-request-metadata", File: run,
			Old: "\t\tresult.Metadata[k] = v\n", New: "\t\t_ = v\n", Expect: "R09f:vm.Run:request-metadata-merged"},
		Mutant{Property: "C09", Name: "send-posting-source-is-destination", File: mach,
			Old: "\t\t\t\tSource:      string(src),\n\t\t\t\tDestination: string(dest),", New: "\t\t\t\tSource:      string(dest),\n\t\t\t\tDestination: string(src),", Expect: "R09f:OP_SEND:posting.Source"},
		Mutant{Property: "C09", Name: "v1-validation-skipped-for-single-posting", File: "internal/api/v1/controllers_transactions.go",
			Old: "\t\tif _, err := payload.Postings.Validate(); err != nil {\n\t\t\tsharedapi.BadRequest(w, ErrValidation, err)\n\t\t\treturn\n\t\t}\n\t\ttxData := ledger.TransactionData{", New: "\t\tif len(payload.Postings) > 1 {\n\t\t\tif _, err := payload.Postings.Validate(); err != nil {\n\t\t\t\tsharedapi.BadRequest(w, ErrValidation, err)\n\t\t\t\treturn\n\t\t\t}\n\t\t}\n\t\ttxData := ledger.TransactionData{", Expect: "R09d:"},
	)
}

func init() {
	const nums = "internal/numscript.go"
	// the performance refactoring of seed C09-1 (names from len(map) and strconv, keys memoised in a slice,
	// concatenation instead of Sprintf), with a separator in the key: behaviour preserving
	refactor := func(key string) []Edit {
		return []Edit{
			{File: nums, Old: "import (\n\t\"fmt\"\n\t\"sort\"\n", New: "import (\n\t\"fmt\"\n\t\"sort\"\n\t\"strconv\"\n"},
			{File: nums, Old: "\tmonetaryToVars := map[string]variable{}\n\taccountsToVars := map[string]variable{}\n\ti := 0\n\tj := 0\n\tfor _, p := range txData.Postings {\n",
				New: "\tmonetaryToVars := make(map[string]variable, len(txData.Postings))\n\taccountsToVars := make(map[string]variable, 2*len(txData.Postings))\n\tmonetaryKeys := make([]string, len(txData.Postings))\n\tfor n, p := range txData.Postings {\n"},
			{File: nums, Old: "\t\t\t\t\tname:  fmt.Sprintf(\"va%d\", i),\n\t\t\t\t\tvalue: p.Source,\n\t\t\t\t}\n\t\t\t\ti++\n", New: "\t\t\t\t\tname:  \"va\" + strconv.Itoa(len(accountsToVars)),\n\t\t\t\t\tvalue: p.Source,\n\t\t\t\t}\n"},
			{File: nums, Old: "\t\t\t\t\tname:  fmt.Sprintf(\"va%d\", i),\n\t\t\t\t\tvalue: p.Destination,\n\t\t\t\t}\n\t\t\t\ti++\n", New: "\t\t\t\t\tname:  \"va\" + strconv.Itoa(len(accountsToVars)),\n\t\t\t\t\tvalue: p.Destination,\n\t\t\t\t}\n"},
			{File: nums, Old: "\t\tmon := fmt.Sprintf(\"[%s %s]\", p.Amount.String(), p.Asset)\n\t\tif _, ok := monetaryToVars[mon]; !ok {\n\t\t\tmonetaryToVars[mon] = variable{\n\t\t\t\tname:  fmt.Sprintf(\"vm%d\", j),\n\t\t\t\tvalue: fmt.Sprintf(\"%s %s\", p.Asset, p.Amount.String()),\n\t\t\t}\n\t\t\tj++\n\t\t}\n",
				New: "\t\tamount := p.Amount.String()\n\t\tmonetaryKeys[n] = " + key + "\n\t\tif _, ok := monetaryToVars[monetaryKeys[n]]; !ok {\n\t\t\tmonetaryToVars[monetaryKeys[n]] = variable{\n\t\t\t\tname:  \"vm\" + strconv.Itoa(len(monetaryToVars)),\n\t\t\t\tvalue: p.Asset + \" \" + amount,\n\t\t\t}\n\t\t}\n"},
			{File: nums, Old: "\tfor _, p := range txData.Postings {\n\t\tm := fmt.Sprintf(\"[%s %s]\", p.Amount.String(), p.Asset)\n\t\tmon, ok := monetaryToVars[m]\n\t\tif !ok {\n\t\t\tpanic(fmt.Sprintf(\"monetary %s not found\", m))\n\t\t}\n\t\tsb.WriteString(fmt.Sprintf(\"send $%s (\\n\", mon.name))\n",
				New: "\tfor n, p := range txData.Postings {\n\t\tmon, ok := monetaryToVars[monetaryKeys[n]]\n\t\tif !ok {\n\t\t\tpanic(fmt.Sprintf(\"monetary %s not found\", monetaryKeys[n]))\n\t\t}\n\t\tsb.WriteString(\"send $\" + mon.name + \" (\\n\")\n"},
		}
	}
	good := refactor("p.Asset + \" \" + amount")
	bad := refactor("p.Asset + amount")
	addMutants(
		Mutant{Property: "C09", Name: "benign-translation-refactored-for-speed", File: good[0].File, Old: good[0].Old, New: good[0].New, Edits: good[1:], Expect: "none", Benign: true},
		Mutant{Property: "C09", Name: "refactored-with-colliding-key", File: bad[0].File, Old: bad[0].Old, New: bad[0].New, Edits: bad[1:], Expect: "R09h:"},
		Mutant{Property: "C09", Name: "account-counter-not-advanced", File: nums, Old: "\t\t\t\t\tvalue: p.Source,\n\t\t\t\t}\n\t\t\t\ti++\n", New: "\t\t\t\t\tvalue: p.Source,\n\t\t\t\t}\n", Expect: "R09a:TxToScriptData:variable-name-is-unique"},
		Mutant{Property: "C09", Name: "monetary-names-share-the-account-prefix", File: nums, Old: "name:  fmt.Sprintf(\"vm%d\", j),", New: "name:  fmt.Sprintf(\"va%d\", j),", Expect: "R09a:TxToScriptData:variable-name-is-unique"},
		Mutant{Property: "C09", Name: "monetary-key-without-separator", File: nums, Old: "\t\tmon := fmt.Sprintf(\"[%s %s]\", p.Amount.String(), p.Asset)\n", New: "\t\tmon := fmt.Sprintf(\"[%s%s]\", p.Asset, p.Amount.String())\n",
			Edits: []Edit{{File: nums, Old: "\t\tm := fmt.Sprintf(\"[%s %s]\", p.Amount.String(), p.Asset)\n", New: "\t\tm := fmt.Sprintf(\"[%s%s]\", p.Asset, p.Amount.String())\n"}}, Expect: "R09h:"},
		Mutant{Property: "C09", Name: "emit-loop-key-differs-from-registration-key", File: nums, Old: "\t\tm := fmt.Sprintf(\"[%s %s]\", p.Amount.String(), p.Asset)\n", New: "\t\tm := fmt.Sprintf(\"[%s  %s]\", p.Amount.String(), p.Asset)\n", Expect: "R09e:TxToScriptData:send"},
	)
}

func init() {
	const bulk = "internal/api/v2/bulk.go"
	for _, p := range []struct{ prop, rule string }{{"C09", "R09i:"}, {"C18", "R18f:"}} {
		addMutants(
			Mutant{Property: p.prop, Name: "bulk-elements-decoded-into-one-request", File: bulk,
				Old: "\tfor i, element := range bulk {\n", New: "\ttxRequest := &ledger.TransactionRequest{}\n\tfor i, element := range bulk {\n",
				Edits: []Edit{{File: bulk, Old: "\t\t\treq := &ledger.TransactionRequest{}\n", New: "\t\t\treq := txRequest\n"}}, Expect: p.rule},
		)
	}
}
