package main

func init() {
	const nums = "internal/numscript.go"
	const run = "internal/machine/vm/run.go"
	const mach = "internal/machine/vm/machine.go"
	const cmdr = "internal/engine/command/commander.go"
	addMutants(
		Mutant{Property: "C09", Name: "address-inlined-in-script", File: nums,
			Old: "\t\t\tsb.WriteString(fmt.Sprintf(\"\\tsource = $%s\", src.name))", New: "\t\t\tsb.WriteString(fmt.Sprintf(\"\\tsource = @%s\", src.value))", Expect: "R09a:"},
		Mutant{Property: "C09", Name: "amount-inlined-in-script", File: nums,
			Old: "\t\tsb.WriteString(fmt.Sprintf(\"send $%s (\\n\", mon.name))", New: "\t\tsb.WriteString(fmt.Sprintf(\"send [%s] (\\n\", mon.value))", Expect: "R09a:"},
		Mutant{Property: "C09", Name: "zero-amount-postings-skipped", File: nums,
			Old: "\t\tsb.WriteString(fmt.Sprintf(\"send $%s (\\n\", mon.name))", New: "\t\tif p.Amount.Sign() == 0 {\n\t\t\tcontinue\n\t\t}\n\t\tsb.WriteString(fmt.Sprintf(\"send $%s (\\n\", mon.name))", Expect: "R09b:"},
		Mutant{Property: "C09", Name: "destination-looked-up-by-source", File: nums,
			Old: "\t\t\tdest, ok := accountsToVars[p.Destination]", New: "\t\t\tdest, ok := accountsToVars[p.Source]", Expect: "R09e:"},
		Mutant{Property: "C09", Name: "monetary-key-ignores-asset", File: nums,
			Old: "\t\tm := fmt.Sprintf(\"[%s %s]\", p.Amount.String(), p.Asset)", New: "\t\tm := fmt.Sprintf(\"[%s %s]\", p.Amount.String(), txData.Postings[0].Asset)", Expect: "R09e:"},
		Mutant{Property: "C09", Name: "variable-value-swapped", File: nums,
			Old: "\t\t\t\t\tname:  fmt.Sprintf(\"va%d\", i),\n\t\t\t\t\tvalue: p.Destination,", New: "\t\t\t\t\tname:  fmt.Sprintf(\"va%d\", i),\n\t\t\t\t\tvalue: p.Source,", Expect: "R09e:"},
		Mutant{Property: "C09", Name: "reference-dropped", File: nums,
			Old: "\t\tReference: txData.Reference,\n\t}\n}", New: "\t}\n}", Expect: "R09c:TxToScriptData:passes-Reference"},
		Mutant{Property: "C09", Name: "timestamp-not-applied", File: cmdr,
			Old: "\t\t\t\tWithDate(script.Timestamp).\n", New: "\t\t\t\tWithDate(ledger.Now()).\n", Expect: "R09c:"},
		Mutant{Property: "C09", Name: "run-swaps-endpoints", File: run,
			Old: "\t\t\tSource:      posting.Source,\n\t\t\tDestination: posting.Destination,", New: "\t\t\tSource:      posting.Destination,\n\t\t\tDestination: posting.Source,", Expect: "R09f:vm.Run:posting."},
		Mutant{Property: "C09", Name: "run-reverses-order", File: run,
			Old: "\t\tresult.Postings[j] = ledger.Posting{", New: "\t\tresult.Postings[len(m.Postings)-1-j] = ledger.Posting{", Expect: "R09f:vm.Run:posting-positions"},
		Mutant{Property: "C09", Name: "run-drops-request-metadata", File: run,
			Old: "\t\tresult.Metadata[k] = v\n", New: "\t\t_ = v\n", Expect: "R09f:vm.Run:request-metadata-merged"},
		Mutant{Property: "C09", Name: "send-posting-source-is-destination", File: mach,
			Old: "\t\t\t\tSource:      string(src),\n\t\t\t\tDestination: string(dest),", New: "\t\t\t\tSource:      string(dest),\n\t\t\t\tDestination: string(src),", Expect: "R09f:OP_SEND:posting.Source"},
		Mutant{Property: "C09", Name: "v1-validation-skipped-for-single-posting", File: "internal/api/v1/controllers_transactions.go",
			Old: "\t\tif _, err := payload.Postings.Validate(); err != nil {\n\t\t\tsharedapi.BadRequest(w, ErrValidation, err)\n\t\t\treturn\n\t\t}\n\t\ttxData := ledger.TransactionData{", New: "\t\tif len(payload.Postings) > 1 {\n\t\t\tif _, err := payload.Postings.Validate(); err != nil {\n\t\t\t\tsharedapi.BadRequest(w, ErrValidation, err)\n\t\t\t\treturn\n\t\t\t}\n\t\t}\n\t\ttxData := ledger.TransactionData{", Expect: "R09d:"},
	)
}
