package main

import (
	"fmt"
	"go/ast"
	"go/constant"
	"go/token"
	"go/types"
	"sort"
	"strings"

	"golang.org/x/tools/go/packages"
	"golang.org/x/tools/go/ssa"
)

const (
	pkgLedger    = modPath + "/internal"
	migrationSQL = "internal/storage/ledgerstore/migrations/0-init-schema.sql"
)

func init() {
	register("C13", propMeta{
		Level: "other",
		Explanation: "Static table agreement and decodability. R13a: the set of LogType constants is compared with the case sets of LogType.String, LogTypeFromString, HydrateLog, the labels of the SQL enum log_type and the `new.type = '…'` branches of the handle_log trigger; String/FromString are checked to be inverse by constant evaluation of their case tables. " +
			"R13b: for every log constructor (composite literal ledger.Log{Type: K, Data: X}) the static type of X is the payload type HydrateLog instantiates for K, and every payload struct with an interface-typed field has an UnmarshalJSON that assigns it. " +
			"R13d: every value stored into ledger.Time.Time that originates from time.Now/time.Parse passes through Round/Truncate(DatePrecision). R13c: hash inputs (ChainLog/ComputeHash feed previous hash and the log into the digest; id derives from previous id). R13g: exact amounts — no function of the content-carrying packages (core types and codecs, machine, engine, store, API, bus) computes with a floating-point value, math/big.Float or a float parser (frozen exception: the one-shot v1 import). R13h: every struct with a hand-written UnmarshalJSON that decodes its input into an auxiliary struct (ChainedLog, SetMetadataLogPayload, DeleteMetadataLogPayload) is written by encoding/json from its own fields; the json key set of the type (tags, embedded promotion and shadowing as encoding/json computes them) is a subset of the key set of the auxiliary struct, compared case-insensitively as encoding/json matches them — R13j: in package command the constant stored in the TargetType of a metadata log payload is the constant of the switch case the payload is built in. R13h (continued): a key the reader does not declare is dropped on read-back; every such field is also stored into the receiver (field store, `*s = T{…}` composite, or a whole-value copy), and integers parsed inside these decoders (transaction ids) are parsed with bit size 64, the width they are written with.",
		NotDecided:  "byte-for-byte equality of re-marshalled JSON, numeric range of ids, hash values; these are value-level facts.",
		Trusted:     []string{"go/types constant evaluation", "encoding/json decoding semantics for struct fields", "lexical scan of 0-init-schema.sql"},
		Assumptions: []string{"log rows are written only through the constructors in package internal (checked: composite literals of ledger.Log anywhere in the repo are enumerated)"},
	}, runC13)
}

func runC13(c *Ctx) {
	ruleR13a(c)
	ruleR13b(c)
	ruleR13d(c)
	ruleR05f(c, "R13c")
	ruleExactAmounts(c, "R13g")
	ruleR13h(c, "R13h", 3)
	ruleTargetTypeAgrees(c, "R13j")
	ruleHeadAdvancesWithEveryLog(c, "R13k")
	ruleR07b(c)
}

// logTypeTables extracts the case tables of the three Go switches.
type logTables struct {
	consts     []*types.Const
	stringOf   map[string]string      // const name -> returned string
	fromString map[string]string      // string -> const name
	hydrate    map[string]types.Type  // const name -> payload type (pointer elem)
	hydratePos map[string]token.Pos
	hasDefault bool
}

func extractLogTables(c *Ctx, rule string) *logTables {
	t := &logTables{stringOf: map[string]string{}, fromString: map[string]string{}, hydrate: map[string]types.Type{}, hydratePos: map[string]token.Pos{}}
	t.consts = c.ConstsOfType(pkgLedger, "LogType")
	if len(t.consts) == 0 {
		c.undecided(rule, "anchor:LogType-constants", token.NoPos, "no constants of type ledger.LogType found")
		return nil
	}
	p, fd := c.MustFuncDecl(rule, pkgLedger, "LogType.String")
	if fd == nil {
		return nil
	}
	for _, sw := range switchesIn(fd.Body) {
		for _, cl := range clausesOf(sw.Body) {
			v, _, ok := firstReturnConst(p, cl.Body, 0)
			for _, e := range cl.Exprs {
				if k := constObj(p, e); k != nil && ok && v != nil && v.Kind() == constant.String {
					t.stringOf[k.Name()] = constant.StringVal(v)
				}
			}
		}
	}
	// table-driven form: `return names[l]` over a package-level array/map literal keyed by the constants
	for _, tab := range keyedTablesUsed(c, p, fd.Body) {
		for k, e := range tab.entries {
			if v := constVal(p, e); v != nil && v.Kind() == constant.String {
				if _, dup := t.stringOf[k]; !dup {
					t.stringOf[k] = constant.StringVal(v)
				}
			}
		}
	}
	p, fd = c.MustFuncDecl(rule, pkgLedger, "LogTypeFromString")
	if fd == nil {
		return nil
	}
	// table-driven form: `for k, name := range names { if name == s { return LogType(k) } }`
	ast.Inspect(fd.Body, func(n ast.Node) bool {
		rs, ok := n.(*ast.RangeStmt)
		if !ok {
			return true
		}
		tabs := keyedTablesUsed(c, p, &ast.BlockStmt{List: []ast.Stmt{&ast.ExprStmt{X: rs.X}}})
		keyID, _ := rs.Key.(*ast.Ident)
		valID, _ := rs.Value.(*ast.Ident)
		if len(tabs) != 1 || keyID == nil || valID == nil {
			return true
		}
		keyObj, valObj := p.TypesInfo.Defs[keyID], p.TypesInfo.Defs[valID]
		matched := false
		ast.Inspect(rs.Body, func(m ast.Node) bool {
			ifs, ok := m.(*ast.IfStmt)
			if !ok {
				return true
			}
			be, ok := ifs.Cond.(*ast.BinaryExpr)
			if !ok || be.Op != token.EQL {
				return true
			}
			usesVal, usesParam := false, false
			for _, side := range []ast.Expr{be.X, be.Y} {
				if id, ok := side.(*ast.Ident); ok {
					if p.TypesInfo.Uses[id] == valObj {
						usesVal = true
					}
					if v, ok := p.TypesInfo.Uses[id].(*types.Var); ok && fd.Type.Params != nil {
						for _, fl := range fd.Type.Params.List {
							for _, nm := range fl.Names {
								if p.TypesInfo.Defs[nm] == v {
									usesParam = true
								}
							}
						}
					}
				}
			}
			if !usesVal || !usesParam {
				return true
			}
			for _, st := range ifs.Body.List {
				if ret, ok := st.(*ast.ReturnStmt); ok && len(ret.Results) == 1 {
					e := ret.Results[0]
					if call, ok := e.(*ast.CallExpr); ok && len(call.Args) == 1 {
						e = call.Args[0]
					}
					if id, ok := e.(*ast.Ident); ok && p.TypesInfo.Uses[id] == keyObj {
						matched = true
					}
				}
			}
			return true
		})
		if matched {
			for k, e := range tabs[0].entries {
				if v := constVal(p, e); v != nil && v.Kind() == constant.String {
					t.fromString[constant.StringVal(v)] = k
				}
			}
		}
		return true
	})
	for _, sw := range switchesIn(fd.Body) {
		for _, cl := range clausesOf(sw.Body) {
			_, obj, ok := firstReturnConst(p, cl.Body, 0)
			for _, e := range cl.Exprs {
				if v := constVal(p, e); v != nil && v.Kind() == constant.String && ok && obj != nil {
					t.fromString[constant.StringVal(v)] = obj.Name()
				}
			}
		}
	}
	p, fd = c.MustFuncDecl(rule, pkgLedger, "HydrateLog")
	if fd == nil {
		return nil
	}
	// the switch over the log type may live in a helper of the package that HydrateLog calls
	// (`payload := newLogPayload(_type)`)
	bodies := []*ast.BlockStmt{fd.Body}
	ast.Inspect(fd.Body, func(n ast.Node) bool {
		call, ok := n.(*ast.CallExpr)
		if !ok {
			return true
		}
		if id, ok := call.Fun.(*ast.Ident); ok {
			if fobj, ok := p.TypesInfo.Uses[id].(*types.Func); ok && fobj.Pkg() != nil && fobj.Pkg().Path() == pkgLedger {
				if _, hd := c.FuncDecl(pkgLedger, fobj.Name()); hd != nil && hd.Body != nil {
					bodies = append(bodies, hd.Body)
				}
			}
		}
		return true
	})
	var hydrateSwitches []*ast.SwitchStmt
	for _, b := range bodies {
		hydrateSwitches = append(hydrateSwitches, switchesIn(b)...)
	}
	for _, b := range bodies {
		for _, tab := range keyedTablesUsed(c, p, b) {
			for k, e := range tab.entries {
				var pt types.Type
				ast.Inspect(e, func(n ast.Node) bool {
					if cl, ok := n.(*ast.CompositeLit); ok && pt == nil {
						pt = p.TypesInfo.TypeOf(cl)
					}
					return true
				})
				if pt != nil {
					if _, dup := t.hydrate[k]; !dup {
						t.hydrate[k] = pt
						t.hydratePos[k] = e.Pos()
					}
				}
			}
		}
	}
	for _, sw := range hydrateSwitches {
		for _, cl := range clausesOf(sw.Body) {
			if cl.Default {
				continue
			}
			// payload type: the composite literal assigned in the clause body
			var pt types.Type
			for _, s := range cl.Body {
				ast.Inspect(s, func(n ast.Node) bool {
					if cl, ok := n.(*ast.CompositeLit); ok && pt == nil {
						pt = p.TypesInfo.TypeOf(cl)
					}
					return true
				})
			}
			for _, e := range cl.Exprs {
				if k := constObj(p, e); k != nil {
					t.hydrate[k.Name()] = pt
					t.hydratePos[k.Name()] = cl.Pos
				}
			}
		}
	}
	return t
}

func ruleR13a(c *Ctx) {
	const rule = "R13a"
	t := extractLogTables(c, rule)
	if t == nil {
		return
	}
	schema, err := loadSQLSchema(c, migrationSQL)
	if err != nil {
		c.undecided(rule, "anchor:migration", token.NoPos, err.Error())
		return
	}
	enum := map[string]bool{}
	for _, l := range schema.Enums["log_type"] {
		enum[l] = true
	}
	branches := map[string]bool{}
	if hl := schema.Func("handle_log"); hl != nil {
		for i := 0; i+4 < len(hl.Body); i++ {
			b := hl.Body
			if b[i].Text == "new" && b[i+1].Text == "." && b[i+2].Text == "type" && b[i+3].Text == "=" && b[i+4].Kind == 's' {
				branches[b[i+4].Text] = true
			}
		}
	} else {
		c.undecided(rule, "anchor:sql.handle_log", token.NoPos, "SQL function handle_log not found in the migration")
	}
	if len(enum) == 0 {
		c.undecided(rule, "anchor:sql.log_type", token.NoPos, "SQL enum log_type not found in the migration")
	}
	c.Info["log_type_constants"] = len(t.consts)
	for _, k := range t.consts {
		n := k.Name()
		s, hasS := t.stringOf[n]
		c.check(hasS && s != "", rule, "String:"+n, k.Pos(), "LogType.String has a case returning "+fmt.Sprintf("%q", s), "LogType.String has no case for "+n+": the type is written to the store as the empty string")
		if hasS {
			back, ok := t.fromString[s]
			c.check(ok && back == n, rule, "FromString:"+n, k.Pos(), "LogTypeFromString("+s+") = "+n, fmt.Sprintf("LogTypeFromString(%q) yields %q, not %s: a stored %s entry cannot be read back as itself", s, back, n, n))
			c.check(enum[s], rule, "sqlenum:"+n, k.Pos(), "label present in SQL enum log_type", fmt.Sprintf("SQL enum log_type has no label %q: inserting a %s log fails", s, n))
			c.check(branches[s], rule, "handle_log:"+n, k.Pos(), "handle_log has a branch for the label", fmt.Sprintf("trigger handle_log has no `new.type = '%s'` branch: the log is stored but never projected", s))
		}
		_, hasH := t.hydrate[n]
		c.check(hasH, rule, "HydrateLog:"+n, k.Pos(), "HydrateLog has a case", "HydrateLog has no case for "+n+": reading such a log entry back (GetLogs, GetLastLog at start-up, ChainedLog.UnmarshalJSON) panics")
	}
	// values are distinct
	vals := map[string]string{}
	for _, k := range t.consts {
		v := k.Val().ExactString()
		if o, dup := vals[v]; dup {
			c.bad(rule, "distinct:"+k.Name(), k.Pos(), "constant has the same value as "+o)
		} else {
			vals[v] = k.Name()
		}
	}
	c.NSites += len(t.stringOf) + len(t.fromString) + len(t.hydrate) + len(enum) + len(branches)
}

func ruleR13b(c *Ctx) {
	const rule = "R13b"
	t := extractLogTables(c, rule+".tables")
	if t == nil {
		return
	}
	logNamed := c.Named(pkgLedger, "Log")
	if logNamed == nil {
		c.undecided(rule, "anchor:Log", token.NoPos, "type ledger.Log not found")
		return
	}
	// writer/reader table: every composite literal of ledger.Log in the repo
	nLits := 0
	for path, p := range c.ByPath {
		if !inRepo(path) {
			continue
		}
		for _, f := range p.Syntax {
			var encl string
			ast.Inspect(f, func(n ast.Node) bool {
				if fd, ok := n.(*ast.FuncDecl); ok {
					encl = fd.Name.Name
				}
				cl, ok := n.(*ast.CompositeLit)
				if !ok {
					return true
				}
				tt := p.TypesInfo.TypeOf(cl)
				if tt == nil || namedOf(tt) == nil || namedOf(tt).Obj() != logNamed.Obj() {
					return true
				}
				var typeK *types.Const
				var dataT types.Type
				var hasType, hasData bool
				for _, el := range cl.Elts {
					kv, ok := el.(*ast.KeyValueExpr)
					if !ok {
						continue
					}
					key, _ := kv.Key.(*ast.Ident)
					if key == nil {
						continue
					}
					switch key.Name {
					case "Type":
						hasType = true
						typeK = constObj(p, kv.Value)
					case "Data":
						hasData = true
						dataT = p.TypesInfo.TypeOf(kv.Value)
					}
				}
				if !hasType && !hasData {
					return true // zero literal (e.g. decoding target)
				}
				nLits++
				key := shortPkg(path) + "." + encl
				if typeK == nil {
					// Type computed at run time: this is the reader rebuilding a stored row
					// (ledgerstore.Logs.ToCore), not a constructor with a static kind
					c.ok(rule, "reader:"+key, cl.Pos(), "Log literal with a dynamic Type (rebuilds a stored row); not a writer")
					return true
				}
				if dataT == nil {
					c.undecided(rule, "writer:"+key, cl.Pos(), "Log literal with a constant Type but no Data")
					return true
				}
				want := t.hydrate[typeK.Name()]
				if want == nil {
					c.bad(rule, "writer:"+key+":"+typeK.Name(), cl.Pos(), "Log literal of type "+typeK.Name()+" but HydrateLog has no payload type for it")
					return true
				}
				c.check(types.Identical(dataT, want), rule, "writer:"+key+":"+typeK.Name(), cl.Pos(),
					"payload type "+types.TypeString(dataT, nil)+" matches HydrateLog", "constructor stores "+types.TypeString(dataT, nil)+" but HydrateLog rebuilds "+types.TypeString(want, nil)+" for "+typeK.Name())
				return true
			})
		}
	}
	c.NSites += nLits
	if nLits < 1 {
		c.undecided(rule, "floor:writers", token.NoPos, "no ledger.Log constructor literal found")
	}
	// decodability: interface-typed fields need a custom decoder assigning them
	for _, k := range t.consts {
		pt := t.hydrate[k.Name()]
		if pt == nil {
			continue
		}
		named := namedOf(pt)
		st, _ := pt.Underlying().(*types.Struct)
		if named == nil || st == nil {
			continue
		}
		for i := 0; i < st.NumFields(); i++ {
			f := st.Field(i)
			if _, isIface := f.Type().Underlying().(*types.Interface); !isIface {
				continue
			}
			key := "decoder:" + named.Obj().Name() + "." + f.Name()
			um := c.Fn(pkgLedger, named.Obj().Name()+".UnmarshalJSON")
			if um == nil || len(um.Blocks) == 0 {
				c.bad(rule, key, f.Pos(), "field of interface type has no UnmarshalJSON on "+named.Obj().Name()+": encoding/json decodes it as float64/string/map, not as the value that was written (a transaction id *big.Int comes back as float64)")
				continue
			}
			// the decoder must assign the field from a value decoded according to the target type:
			// we require a store to the field (directly or via a whole-struct store of a literal that sets it)
			assigned := false
			for _, fn := range withLiterals(um) {
				for _, b := range fn.Blocks {
					for _, ins := range b.Instrs {
						if _, _, ok := storeToField(ins, f); ok {
							assigned = true
						}
					}
				}
			}
			c.check(assigned, rule, key, um.Pos(), "UnmarshalJSON assigns the field", "UnmarshalJSON of "+named.Obj().Name()+" never assigns "+f.Name())
		}
		// a custom decoder must hand the other fields over untouched: every non-interface field is stored
		// from the same-named field of the decoded auxiliary value, not from the result of a call
		if um := c.Fn(pkgLedger, named.Obj().Name()+".UnmarshalJSON"); um != nil && len(um.Blocks) > 0 {
			for i := 0; i < st.NumFields(); i++ {
				f := st.Field(i)
				if _, isIface := f.Type().Underlying().(*types.Interface); isIface {
					continue
				}
				for _, b := range um.Blocks {
					for _, ins := range b.Instrs {
						v, base, ok := storeToField(ins, f)
						if !ok || !isNamed(base.Type(), pkgLedger, named.Obj().Name()) {
							continue
						}
						src, _ := anyFieldRead(v)
						key := "decoder:" + named.Obj().Name() + "." + f.Name() + ":copied-as-decoded"
						c.check(src != nil && src.Name() == f.Name(), rule, key, ins.Pos(), "stored from the same-named field of the decoded value",
							"UnmarshalJSON of "+named.Obj().Name()+" does not store "+f.Name()+" exactly as decoded (it is computed or comes from another field): the entry read back differs from the entry written (e.g. null vs {} metadata) and its recomputed hash no longer matches")
					}
				}
			}
		}
	}
}

func ruleR13d(c *Ctx) {
	const rule = "R13d"
	timeField := c.MustField(rule, pkgLedger, "Time", "Time")
	if timeField == nil {
		return
	}
	dp := c.Pkg(pkgLedger).Types.Scope().Lookup("DatePrecision")
	dpc, _ := dp.(*types.Const)
	if dpc == nil {
		c.undecided(rule, "anchor:DatePrecision", token.NoPos, "constant DatePrecision not found")
		return
	}
	want, _ := constant.Int64Val(dpc.Val())
	n := 0
	for _, fn := range c.FuncsIn(pkgLedger) {
		for _, b := range fn.Blocks {
			for _, ins := range b.Instrs {
				val, _, ok := storeToField(ins, timeField)
				if !ok {
					continue
				}
				// walk back through time.Time methods that keep the instant
				src, rounded := clockSource(c, val, want, 0)
				if src == "" {
					continue
				}
				n += strings.Count(src, "+") + 1
				c.seeFn(fn)
				c.check(rounded, rule, fnName(fn)+":"+src, ins.Pos(), "value from "+src+" is rounded to DatePrecision before it becomes a ledger.Time",
					"a ledger.Time is built from "+src+" without Round(DatePrecision): sub-microsecond digits are hashed in memory but lost in the store, so the recomputed hash differs")
			}
		}
	}
	c.NSites += n
	if n < 2 {
		c.undecided(rule, "floor:clock-sources", token.NoPos, fmt.Sprintf("expected at least the two constructors (Now, ParseTime) to build ledger.Time from time.Now/time.Parse, found %d", n))
	}
}

func joinSources(a, b string) string {
	if a == "" {
		return b
	}
	for _, x := range strings.Split(a, "+") {
		if x == b {
			return a
		}
	}
	parts := append(strings.Split(a, "+"), strings.Split(b, "+")...)
	sort.Strings(parts)
	return strings.Join(dedupStrings(parts), "+")
}

// clockSource follows a time.Time value back to time.Now / time.Parse; reports whether a
// Round/Truncate with the expected precision lies on the way.
func clockSource(c *Ctx, v ssa.Value, precision int64, depth int) (src string, rounded bool) {
	if depth > 10 {
		return "", false
	}
	switch x := v.(type) {
	case *ssa.Extract:
		if call, ok := x.Tuple.(*ssa.Call); ok {
			name := calleeFullName(call)
			if name == "time.Parse" {
				return name, false
			}
		}
	case *ssa.Call:
		name := calleeFullName(x)
		switch name {
		case "time.Now":
			return name, false
		case "(time.Time).Round", "(time.Time).Truncate":
			s, _ := clockSource(c, x.Call.Args[0], precision, depth+1)
			if s == "" {
				return "", false
			}
			d, ok := constInt(x.Call.Args[1])
			return s, ok && d == precision
		case "(time.Time).UTC", "(time.Time).In", "(time.Time).Local":
			return clockSource(c, x.Call.Args[0], precision, depth+1)
		}
		if strings.HasPrefix(name, "(time.Time).") {
			return "", false
		}
		// a helper of the repository that hands back a time (`roundTime(t)`): what it returns
		if f := staticCallee(x); f != nil && inRepo(fnPkgPath(origin(f))) && len(f.Blocks) > 0 {
			src, rounded = "", true
			for _, b := range f.Blocks {
				if ret, ok := b.Instrs[len(b.Instrs)-1].(*ssa.Return); ok && len(ret.Results) > 0 {
					if s, r := clockSource(c, ret.Results[0], precision, depth+1); s != "" {
						src = joinSources(src, s)
						rounded = rounded && r
					}
				}
			}
			if src == "" {
				return "", false
			}
			return src, rounded
		}
	case *ssa.Parameter:
		// a parameter of a helper: what its callers pass
		fn := x.Parent()
		idx := paramIndex(x)
		src, rounded = "", true
		for _, site := range c.CallersOf(fn) {
			if site.Parent() == nil || idx < 0 || idx >= len(site.Common().Args) {
				continue
			}
			if strings.HasSuffix(c.Fset.Position(site.Pos()).Filename, "_test.go") {
				continue
			}
			if s, r := clockSource(c, site.Common().Args[idx], precision, depth+1); s != "" {
				src = joinSources(src, s)
				rounded = rounded && r
			}
		}
		if src == "" {
			return "", false
		}
		return src, rounded
	case *ssa.Phi:
		for _, e := range x.Edges {
			if s, r := clockSource(c, e, precision, depth+1); s != "" {
				return s, r
			}
		}
	case *ssa.UnOp:
		if x.Op == token.MUL {
			if s := singleStore(x.X); s != nil {
				return clockSource(c, s, precision, depth+1)
			}
		}
	}
	return "", false
}

// ruleR05f: hash inputs (shared by C05 and C13).
func ruleR05f(c *Ctx, rule string) {
	chain := c.MustFn(rule, pkgLedger, "Log.ChainLog")
	compute := c.MustFn(rule, pkgLedger, "ChainedLog.ComputeHash")
	if chain == nil || compute == nil {
		return
	}
	idField := c.MustField(rule, pkgLedger, "ChainedLog", "ID")
	hashField := c.MustField(rule, pkgLedger, "ChainedLog", "Hash")
	if idField == nil || hashField == nil {
		return
	}
	// ChainLog: ComputeHash(ret, previous) with previous = parameter 1; id from previous.ID
	prev := chain.Params[1]
	okCall, okID := false, false
	var callPos token.Pos
	for _, b := range chain.Blocks {
		for _, ins := range b.Instrs {
			if call, ok := ins.(*ssa.Call); ok {
				if callsFn(call, compute) {
					callPos = call.Pos()
					if len(call.Call.Args) == 2 && call.Call.Args[1] == prev {
						okCall = true
					}
				}
				// (*big.Int).Add(x, previous.ID, 1)
				if calleeFullName(call) == "(*math/big.Int).Add" && len(call.Call.Args) == 3 {
					a, bb := call.Call.Args[1], call.Call.Args[2]
					fromPrev := func(v ssa.Value) bool {
						base, ok := fieldRead(v, idField)
						return ok && base == prev
					}
					isOne := func(v ssa.Value) bool {
						if cc, ok := v.(*ssa.Call); ok && calleeFullName(cc) == "math/big.NewInt" {
							n, ok := constInt(cc.Call.Args[0])
							return ok && n == 1
						}
						return false
					}
					if (fromPrev(a) && isOne(bb)) || (fromPrev(bb) && isOne(a)) {
						okID = true
					}
				}
			}
		}
	}
	c.check(okCall, rule, "ChainLog:hash-links-previous", callPos, "ComputeHash is given the previous log", "ChainLog does not pass its `previous` parameter to ComputeHash: the chain is not linked")
	c.check(okID, rule, "ChainLog:id=previous.id+1", chain.Pos(), "id derives from previous.ID + 1", "ChainLog does not compute the id as previous.ID + 1")
	// ComputeHash: Encode(previous.Hash) on previous != nil, Encode(l), Hash = digest.Sum
	var encPrev, encSelf, stored bool
	recv, prevP := compute.Params[0], compute.Params[1]
	// values written to the digest: arguments of Encoder.Encode, directly or through a local closure / helper of
	// the package that passes its parameter to Encode (`mustEncode(v)`)
	var encoded []ssa.Value
	for _, b := range compute.Blocks {
		for _, ins := range b.Instrs {
			call, ok := ins.(*ssa.Call)
			if !ok {
				continue
			}
			if calleeFullName(call) == "(*encoding/json.Encoder).Encode" {
				encoded = append(encoded, strip(call.Call.Args[1]))
				continue
			}
			var g *ssa.Function
			if lit := closureOf(call.Call.Value, 0); lit != nil {
				g = lit
			} else if sc := staticCallee(call); sc != nil && fnPkgPath(sc) == pkgLedger {
				g = sc
			}
			if g == nil || len(g.Blocks) == 0 {
				continue
			}
			allCalls(g, func(ci ssa.CallInstruction) {
				if calleeFullName(ci) != "(*encoding/json.Encoder).Encode" {
					return
				}
				if p, ok := stripLoadOfParamCell(strip(ci.Common().Args[1])).(*ssa.Parameter); ok {
					if i := paramIndex(p); i >= 0 && i < len(call.Call.Args) {
						encoded = append(encoded, strip(call.Call.Args[i]))
					}
				}
			})
		}
	}
	for _, arg := range encoded {
		if base, ok := fieldRead(arg, hashField); ok && base == prevP {
			encPrev = true
		}
		if arg == recv {
			encSelf = true
		}
	}
	for _, b := range compute.Blocks {
		for _, ins := range b.Instrs {
			if val, base, ok := storeToField(ins, hashField); ok && base == recv {
				if call, ok := val.(*ssa.Call); ok && call.Call.IsInvoke() && call.Call.Method.Name() == "Sum" {
					stored = true
				}
			}
		}
	}
	c.check(encPrev, rule, "ComputeHash:feeds-previous-hash", compute.Pos(), "previous.Hash is written to the digest", "ComputeHash does not feed previous.Hash into the digest")
	c.check(encSelf, rule, "ComputeHash:feeds-log", compute.Pos(), "the log itself is written to the digest", "ComputeHash does not feed the log content into the digest")
	c.check(stored, rule, "ComputeHash:stores-digest", compute.Pos(), "Hash = digest.Sum", "ComputeHash does not store digest.Sum into Hash")
	// which fields are covered: JSON tags of Log (+ id, hash of ChainedLog)
	if ln := c.Named(pkgLedger, "Log"); ln != nil {
		if st, ok := ln.Underlying().(*types.Struct); ok {
			var cov []string
			for i := 0; i < st.NumFields(); i++ {
				name := jsonTagName(st, i)
				key := "hash-covers:" + st.Field(i).Name()
				c.check(name != "-", rule, key, st.Field(i).Pos(), "field is part of the hashed JSON as "+name, "field "+st.Field(i).Name()+" is excluded from JSON (`json:\"-\"`) and therefore from the hash")
				cov = append(cov, name)
			}
			c.Info["hashed_log_fields"] = cov
		}
	}
}

// keyedTable: a package-level array/slice/map literal whose elements are keyed by named constants
// (`var names = [...]string{SetMetadataLogType: "SET_METADATA", …}`).
type keyedTable struct {
	obj     *types.Var
	entries map[string]ast.Expr // constant name -> element expression
}

// keyedTablesUsed: the keyed tables of the package that the given body refers to.
func keyedTablesUsed(c *Ctx, p *packages.Package, body *ast.BlockStmt) []keyedTable {
	var out []keyedTable
	seen := map[*types.Var]bool{}
	ast.Inspect(body, func(n ast.Node) bool {
		id, ok := n.(*ast.Ident)
		if !ok {
			return true
		}
		v, ok := p.TypesInfo.Uses[id].(*types.Var)
		if !ok || v.Pkg() == nil || v.Parent() != v.Pkg().Scope() || seen[v] {
			return true
		}
		seen[v] = true
		// its declaration
		for _, f := range p.Syntax {
			for _, d := range f.Decls {
				gd, ok := d.(*ast.GenDecl)
				if !ok || gd.Tok != token.VAR {
					continue
				}
				for _, sp := range gd.Specs {
					vs, ok := sp.(*ast.ValueSpec)
					if !ok {
						continue
					}
					for i, nm := range vs.Names {
						if p.TypesInfo.Defs[nm] != v || i >= len(vs.Values) {
							continue
						}
						cl, ok := vs.Values[i].(*ast.CompositeLit)
						if !ok {
							continue
						}
						tab := keyedTable{obj: v, entries: map[string]ast.Expr{}}
						for _, el := range cl.Elts {
							kv, ok := el.(*ast.KeyValueExpr)
							if !ok {
								continue
							}
							if k := constObj(p, kv.Key); k != nil {
								tab.entries[k.Name()] = kv.Value
							}
						}
						if len(tab.entries) > 0 {
							out = append(out, tab)
						}
					}
				}
			}
		}
		return true
	})
	return out
}
