package main

// R14h — both API versions read the preview flag the same way.
//
// `preview` (v1) and `dryRun` (v2) are two spellings of one switch; each version has its own getCommandParameters
// that turns the query parameter into command.Parameters.DryRun. The two readers are sibling implementations: the
// set of values they read as "preview" must be the same (a request that previews under one version and executes
// for real under the other has an effect the client asked not to have), and both accept the value the OpenAPI
// document declares for the parameter (`type: boolean`: `true`). The accepted set is extracted from the string
// comparisons of the reader (and of the helpers it calls) with constants: a comparison of the raw value is exact, a
// comparison of strings.ToUpper/ToLower of it (or strings.EqualFold) is case-insensitive. Which further words
// (`yes`, `1`) are accepted is API vocabulary and not frozen here.

import (
	"go/token"
	"go/types"
	"sort"
	"strings"

	"golang.org/x/tools/go/ssa"
)

// spellEnv binds the parameters of a helper to the values (and their own bindings) its caller passed.
type spellEnv map[*ssa.Parameter]spellBinding

type spellBinding struct {
	v   ssa.Value
	env spellEnv
}

type spelling struct {
	fold bool
	text string
}

func (s spelling) String() string {
	if s.fold {
		return s.text + " (any case)"
	}
	return s.text
}

func ruleR14h(c *Ctx, rule string) {
	dryRun := c.Field(pkgCommand, "Parameters", "DryRun")
	if dryRun == nil {
		c.undecided(rule, "anchor:Parameters.DryRun", token.NoPos, "command.Parameters.DryRun not found")
		return
	}
	type reader struct {
		fn   *ssa.Function
		set  map[spelling]bool
		keys []string
		pos  token.Pos
	}
	var readers []reader
	pkgs := map[string]bool{}
	for _, fn := range c.RepoFuncs() {
		if pp := fnPkgPath(origin(fn)); strings.HasPrefix(pp, modPath+"/internal/api") {
			pkgs[pp] = true
		}
	}
	var pkgList []string
	for pp := range pkgs {
		pkgList = append(pkgList, pp)
	}
	sort.Strings(pkgList)
	for _, pkg := range pkgList {
		for _, fn := range c.FuncsIn(pkg) {
			if fn.Synthetic != "" || len(fn.Blocks) == 0 {
				continue
			}
			// stores a non-constant value into Parameters.DryRun
			var pos token.Pos
			for _, b := range fn.Blocks {
				for _, ins := range b.Instrs {
					if v, _, ok := storeToField(ins, dryRun); ok {
						if _, isConst := v.(*ssa.Const); !isConst {
							pos = ins.Pos()
						}
					}
				}
			}
			if !pos.IsValid() {
				continue
			}
			set, keys := acceptedSpellings(fn)
			readers = append(readers, reader{fn, set, keys, pos})
		}
	}
	sort.Slice(readers, func(i, j int) bool { return fnName(readers[i].fn) < fnName(readers[j].fn) })
	if len(readers) == 0 {
		c.undecided(rule, "floor:flag-readers", token.NoPos, "no function of internal/api fills command.Parameters.DryRun from a request")
		return
	}
	// each API version has a reader of its own or calls a shared one
	for _, pkg := range []string{pkgV1, pkgV2} {
		has := false
		for _, r := range readers {
			if fnPkgPath(origin(r.fn)) == pkg {
				has = true
			}
		}
		for _, fn := range c.FuncsIn(pkg) {
			if has {
				break
			}
			allCalls(fn, func(ci ssa.CallInstruction) {
				if g := staticCallee(ci); g != nil {
					for _, r := range readers {
						if origin(g) == origin(r.fn) {
							has = true
						}
					}
				}
			})
		}
		if !has {
			c.undecided(rule, "floor:flag-reader:"+strings.TrimPrefix(pkg, modPath+"/"), token.NoPos, "no function of the package fills command.Parameters.DryRun or calls a function of internal/api that does")
		}
	}
	show := func(set map[spelling]bool) string {
		var xs []string
		for s := range set {
			xs = append(xs, s.String())
		}
		sort.Strings(xs)
		return "{" + strings.Join(xs, ", ") + "}"
	}
	for _, r := range readers {
		c.seeFn(r.fn)
		key := fnName(r.fn) + ":accepts-the-documented-boolean"
		switch {
		case len(r.set) == 0:
			c.undecided(rule, key, r.pos, "no comparison of the query parameter with a constant found: the way the flag is read moved out of the shape this rule decides")
		case r.set[spelling{true, "TRUE"}] || r.set[spelling{false, "true"}]:
			c.ok(rule, key, r.pos, "query parameter "+strings.Join(r.keys, "/")+" is read as preview for "+show(r.set))
		default:
			c.bad(rule, key, r.pos, "the reader of the preview flag accepts "+show(r.set)+" but not `true`, the value the OpenAPI document declares for the boolean parameter: a request submitted as a preview is executed for real")
		}
	}
	first := readers[0]
	if len(readers) == 1 {
		c.ok(rule, "one-reader:same-accepted-values", first.pos, "one function reads the flag for every API version")
	}
	for _, r := range readers[1:] {
		key := fnName(first.fn) + "~" + fnName(r.fn) + ":same-accepted-values"
		if len(first.set) == 0 || len(r.set) == 0 {
			continue
		}
		same := len(first.set) == len(r.set)
		for s := range first.set {
			if !r.set[s] {
				same = false
			}
		}
		if same {
			c.ok(rule, key, r.pos, "both versions read "+show(r.set)+" as preview")
		} else {
			c.bad(rule, key, r.pos, "the two API versions disagree on what is a preview: "+fnName(first.fn)+" accepts "+show(first.set)+", "+fnName(r.fn)+" accepts "+show(r.set)+" — a value previewed by one version is executed for real by the other")
		}
	}
}

// acceptedSpellings: the constants the value of a url.Values.Get (or http.Request.FormValue) call is compared equal
// to in fn and in the repository helpers it calls, and the constant keys of those Get calls.
func acceptedSpellings(fn *ssa.Function) (map[spelling]bool, []string) {
	set := map[spelling]bool{}
	keySet := map[string]bool{}
	seen := map[*ssa.Function]bool{}
	// classify a string value: (from the query, folded)
	var classify func(v ssa.Value, env spellEnv, depth int) (fromQuery, fold bool)
	classify = func(v ssa.Value, env spellEnv, depth int) (bool, bool) {
		if depth > 8 {
			return false, false
		}
		switch x := v.(type) {
		case *ssa.Call:
			name := calleeFullName(x)
			switch name {
			case "(net/url.Values).Get", "(*net/http.Request).FormValue":
				k := x.Call.Args[len(x.Call.Args)-1]
				kenv := env
				for i := 0; i < 4; i++ {
					p, ok := k.(*ssa.Parameter)
					if !ok {
						break
					}
					b, ok := kenv[p]
					if !ok {
						break
					}
					k, kenv = b.v, b.env
				}
				if s, ok := constString(k); ok {
					keySet[s] = true
				}
				return true, false
			case "strings.ToUpper", "strings.ToLower", "strings.TrimSpace":
				q, f := classify(x.Call.Args[0], env, depth+1)
				return q, f || name != "strings.TrimSpace"
			}
		case *ssa.Parameter:
			if b, ok := env[x]; ok {
				return classify(b.v, b.env, depth+1)
			}
		case *ssa.Phi:
			for _, e := range x.Edges {
				if q, f := classify(e, env, depth+1); q {
					return q, f
				}
			}
		case *ssa.UnOp:
			if x.Op == token.MUL {
				if al, ok := x.X.(*ssa.Alloc); ok {
					if sv := singleStore(al); sv != nil {
						return classify(sv, env, depth+1)
					}
				}
			}
		}
		return false, false
	}
	add := func(fold bool, text string) {
		hasLetter := strings.ToUpper(text) != strings.ToLower(text)
		if fold && hasLetter {
			set[spelling{true, strings.ToUpper(text)}] = true
		} else {
			set[spelling{false, text}] = true
		}
	}
	var scan func(g *ssa.Function, env spellEnv, depth int)
	scan = func(g *ssa.Function, env spellEnv, depth int) {
		if seen[g] {
			return
		}
		seen[g] = true
		for _, b := range g.Blocks {
			for _, ins := range b.Instrs {
				switch x := ins.(type) {
				case *ssa.BinOp:
					if x.Op != token.EQL && x.Op != token.NEQ {
						continue
					}
					if b, ok := x.X.Type().Underlying().(*types.Basic); !ok || b.Info()&types.IsString == 0 {
						continue
					}
					a, k := x.X, x.Y
					if _, ok := a.(*ssa.Const); ok {
						a, k = k, a
					}
					text, ok := constString(k)
					if !ok {
						continue
					}
					if q, fold := classify(a, env, 0); q {
						if fold {
							// ToUpper(x) == "true" can never hold: only constants in the case the fold produces count
							up := false
							for _, r := range roots(a, nil) {
								if call, ok := r.(*ssa.Call); ok && calleeFullName(call) == "strings.ToUpper" {
									up = true
								}
							}
							if (up && text != strings.ToUpper(text)) || (!up && text != strings.ToLower(text)) {
								continue
							}
						}
						add(fold, text)
					}
				case *ssa.Call:
					if calleeFullName(x) == "strings.EqualFold" {
						for i := 0; i < 2; i++ {
							if text, ok := constString(x.Call.Args[i]); ok {
								if q, _ := classify(x.Call.Args[1-i], env, 0); q {
									add(true, text)
								}
							}
						}
						continue
					}
					h := staticCallee(x)
					if h == nil || depth >= 3 || len(h.Blocks) == 0 || !inRepo(fnPkgPath(origin(h))) {
						continue
					}
					env2 := spellEnv{}
					for i, p := range h.Params {
						if i < len(x.Call.Args) {
							env2[p] = spellBinding{x.Call.Args[i], env}
						}
					}
					scan(h, env2, depth+1)
				}
			}
		}
	}
	scan(fn, spellEnv{}, 0)
	var keys []string
	for k := range keySet {
		keys = append(keys, k)
	}
	sort.Strings(keys)
	return set, keys
}
