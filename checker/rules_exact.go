package main

// Exact amounts (R13g / R09g / R08f): amounts are arbitrary-precision integers end to end. No function of
// the packages that carry ledger content (core types and their JSON codecs, the Numscript machine, the
// engine, the store, the API and the bus) computes with a floating-point value: no float32/float64
// value, no math/big.Float, no strconv.ParseFloat / json.Number.Float64. A float in that path rounds
// amounts beyond 2^53 (or 2^64 for a default big.Float): the content read back differs from the content
// hashed, or the committed posting differs from the requested one.
//
// A float that is merely held (a case of a type switch over a decoded `any`) is not reported: only floats that
// are computed with, or converted from or to another numeric type. A plain float32/float64 value is reported only in a function that also handles an amount-carrying type
// (math/big.Int, machine.MonetaryInt, json.Number): a float used to pad an error message is not content.
// big.Float and the float parsers are always reported.
//
// Expected instance count on the unchanged tree: zero (frozen exception: migrations_v1.go, the one-shot
// import of the v1 schema). The rule reports the number of functions and instructions it scanned, and has
// a floor on it.

import (
	"fmt"
	"go/token"
	"go/types"
	"strings"

	"golang.org/x/tools/go/ssa"
)

var exactScope = []string{
	modPath + "/internal",
	modPath + "/internal/machine",
	modPath + "/internal/engine",
	modPath + "/internal/storage",
	modPath + "/internal/api",
	modPath + "/internal/bus",
	modPath + "/pkg/events",
	"github.com/formancehq/stack/libs/go-libs/metadata",
}

func inExactScope(pk string) bool {
	if strings.HasPrefix(pk, modPath+"/internal/machine/script/parser") {
		return false // generated ANTLR parser
	}
	if pk == modPath+"/internal" {
		return true
	}
	for _, p := range exactScope[1:] {
		if pk == p || strings.HasPrefix(pk, p+"/") {
			return true
		}
	}
	return false
}

func isFloatType(t types.Type, depth int) bool {
	if t == nil || depth > 4 {
		return false
	}
	switch x := t.(type) {
	case *types.Basic:
		return x.Info()&types.IsFloat != 0 || x.Info()&types.IsComplex != 0
	case *types.Pointer:
		return isFloatType(x.Elem(), depth+1)
	case *types.Named:
		if o := x.Obj(); o != nil && o.Pkg() != nil && o.Pkg().Path() == "math/big" && o.Name() == "Float" {
			return true
		}
		if _, ok := x.Underlying().(*types.Basic); ok {
			return isFloatType(x.Underlying(), depth+1)
		}
	case *types.Tuple:
		for i := 0; i < x.Len(); i++ {
			if isFloatType(x.At(i).Type(), depth+1) {
				return true
			}
		}
	case *types.Slice:
		return isFloatType(x.Elem(), depth+1)
	}
	return false
}

func ruleExactAmounts(c *Ctx, rule string) {
	nFn, nIns, nIncidental := 0, 0, 0
	for _, fn := range c.RepoFuncs() {
		pk := fnPkgPath(fn)
		if !inExactScope(pk) || len(fn.Blocks) == 0 || fn.Synthetic != "" {
			continue
		}
		file := c.Fset.Position(fn.Pos()).Filename
		if strings.HasSuffix(file, "migrations_v1.go") || strings.HasSuffix(file, "_test.go") {
			continue
		}
		nFn++
		var first ssa.Instruction
		what := ""
		for _, b := range fn.Blocks {
			for _, ins := range b.Instrs {
				nIns++
				if first != nil {
					continue
				}
				if v, ok := ins.(ssa.Value); ok && isFloatType(v.Type(), 0) {
					if isBigFloat(v.Type()) {
						first, what = ins, "a value of type "+v.Type().String()
						continue
					}
					// a float that is merely held (type switch on a decoded `any`) loses nothing; a float that is
					// computed with or converted from/to an integer does
					switch x := ins.(type) {
					case *ssa.Convert:
						first, what = ins, "a value of type float converted from "+x.X.Type().String()
					case *ssa.BinOp:
						first, what = ins, "a value of type float computed with "+x.Op.String()
					}
					continue
				}
				if cv, ok := ins.(*ssa.Convert); ok && isFloatType(cv.X.Type(), 0) {
					first, what = ins, "a value of type float converted to "+cv.Type().String()
					continue
				}
				if call, ok := ins.(ssa.CallInstruction); ok {
					n := calleeFullName(call)
					switch n {
					case "strconv.ParseFloat", "(encoding/json.Number).Float64", "math/big.NewFloat", "math/big.ParseFloat":
						first, what = ins, "a call of "+n
					}
				}
			}
		}
		if first != nil && strings.HasPrefix(what, "a value of type float") && !touchesAmounts(fn) {
			// a float that never meets an amount (padding of an error message, a ratio for a log line)
			nIncidental++
			first = nil
		}
		if first != nil {
			pos := first.Pos()
			if !pos.IsValid() {
				pos = fn.Pos()
			}
			c.bad(rule, fnName(fn)+":no-floating-point", pos, fmt.Sprintf("%s computes with %s: floating point rounds integers beyond its mantissa, so an amount, id or timestamp carried by a posting, a log payload or an event is silently altered for large values", fnName(fn), what))
		}
	}
	c.NSites += nIns
	if nFn < 300 {
		c.undecided(rule, "floor:functions-scanned", token.NoPos, fmt.Sprintf("only %d functions of the content-carrying packages were scanned", nFn))
		return
	}
	c.ok(rule, "no-floating-point-in-content-path", token.NoPos, fmt.Sprintf("%d functions / %d instructions of the content-carrying packages scanned: no floating-point value meets an amount, no big.Float, no float parser (%d functions use a float that never meets an integer amount)", nFn, nIns, nIncidental))
}

// touchesAmounts: does the function handle a value of an amount-carrying type?
func touchesAmounts(fn *ssa.Function) bool {
	isAmount := func(t types.Type) bool {
		for i := 0; i < 3; i++ {
			if p, ok := t.(*types.Pointer); ok {
				t = p.Elem()
			}
		}
		n, ok := t.(*types.Named)
		if !ok || n.Obj() == nil || n.Obj().Pkg() == nil {
			return false
		}
		pk, name := n.Obj().Pkg().Path(), n.Obj().Name()
		return (pk == "math/big" && (name == "Int" || name == "Rat")) || (pk == pkgMachine && name == "MonetaryInt") || (pk == "encoding/json" && name == "Number")
	}
	for _, p := range fn.Params {
		if isAmount(p.Type()) {
			return true
		}
	}
	for _, b := range fn.Blocks {
		for _, ins := range b.Instrs {
			if v, ok := ins.(ssa.Value); ok && isAmount(v.Type()) {
				return true
			}
		}
	}
	return false
}

func isBigFloat(t types.Type) bool {
	for i := 0; i < 3; i++ {
		if p, ok := t.(*types.Pointer); ok {
			t = p.Elem()
		}
	}
	n, ok := t.(*types.Named)
	return ok && n.Obj().Pkg() != nil && n.Obj().Pkg().Path() == "math/big" && n.Obj().Name() == "Float"
}
