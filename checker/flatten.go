package main

// flatten.go — a function together with the helpers of its package it calls, seen as one body: every instruction
// comes with the binding of the enclosing helper's parameters to values of the caller (transitively, up to the root
// function). Rules that read "which value ends up in which field / argument" use it so that extracting a helper, a
// constructor or a table of event types does not change what they see.

import (
	"golang.org/x/tools/go/ssa"
)

type frameEnv struct {
	fn     *ssa.Function
	args   map[*ssa.Parameter]ssa.Value // parameter of fn -> value in the caller's frame
	parent *frameEnv
}

type flatIns struct {
	ins ssa.Instruction
	env *frameEnv
}

// flattenCalls lists the instructions of root and of the functions of package pkg it calls statically (depth-bounded).
func flattenCalls(root *ssa.Function, pkg string, maxDepth int) []flatIns {
	var out []flatIns
	var visit func(fn *ssa.Function, env *frameEnv, depth int, stack map[*ssa.Function]bool)
	visit = func(fn *ssa.Function, env *frameEnv, depth int, stack map[*ssa.Function]bool) {
		if stack[fn] {
			return
		}
		stack[fn] = true
		defer delete(stack, fn)
		for _, b := range fn.Blocks {
			for _, ins := range b.Instrs {
				out = append(out, flatIns{ins, env})
				ci, ok := ins.(ssa.CallInstruction)
				if !ok || depth >= maxDepth {
					continue
				}
				g := staticCallee(ci)
				if g == nil || len(g.Blocks) == 0 || fnPkgPath(origin(g)) != pkg {
					continue
				}
				ne := &frameEnv{fn: g, args: map[*ssa.Parameter]ssa.Value{}, parent: env}
				args := ci.Common().Args
				for i, p := range g.Params {
					if i < len(args) {
						ne.args[p] = args[i]
					}
				}
				// free variables of a literal called directly: not bound (rare here)
				visit(g, ne, depth+1, stack)
			}
		}
	}
	visit(root, &frameEnv{fn: root}, 0, map[*ssa.Function]bool{})
	return out
}

type envVal struct {
	v   ssa.Value
	env *frameEnv
}

// rootsEnv: the origins of v (as roots()), continued through the parameters of helper frames into the caller's frame
// and through the results of helper calls into the helper's returns.
func rootsEnv(v ssa.Value, env *frameEnv, pkg string) []envVal {
	var out []envVal
	seen := map[envVal]bool{}
	var walk func(v ssa.Value, env *frameEnv, depth int)
	walk = func(v ssa.Value, env *frameEnv, depth int) {
		if v == nil || depth > 12 {
			return
		}
		for _, r := range roots(v, nil) {
			k := envVal{r, env}
			if seen[k] {
				continue
			}
			seen[k] = true
			switch x := r.(type) {
			case *ssa.Parameter:
				if env != nil && env.args != nil {
					if a, ok := env.args[x]; ok {
						walk(a, env.parent, depth+1)
						continue
					}
				}
			case *ssa.Call:
				if g := staticCallee(x); g != nil && len(g.Blocks) > 0 && fnPkgPath(origin(g)) == pkg {
					ne := &frameEnv{fn: g, args: map[*ssa.Parameter]ssa.Value{}, parent: env}
					for i, p := range g.Params {
						if i < len(x.Call.Args) {
							ne.args[p] = x.Call.Args[i]
						}
					}
					for _, b := range g.Blocks {
						if ret, ok := b.Instrs[len(b.Instrs)-1].(*ssa.Return); ok && len(ret.Results) > 0 {
							walk(ret.Results[0], ne, depth+1)
						}
					}
					out = append(out, k)
					continue
				}
			case *ssa.Extract:
				// one result of a helper of the package (`key, err := cacheKey(script)`)
				if call, ok := x.Tuple.(*ssa.Call); ok {
					if g := staticCallee(call); g != nil && len(g.Blocks) > 0 && fnPkgPath(origin(g)) == pkg {
						ne := &frameEnv{fn: g, args: map[*ssa.Parameter]ssa.Value{}, parent: env}
						for i, p := range g.Params {
							if i < len(call.Call.Args) {
								ne.args[p] = call.Call.Args[i]
							}
						}
						for _, b := range g.Blocks {
							if ret, ok := b.Instrs[len(b.Instrs)-1].(*ssa.Return); ok && x.Index < len(ret.Results) {
								walk(ret.Results[x.Index], ne, depth+1)
							}
						}
						out = append(out, k)
						continue
					}
				}
			case *ssa.UnOp:
				// a load of a local struct literal: the literal itself
				if a, ok := x.X.(*ssa.Alloc); ok {
					out = append(out, envVal{a, env})
				}
			}
			out = append(out, k)
		}
	}
	walk(v, env, 0)
	return out
}
