package main

func init() {
	const ro = "internal/api/read_only.go"
	const rt = "internal/api/router.go"
	const v2r = "internal/api/v2/routes.go"
	const v1r = "internal/api/v1/routes.go"
	addMutants(
		Mutant{Property: "C19", Name: "serve-flags-not-bound", File: "cmd/serve.go",
			Old: "\tif err := viper.BindPFlags(cmd.Flags()); err != nil {\n\t\tpanic(err)\n\t}\n", New: "", Expect: "R19e:"},
		Mutant{Property: "C19", Name: "serve-binds-the-wrong-flag-set", File: "cmd/serve.go",
			Old: "\tif err := viper.BindPFlags(cmd.Flags()); err != nil {", New: "\tif err := viper.BindPFlags(cmd.PersistentFlags()); err != nil {", Expect: "R19e:"},
		Mutant{Property: "C19", Name: "read-only-flag-bound-individually", File: "cmd/serve.go",
			Old: "\tif err := viper.BindPFlags(cmd.Flags()); err != nil {", New: "\tif err := viper.BindPFlag(readOnlyFlag, cmd.Flags().Lookup(readOnlyFlag)); err != nil {", Expect: "none", Benign: true},
		Mutant{Property: "C19", Name: "gate-lets-post-through-with-header", File: ro,
			Old: "if r.Method != http.MethodGet && r.Method != http.MethodOptions && r.Method != http.MethodHead {", New: "if r.Method != http.MethodGet && r.Method != http.MethodOptions && r.Method != http.MethodHead && r.Header.Get(\"X-Maintenance\") == \"\" {", Expect: "R19a:ReadOnly:next-handler-only-for-safe-methods"},
		Mutant{Property: "C19", Name: "gate-allows-delete", File: ro,
			Old: "r.Method != http.MethodHead {", New: "r.Method != http.MethodHead && r.Method != http.MethodDelete {", Expect: "R19a:ReadOnly:next-handler-only-for-safe-methods"},
		Mutant{Property: "C19", Name: "gate-installed-after-routes", File: rt,
			Old: "\tif readOnly {\n\t\tmux.Use(ReadOnly)\n\t}\n", New: "",
			Edits: []Edit{{File: rt, Old: "\n\treturn mux\n}", New: "\tif readOnly {\n\t\tmux.Use(ReadOnly)\n\t}\n\n\treturn mux\n}"}}, Expect: "R19b:NewRouter:gate-installed-before-any-route"},
		Mutant{Property: "C19", Name: "gate-only-on-v2", File: rt,
			Old: "\tif readOnly {\n\t\tmux.Use(ReadOnly)\n\t}\n", New: "",
			Edits: []Edit{{File: rt, Old: "\t\tv2Router := v2.NewRouter(backend, healthController, globalMetricsRegistry, a)\n", New: "\t\tv2Router := v2.NewRouter(backend, healthController, globalMetricsRegistry, a)\n\t\tif readOnly {\n\t\t\tv2Router.Use(ReadOnly)\n\t\t}\n"}}, Expect: "R19b:"},
		Mutant{Property: "C19", Name: "revert-registered-under-get", File: v2r,
			Old: "router.Post(\"/transactions/{id}/revert\", revertTransaction)", New: "router.Get(\"/transactions/{id}/revert\", revertTransaction)", Expect: "R19c:route:"},
		Mutant{Property: "C19", Name: "bulk-registered-with-handle", File: v2r,
			Old: "router.Post(\"/_bulk\", bulkHandler)", New: "router.HandleFunc(\"/_bulk\", bulkHandler)", Expect: "R19c:route:"},
		Mutant{Property: "C19", Name: "metadata-via-method-override-middleware", File: v1r,
			Old: "\t\t\trouter.Use(autoCreateMiddleware(b))", New: "\t\t\trouter.Use(autoCreateMiddleware(b))\n\t\t\trouter.Use(func(handler http.Handler) http.Handler {\n\t\t\t\treturn http.HandlerFunc(func(w http.ResponseWriter, r *http.Request) {\n\t\t\t\t\tif m := r.Header.Get(\"X-HTTP-Method-Override\"); m != \"\" {\n\t\t\t\t\t\tr.Method = m\n\t\t\t\t\t}\n\t\t\t\t\thandler.ServeHTTP(w, r)\n\t\t\t\t})\n\t\t\t})", Expect: "R19a:request-method-rewritten"},
		Mutant{Property: "C19", Name: "get-account-touches-metadata", File: "internal/api/v2/controllers_accounts.go",
			Old: "func getAccount(w http.ResponseWriter, r *http.Request) {\n\tl := backend.LedgerFromContext(r.Context())\n", New: "func getAccount(w http.ResponseWriter, r *http.Request) {\n\tl := backend.LedgerFromContext(r.Context())\n\tif r.URL.Query().Get(\"touch\") != \"\" {\n\t\t_ = l.SaveMeta(r.Context(), getCommandParameters(r), \"ACCOUNT\", chi.URLParam(r, \"address\"), nil)\n\t}\n", Expect: "R19c:route:"},
		Mutant{Property: "C19", Name: "readonly-flag-ignored", File: "internal/api/module.go",
			Old: "return NewRouter(backend, healthController, globalMetricsRegistry, a, cfg.ReadOnly)", New: "return NewRouter(backend, healthController, globalMetricsRegistry, a, false)", Expect: "R19b:NewRouter-call"},
	)
}

func init() {
	const router = "internal/api/router.go"
	ct := "\t\t\tw.Header().Set(\"Content-Type\", \"application/json\")\n"
	addMutants(
		Mutant{Property: "C19", Name: "method-override-header-rewrites-request-method", File: router, Old: ct,
			New: ct + "\t\t\tif o := r.Header.Get(\"X-HTTP-Method-Override\"); o != \"\" {\n\t\t\t\tr.Method = o\n\t\t\t}\n", Expect: "R19d:"},
		Mutant{Property: "C19", Name: "method-override-via-routing-context", File: router, Old: ct,
			New: ct + "\t\t\tif o := r.Header.Get(\"X-HTTP-Method-Override\"); o != \"\" {\n\t\t\t\tif rctx := chi.RouteContext(r.Context()); rctx != nil {\n\t\t\t\t\trctx.RouteMethod = o\n\t\t\t\t}\n\t\t\t}\n", Expect: "R19d:"},
		Mutant{Property: "C19", Name: "head-served-by-get-handlers", File: router, Old: ct,
			New: ct + "\t\t\tif r.Method == http.MethodHead {\n\t\t\t\tif rctx := chi.RouteContext(r.Context()); rctx != nil {\n\t\t\t\t\trctx.RouteMethod = \"GET\"\n\t\t\t\t}\n\t\t\t}\n", Expect: "none", Benign: true},
	)
}
