package main

func init() {
	const logs = "internal/storage/ledgerstore/logs.go"
	const acc = "internal/storage/ledgerstore/accounts.go"
	const txs = "internal/storage/ledgerstore/transactions.go"
	const bal = "internal/storage/ledgerstore/balances.go"
	addMutants(
		Mutant{Property: "C04", Name: "inmemory-balance-else-if", File: "internal/storage/inmemory.go",
			Old: "\t\t\t}\n\t\t\tif posting.Destination == address {", New: "\t\t\t} else if posting.Destination == address {", Expect: "R04f:"},
		Mutant{Property: "C04", Name: "inmemory-balance-destination-first", File: "internal/storage/inmemory.go",
			Old: "\t\t\tif posting.Source == address {\n\t\t\t\tbalance = balance.Sub(balance, posting.Amount)\n\t\t\t}\n\t\t\tif posting.Destination == address {\n\t\t\t\tbalance = balance.Add(balance, posting.Amount)\n\t\t\t}", New: "\t\t\tif posting.Destination == address {\n\t\t\t\tbalance = balance.Add(balance, posting.Amount)\n\t\t\t}\n\t\t\tif posting.Source == address {\n\t\t\t\tbalance = balance.Sub(balance, posting.Amount)\n\t\t\t}", Expect: "none", Benign: true},
		Mutant{Property: "C04", Name: "aggregated-balances-pit-on-effective-date", File: bal,
			Old: "Apply(filterPIT(q.Options.Options.PIT, \"insertion_date\"))", New: "Apply(filterPIT(q.Options.Options.PIT, \"effective_date\"))", Expect: "R04d:(*internal/storage/ledgerstore.Store).GetAggregatedBalances$2:query:latest-move#1:cut-off"},
		Mutant{Property: "C04", Name: "accounts-pit-column-unrelated-chain", File: acc,
			Old: "Apply(filterPIT(q.PIT, \"insertion_date\")).", New: "Apply(filterPIT(q.PIT, \"accounts.insertion_date\")).", Expect: "none", Benign: true},
		Mutant{Property: "C04", Name: "sql-account-volumes-cut-on-effective-date", File: migrationSQL,
			Old: "                   where (_before is null or s.insertion_date <= _before)", New: "                   where (_before is null or s.effective_date <= _before)", Expect: "R04d:sql:get_all_account_volumes:latest-move#1:cut-off"},
		Mutant{Property: "C04", Name: "sql-balance-before-becomes-supplied", File: bal,
			Old: "query.TableExpr(\"get_account_balance(?, ?, ?) as balance\", store.name, address, asset)", New: "query.TableExpr(\"get_account_balance(?, ?, ?, now()::timestamp) as balance\", store.name, address, asset)", Expect: "R04d:sql:get_account_balance:latest-move#1:cut-off"},
		Mutant{Property: "C04", Name: "aggregated-balances-latest-by-effective-date", File: bal,
			Old: "Order(\"account_address\", \"asset\", \"moves.seq desc\").", New: "Order(\"account_address\", \"asset\", \"moves.effective_date desc\", \"moves.seq desc\").", Expect: "R04d:(*internal/storage/ledgerstore.Store).GetAggregatedBalances$2:query:latest-move"},
		Mutant{Property: "C04", Name: "aggregated-balances-oldest-move", File: bal,
			Old: "Order(\"account_address\", \"asset\", \"moves.seq desc\").", New: "Order(\"account_address\", \"asset\", \"moves.seq\").", Expect: "R04d:"},
		Mutant{Property: "C04", Name: "aggregated-balances-sums-effective-volumes", File: bal,
			Old: "sum((moves.post_commit_volumes).inputs), sum((moves.post_commit_volumes).outputs)", New: "sum((moves.post_commit_effective_volumes).inputs), sum((moves.post_commit_effective_volumes).outputs)", Expect: "R04d:"},
		Mutant{Property: "C04", Name: "aggregated-balances-order-expr", File: bal,
			Old: "Order(\"account_address\", \"asset\", \"moves.seq desc\").", New: "OrderExpr(\"moves.account_address, moves.asset, moves.seq desc\").", Expect: "none", Benign: true},
		Mutant{Property: "C04", Name: "balance-filter-latest-by-effective-date", File: acc,
			Old: "\t\t\t\twhere account_address = accounts.address and ledger = ?\n\t\t\t\torder by seq desc", New: "\t\t\t\twhere account_address = accounts.address and ledger = ?\n\t\t\t\torder by effective_date desc, seq desc", Expect: "R04d:(*internal/storage/ledgerstore.Store).accountQueryContext$1:fragment"},
		Mutant{Property: "C04", Name: "sql-account-volumes-latest-by-effective-date", File: migrationSQL,
			Old: "                     and s.ledger = _ledger\n                   order by seq desc\n                   limit 1\n                   ) m on true)\nselect moves.asset, moves.post_commit_volumes", New: "                     and s.ledger = _ledger\n                   order by effective_date desc, seq desc\n                   limit 1\n                   ) m on true)\nselect moves.asset, moves.post_commit_volumes", Expect: "R04d:sql:get_all_account_volumes"},
		Mutant{Property: "C04", Name: "sql-effective-volumes-latest-by-seq", File: migrationSQL,
			Old: "                   order by effective_date desc, seq desc\n                   limit 1\n                   ) m on true)\nselect moves.asset, moves.post_commit_effective_volumes", New: "                   order by seq desc\n                   limit 1\n                   ) m on true)\nselect moves.asset, moves.post_commit_effective_volumes", Expect: "R04d:sql:get_all_account_effective_volumes"},
		Mutant{Property: "C04", Name: "sql-writer-continues-effective-total-by-seq", File: migrationSQL,
			Old: "              and effective_date <= _effective_date\n            order by effective_date desc, seq desc\n            limit 1;", New: "              and effective_date <= _effective_date\n            order by seq desc\n            limit 1;", Expect: "R04d:writer"},
		Mutant{Property: "C04", Name: "sql-balance-qualified-order", File: migrationSQL,
			Old: "  and s.ledger = _ledger\norder by seq desc\nlimit 1\n$$;", New: "  and s.ledger = _ledger\norder by s.seq desc\nlimit 1\n$$;", Expect: "none", Benign: true},
		Mutant{Property: "C04", Name: "dead-sql-aggregate-becomes-used", File: bal,
			Old: "query.TableExpr(\"get_account_balance(?, ?, ?) as balance\", store.name, address, asset)", New: "query.TableExpr(\"get_account_balance(?, ?, ?) as balance, aggregate_ledger_volumes(?) as unused\", store.name, address, asset, store.name)", Expect: "R04d:sql:aggregate_ledger_volumes"},
		Mutant{Property: "C04", Name: "logs-listing-unscoped", File: logs,
			Old: "\t\t\tTable(LogTableName).\n\t\t\tWhere(\"ledger = ?\", store.name)\n", New: "\t\t\tTable(LogTableName)\n", Expect: "R04a:(*internal/storage/ledgerstore.Store).logsQueryBuilder$1:from-logs"},
		Mutant{Property: "C04", Name: "account-query-unscoped", File: acc,
			Old: "\t\tWhere(\"accounts.ledger = ?\", store.name).\n\t\tApply(filterPIT", New: "\t\tApply(filterPIT", Expect: "R04a:"},
		Mutant{Property: "C04", Name: "get-account-scoped-by-address-only", File: acc,
			Old: "\t\t\tWhere(\"accounts.address = ?\", address).\n\t\t\tWhere(\"accounts.ledger = ?\", store.name).", New: "\t\t\tWhere(\"accounts.address = ?\", address).", Expect: "R04a:(*internal/storage/ledgerstore.Store).GetAccount$1:from-accounts"},
		Mutant{Property: "C04", Name: "ledger-bound-to-wrong-value", File: txs,
			Old: "\t\t\t\tWhere(\"transactions.id = ?\", (*bunpaginate.BigInt)(txId)).\n\t\t\t\tWhere(\"transactions.ledger = ?\", store.name).", New: "\t\t\t\tWhere(\"transactions.id = ?\", (*bunpaginate.BigInt)(txId)).\n\t\t\t\tWhere(\"transactions.ledger = ?\", store.bucket.name).", Expect: "R04a:"},
		Mutant{Property: "C04", Name: "aggregated-balances-all-ledgers", File: bal,
			Old: "\t\t\t\tWhere(\"moves.ledger = ?\", store.name).\n", New: "", Expect: "R04a:"},
		Mutant{Property: "C04", Name: "volumes-fn-gets-bucket", File: acc,
			Old: "Join(\"join get_account_aggregated_volumes(?, accounts.address, ?) volumes on true\", store.name, q.PIT)", New: "Join(\"join get_account_aggregated_volumes(?, accounts.address, ?) volumes on true\", store.bucket.name, q.PIT)", Expect: "R04a:"},
		Mutant{Property: "C04", Name: "balance-fn-unscoped", File: bal,
			Old: "query.TableExpr(\"get_account_balance(?, ?, ?) as balance\", store.name, address, asset)", New: "query.TableExpr(\"get_account_balance(?, ?, ?) as balance\", address, store.name, asset)", Expect: "R04a:"},
		Mutant{Property: "C04", Name: "sql-balance-ignores-ledger", File: migrationSQL,
			Old: "  and s.asset = _asset\n  and s.ledger = _ledger\norder by seq desc\nlimit 1\n$$;", New: "  and s.asset = _asset\norder by seq desc\nlimit 1\n$$;", Expect: "R04b:sql.get_account_balance:from-moves"},
		Mutant{Property: "C04", Name: "sql-delete-metadata-any-ledger", File: migrationSQL,
			Old: "    where address = _address\n      and ledger = _ledger;", New: "    where address = _address;", Expect: "R04b:sql.delete_account_metadata:update-accounts"},
		Mutant{Property: "C04", Name: "sql-insert-move-account-lookup-unscoped", File: migrationSQL,
			Old: "select seq from accounts where ledger = _ledger and address = _account_address into _account_seq;", New: "select seq from accounts where address = _account_address into _account_seq;", Expect: "R04b:sql.insert_move:from-accounts"},
		Mutant{Property: "C04", Name: "sql-trigger-wrong-ledger-arg", File: migrationSQL,
			Old: "perform revert_transaction(new.ledger, ", New: "perform revert_transaction(new.type::varchar, ", Expect: "R04b:sql.handle_log:calls-revert_transaction"},
		Mutant{Property: "C04", Name: "sql-aggregate-volumes-unscoped", File: migrationSQL,
			Old: "                 and m.ledger = _ledger\n", New: "", Expect: "R04b:sql.aggregate_ledger_volumes:from-moves"},
	)
}

func init() {
	const acc = "internal/storage/ledgerstore/accounts.go"
	const bal = "internal/storage/ledgerstore/balances.go"
	addMutants(
		Mutant{Property: "C04", Name: "balance-filter-subselect-scopes-the-outer-row", File: acc,
			Old: "\t\t\t\twhere asset = ? and account_address = accounts.address and ledger = ?", New: "\t\t\t\twhere asset = ? and account_address = accounts.address and accounts.ledger = ?",
			Expect: "R04c:"},
		Mutant{Property: "C04", Name: "balance-filter-subselect-unscoped", File: acc,
			Old: "\t\t\t\twhere account_address = accounts.address and ledger = ?\n", New: "\t\t\t\twhere account_address = accounts.address and ? is not null\n",
			Expect: "R04c:"},
		Mutant{Property: "C04", Name: "balance-filter-subselect-qualified-by-its-table", File: acc,
			Old: "\t\t\t\twhere asset = ? and account_address = accounts.address and ledger = ?", New: "\t\t\t\twhere moves.asset = ? and moves.account_address = accounts.address and moves.ledger = ?",
			Expect: "none", Benign: true},
		Mutant{Property: "C04", Name: "aggregated-balances-scopes-another-table", File: bal,
			Old: "\t\t\t\tWhere(\"moves.ledger = ?\", store.name).", New: "\t\t\t\tWhere(\"accounts.ledger = ?\", store.name).",
			Expect: "R04a:"},
		Mutant{Property: "C04", Name: "lateral-join-keyed-by-address", File: bal,
			Old: "am.accounts_seq = moves.accounts_seq", New: "am.date < moves.insertion_date",
			Expect: "R04"},
	)
}
