package main

// R08e — the address VisitExpr returns for push=false stands for the value only when the expression
// cannot be compound. For `a + b` / `a - b` VisitExpr returns the address of the left operand (monetary)
// or nil (number): those types are read from VisitExpr's own constant-typed returns. A call site
// VisitExpr(x, false) whose result type is compared with such a type (or not compared at all) may use the
// address for the asset only: setNeededBalances(…, addr), or PushAddress(*addr) immediately followed by
// AppendInstruction(OP_ASSET). Any other use pushes the left operand in place of the value of the whole
// expression (F18: `save [A 10] + [A 20] from @x` compiled as `save [A 10] from @x`).

import (
	"fmt"
	"go/token"
	"go/types"
	"sort"
	"strings"

	"golang.org/x/tools/go/ssa"
)

func ruleR08e(c *Ctx, rule string) {
	visitExpr := c.MustFn(rule, pkgCompiler, "parseVisitor.VisitExpr")
	pushAddr := c.MustFn(rule, pkgCompiler, "parseVisitor.PushAddress")
	appendIns := c.MustFn(rule, pkgCompiler, "parseVisitor.AppendInstruction")
	setNeeded := c.MustFn(rule, pkgCompiler, "parseVisitor.setNeededBalances")
	if visitExpr == nil || pushAddr == nil || appendIns == nil || setNeeded == nil {
		return
	}
	opAsset, okA := opConst(c, "OP_ASSET")
	if !okA {
		c.undecided(rule, "anchor:OP_ASSET", token.NoPos, "constant not found")
		return
	}
	// types for which the returned address is not the value: constant-typed returns of VisitExpr itself
	partial := map[int64]string{}
	var collect func(fn *ssa.Function, depth int)
	collect = func(fn *ssa.Function, depth int) {
		for _, b := range fn.Blocks {
			for _, ins := range b.Instrs {
				r, ok := ins.(*ssa.Return)
				if !ok || len(r.Results) != 3 {
					continue
				}
				if k, ok := r.Results[0].(*ssa.Const); ok {
					if n, ok := constInt64Of(k); ok && n != 0 {
						partial[n] = typeConstName(c, n)
					}
					continue
				}
				for _, root := range roots(r.Results[0], nil) {
					// a type kept in a cell (captured by a closure): the value stored there, compared through any load
					var cmpVals []ssa.Value
					if ld, isLoad := root.(*ssa.UnOp); isLoad && ld.Op == token.MUL {
						if cell, isCell := ld.X.(*ssa.Alloc); isCell {
							if sv := singleStore(cell); sv != nil {
								root = sv
								for _, cr := range *cell.Referrers() {
									if l2, ok := cr.(*ssa.UnOp); ok && l2.Op == token.MUL {
										cmpVals = append(cmpVals, l2)
									}
								}
							}
						}
					}
					ex, ok := root.(*ssa.Extract)
					if !ok || ex.Index != 0 {
						continue
					}
					cmpVals = append(cmpVals, ex)
					for _, er := range *ex.Referrers() {
						if st, ok := er.(*ssa.Store); ok && st.Val == ssa.Value(ex) {
							if cell, ok := st.Addr.(*ssa.Alloc); ok {
								for _, cr := range *cell.Referrers() {
									if l2, ok := cr.(*ssa.UnOp); ok && l2.Op == token.MUL {
										cmpVals = append(cmpVals, l2)
									}
								}
							}
						}
					}
					call, ok := ex.Tuple.(*ssa.Call)
					if !ok {
						continue
					}
					g := staticCallee(call)
					switch {
					case g == nil:
					case g == visitExpr || origin(g) == visitExpr:
						// the type of a sub-expression handed on (`return lhsType, …`): the constants it was compared with
						for _, cv := range cmpVals {
							for _, rr := range *cv.Referrers() {
								if bo, ok := rr.(*ssa.BinOp); ok && (bo.Op == token.EQL || bo.Op == token.NEQ) {
									other := bo.X
									if other == cv {
										other = bo.Y
									}
									if k, ok := other.(*ssa.Const); ok {
										if n, ok := constInt64Of(k); ok && n != 0 {
											partial[n] = typeConstName(c, n)
										}
									}
								}
							}
						}
					case depth < 2 && fnPkgPath(origin(g)) == pkgCompiler && len(g.Blocks) > 0 && visitsOperands(g):
						// a helper compiling the compound form (it visits a left and a right operand)
						collect(g, depth+1)
					}
				}
			}
		}
	}
	collect(visitExpr, 0)
	if len(partial) == 0 {
		c.undecided(rule, "anchor:VisitExpr-compound-types", visitExpr.Pos(), "VisitExpr has no constant-typed return: the types of compound expressions could not be read")
		return
	}
	var pnames []string
	for _, n := range partial {
		pnames = append(pnames, n)
	}
	sort.Strings(pnames)

	nSites := 0
	for _, fn := range c.FuncsIn(pkgCompiler) {
		idx := 0
		allCalls(fn, func(ci ssa.CallInstruction) {
			call, ok := ci.(*ssa.Call)
			if !ok {
				return
			}
			// a visit through a typed-visit helper (`visitExprOfType(node, false, T, …)`): the type is T, the address
			// is the helper's address result
			var tv *typedVisit
			if g := staticCallee(call); g != nil {
				if t := c.typedVisitHelpers()[g]; t != nil && t.ok && fn != g {
					tv = t
				}
			}
			pushIdx := 2
			if tv != nil {
				pushIdx = -1
				for i, p := range tv.fn.Params {
					if b, ok := p.Type().Underlying().(*types.Basic); ok && b.Kind() == types.Bool {
						pushIdx = i
					}
				}
			} else if !callsFn(call, visitExpr) || len(call.Call.Args) < 3 {
				return
			}
			if pushIdx < 0 || pushIdx >= len(call.Call.Args) {
				return
			}
			if push, isC := constBool(call.Call.Args[pushIdx]); !isC || push {
				return
			}
			nSites++
			idx++
			key := fmt.Sprintf("%s:address-of-unpushed-expression#%d", fnName(fn), idx)
			// the constants the type is compared with
			var cmp []int64
			unknownType := true
			var addrs []ssa.Value
			if tv != nil {
				if k, isC := call.Call.Args[tv.expected].(*ssa.Const); isC {
					if n, ok := constInt64Of(k); ok {
						cmp = append(cmp, n)
						unknownType = false
					}
				}
				for _, r := range *call.Referrers() {
					if ex, ok := r.(*ssa.Extract); ok {
						if pt, ok := ex.Type().(*types.Pointer); ok && isNamed(pt.Elem(), pkgMachine, "Address") {
							addrs = append(addrs, ex)
						}
					}
				}
			}
			for _, r := range *call.Referrers() {
				if tv != nil {
					break
				}
				ex, ok := r.(*ssa.Extract)
				if !ok {
					if _, isRet := r.(*ssa.Return); isRet {
						unknownType = false // delegated as is: the caller's site is inspected instead
					}
					continue
				}
				switch ex.Index {
				case 0:
					for _, rr := range *ex.Referrers() {
						if bo, ok := rr.(*ssa.BinOp); ok && (bo.Op == token.EQL || bo.Op == token.NEQ) {
							other := bo.X
							if other == ssa.Value(ex) {
								other = bo.Y
							}
							if k, ok := other.(*ssa.Const); ok {
								if n, ok := constInt64Of(k); ok {
									cmp = append(cmp, n)
									unknownType = false
								}
							}
						}
					}
				case 1:
					addrs = append(addrs, ex)
				}
			}
			compound := unknownType
			why := "its type is not compared with a constant"
			for _, n := range cmp {
				if name, isP := partial[n]; isP {
					compound = true
					why = "its type is " + name
				}
			}
			if !compound {
				c.ok(rule, key, call.Pos(), fmt.Sprintf("the expression is required to be of a type that has no compound form (compound: %v)", pnames))
				return
			}
			// every use of the address must be an asset-only use
			bad := nonAssetUse(fn, addrs, pushAddr, appendIns, setNeeded, opAsset)
			if bad == nil {
				c.ok(rule, key, call.Pos(), "the expression may be compound ("+why+"); its address is used for the asset only (OP_ASSET / needed balances)")
			} else {
				c.bad(rule, key, bad.Pos(), "the address returned by VisitExpr(…, push=false) is used as the value of an expression that may be compound ("+why+"): for `a + b` it is the address of `a` alone, so the program computes with the left operand instead of the whole expression")
			}
		})
	}
	if nSites < 5 {
		c.undecided(rule, "floor:unpushed-visits", token.NoPos, fmt.Sprintf("only %d VisitExpr(…, false) call sites found", nSites))
	}
}

func constInt64Of(k *ssa.Const) (int64, bool) {
	if k.Value == nil {
		return 0, false
	}
	return constInt(k)
}

func typeConstName(c *Ctx, n int64) string {
	p := c.Pkg(pkgMachine)
	if p == nil {
		return fmt.Sprint(n)
	}
	sc := p.Types.Scope()
	for _, name := range sc.Names() {
		if k, ok := sc.Lookup(name).(*types.Const); ok && isNamed(k.Type(), pkgMachine, "Type") {
			if v, ok := constInt64(k); ok && v == n {
				return name
			}
		}
	}
	return fmt.Sprint(n)
}

// nonAssetUse follows the address value through cells, phis and closures and returns the first use that
// is not one of the asset-only idioms.
func nonAssetUse(fn *ssa.Function, start []ssa.Value, pushAddr, appendIns, setNeeded *ssa.Function, opAsset int64) ssa.Instruction {
	seen := map[ssa.Value]bool{}
	var bad ssa.Instruction
	var visit func(v ssa.Value, owner *ssa.Function)
	derefUse := func(load *ssa.UnOp) {
		// the Address value: only as argument of PushAddress followed by OP_ASSET
		for _, r := range *load.Referrers() {
			call, ok := r.(*ssa.Call)
			if ok && callsFn(call, pushAddr) && nextIsOpAsset(call, appendIns, opAsset) {
				continue
			}
			if _, isDbg := r.(*ssa.DebugRef); isDbg {
				continue
			}
			if bad == nil {
				bad = r
			}
		}
	}
	visit = func(v ssa.Value, owner *ssa.Function) {
		if seen[v] || bad != nil {
			return
		}
		seen[v] = true
		refs := v.Referrers()
		if refs == nil {
			return
		}
		for _, r := range *refs {
			switch u := r.(type) {
			case *ssa.DebugRef:
			case *ssa.Phi:
				visit(u, owner)
			case *ssa.Store:
				if u.Val == v {
					if cell, ok := u.Addr.(*ssa.Alloc); ok {
						visitCell(cell, owner, visit, &bad)
					} else if bad == nil {
						bad = u
					}
				}
			case *ssa.UnOp:
				if u.Op == token.MUL {
					derefUse(u)
				} else if bad == nil {
					bad = u
				}
			case *ssa.BinOp: // comparison with nil
			case *ssa.Call:
				if callsFn(u, setNeeded) {
					continue
				}
				if bad == nil {
					bad = u
				}
			case *ssa.Return:
				// handed to the caller together with the type: that site is inspected on its own
			default:
				if bad == nil {
					bad = r
				}
			}
		}
	}
	for _, v := range start {
		visit(v, fn)
	}
	return bad
}

// visitCell: loads of the cell in its function and, through closure bindings, in the closures capturing it.
func visitCell(cell *ssa.Alloc, owner *ssa.Function, visit func(ssa.Value, *ssa.Function), bad *ssa.Instruction) {
	for _, r := range *cell.Referrers() {
		switch u := r.(type) {
		case *ssa.UnOp:
			if u.Op == token.MUL {
				visit(u, owner)
			}
		case *ssa.MakeClosure:
			cl, _ := u.Fn.(*ssa.Function)
			if cl == nil {
				continue
			}
			for i, b := range u.Bindings {
				if b == ssa.Value(cell) && i < len(cl.FreeVars) {
					fv := cl.FreeVars[i]
					for _, fr := range *fv.Referrers() {
						if ld, ok := fr.(*ssa.UnOp); ok && ld.Op == token.MUL {
							visit(ld, cl)
						} else if _, isSt := fr.(*ssa.Store); isSt {
							// reassigned inside the closure: not followed
							if *bad == nil {
								*bad = fr
							}
						}
					}
				}
			}
		}
	}
}

func nextIsOpAsset(call *ssa.Call, appendIns *ssa.Function, opAsset int64) bool {
	b := call.Block()
	found := false
	for _, ins := range b.Instrs {
		if ins == ssa.Instruction(call) {
			found = true
			continue
		}
		if !found {
			continue
		}
		if nc, ok := ins.(*ssa.Call); ok {
			if callsFn(nc, appendIns) {
				n, isC := constInt(nc.Call.Args[1])
				return isC && n == opAsset
			}
			return false
		}
	}
	return false
}

// visitsOperands: fn asks a parse-tree node for its left or right operand (GetLhs / GetRhs).
func visitsOperands(fn *ssa.Function) bool {
	found := false
	allCalls(fn, func(ci ssa.CallInstruction) {
		n := ""
		if ci.Common().IsInvoke() {
			n = ci.Common().Method.Name()
		} else if g := staticCallee(ci); g != nil {
			n = origName(g)
		}
		if strings.HasSuffix(n, "GetLhs") || strings.HasSuffix(n, "GetRhs") {
			found = true
		}
	})
	return found
}
