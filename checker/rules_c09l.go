package main

// R09l — what the client sent besides the postings travels with them.
//
// A transaction request (a struct with a `Postings` and a `Script` field: v1 PostTransactionRequest, v2/bulk
// TransactionRequest) is turned into a ledger.TransactionData (posting mode) or a ledger.RunScript (script mode).
// For every such construction — a composite that takes at least one field from a request — each of Timestamp,
// Reference and Metadata the request has is copied into the field of the same name, from the same request.
// (R09c continues from there: TxToScriptData → RunScript → committed transaction.)

import (
	"fmt"
	"go/token"
	"go/types"
	"sort"

	"golang.org/x/tools/go/ssa"
)

func ruleR09l(c *Ctx, rule string) {
	isRequestShape := func(t types.Type) (*types.Struct, bool) {
		if p, ok := t.Underlying().(*types.Pointer); ok {
			t = p.Elem()
		}
		st, ok := t.Underlying().(*types.Struct)
		if !ok {
			return nil, false
		}
		has := map[string]bool{}
		for i := 0; i < st.NumFields(); i++ {
			has[st.Field(i).Name()] = true
		}
		return st, has["Postings"] && has["Script"]
	}
	carried := []string{"Timestamp", "Reference", "Metadata"}
	var fns []*ssa.Function
	for _, p := range []string{pkgLedger, pkgV1, pkgV2} {
		fns = append(fns, c.FuncsIn(p)...)
	}
	sort.Slice(fns, func(i, j int) bool { return fns[i].Pos() < fns[j].Pos() })
	n := 0
	for _, fn := range fns {
		for _, b := range fn.Blocks {
			for _, ins := range b.Instrs {
				al, ok := ins.(*ssa.Alloc)
				if !ok {
					continue
				}
				elem := al.Type().Underlying().(*types.Pointer).Elem()
				tn := ""
				switch {
				case isNamed(elem, pkgLedger, "TransactionData"):
					tn = "TransactionData"
				case isNamed(elem, pkgLedger, "RunScript"):
					tn = "RunScript"
				default:
					continue
				}
				// stores into the fields of the composite: field name → (source field name, source base)
				type src struct {
					field string
					base  ssa.Value
				}
				got := map[string][]src{}
				var reqBase ssa.Value
				var reqStruct *types.Struct
				var visit func(addr ssa.Value)
				visit = func(addr ssa.Value) {
					for _, r := range *addr.Referrers() {
						fa, ok := r.(*ssa.FieldAddr)
						if !ok {
							continue
						}
						f := fieldOfAddr(fa)
						if f == nil {
							continue
						}
						if f.Embedded() {
							visit(fa)
							continue
						}
						for _, r2 := range *fa.Referrers() {
							st, ok := r2.(*ssa.Store)
							if !ok || st.Addr != fa {
								continue
							}
							v := st.Val
							if cv, ok := v.(*ssa.ChangeType); ok {
								v = cv.X
							}
							sf, base := anyFieldRead(v)
							if sf == nil {
								continue
							}
							if s, ok := isRequestShape(base.Type()); ok {
								got[f.Name()] = append(got[f.Name()], src{sf.Name(), base})
								if reqBase == nil {
									reqBase, reqStruct = base, s
								}
							}
						}
					}
				}
				visit(al)
				if reqBase == nil {
					continue
				}
				n++
				for _, name := range carried {
					hasField := false
					for i := 0; i < reqStruct.NumFields(); i++ {
						if reqStruct.Field(i).Name() == name {
							hasField = true
						}
					}
					if !hasField {
						continue
					}
					key := fmt.Sprintf("%s:%s:carries-%s", fnName(fn), tn, name)
					ok := false
					for _, s := range got[name] {
						if s.field == name && s.base == reqBase {
							ok = true
						}
					}
					if ok {
						c.ok(rule, key, al.Pos(), tn+"."+name+" = request."+name)
					} else {
						c.bad(rule, key, al.Pos(), "the "+tn+" built from the request does not take the request's "+name+": the transaction is committed without what the client sent (a dropped reference also skips the uniqueness check)")
					}
				}
			}
		}
	}
	if n < 4 {
		c.undecided(rule, "floor:request-conversions", token.NoPos, fmt.Sprintf("only %d constructions of TransactionData/RunScript from a request found (4 confirmed by reading: v1 postTransaction ×2, TransactionRequest.ToRunScript ×2)", n))
	}
}
