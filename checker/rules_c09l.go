package main

// R09l — what the client sent besides the postings travels with them.
//
// A transaction request (a struct with a `Postings` and a `Script` field: v1 PostTransactionRequest, v2/bulk
// TransactionRequest) is turned into a ledger.TransactionData (posting mode) or a ledger.RunScript (script mode).
// For every such construction — a composite that takes at least one field from a request — each of Timestamp,
// Reference and Metadata the request has is copied into the field of the same name, from the same request.
// (R09c continues from there: TxToScriptData → RunScript → committed transaction.)

import (
	"fmt"
	"go/token"
	"go/types"
	"sort"

	"golang.org/x/tools/go/ssa"
)

func ruleR09l(c *Ctx, rule string) {
	isRequestShape := func(t types.Type) (*types.Struct, bool) {
		if p, ok := t.Underlying().(*types.Pointer); ok {
			t = p.Elem()
		}
		st, ok := t.Underlying().(*types.Struct)
		if !ok {
			return nil, false
		}
		has := map[string]bool{}
		for i := 0; i < st.NumFields(); i++ {
			has[st.Field(i).Name()] = true
		}
		return st, has["Postings"] && has["Script"]
	}
	carried := []string{"Timestamp", "Reference", "Metadata"}
	inScope := func(fn *ssa.Function) bool {
		pp := fnPkgPath(origin(fn))
		return pp == pkgLedger || pp == pkgV1 || pp == pkgV2
	}
	var fns []*ssa.Function
	for _, p := range []string{pkgLedger, pkgV1, pkgV2} {
		fns = append(fns, c.FuncsIn(p)...)
	}
	sort.Slice(fns, func(i, j int) bool { return fns[i].Pos() < fns[j].Pos() })
	n := 0
	done := map[string]bool{}
	type src struct {
		field string
		base  ssa.Value
	}
	// the request field a stored value is, through the parameters of constructor helpers
	var sourceOf func(v ssa.Value, env spellEnv, depth int) (src, *types.Struct, bool)
	sourceOf = func(v ssa.Value, env spellEnv, depth int) (src, *types.Struct, bool) {
		if depth > 6 {
			return src{}, nil, false
		}
		if cv, ok := v.(*ssa.ChangeType); ok {
			v = cv.X
		}
		if p, ok := v.(*ssa.Parameter); ok {
			if b, ok := env[p]; ok {
				return sourceOf(b.v, b.env, depth+1)
			}
			return src{}, nil, false
		}
		if ld, ok := v.(*ssa.UnOp); ok && ld.Op == token.MUL {
			if al, ok := ld.X.(*ssa.Alloc); ok {
				if sv := singleStore(al); sv != nil {
					if p, ok := sv.(*ssa.Parameter); ok {
						return sourceOf(p, env, depth+1)
					}
				}
			}
		}
		sf, base := anyFieldRead(v)
		if sf == nil {
			return src{}, nil, false
		}
		if p, ok := base.(*ssa.Parameter); ok {
			if _, isReq := isRequestShape(p.Type()); !isReq {
				if b, ok := env[p]; ok {
					base = b.v
				}
			}
		}
		if st, ok := isRequestShape(base.Type()); ok {
			return src{sf.Name(), base}, st, true
		}
		return src{}, nil, false
	}
	var visitFn func(root, fn *ssa.Function, env spellEnv, depth int, stack map[*ssa.Function]bool)
	visitFn = func(root, fn *ssa.Function, env spellEnv, depth int, stack map[*ssa.Function]bool) {
		for _, b := range fn.Blocks {
			for _, ins := range b.Instrs {
				if call, ok := ins.(*ssa.Call); ok {
					if g := staticCallee(call); g != nil && depth < 3 && len(g.Blocks) > 0 && inScope(g) && !stack[g] {
						env2 := spellEnv{}
						for i, p := range g.Params {
							if i < len(call.Call.Args) {
								env2[p] = spellBinding{call.Call.Args[i], env}
							}
						}
						stack[g] = true
						visitFn(root, g, env2, depth+1, stack)
						delete(stack, g)
					}
					continue
				}
				al, ok := ins.(*ssa.Alloc)
				if !ok {
					continue
				}
				elem := al.Type().Underlying().(*types.Pointer).Elem()
				tn := ""
				switch {
				case isNamed(elem, pkgLedger, "TransactionData"):
					tn = "TransactionData"
				case isNamed(elem, pkgLedger, "RunScript"):
					tn = "RunScript"
				default:
					continue
				}
				got := map[string][]src{}
				var reqBase ssa.Value
				var reqStruct *types.Struct
				var visit func(addr ssa.Value)
				visit = func(addr ssa.Value) {
					for _, r := range *addr.Referrers() {
						fa, ok := r.(*ssa.FieldAddr)
						if !ok {
							continue
						}
						f := fieldOfAddr(fa)
						if f == nil {
							continue
						}
						if f.Embedded() {
							visit(fa)
							continue
						}
						for _, r2 := range *fa.Referrers() {
							st, ok := r2.(*ssa.Store)
							if !ok || st.Addr != fa {
								continue
							}
							if sc, s, ok := sourceOf(st.Val, env, 0); ok {
								got[f.Name()] = append(got[f.Name()], sc)
								if reqBase == nil {
									reqBase, reqStruct = sc.base, s
								}
							}
						}
					}
				}
				visit(al)
				if reqBase == nil {
					continue
				}
				owner := fn
				if in, ok := reqBase.(ssa.Instruction); ok && in.Parent() != nil {
					owner = in.Parent()
				} else if p, ok := reqBase.(*ssa.Parameter); ok {
					owner = p.Parent()
				}
				if done[fnName(owner)+"/"+tn+fmt.Sprint(al.Pos())] {
					continue
				}
				done[fnName(owner)+"/"+tn+fmt.Sprint(al.Pos())] = true
				n++
				for _, name := range carried {
					hasField := false
					for i := 0; i < reqStruct.NumFields(); i++ {
						if reqStruct.Field(i).Name() == name {
							hasField = true
						}
					}
					if !hasField {
						continue
					}
					key := fmt.Sprintf("%s:%s:carries-%s", fnName(owner), tn, name)
					ok := false
					for _, s := range got[name] {
						if s.field == name && s.base == reqBase {
							ok = true
						}
					}
					if ok {
						c.ok(rule, key, al.Pos(), tn+"."+name+" = request."+name)
					} else {
						c.bad(rule, key, al.Pos(), "the "+tn+" built from the request does not take the request's "+name+": the transaction is committed without what the client sent (a dropped reference also skips the uniqueness check)")
					}
				}
			}
		}
	}
	for _, fn := range fns {
		if fn.Synthetic != "" || len(fn.Blocks) == 0 {
			continue
		}
		visitFn(fn, fn, spellEnv{}, 0, map[*ssa.Function]bool{fn: true})
	}
	if n < 4 {
		c.undecided(rule, "floor:request-conversions", token.NoPos, fmt.Sprintf("only %d constructions of TransactionData/RunScript from a request found (4 confirmed by reading: v1 postTransaction ×2, TransactionRequest.ToRunScript ×2)", n))
	}
}
