package main

import (
	"fmt"
	"go/token"
	"sort"
	"strings"

	"golang.org/x/tools/go/ssa"
)

// ---- R04d: the "latest move" a reader picks is the one whose running total it reads ------------------
//
// moves.post_commit_volumes is a running total in insertion order (seq), post_commit_effective_volumes a running
// total in effective-date order: the writer (the SQL function that inserts into moves) computes each from the row
// it finds with `order by seq desc limit 1` resp. `order by effective_date desc, seq desc limit 1`. A reader that
// wants the total of an account/asset picks one row per (account, asset) — `… order by K limit 1` or
// `distinct on (account, asset) … order by account, asset, K` — and reads one of the two columns: K must be the
// ordering under which that column is a running total, i.e. the one the writer uses for the same column.
// Decided for every SQL function of the migration that is referenced (from Go text, a trigger or another
// referenced function), every SQL text package ledgerstore can build, and every bun query chain on `moves`.

const (
	colVolumes    = "post_commit_volumes"
	colEffVolumes = "post_commit_effective_volumes"
)

type latestSel struct {
	keys   []string        // ordering keys after the partition keys, qualifiers stripped: "seq desc"
	own    map[string]bool // running-total columns named in the scope's own select list
	line   int
	lo, hi int
	dyn    bool
	dates  []datePred // `[q.]insertion_date|effective_date <=|< X` predicates of the scope
}

type datePred struct {
	col string
	rhs string
}

// datePredicates: the instant cut-offs in a token range.
func datePredicates(toks []sqlTok, lo, hi int) []datePred {
	var out []datePred
	for k := lo; k+1 < hi; k++ {
		t := toks[k]
		if t.Kind != 'w' || (t.Text != "insertion_date" && t.Text != "effective_date") {
			continue
		}
		j := k + 1
		if j >= hi || (toks[j].Text != "<=" && toks[j].Text != "<") {
			continue
		}
		j++
		if j < hi && toks[j].Text == "=" {
			j++
		}
		rhs := ""
		if j < hi {
			rhs = toks[j].Text
		}
		out = append(out, datePred{t.Text, rhs})
	}
	return out
}

func splitOrderKeys(s string) []string {
	var out []string
	for _, k := range strings.Split(s, ",") {
		k = strings.ToLower(strings.Join(strings.Fields(k), " "))
		if k == "" {
			continue
		}
		parts := strings.Fields(k)
		col := parts[0]
		if i := strings.LastIndex(col, "."); i >= 0 {
			col = col[i+1:]
		}
		col = strings.Trim(col, `"`)
		dir := "asc"
		if len(parts) > 1 && (parts[len(parts)-1] == "desc" || parts[len(parts)-1] == "asc") {
			dir = parts[len(parts)-1]
		} else if len(parts) > 1 {
			col = k // an expression: kept verbatim
		}
		out = append(out, col+" "+dir)
	}
	return out
}

// latestSelections finds, in a token list, the select scopes over the real table `moves` that keep one row per
// group by ordering: ORDER BY with LIMIT 1 or DISTINCT ON.
func latestSelections(toks []sqlTok) []latestSel {
	refs := tableRefs(toks, map[string]bool{"moves": true})
	var out []latestSel
	for i := 0; i+1 < len(toks); i++ {
		if toks[i].Kind != 'w' || toks[i].Text != "order" || toks[i+1].Text != "by" {
			continue
		}
		d := toks[i].Depth
		lo, hi := scopeOf(toks, i)
		fromIdx := -1
		for _, r := range refs {
			if r.Idx >= lo && r.Idx < hi && toks[r.Idx].Depth == d && r.Verb == "from" {
				fromIdx = r.Idx
			}
		}
		if fromIdx < 0 || fromIdx > i {
			continue
		}
		// keys
		var keys []string
		var cur []string
		dyn := false
		end := i + 2
		for ; end < hi; end++ {
			t := toks[end]
			if t.Depth == d && t.Kind == 'w' && (t.Text == "limit" || t.Text == "offset" || t.Text == "for" || t.Text == "fetch") {
				break
			}
			if strings.Contains(t.Text, dynMark) {
				dyn = true
			}
			if t.Depth == d && t.Text == "," {
				keys = append(keys, splitOrderKeys(strings.Join(cur, " "))...)
				cur = nil
				continue
			}
			if t.Text == "." && len(cur) > 0 {
				cur = cur[:len(cur)-1] // drop the qualifier
				continue
			}
			cur = append(cur, t.Text)
		}
		keys = append(keys, splitOrderKeys(strings.Join(cur, " "))...)
		limit1 := false
		for k := end; k+1 < hi; k++ {
			if toks[k].Depth == d && toks[k].Text == "limit" && toks[k+1].Text == "1" {
				limit1 = true
			}
		}
		nDistinct := 0
		for k := lo; k+2 < fromIdx; k++ {
			if toks[k].Depth == d && toks[k].Text == "distinct" && toks[k+1].Text == "on" && toks[k+2].Text == "(" {
				nDistinct = 1
				for m := k + 3; m < fromIdx && !(toks[m].Text == ")" && toks[m].Depth == d); m++ {
					if toks[m].Text == "," && toks[m].Depth == d+1 {
						nDistinct++
					}
				}
			}
		}
		if !limit1 && nDistinct == 0 {
			continue
		}
		if nDistinct > len(keys) {
			nDistinct = len(keys)
		}
		sel := latestSel{keys: keys[nDistinct:], own: map[string]bool{}, line: toks[i].Line, lo: lo, hi: hi, dyn: dyn}
		sel.dates = datePredicates(toks, fromIdx, i)
		for k := lo; k < fromIdx; k++ {
			if toks[k].Kind == 'w' && (toks[k].Text == colVolumes || toks[k].Text == colEffVolumes) {
				sel.own[toks[k].Text] = true
			}
		}
		out = append(out, sel)
	}
	return out
}

func orderingKind(keys []string) string {
	switch strings.Join(keys, ", ") {
	case "seq desc":
		return "insertion"
	case "effective_date desc, seq desc":
		return "effective"
	}
	return "other"
}

// columnsOutside: the running-total columns named in toks outside the select lists of the given selections
// that name their own.
func columnsOutside(toks []sqlTok, sels []latestSel) map[string]bool {
	cols := map[string]bool{}
	for i, t := range toks {
		if t.Kind != 'w' || (t.Text != colVolumes && t.Text != colEffVolumes) {
			continue
		}
		inside := false
		for _, s := range sels {
			if len(s.own) > 0 && i >= s.lo && i < s.hi {
				inside = true
			}
		}
		if !inside {
			cols[t.Text] = true
		}
	}
	return cols
}

func ruleR04d(c *Ctx) {
	const rule = "R04d"
	schema, err := loadSQLSchema(c, migrationSQL)
	if err != nil {
		c.undecided(rule, "anchor:migration", token.NoPos, err.Error())
		return
	}
	ls := loadLedgerSchema(c, rule)
	if ls == nil {
		return
	}
	// ---- the writer's table: column -> ordering
	want := map[string]string{}
	var writer *sqlFunc
	for _, f := range schema.Funcs {
		for i := 0; i+2 < len(f.Body); i++ {
			if f.Body[i].Text == "insert" && f.Body[i+1].Text == "into" && f.Body[i+2].Text == "moves" {
				writer = f
			}
		}
	}
	if writer == nil {
		c.undecided(rule, "anchor:writer-of-moves", token.NoPos, "no SQL function of the migration inserts into moves")
		return
	}
	for _, s := range latestSelections(writer.Body) {
		if len(s.own) != 1 {
			continue
		}
		for col := range s.own {
			k := orderingKind(s.keys)
			if prev, ok := want[col]; ok && prev != k {
				k = "other"
			}
			want[col] = k
		}
	}
	okWriter := want[colVolumes] == "insertion" && want[colEffVolumes] == "effective"
	c.check(okWriter, rule, "writer:"+writer.Name+":running-totals-follow-their-ordering", token.NoPos,
		"the writer continues post_commit_volumes from the latest row by seq and post_commit_effective_volumes from the latest row by (effective_date, seq)",
		fmt.Sprintf("the function that inserts moves does not derive post_commit_volumes from `order by seq desc limit 1` and post_commit_effective_volumes from `order by effective_date desc, seq desc limit 1` (found %v): the running totals do not follow the order their readers assume", want))
	if !okWriter {
		return
	}
	// ---- which SQL functions are referenced at all
	var goTexts []string
	for _, fn := range c.FuncsIn(pkgLedgerstore) {
		if strings.HasSuffix(c.Fset.Position(fn.Pos()).Filename, "migrations_v1.go") {
			continue
		}
		for _, b := range fn.Blocks {
			for _, ins := range b.Instrs {
				var ops []*ssa.Value
				for _, op := range ins.Operands(ops) {
					if k, ok := (*op).(*ssa.Const); ok && k.Value != nil && isStringType(k.Type()) {
						if s, ok := constString(k); ok {
							goTexts = append(goTexts, strings.ToLower(s))
						}
					}
				}
			}
		}
	}
	referenced := map[string]bool{}
	mentions := func(text, name string) bool {
		for i := strings.Index(text, name); i >= 0; {
			before := i == 0 || !isIdentByte(text[i-1])
			j := i + len(name)
			for j < len(text) && (text[j] == ' ' || text[j] == '\n' || text[j] == '\t') {
				j++
			}
			if before && j < len(text) && text[j] == '(' {
				return true
			}
			k := strings.Index(text[i+1:], name)
			if k < 0 {
				break
			}
			i += 1 + k
		}
		return false
	}
	raw, _ := c.ReadFile(migrationSQL)
	lowRaw := strings.ToLower(string(raw))
	for _, f := range schema.Funcs {
		for _, t := range goTexts {
			if mentions(t, f.Name) {
				referenced[f.Name] = true
			}
		}
		// triggers: execute procedure NAME(
		if strings.Contains(lowRaw, "execute procedure "+f.Name+"(") || strings.Contains(lowRaw, "execute function "+f.Name+"(") {
			referenced[f.Name] = true
		}
	}
	for changed := true; changed; {
		changed = false
		for _, f := range schema.Funcs {
			if !referenced[f.Name] {
				continue
			}
			for i := 0; i+1 < len(f.Body); i++ {
				if f.Body[i].Kind == 'w' && f.Body[i+1].Text == "(" {
					if g := schema.Func(f.Body[i].Text); g != nil && !referenced[g.Name] {
						referenced[g.Name] = true
						changed = true
					}
				}
			}
		}
	}
	nSel := 0
	var inert func(dp datePred) bool
	decide := func(key string, pos string, sel latestSel, unitCols map[string]bool, where string) {
		n0 := len(c.Obls)
		defer func() {
			for _, o := range c.Obls[n0:] {
				o.Pos = pos
			}
		}()
		cols := sel.own
		if len(cols) == 0 {
			cols = unitCols
		}
		if len(cols) == 0 {
			return // the row is picked for something else than a running total
		}
		nSel++
		kind := orderingKind(sel.keys)
		var names []string
		for col := range cols {
			names = append(names, col)
		}
		sort.Strings(names)
		switch {
		case sel.dyn:
			c.undecided(rule, key, token.NoPos, "the ordering of this latest-row selection over moves is not a compile-time constant")
		case len(names) > 1:
			c.undecided(rule, key, token.NoPos, "the rows picked here feed both running totals ("+strings.Join(names, ", ")+"): one ordering cannot serve both")
		case want[names[0]] == kind:
			c.ok(rule, key, token.NoPos, fmt.Sprintf("%s is read from the latest row by [%s], the ordering the writer maintains it in", names[0], strings.Join(sel.keys, ", ")))
			// the instant the rows are cut at must be the instant of that ordering
			wantDate := map[string]string{"insertion": "insertion_date", "effective": "effective_date"}[kind]
			for _, dp := range sel.dates {
				if inert != nil && inert(dp) {
					c.Info["inert_cutoff:"+key] = dp.col + " <= " + dp.rhs + ": the parameter is never supplied by a caller, the predicate is constant true"
					continue
				}
				c.check(dp.col == wantDate, rule, key+":cut-off-on-"+wantDate, token.NoPos,
					"the rows are cut at an instant on "+wantDate+", the instant of the ordering the running total follows",
					fmt.Sprintf("%s cuts the moves at an instant on %s but reads %s from the latest row in %s order: the row picked carries the total of every move inserted before it, including those outside the cut (and misses later-inserted ones inside it) — balances as of a past instant are not the replay of the log up to that instant", where, dp.col, names[0], kind))
			}
		default:
			c.bad(rule, key, token.NoPos, fmt.Sprintf("%s reads %s from the row picked by `order by %s`, but that column is a running total in %s order (the writer continues it from `%s`): whenever effective dates and insertion order disagree (back-dated or future-dated transactions) the row picked misses moves, the reported volumes and balances are not the replay of the log and inputs no longer equal outputs",
				where, names[0], strings.Join(sel.keys, ", "), want[names[0]], map[string]string{"insertion": "order by seq desc", "effective": "order by effective_date desc, seq desc"}[want[names[0]]]))
		}
	}
	// ---- SQL functions
	for _, f := range schema.Funcs {
		sels := latestSelections(f.Body)
		if len(sels) == 0 {
			continue
		}
		if !referenced[f.Name] {
			c.Info["unreferenced_sql_function:"+f.Name] = "not called from Go text, a trigger or a referenced function: its selections carry no obligation"
			continue
		}
		unit := columnsOutside(f.Body, sels)
		ff := f
		inert = func(dp datePred) bool {
			for idx, prm := range ff.Params {
				if prm == dp.rhs {
					return !sqlParamSupplied(schema, goTexts, referenced, ff, idx)
				}
			}
			return false
		}
		for i, s := range sels {
			decide(fmt.Sprintf("sql:%s:latest-move#%d", f.Name, i+1), fmt.Sprintf("%s:%d", migrationSQL, s.line), s, unit, "SQL function "+f.Name)
		}
		inert = nil
	}
	// ---- SQL texts built in Go
	type fragKey struct {
		fn  string
		txt string
	}
	seenFrag := map[fragKey]bool{}
	ord := map[string]int{}
	for _, fn := range c.FuncsIn(pkgLedgerstore) {
		if len(fn.Blocks) == 0 || fn.Synthetic != "" || strings.HasSuffix(c.Fset.Position(fn.Pos()).Filename, "migrations_v1.go") {
			continue
		}
		for _, b := range fn.Blocks {
			for _, ins := range b.Instrs {
				var ops []*ssa.Value
				for _, op := range ins.Operands(ops) {
					if *op == nil || !isStringType((*op).Type()) || isStringBuilding(ins, *op) {
						continue
					}
					for _, text := range strVariants(*op) {
						low := strings.ToLower(text)
						if !strings.Contains(low, "order") || !strings.Contains(low, "moves") {
							continue
						}
						fk := fragKey{fnName(fn), low}
						if seenFrag[fk] {
							continue
						}
						seenFrag[fk] = true
						toks := sqlTokenize(text, 0)
						sels := latestSelections(toks)
						unit := columnsOutside(toks, sels)
						for _, s := range sels {
							ord[fnName(fn)]++
							pos := ins.Pos()
							if !pos.IsValid() {
								pos = fn.Pos()
							}
							decide(fmt.Sprintf("%s:fragment:latest-move#%d", fnName(fn), ord[fnName(fn)]), c.pos(pos), s, unit, "an SQL fragment of "+fnName(fn))
						}
					}
				}
			}
		}
	}
	// ---- bun chains on moves
	nameField := c.MustField(rule, pkgLedgerstore, "Store", "name")
	if nameField == nil {
		return
	}
	qa := &qAnalyzer{c: c, ls: ls, nameField: nameField, memo: map[*ssa.Function]*qFacts{}, busy: map[*ssa.Function]bool{}}
	for _, fn := range c.FuncsIn(pkgLedgerstore) {
		if len(fn.Blocks) == 0 || fn.Synthetic != "" || strings.HasSuffix(c.Fset.Position(fn.Pos()).Filename, "migrations_v1.go") {
			continue
		}
		classes, _ := qa.analyse(fn)
		var fs []*qFacts
		for _, f := range classes {
			if _, ok := f.from["moves"]; ok {
				fs = append(fs, f)
			}
		}
		sort.Slice(fs, func(i, j int) bool { return fs[i].from["moves"] < fs[j].from["moves"] })
		for i, f := range fs {
			nDistinct := 0
			own := map[string]bool{}
			for _, e := range f.selExprs {
				et := sqlTokenize(e, 0)
				for k := 0; k+2 < len(et); k++ {
					if et[k].Text == "distinct" && et[k+1].Text == "on" && et[k+2].Text == "(" {
						nDistinct = 1
						for m := k + 3; m < len(et) && !(et[m].Text == ")" && et[m].Depth == et[k+2].Depth); m++ {
							if et[m].Text == "," && et[m].Depth == et[k+2].Depth+1 {
								nDistinct++
							}
						}
					}
				}
				for _, t := range et {
					if t.Kind == 'w' && (t.Text == colVolumes || t.Text == colEffVolumes) {
						own[t.Text] = true
					}
				}
			}
			if nDistinct == 0 && !f.limit1 {
				continue
			}
			keys := f.orders
			dyn := false
			for _, k := range keys {
				if strings.Contains(k, dynMark) {
					dyn = true
				}
			}
			if nDistinct > len(keys) {
				nDistinct = len(keys)
			}
			sel := latestSel{keys: keys[nDistinct:], own: own, dyn: dyn}
			for _, w := range dedupStrings(f.wheres) {
				wt := sqlTokenize(w, 0)
				sel.dates = append(sel.dates, datePredicates(wt, 0, len(wt))...)
				if strings.Contains(w, dynMark+" <") {
					sel.dates = append(sel.dates, datePred{dynMark, ""})
				}
			}
			// the unit of a chain that selects whole rows: every SQL text of the enclosing top-level function
			unit := map[string]bool{}
			top := fn
			for top.Parent() != nil {
				top = top.Parent()
			}
			var visit func(g *ssa.Function)
			visit = func(g *ssa.Function) {
				for _, b := range g.Blocks {
					for _, ins := range b.Instrs {
						var ops []*ssa.Value
						for _, op := range ins.Operands(ops) {
							if s, ok := constString(*op); ok {
								for _, t := range sqlTokenize(s, 0) {
									if t.Kind == 'w' && (t.Text == colVolumes || t.Text == colEffVolumes) {
										unit[t.Text] = true
									}
								}
							}
						}
					}
				}
				for _, a := range g.AnonFuncs {
					visit(a)
				}
			}
			visit(top)
			pos := f.orderPos
			if pos == token.NoPos {
				pos = f.from["moves"]
			}
			c.seeFn(fn)
			decide(fmt.Sprintf("%s:query:latest-move#%d", fnName(fn), i+1), c.pos(pos), sel, unit, "the query built by "+fnName(fn))
		}
	}
	c.Info["latest_move_selections"] = nSel
	if nSel < 6 {
		c.undecided(rule, "floor:latest-move-selections", token.NoPos, fmt.Sprintf("expected the latest-move selections of the writer, the volume functions, the balance filters and the aggregated balances query; found %d", nSel))
	}
}

func isIdentByte(b byte) bool {
	return b == '_' || (b >= 'a' && b <= 'z') || (b >= 'A' && b <= 'Z') || (b >= '0' && b <= '9')
}

// sqlParamSupplied: does any caller (Go text or referenced SQL function) give a value to parameter idx of f,
// positionally or by name?
func sqlParamSupplied(schema *sqlSchema, goTexts []string, referenced map[string]bool, f *sqlFunc, idx int) bool {
	supplied := false
	scan := func(toks []sqlTok) {
		for i := 0; i+1 < len(toks); i++ {
			if toks[i].Kind != 'w' || toks[i].Text != f.Name || toks[i+1].Text != "(" {
				continue
			}
			if i > 0 && toks[i-1].Text == "function" {
				continue
			}
			d := toks[i+1].Depth
			n := 0
			seenTok := false
			for k := i + 2; k < len(toks) && !(toks[k].Text == ")" && toks[k].Depth == d); k++ {
				seenTok = true
				if toks[k].Text == "," && toks[k].Depth == d+1 {
					n++
				}
				if toks[k].Kind == 'w' && toks[k].Text == f.Params[idx] && k+2 < len(toks) && toks[k+1].Text == ":" && toks[k+2].Text == "=" {
					supplied = true
				}
				if toks[k].Kind == 'w' && toks[k].Text == f.Params[idx] && k+1 < len(toks) && (toks[k+1].Text == ":=" || toks[k+1].Text == "=>") {
					supplied = true
				}
			}
			if seenTok {
				n++
			}
			if n > idx {
				// positional, unless the later arguments are named ones (then they were seen above)
				named := false
				for k := i + 2; k < len(toks) && !(toks[k].Text == ")" && toks[k].Depth == d); k++ {
					if toks[k].Text == ":=" || toks[k].Text == "=>" || (toks[k].Text == ":" && k+1 < len(toks) && toks[k+1].Text == "=") {
						named = true
					}
				}
				if !named {
					supplied = true
				}
			}
		}
	}
	for _, t := range goTexts {
		if strings.Contains(t, f.Name) {
			scan(sqlTokenize(t, 0))
		}
	}
	for _, g := range schema.Funcs {
		if referenced[g.Name] && g != f {
			scan(g.Body)
		}
	}
	return supplied
}
