package main

import (
	"fmt"
	"go/ast"
	"go/constant"
	"go/token"
	"go/types"
	"sort"
	"strings"

	"golang.org/x/tools/go/ssa"
)

const pkgPaginate = libsPath + "/bun/bunpaginate"

func init() {
	register("C17", propMeta{
		Level: "other",
		Explanation: "Only the token clause of the statement is decided (`every cursor token the server hands out is accepted back and stands for the same query, filters included`). R17a (type graph): every type that is encoded as a cursor or decoded from one (type arguments of the instantiations of EncodeAsCursor/EncodeCursor/Extract and the targets of UnmarshalCursor, in libs/bun/bunpaginate and internal/storage/paginate) is walked through all reachable fields: every field is exported and has a JSON name, no func/chan fields, named types have MarshalJSON iff UnmarshalJSON, and every field of a non-empty interface type is covered by an UnmarshalJSON of an enclosing struct that assigns it while every implementation of the interface in the repository has a MarshalJSON. " +
			"R17b: encoder and decoder use the same base64 encoding object and json.Marshal/json.Unmarshal. R17e: in column pagination the row a cursor is positioned on agrees with the comparison it is read with (strict bound ⇒ last row shown, inclusive bound ⇒ first row not shown, or same id with flipped direction). R17f: in offset pagination the window is Offset / PageSize+1 and the cursors move the offset by exactly one page (next under `a further row was fetched`, previous clamped at 0 under Offset > 0). R17g: a loop that walks a listing page by page (bunpaginate.Iterate) decodes the query of the following fetch from Cursor.Next of the cursor it was handed. R17i: in the paginators Cursor.HasMore is `next != nil` of the pointer encoded into Cursor.Next (or the condition under which that pointer is set). R17j: the hand-written decoders of cursor contents (PaginatedQueryOptions) store every decoded field into the receiver. R17h: api.MapCursor stores every field of the Cursor it builds, each one other than Data from the same field of the cursor it was given. R17d: the JSON kinds the builders can write under their operator (a nil slice/map/pointer encodes as null) are all cases of the type switch of the decoder that reads that operator (parseSet, parseKeyValue, the $not case). R17c: the operator names emitted by the MarshalJSON methods of the query builders are all accepted by the parser (mapMapToExpression), and each builder's MarshalJSON writes its operator, key and value / items / sub-expression.",
		NotDecided:  "page arithmetic (pageSize+1, inclusive bounds, Bottom, offsets, previous/next) — numerical, not decided; whether decoded filter values have the same dynamic type as the original ones (JSON numbers come back as float64).",
		Trusted:     []string{"encoding/json and encoding/base64 round-trip semantics for exported, tagged fields of concrete types"},
	}, runC17)
}

func runC17(c *Ctx) {
	const rule = "R17a"
	// ---- collect cursor types
	cursorTypes := map[string]types.Type{}
	addType := func(t types.Type) {
		if t == nil {
			return
		}
		if p, ok := t.(*types.Pointer); ok {
			t = p.Elem()
		}
		if _, isTP := t.(*types.TypeParam); isTP || mentionsTypeParam(t, 0) {
			return
		}
		if _, isIface := t.Underlying().(*types.Interface); isIface {
			return
		}
		cursorTypes[types.TypeString(t, nil)] = t
	}
	for fn := range c.AllFns {
		o := fn.Origin()
		if o == nil || len(fn.TypeArgs()) == 0 {
			continue
		}
		pk := fnPkgPath(o)
		if pk != pkgPaginate && pk != modPath+"/internal/storage/paginate" {
			continue
		}
		switch o.Name() {
		case "Extract", "EncodeCursor", "encodeCursor":
			addType(fn.TypeArgs()[0])
		case "EncodeAsCursor":
			if fn.Signature.Recv() != nil {
				addType(fn.Signature.Recv().Type())
			}
		}
	}
	for _, fn := range c.RepoFuncs() {
		allCalls(fn, func(ci ssa.CallInstruction) {
			f := staticCallee(ci)
			if f == nil || origName(f) != "UnmarshalCursor" {
				return
			}
			if pk := fnPkgPath(f); pk != pkgPaginate && pk != modPath+"/internal/storage/paginate" {
				return
			}
			if mi, ok := ci.Common().Args[1].(*ssa.MakeInterface); ok {
				addType(mi.X.Type())
			}
		})
	}
	var names []string
	for n := range cursorTypes {
		names = append(names, n)
	}
	sort.Strings(names)
	c.Info["cursor_types"] = names
	if len(names) < 3 {
		c.undecided(rule, "floor:cursor-types", token.NoPos, fmt.Sprintf("only %d cursor payload types found", len(names)))
	}
	ri := &reachInfo{c: c, memo: map[*ssa.Function]map[string]string{}, impls: map[*types.Func][]*ssa.Function{}}
	short := func(t types.Type) string {
		return types.TypeString(t, func(p *types.Package) string { return p.Name() })
	}
	for _, n := range names {
		root := cursorTypes[n]
		seen := map[string]bool{}
		var walk func(t types.Type, path string, coveredBy *types.Named)
		walk = func(t types.Type, path string, coveredBy *types.Named) {
			key := short(t)
			if seen[key+"@"+path] || len(path) > 300 {
				return
			}
			seen[key+"@"+path] = true
			if p, ok := t.(*types.Pointer); ok {
				walk(p.Elem(), path, coveredBy)
				return
			}
			obKey := short(root) + ":" + path
			if named, ok := t.(*types.Named); ok {
				hasM := hasMethod(named, "MarshalJSON")
				hasU := hasMethod(named, "UnmarshalJSON")
				hasTM := hasMethod(named, "MarshalText")
				hasTU := hasMethod(named, "UnmarshalText")
				if hasM || hasU || hasTM || hasTU {
					// custom codec: both directions must exist
					if _, isStruct := named.Underlying().(*types.Struct); isStruct && hasU && !hasM {
						// a struct that only customises decoding (to rebuild interface fields): fields are still encoded by default
						coveredBy = named
					} else {
						c.check((hasM && hasU) || (hasTM && hasTU), rule, obKey+":codec-pair", named.Obj().Pos(), short(named)+" has both directions of its custom JSON codec",
							short(named)+" customises only one direction of its JSON codec: a cursor holding it does not decode to what was encoded")
						return
					}
				}
			}
			switch u := t.Underlying().(type) {
			case *types.Struct:
				for i := 0; i < u.NumFields(); i++ {
					f := u.Field(i)
					fp := path + "." + f.Name()
					tag := reflectTag(u.Tag(i), "json")
					if !f.Exported() {
						c.bad(rule, short(root)+":"+fp+":exported", f.Pos(), "unexported field in a cursor payload: it is silently dropped from the token, the decoded query differs from the encoded one")
						continue
					}
					if strings.Split(tag, ",")[0] == "-" {
						c.bad(rule, short(root)+":"+fp+":encoded", f.Pos(), "field excluded from JSON (`json:\"-\"`) in a cursor payload: the decoded query loses it")
						continue
					}
					if f.Embedded() {
						walk(f.Type(), fp, coveredBy)
						continue
					}
					if it, ok := f.Type().Underlying().(*types.Interface); ok {
						if it.NumMethods() == 0 {
							c.ok(rule, short(root)+":"+fp+":any", f.Pos(), "empty-interface field: decodes as generic JSON")
							continue
						}
						// needs a decoder on an enclosing struct that assigns the field, and encoders on all implementations
						okDec := false
						if coveredBy != nil {
							if um := methodFn(c, coveredBy, "UnmarshalJSON"); um != nil {
								for _, fn2 := range withLiterals(um) {
									for _, b := range fn2.Blocks {
										for _, ins := range b.Instrs {
											if _, _, ok := storeToField(ins, f); ok {
												okDec = true
											}
										}
									}
								}
							}
						}
						c.check(okDec, rule, short(root)+":"+fp+":interface-decodable", f.Pos(), "the enclosing type's UnmarshalJSON rebuilds the interface value",
							"field "+fp+" has interface type "+short(f.Type())+" and no enclosing UnmarshalJSON assigns it: encoding/json cannot decode into a non-empty interface, so a cursor carrying a filter is rejected when it comes back")
						// implementations must encode themselves
						var any0 *types.Func
						if it.NumMethods() > 0 {
							any0 = it.Method(0)
						}
						for _, impl := range ri.implementations(any0) {
							recv := impl.Signature.Recv()
							if recv == nil {
								continue
							}
							nt := namedOf(recv.Type())
							if nt == nil {
								continue
							}
							c.check(hasMethod(nt, "MarshalJSON"), rule, short(root)+":"+fp+":impl-encodes:"+nt.Obj().Name(), nt.Obj().Pos(), short(nt)+" has MarshalJSON",
								"implementation "+short(nt)+" of "+short(f.Type())+" has no MarshalJSON (and only unexported fields): inside a cursor it is encoded as {} and the filter is lost")
						}
						continue
					}
					walk(f.Type(), fp, coveredBy)
				}
			case *types.Slice:
				walk(u.Elem(), path+"[]", coveredBy)
			case *types.Array:
				walk(u.Elem(), path+"[]", coveredBy)
			case *types.Map:
				walk(u.Elem(), path+"{}", coveredBy)
			case *types.Signature, *types.Chan:
				c.bad(rule, obKey+":encodable", token.NoPos, "func/chan value in a cursor payload")
			case *types.Basic:
				// fine
			}
		}
		walk(root, "", nil)
		c.ok(rule, short(root)+":walked", token.NoPos, "type graph walked")
	}

	// ---- R17b
	for _, pk := range []string{pkgPaginate, modPath + "/internal/storage/paginate"} {
		enc := c.Fn(pk, "EncodeCursor")
		dec := c.Fn(pk, "UnmarshalCursor")
		if enc == nil || dec == nil {
			c.undecided("R17b", "anchor:"+shortPkg(pk)+".EncodeCursor/UnmarshalCursor", token.NoPos, "not found")
			continue
		}
		globalsUsed := func(fn *ssa.Function, method string) (string, bool) {
			var g string
			found := false
			for _, f := range c.instancesOrSelf(fn) {
				allCalls(f, func(ci ssa.CallInstruction) {
					if strings.HasSuffix(calleeFullName(ci), method) {
						if u, ok := ci.Common().Args[0].(*ssa.UnOp); ok {
							if gl, ok := u.X.(*ssa.Global); ok {
								g = gl.Name()
								found = true
							}
						}
					}
				})
			}
			return g, found
		}
		if len(c.instancesOrSelf(enc)) == 0 {
			c.ok("R17b", shortPkg(pk)+":not-instantiated", enc.Pos(), "EncodeCursor of this package is never instantiated: no cursor is produced with it")
			continue
		}
		ge, ok1 := globalsUsed(enc, ".EncodeToString")
		gd, ok2 := globalsUsed(dec, ".DecodeString")
		c.check(ok1 && ok2 && ge == gd, "R17b", shortPkg(pk)+":same-base64-encoding", enc.Pos(), "encoder and decoder use base64."+ge, fmt.Sprintf("the cursor is encoded with base64.%s but decoded with base64.%s: tokens handed out are rejected", ge, gd))
		usesJSON := func(fn *ssa.Function, name string) bool {
			ok := false
			for _, f := range c.instancesOrSelf(fn) {
				allCalls(f, func(ci ssa.CallInstruction) {
					if calleeFullName(ci) == name {
						ok = true
					}
				})
			}
			return ok
		}
		c.check(usesJSON(enc, "encoding/json.Marshal") && usesJSON(dec, "encoding/json.Unmarshal"), "R17b", shortPkg(pk)+":json-both-ways", enc.Pos(), "json.Marshal / json.Unmarshal", "encoder and decoder do not both use encoding/json")
	}

	// ---- R17c: builders' MarshalJSON vs parser
	ruleR17c(c)
	ruleR17d(c)
	ruleR17e(c)
	ruleR17f(c)
	ruleR17g(c)
	ruleMapCursorCopies(c, "R17h")
	ruleR13h(c, "R17j", 1)
	ruleHasMoreMeansNext(c, "R17i")
	ruleFetchAllKeepsEveryPage(c, "R17k")
}

func (c *Ctx) instancesOrSelf(fn *ssa.Function) []*ssa.Function {
	out := []*ssa.Function{}
	if len(fn.Blocks) > 0 && fn.TypeParams().Len() == 0 {
		out = append(out, fn)
	}
	for f := range c.AllFns {
		if f.Origin() != fn || !strings.HasPrefix(f.Synthetic, "instance of") {
			continue
		}
		concrete := true
		for _, ta := range f.TypeArgs() {
			if mentionsTypeParam(ta, 0) {
				concrete = false
			}
		}
		if concrete {
			out = append(out, f)
		}
	}
	sort.Slice(out, func(i, j int) bool { return out[i].String() < out[j].String() })
	return out
}

func hasMethod(n *types.Named, name string) bool {
	for _, t := range []types.Type{n, types.NewPointer(n)} {
		ms := types.NewMethodSet(t)
		for i := 0; i < ms.Len(); i++ {
			if ms.At(i).Obj().Name() == name {
				return true
			}
		}
	}
	return false
}

func methodFn(c *Ctx, n *types.Named, name string) *ssa.Function {
	for _, t := range []types.Type{types.NewPointer(n), n} {
		ms := c.Prog.MethodSets.MethodSet(t)
		for i := 0; i < ms.Len(); i++ {
			if ms.At(i).Obj().Name() == name {
				return c.Prog.MethodValue(ms.At(i))
			}
		}
	}
	return nil
}

func ruleR17c(c *Ctx) {
	const rule = "R17c"
	p, fd := c.MustFuncDecl(rule, pkgQuery, "mapMapToExpression")
	if fd == nil {
		return
	}
	accepted := map[string]bool{}
	for _, sw := range switchesIn(fd.Body) {
		for _, cl := range clausesOf(sw.Body) {
			for _, e := range cl.Exprs {
				if v := constVal(p, e); v != nil && v.Kind() == constant.String {
					accepted[constant.StringVal(v)] = true
				}
			}
		}
	}
	// emitted operators: constants stored into keyValue.operator; "$"+set.operator constants; "$not" literal
	emitted := map[string]token.Pos{}
	opKV := c.Field(pkgQuery, "keyValue", "operator")
	opSet := c.Field(pkgQuery, "set", "operator")
	for _, fn := range c.FuncsIn(pkgQuery) {
		for _, b := range fn.Blocks {
			for _, ins := range b.Instrs {
				if v, _, ok := storeToField(ins, opKV); ok {
					for _, s := range constStringsThroughParams(c, v, fn, 0) {
						emitted[s] = ins.Pos()
					}
				}
				if v, _, ok := storeToField(ins, opSet); ok {
					for _, s := range constStringsThroughParams(c, v, fn, 0) {
						emitted["$"+s] = ins.Pos()
					}
				}
			}
		}
	}
	// constant keys written by the MarshalJSON methods themselves
	for _, tn := range []string{"set", "keyValue", "not"} {
		_, md := c.FuncDecl(pkgQuery, tn+".MarshalJSON")
		named := c.Named(pkgQuery, tn)
		if md == nil || named == nil {
			c.bad(rule, tn+":has-MarshalJSON", token.NoPos, "query."+tn+" has no MarshalJSON: inside a cursor it is encoded as {}")
			continue
		}
		c.ok(rule, tn+":has-MarshalJSON", md.Pos(), "MarshalJSON present")
		ast.Inspect(md.Body, func(n ast.Node) bool {
			if kv, ok := n.(*ast.KeyValueExpr); ok {
				if v := constVal(p, kv.Key); v != nil && v.Kind() == constant.String && strings.HasPrefix(constant.StringVal(v), "$") {
					emitted[constant.StringVal(v)] = kv.Pos()
				}
			}
			return true
		})
		// every field of the builder is written to the JSON: each field is read in MarshalJSON
		st := named.Underlying().(*types.Struct)
		mfn := c.Fn(pkgQuery, tn+".MarshalJSON")
		for i := 0; i < st.NumFields(); i++ {
			f := st.Field(i)
			read := false
			if mfn != nil {
				for _, b := range mfn.Blocks {
					for _, ins := range b.Instrs {
						if v, ok := ins.(ssa.Value); ok {
							if ff, _ := anyFieldRead(v); sameField(ff, f) {
								read = true
							}
						}
						if fa, ok := ins.(*ssa.FieldAddr); ok && sameField(fieldOfAddr(fa), f) {
							read = true
						}
						if fv, ok := ins.(*ssa.Field); ok && sameField(fieldOfField(fv), f) {
							read = true
						}
					}
				}
			}
			c.check(read, rule, tn+".MarshalJSON:encodes-"+f.Name(), md.Pos(), "field "+f.Name()+" is part of the encoded form", "query."+tn+".MarshalJSON does not encode field "+f.Name()+": the decoded filter differs")
		}
	}
	var ops []string
	for o := range emitted {
		ops = append(ops, o)
	}
	sort.Strings(ops)
	for _, o := range ops {
		c.check(accepted[o], rule, "operator-accepted:"+o, emitted[o], "the parser accepts "+o, "the builders can emit operator "+o+" but mapMapToExpression does not accept it: a cursor carrying such a filter is rejected when it comes back")
	}
	if len(ops) < 6 {
		c.undecided(rule, "floor:operators", token.NoPos, fmt.Sprintf("only %d emitted operators found", len(ops)))
	}
	// decoder: PaginatedQueryOptions.UnmarshalJSON routes qb through ParseJSON
	if pq := c.Named(pkgLedgerstore, "PaginatedQueryOptions"); pq != nil {
		parse := c.Fn(pkgQuery, "ParseJSON")
		okParse := false
		nInst := 0
		for f := range c.AllFns {
			if origName(f) != "UnmarshalJSON" || recvTypeName(origin(f)) != "PaginatedQueryOptions" || fnPkgPath(f) != pkgLedgerstore || len(f.Blocks) == 0 {
				continue
			}
			if f.Synthetic != "" && !strings.HasPrefix(f.Synthetic, "instance of") {
				continue
			}
			nInst++
			found := false
			allCalls(f, func(ci ssa.CallInstruction) {
				if callsFn(ci, parse) {
					found = true
				}
			})
			if nInst == 1 {
				okParse = found
			} else {
				okParse = okParse && found
			}
		}
		c.check(okParse, rule, "PaginatedQueryOptions.UnmarshalJSON:uses-ParseJSON", pq.Obj().Pos(), "the filter is rebuilt with query.ParseJSON", "PaginatedQueryOptions does not rebuild its query builder with query.ParseJSON")
	}
}

func mentionsTypeParam(t types.Type, depth int) bool {
	if depth > 6 {
		return false
	}
	switch x := t.(type) {
	case *types.TypeParam:
		return true
	case *types.Pointer:
		return mentionsTypeParam(x.Elem(), depth+1)
	case *types.Slice:
		return mentionsTypeParam(x.Elem(), depth+1)
	case *types.Named:
		ta := x.TypeArgs()
		for i := 0; i < ta.Len(); i++ {
			if mentionsTypeParam(ta.At(i), depth+1) {
				return true
			}
		}
	}
	return false
}


// constStringsThroughParams: the constant strings v may denote: a constant, or a parameter of a constructor helper
// whose call sites (in the repository) pass constants (`newKeyValue("$lt", …)`).
func constStringsThroughParams(c *Ctx, v ssa.Value, fn *ssa.Function, depth int) []string {
	if s, ok := constString(v); ok {
		return []string{s}
	}
	if depth > 3 {
		return nil
	}
	p, ok := stripLoadOfParamCell(v).(*ssa.Parameter)
	if !ok {
		return nil
	}
	idx := paramIndex(p)
	var out []string
	for _, site := range c.CallersOf(fn) {
		args := site.Common().Args
		if idx < 0 || idx >= len(args) || site.Parent() == nil {
			continue
		}
		if strings.HasSuffix(c.Fset.Position(site.Pos()).Filename, "_test.go") {
			continue
		}
		out = append(out, constStringsThroughParams(c, args[idx], site.Parent(), depth+1)...)
	}
	return out
}
