package main

func init() {
	const bulk = "internal/api/v2/bulk.go"
	const ctl = "internal/api/v2/controllers_bulk.go"
	addMutants(
		Mutant{Property: "C18", Name: "parameters-hoisted-key-set-when-present", File: "internal/api/v2/bulk.go",
			Old: "\tfor i, element := range bulk {\n\t\tparameters := command.Parameters{\n\t\t\tDryRun:         false,\n\t\t\tIdempotencyKey: element.IdempotencyKey,\n\t\t}\n", New: "\tparameters := command.Parameters{}\n\tfor i, element := range bulk {\n\t\tif element.IdempotencyKey != \"\" {\n\t\t\tparameters.IdempotencyKey = element.IdempotencyKey\n\t\t}\n", Expect: "R18g:"},
		Mutant{Property: "C18", Name: "parameters-hoisted-key-always-set", File: "internal/api/v2/bulk.go",
			Old: "\tfor i, element := range bulk {\n\t\tparameters := command.Parameters{\n\t\t\tDryRun:         false,\n\t\t\tIdempotencyKey: element.IdempotencyKey,\n\t\t}\n", New: "\tparameters := command.Parameters{}\n\tfor i, element := range bulk {\n\t\tparameters.IdempotencyKey = element.IdempotencyKey\n", Expect: "none", Benign: true},
		Mutant{Property: "C18", Name: "unknown-action-skipped", File: bulk,
			Old: "\t\tdefault:\n\t\t\tbulkError(element.Action, ErrValidation, fmt.Errorf(\"error parsing element %d: unknown action '%s'\", i, element.Action))\n\t\t\tif !continueOnFailure {\n\t\t\t\treturn ret, errorsInBulk, nil\n\t\t\t}\n", New: "", Expect: "R18a:ProcessBulk:exactly-one-result-per-element"},
		Mutant{Property: "C18", Name: "parse-error-drops-results", File: bulk, Nth: 1,
			Old: "\t\t\t\tbulkError(element.Action, ErrValidation, fmt.Errorf(\"error parsing element %d: %s\", i, err))\n\t\t\t\tif !continueOnFailure {\n\t\t\t\t\treturn ret, errorsInBulk, nil\n\t\t\t\t}\n\t\t\t\tcontinue",
			New: "\t\t\t\treturn nil, errorsInBulk, fmt.Errorf(\"error parsing element %d: %s\", i, err)", Expect: "R18a:"},
		Mutant{Property: "C18", Name: "revert-failure-does-not-stop", File: bulk,
			Old: "\t\t\t\tbulkError(element.Action, code, err)\n\t\t\t\tif !continueOnFailure {\n\t\t\t\t\treturn ret, errorsInBulk, nil\n\t\t\t\t}\n\t\t\t} else {\n\t\t\t\tret = append(ret, Result{\n\t\t\t\t\tData:         tx,\n\t\t\t\t\tResponseType: element.Action,\n\t\t\t\t})\n\t\t\t}\n\t\tcase ActionDeleteMetadata:",
			New: "\t\t\t\tbulkError(element.Action, code, err)\n\t\t\t} else {\n\t\t\t\tret = append(ret, Result{\n\t\t\t\t\tData:         tx,\n\t\t\t\t\tResponseType: element.Action,\n\t\t\t\t})\n\t\t\t}\n\t\tcase ActionDeleteMetadata:", Expect: "R18b:"},
		Mutant{Property: "C18", Name: "success-answered-twice", File: bulk,
			Old: "\t\t\t} else {\n\t\t\t\tret = append(ret, Result{\n\t\t\t\t\tResponseType: element.Action,\n\t\t\t\t})\n\t\t\t}\n\t\tcase ActionRevertTransaction:", New: "\t\t\t} else {\n\t\t\t\tret = append(ret, Result{\n\t\t\t\t\tResponseType: element.Action,\n\t\t\t\t})\n\t\t\t}\n\t\t\tif len(req.Metadata) == 0 {\n\t\t\t\tret = append(ret, Result{ResponseType: element.Action})\n\t\t\t}\n\t\tcase ActionRevertTransaction:", Expect: "R18a:ProcessBulk:exactly-one-result-per-element"},
		Mutant{Property: "C18", Name: "failure-flag-only-for-internal-errors", File: bulk,
			Old: "\t\terrorsInBulk = true\n", New: "\t\terrorsInBulk = errorsInBulk || code == sharedapi.ErrorInternal\n", Expect: "R18e:"},
		Mutant{Property: "C18", Name: "handler-ignores-flag", File: ctl,
			Old: "\tif err != nil || errorsInBulk {", New: "\tif err != nil {\n\t\t_ = errorsInBulk", Expect: "R18d:bulkHandler"},
		Mutant{Property: "C18", Name: "elements-processed-concurrently", File: bulk,
			Old: "\t\t\terr := l.DeleteMetadata(ctx, parameters, req.TargetType, targetID, req.Key)\n", New: "\t\t\terrc := make(chan error, 1)\n\t\t\tgo func() { errc <- l.DeleteMetadata(ctx, parameters, req.TargetType, targetID, req.Key) }()\n\t\t\terr := <-errc\n", Expect: "R18c:"},
		Mutant{Property: "C18", Name: "iterates-backwards", File: bulk,
			Old: "\tfor i, element := range bulk {", New: "\tfor i := len(bulk) - 1; i >= 0; i-- {\n\t\telement := bulk[i]", Expect: "R18c:"},
	)
}
