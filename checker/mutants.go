package main

// mutants.go — single-edit variants of /repo applied through the loader's overlay (nothing is written
// into /repo). Informational: tells whether the rules still have teeth. One process per variant.

import (
	"encoding/json"
	"fmt"
	"os"
	"os/exec"
	"path/filepath"
	"sort"
	"strings"
	"sync"
)

type Mutant struct {
	Property string
	Name     string
	File     string // repo-relative
	Old, New string // anchored search/replace (first occurrence; Old must occur exactly once unless Nth>0)
	Nth      int    // 1-based occurrence to replace when Old occurs several times (0 = must be unique)
	Expect   string // substring of the obligation key expected to fail
	Edits    []Edit // further edits (same or other files)
	Benign   bool   // behaviour-preserving variant: the checks must stay silent
}

type Edit struct {
	File     string
	Old, New string
	Nth      int
}

var mutants []Mutant

func addMutants(ms ...Mutant) { mutants = append(mutants, ms...) }

func readOverlay(path string) map[string][]byte {
	if path == "" {
		return nil
	}
	b, err := os.ReadFile(path)
	if err != nil {
		die("overlay: %v", err)
	}
	var m map[string]string
	if err := json.Unmarshal(b, &m); err != nil {
		die("overlay: %v", err)
	}
	out := map[string][]byte{}
	for k, v := range m {
		c, err := os.ReadFile(v)
		if err != nil {
			die("overlay: %v", err)
		}
		out[k] = c
	}
	return out
}

func applyEdit(src string, e Edit) (string, bool) {
	n := strings.Count(src, e.Old)
	if n == 0 {
		return src, false
	}
	if e.Nth == 0 {
		if n != 1 {
			return src, false
		}
		return strings.Replace(src, e.Old, e.New, 1), true
	}
	if e.Nth > n {
		return src, false
	}
	idx := -1
	from := 0
	for i := 0; i < e.Nth; i++ {
		j := strings.Index(src[from:], e.Old)
		idx = from + j
		from = idx + len(e.Old)
	}
	return src[:idx] + e.New + src[idx+len(e.Old):], true
}

type mutantResult struct {
	Name    string   `json:"name"`
	Status  string   `json:"status"` // killed | survived | skipped | broken
	Expect  string   `json:"expect"`
	Reports []string `json:"reports,omitempty"`
	Note    string   `json:"note,omitempty"`
}

func runMutants(repo, verif, property string) int {
	results := computeMutants(repo, verif, property)
	code := 0
	for _, r := range results {
		fmt.Printf("%-9s %-45s expect=%s\n", r.Status, r.Name, r.Expect)
		if r.Status != "killed" && r.Status != "silent-ok" {
			for _, rep := range r.Reports {
				fmt.Printf("            reported: %s\n", rep)
			}
			if r.Note != "" {
				fmt.Printf("            %s\n", r.Note)
			}
		}
		if r.Status == "survived" || r.Status == "broken" || r.Status == "false-alarm" {
			code = 3
		}
	}
	b, _ := json.MarshalIndent(results, "", " ")
	os.MkdirAll(filepath.Join(verif, "evidence", "mutants"), 0o755)
	os.WriteFile(filepath.Join(verif, "evidence", "mutants", property+".json"), b, 0o644)
	return code
}

func computeMutants(repo, verif, property string) []mutantResult {
	exe, _ := os.Executable()
	var sel []Mutant
	for _, m := range mutants {
		if m.Property == property || property == "all" {
			sel = append(sel, m)
		}
	}
	tmp, err := os.MkdirTemp("", "verif-mutants-")
	if err != nil {
		die("%v", err)
	}
	defer os.RemoveAll(tmp)
	results := make([]mutantResult, len(sel))
	sem := make(chan struct{}, 4)
	var wg sync.WaitGroup
	for i, m := range sel {
		wg.Add(1)
		go func(i int, m Mutant) {
			defer wg.Done()
			sem <- struct{}{}
			defer func() { <-sem }()
			res := mutantResult{Name: m.Property + "/" + m.Name, Expect: m.Expect}
			edits := append([]Edit{{m.File, m.Old, m.New, m.Nth}}, m.Edits...)
			files := map[string]string{}
			okAll := true
			for _, e := range edits {
				abs := filepath.Join(repo, e.File)
				src, have := files[abs]
				if !have {
					b, err := os.ReadFile(abs)
					if err != nil {
						okAll = false
						break
					}
					src = string(b)
				}
				out, ok := applyEdit(src, e)
				if !ok {
					okAll = false
					break
				}
				files[abs] = out
			}
			if !okAll {
				res.Status = "skipped"
				res.Note = "anchor text not present (code changed); variant not applicable"
				results[i] = res
				return
			}
			ov := map[string]string{}
			n := 0
			for abs, src := range files {
				p := filepath.Join(tmp, fmt.Sprintf("m%d_%d.go", i, n))
				n++
				os.WriteFile(p, []byte(src), 0o644)
				ov[abs] = p
			}
			ovp := filepath.Join(tmp, fmt.Sprintf("m%d.json", i))
			b, _ := json.Marshal(ov)
			os.WriteFile(ovp, b, 0o644)
			cmd := exec.Command(exe, "-property", m.Property, "-repo", repo, "-verif", verif, "-overlay", ovp)
			out, _ := cmd.CombinedOutput()
			killed := false
			for _, l := range strings.Split(string(out), "\n") {
				if strings.HasPrefix(l, "MUTANT-REPORT ") {
					res.Reports = append(res.Reports, strings.TrimPrefix(l, "MUTANT-REPORT "))
					if strings.Contains(l, m.Expect) {
						killed = true
					}
				}
				if strings.Contains(l, "type errors in /repo") || strings.HasPrefix(l, "VIOLATION property=") && strings.Contains(l, "load-failure") {
					res.Status = "broken"
					res.Note = "variant does not type-check"
				}
			}
			if res.Status == "" {
				switch {
				case m.Benign && len(res.Reports) == 0:
					res.Status = "silent-ok"
				case m.Benign:
					res.Status = "false-alarm"
				case killed:
					res.Status = "killed"
				default:
					res.Status = "survived"
				}
			}
			if res.Status == "broken" {
				res.Note += ": " + firstLines(string(out), 4)
			}
			results[i] = res
		}(i, m)
	}
	wg.Wait()
	sort.Slice(results, func(i, j int) bool { return results[i].Name < results[j].Name })
	return results
}

func firstLines(s string, n int) string {
	l := strings.Split(s, "\n")
	if len(l) > n {
		l = l[:n]
	}
	return strings.Join(l, " | ")
}

func explainReplay(c *Ctx, path string) {
	b, err := os.ReadFile(path)
	if err != nil {
		fmt.Printf("explain: %v\n", err)
		return
	}
	var r struct {
		Obligation Obligation `json:"obligation"`
	}
	json.Unmarshal(b, &r)
	found := false
	for _, o := range c.Obls {
		if o.Key == r.Obligation.Key {
			found = true
			fmt.Printf("obligation %s\n  now: %s at %s\n  %s\n", o.Key, o.Status, o.Pos, o.Detail)
			for _, s := range o.Path {
				fmt.Printf("    %s\n", s)
			}
		}
	}
	if !found {
		fmt.Printf("obligation %s is not generated on the current tree (recorded: %s at %s: %s)\n", r.Obligation.Key, r.Obligation.Status, r.Obligation.Pos, r.Obligation.Detail)
	}
}
