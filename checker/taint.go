package main

// taint.go — forward taint over SSA values of one function, with summaries for static callees in the
// repository and path refinement by equality / regexp-match facts on dominating edges.
//
// Text-carrying values only: a value whose static type is numeric, bool or time-like cannot carry a
// quote and is never tainted. Unknown calls propagate taint from any argument to every result
// (conservative). Sanitizers: equality with a constant on every path to the use; a successful match
// against a package-level regexp that is proved quote-safe; lookup in a package-level map whose
// values are all constants; formatting of numeric/time values.

import (
	"go/ast"
	"go/constant"
	"go/token"
	"go/types"
	"regexp/syntax"
	"strings"

	"golang.org/x/tools/go/ssa"
)

type taintCfg struct {
	c *Ctx
	// cleanCall: result of this call is trusted clean (e.g. nested Builder.Build results) regardless of args
	cleanCall func(call *ssa.Call) bool
	// extraSource: is this value a taint source by itself (e.g. field reads, free variables)?
	extraSource func(v ssa.Value) bool
	sumMemo     map[sumKey]uint64
	sumBusy     map[sumKey]bool
	safeRe      map[*ssa.Global]int // 0 unknown, 1 safe, 2 unsafe
	constMaps   map[*ssa.Global]int
}

type sumKey struct {
	fn    *ssa.Function
	param int
}

func newTaintCfg(c *Ctx) *taintCfg {
	return &taintCfg{c: c, sumMemo: map[sumKey]uint64{}, sumBusy: map[sumKey]bool{}, safeRe: map[*ssa.Global]int{}, constMaps: map[*ssa.Global]int{}}
}

// carriesText: can a value of this type carry client text into SQL?
func carriesText(t types.Type) bool {
	switch u := t.Underlying().(type) {
	case *types.Basic:
		return u.Info()&types.IsString != 0 || u.Kind() == types.UnsafePointer
	case *types.Pointer:
		if isNamed(u.Elem(), "math/big", "Int") || isNamed(u.Elem(), "time", "Time") || isNamed(u.Elem(), "regexp", "Regexp") {
			return false
		}
		return carriesText(u.Elem())
	case *types.Slice:
		return isByteOrRune(u.Elem()) || carriesText(u.Elem())
	case *types.Array:
		return isByteOrRune(u.Elem()) || carriesText(u.Elem())
	case *types.Map:
		return carriesText(u.Key()) || carriesText(u.Elem())
	case *types.Struct:
		if isNamed(t, "time", "Time") || isNamed(t, "math/big", "Int") {
			return false
		}
		if n := namedOf(t); n != nil && n.Obj().Name() == "Time" && n.Obj().Pkg() != nil && n.Obj().Pkg().Path() == pkgLedger {
			return false
		}
		for i := 0; i < u.NumFields(); i++ {
			if carriesText(u.Field(i).Type()) {
				return true
			}
		}
		return false
	case *types.Interface:
		return true
	case *types.Tuple:
		for i := 0; i < u.Len(); i++ {
			if carriesText(u.At(i).Type()) {
				return true
			}
		}
		return false
	case *types.Signature, *types.Chan:
		return false
	}
	return false
}

type taintResult struct {
	tainted map[ssa.Value]bool
	why     map[ssa.Value]ssa.Value // predecessor in the flow (for reporting)
	cfg     *taintCfg
	fn      *ssa.Function
	clean   map[ssa.Instruction]map[ssa.Value]bool // (user, operand) pairs sanitised on all paths
}

// chain renders the flow that taints v.
func (r *taintResult) chain(v ssa.Value) []string {
	var out []string
	seen := map[ssa.Value]bool{}
	for v != nil && !seen[v] {
		seen[v] = true
		desc := v.Name()
		if ins, ok := v.(ssa.Instruction); ok {
			desc = ins.String()
		}
		if len(desc) > 110 {
			desc = desc[:110] + "…"
		}
		out = append(out, r.cfg.c.pos(v.Pos())+"  "+desc)
		v = r.why[v]
	}
	// reverse: source first
	for i, j := 0, len(out)-1; i < j; i, j = i+1, j-1 {
		out[i], out[j] = out[j], out[i]
	}
	return out
}

// analyse computes the tainted values of fn given the initially tainted values.
func (tc *taintCfg) analyse(fn *ssa.Function, sources []ssa.Value) *taintResult {
	res := &taintResult{tainted: map[ssa.Value]bool{}, why: map[ssa.Value]ssa.Value{}, cfg: tc, fn: fn}
	res.clean = tc.sanitisedUses(fn)
	cellTaint := map[ssa.Value]ssa.Value{} // tainted cells (Alloc / map / slice backing identified by base value) -> cause
	mark := func(v ssa.Value, from ssa.Value) bool {
		if v == nil || res.tainted[v] || !carriesText(v.Type()) {
			return false
		}
		res.tainted[v] = true
		if from != v {
			res.why[v] = from
		}
		return true
	}
	for _, s := range sources {
		res.tainted[s] = true
	}
	if tc.extraSource != nil {
		for _, p := range fn.Params {
			if carriesText(p.Type()) && tc.extraSource(p) {
				res.tainted[p] = true
			}
		}
		for _, fv := range fn.FreeVars {
			if carriesText(fv.Type()) && tc.extraSource(fv) {
				res.tainted[fv] = true
			}
		}
	}
	isT := func(user ssa.Instruction, op ssa.Value) bool {
		if op == nil || !res.tainted[op] {
			return false
		}
		if m := res.clean[user]; m != nil && m[op] {
			return false
		}
		return true
	}
	cellOf := func(addr ssa.Value) ssa.Value {
		b := addr
		for i := 0; i < 10; i++ {
			switch x := b.(type) {
			case *ssa.FieldAddr:
				b = x.X
				continue
			case *ssa.IndexAddr:
				b = x.X
				continue
			}
			break
		}
		return b
	}
	changed := true
	for iter := 0; changed && iter < 50; iter++ {
		changed = false
		for _, b := range fn.Blocks {
			for _, ins := range b.Instrs {
				if tc.extraSource != nil {
					if v, ok := ins.(ssa.Value); ok && !res.tainted[v] && tc.extraSource(v) && carriesText(v.Type()) {
						res.tainted[v] = true
						changed = true
					}
				}
				switch x := ins.(type) {
				case *ssa.Phi:
					for _, e := range x.Edges {
						if isT(x, e) && mark(x, e) {
							changed = true
						}
					}
				case *ssa.BinOp:
					if x.Op == token.ADD {
						for _, o := range []ssa.Value{x.X, x.Y} {
							if isT(x, o) && mark(x, o) {
								changed = true
							}
						}
					}
				case *ssa.UnOp:
					if x.Op == token.MUL {
						if isT(x, x.X) && mark(x, x.X) {
							changed = true
						}
						if cause, ok := cellTaint[cellOf(x.X)]; ok && mark(x, cause) {
							changed = true
						}
						// load of a package-level variable: not client data
					}
				case *ssa.ChangeType:
					if isT(x, x.X) && mark(x, x.X) {
						changed = true
					}
				case *ssa.Convert:
					if isT(x, x.X) && mark(x, x.X) {
						changed = true
					}
				case *ssa.MakeInterface:
					if isT(x, x.X) && mark(x, x.X) {
						changed = true
					}
				case *ssa.ChangeInterface:
					if isT(x, x.X) && mark(x, x.X) {
						changed = true
					}
				case *ssa.TypeAssert:
					if isT(x, x.X) && mark(x, x.X) {
						changed = true
					}
				case *ssa.Slice:
					if isT(x, x.X) && mark(x, x.X) {
						changed = true
					}
					if cause, ok := cellTaint[cellOf(x.X)]; ok && mark(x, cause) {
						changed = true
					}
				case *ssa.Extract:
					if isT(x, x.Tuple) {
						// tuple taint is tracked per index for calls (below); for others whole-tuple
						if _, isCall := x.Tuple.(*ssa.Call); !isCall {
							if mark(x, x.Tuple) {
								changed = true
							}
						}
					}
				case *ssa.Index:
					if isT(x, x.X) && mark(x, x.X) {
						changed = true
					}
				case *ssa.IndexAddr:
					if isT(x, x.X) && mark(x, x.X) {
						changed = true
					}
				case *ssa.Field:
					if isT(x, x.X) && mark(x, x.X) {
						changed = true
					}
				case *ssa.FieldAddr:
					if isT(x, x.X) && mark(x, x.X) {
						changed = true
					}
				case *ssa.Lookup:
					if tc.isConstMapLoad(x.X) {
						continue // values are constants whatever the key
					}
					if isT(x, x.X) && mark(x, x.X) {
						changed = true
					}
				case *ssa.Range:
					if isT(x, x.X) && mark(x, x.X) {
						changed = true
					}
				case *ssa.Next:
					if isT(x, x.Iter) && mark(x, x.Iter) {
						changed = true
					}
				case *ssa.MapUpdate:
					for _, o := range []ssa.Value{x.Key, x.Value} {
						if isT(x, o) {
							if !res.tainted[x.Map] {
								res.tainted[x.Map] = true
								res.why[x.Map] = o
								changed = true
							}
						}
					}
				case *ssa.Store:
					if isT(x, x.Val) {
						cell := cellOf(x.Addr)
						if _, ok := cellTaint[cell]; !ok {
							cellTaint[cell] = x.Val
							changed = true
						}
						if _, isAlloc := cell.(*ssa.Alloc); !isAlloc {
							// store through a pointer value (parameter, field): taint the pointer value itself
							if !res.tainted[cell] {
								res.tainted[cell] = true
								res.why[cell] = x.Val
								changed = true
							}
						}
					}
				case *ssa.MakeClosure:
					for _, bnd := range x.Bindings {
						if isT(x, bnd) {
							if !res.tainted[x] {
								res.tainted[x] = true
								res.why[x] = bnd
								changed = true
							}
						}
					}
				case *ssa.Call:
					if tc.callTaint(res, x, isT, mark, cellTaint) {
						changed = true
					}
				}
			}
		}
	}
	return res
}

// callTaint propagates taint through one call; returns whether anything changed.
func (tc *taintCfg) callTaint(res *taintResult, call *ssa.Call, isT func(ssa.Instruction, ssa.Value) bool, mark func(v, from ssa.Value) bool, cellTaint map[ssa.Value]ssa.Value) bool {
	changed := false
	if tc.cleanCall != nil && tc.cleanCall(call) {
		return false
	}
	cc := call.Common()
	args := cc.Args
	markResult := func(idx int, from ssa.Value) {
		// idx < 0: all results
		if call.Type() == nil {
			return
		}
		if tup, ok := call.Type().(*types.Tuple); ok {
			for _, r := range *call.Referrers() {
				if e, ok := r.(*ssa.Extract); ok && (idx < 0 || e.Index == idx) && e.Index < tup.Len() {
					if mark(e, from) {
						changed = true
					}
				}
			}
			if !res.tainted[call] {
				res.tainted[call] = true // so that isT(extract, tuple) holds; extracts are marked explicitly above
			}
			return
		}
		if idx <= 0 {
			if mark(call, from) {
				changed = true
			}
		}
	}
	var taintedArgs []int
	for i, a := range args {
		if isT(call, a) {
			taintedArgs = append(taintedArgs, i)
		} else if sl, ok := a.(*ssa.Slice); ok {
			// variadic slice: elements stored into a fresh array
			for _, e := range variadicElems(sl) {
				if isT(call, e) {
					taintedArgs = append(taintedArgs, i)
					break
				}
			}
		}
	}
	if bi, ok := cc.Value.(*ssa.Builtin); ok {
		switch bi.Name() {
		case "append":
			for _, i := range taintedArgs {
				markResult(0, args[i])
			}
		case "copy":
			if len(taintedArgs) > 0 && isT(call, args[1]) {
				base := args[0]
				if !res.tainted[base] {
					res.tainted[base] = true
					res.why[base] = args[1]
					changed = true
				}
			}
		}
		return changed
	}
	if cc.IsInvoke() && isT(call, cc.Value) {
		markResult(-1, cc.Value)
	}
	if len(taintedArgs) == 0 {
		return changed
	}
	name := calleeFullName(call)
	switch name {
	case "fmt.Sprintf":
		format, isConst := constString(args[0])
		if !isConst {
			if isT(call, args[0]) {
				markResult(0, args[0])
			}
		}
		_ = format
		for _, e := range variadicElems(args[len(args)-1]) {
			if isT(call, e) && carriesTextDynamic(e) {
				markResult(0, e)
			}
		}
		return changed
	case "(*math/big.Int).String", "(time.Time).Format", "(*math/big.Int).Text", "strconv.Itoa", "strconv.FormatInt", "strconv.FormatUint":
		return changed
	case "(*regexp.Regexp).MatchString", "(*regexp.Regexp).Match", "strings.Contains", "strings.HasPrefix", "strings.HasSuffix", "strings.EqualFold", "strings.Index":
		return changed
	}
	// static callee in the repository with a body: use its summary
	if f := staticCallee(call); f != nil && len(f.Blocks) > 0 && inRepo(fnPkgPath(f)) {
		for _, i := range taintedArgs {
			mask := tc.summary(f, i)
			for r := 0; r < 16; r++ {
				if mask&(1<<uint(r)) != 0 {
					markResult(r, args[i])
				}
			}
		}
		return changed
	}
	// a function value that resolves to functions of the repository (a literal held in a local, an entry of a
	// package-level table of handlers filled by the initialiser): the union of their summaries
	if !cc.IsInvoke() && staticCallee(call) == nil {
		if fs := tc.c.CalleesOf(call); len(fs) > 0 {
			all := true
			for _, f := range fs {
				if len(f.Blocks) == 0 || !inRepo(fnPkgPath(origin(f))) {
					all = false
				}
			}
			if all {
				for _, f := range fs {
					for _, i := range taintedArgs {
						mask := tc.summary(f, i)
						for r := 0; r < 16; r++ {
							if mask&(1<<uint(r)) != 0 {
								markResult(r, args[i])
							}
						}
					}
				}
				return changed
			}
		}
	}
	// unknown / library call: every text-carrying result is tainted
	markResult(-1, args[taintedArgs[0]])
	return changed
}

// carriesTextDynamic: an interface-wrapped value carries text unless its concrete type cannot.
func carriesTextDynamic(v ssa.Value) bool {
	if mi, ok := v.(*ssa.MakeInterface); ok {
		return carriesText(mi.X.Type())
	}
	return carriesText(v.Type())
}

// summary: which results of fn are tainted when parameter i is tainted (bit mask).
func (tc *taintCfg) summary(fn *ssa.Function, i int) uint64 {
	k := sumKey{fn, i}
	if m, ok := tc.sumMemo[k]; ok {
		return m
	}
	if tc.sumBusy[k] || i >= len(fn.Params) {
		return 0
	}
	tc.sumBusy[k] = true
	defer delete(tc.sumBusy, k)
	tc.c.seeFn(fn)
	r := tc.analyse(fn, []ssa.Value{fn.Params[i]})
	var mask uint64
	for _, b := range fn.Blocks {
		ret, ok := b.Instrs[len(b.Instrs)-1].(*ssa.Return)
		if !ok {
			continue
		}
		for ri, v := range ret.Results {
			if r.tainted[v] {
				if m := r.clean[ret]; m != nil && m[v] {
					continue
				}
				mask |= 1 << uint(ri)
			}
		}
	}
	tc.sumMemo[k] = mask
	return mask
}

// ---- sanitisers ------------------------------------------------------------------------------

// sanitisedUses: for each instruction, the operands that are known — on every path reaching the
// instruction — to be equal to some constant, or to have matched a quote-safe regexp.
func (tc *taintCfg) sanitisedUses(fn *ssa.Function) map[ssa.Instruction]map[ssa.Value]bool {
	// candidate values: X of facts `X == const(string)`; argument of MatchString on a safe regexp
	idx := map[ssa.Value]int{}
	var vals []ssa.Value
	add := func(v ssa.Value) {
		v = stripLoadOfParamCell(v)
		if _, ok := idx[v]; !ok && len(vals) < 60 {
			idx[v] = len(vals)
			vals = append(vals, v)
		}
	}
	type factSrc struct {
		v      ssa.Value
		onTrue bool
	}
	matchFacts := map[ssa.Value]ssa.Value{} // call value -> sanitised value when call == true
	for _, b := range fn.Blocks {
		for _, ins := range b.Instrs {
			switch x := ins.(type) {
			case *ssa.BinOp:
				if x.Op == token.EQL || x.Op == token.NEQ {
					if _, ok := constString(x.Y); ok {
						add(x.X)
					}
					if _, ok := constString(x.X); ok {
						add(x.Y)
					}
				}
			case *ssa.Call:
				n := calleeFullName(x)
				if (n == "(*regexp.Regexp).MatchString" || n == "(*regexp.Regexp).Match") && tc.isSafeRegexp(x.Call.Args[0]) {
					arg := x.Call.Args[1]
					if cv, ok := arg.(*ssa.Convert); ok {
						arg = cv.X
					}
					add(arg)
					matchFacts[x] = stripLoadOfParamCell(arg)
				}
			}
		}
	}
	out := map[ssa.Instruction]map[ssa.Value]bool{}
	if len(vals) == 0 {
		return out
	}
	visited := map[ssa.Instruction]bool{}
	var record func(s uint64, ins ssa.Instruction)
	pr := &PathRule{
		Edge: func(pc *PathCtx, s uint64, from *ssa.BasicBlock, si int) (uint64, bool) {
			for _, f := range pc.edgeFacts(from, si) {
				if f.Eq {
					if _, ok := constString(f.Y); ok {
						if i, ok := idx[stripLoadOfParamCell(f.X)]; ok {
							s |= 1 << uint(i)
						}
					}
					if _, ok := constString(f.X); ok {
						if i, ok := idx[stripLoadOfParamCell(f.Y)]; ok {
							s |= 1 << uint(i)
						}
					}
				}
				if v, ok := matchFacts[f.X]; ok {
					if b, isB := constBool(f.Y); isB && b == f.Eq {
						s |= 1 << uint(idx[v])
					}
				}
			}
			return s, true
		},
		Exit: func(pc *PathCtx, s uint64, ins ssa.Instruction) {
			// a Return uses its results: the engine reports it here, not through Step
			if _, ok := ins.(*ssa.Return); ok {
				record(s, ins)
			}
		},
		Step: func(pc *PathCtx, s uint64, ins ssa.Instruction) uint64 {
			record(s, ins)
			return s
		},
	}
	record = func(s uint64, ins ssa.Instruction) {
		{
			m := out[ins]
			first := !visited[ins]
			visited[ins] = true
			for _, op := range ins.Operands(nil) {
				if *op == nil {
					continue
				}
				v := stripLoadOfParamCell(*op)
				i, tracked := idx[v]
				if !tracked {
					continue
				}
				if m == nil {
					m = map[ssa.Value]bool{}
					out[ins] = m
				}
				okNow := s&(1<<uint(i)) != 0
				if first {
					m[*op] = okNow
				} else if !okNow {
					m[*op] = false
				}
			}
		}
	}
	tc.c.RunPaths(fn, 0, pr)
	return out
}

// stripLoadOfParamCell: parameters captured by closures are spilled into cells; treat a load of a
// single-store cell as the stored value.
func stripLoadOfParamCell(v ssa.Value) ssa.Value {
	if u, ok := v.(*ssa.UnOp); ok && u.Op == token.MUL {
		if s := singleStore(u.X); s != nil {
			return s
		}
	}
	return v
}

// isConstMapLoad: v is a load of a package-level map variable of the repository whose declared values are all
// constant strings.
func (tc *taintCfg) isConstMapLoad(v ssa.Value) bool {
	u, ok := v.(*ssa.UnOp)
	if !ok || u.Op != token.MUL {
		return false
	}
	g, ok := u.X.(*ssa.Global)
	if !ok {
		return false
	}
	if r, ok := tc.constMaps[g]; ok {
		return r == 1
	}
	tc.constMaps[g] = 2
	p := tc.c.ByPath[g.Pkg.Pkg.Path()]
	if p == nil {
		return false
	}
	for _, f := range p.Syntax {
		for _, d := range f.Decls {
			gd, ok := d.(*ast.GenDecl)
			if !ok || gd.Tok != token.VAR {
				continue
			}
			for _, sp := range gd.Specs {
				vs := sp.(*ast.ValueSpec)
				for i, n := range vs.Names {
					if n.Name != g.Name() || i >= len(vs.Values) {
						continue
					}
					cl, ok := vs.Values[i].(*ast.CompositeLit)
					if !ok {
						return false
					}
					all := len(cl.Elts) > 0
					for _, el := range cl.Elts {
						kv, ok := el.(*ast.KeyValueExpr)
						if !ok {
							all = false
							break
						}
						tv, ok := p.TypesInfo.Types[kv.Value]
						if !ok || tv.Value == nil || tv.Value.Kind() != constant.String {
							all = false
						}
					}
					if all && !globalIsWritten(tc.c, g) {
						tc.constMaps[g] = 1
					}
					return tc.constMaps[g] == 1
				}
			}
		}
	}
	return false
}

// globalIsWritten: is the map held by g updated, or g reassigned, anywhere outside its package initialiser?
func globalIsWritten(c *Ctx, g *ssa.Global) bool {
	for _, fn := range c.RepoFuncs() {
		if fn.Synthetic == "package initializer" {
			continue
		}
		for _, b := range fn.Blocks {
			for _, ins := range b.Instrs {
				switch x := ins.(type) {
				case *ssa.Store:
					if x.Addr == ssa.Value(g) {
						return true
					}
				case *ssa.MapUpdate:
					if u, ok := x.Map.(*ssa.UnOp); ok && u.X == ssa.Value(g) {
						return true
					}
				}
			}
		}
	}
	return false
}

// isSafeRegexp: v is a load of a package-level *regexp.Regexp compiled from a constant pattern that is
// anchored at both ends and admits none of ' " \ (nor arbitrary characters).
func (tc *taintCfg) isSafeRegexp(v ssa.Value) bool {
	u, ok := v.(*ssa.UnOp)
	if !ok || u.Op != token.MUL {
		return false
	}
	g, ok := u.X.(*ssa.Global)
	if !ok {
		return false
	}
	if r, ok := tc.safeRe[g]; ok {
		return r == 1
	}
	tc.safeRe[g] = 2
	pat, ok := globalRegexpPattern(tc.c, g)
	if !ok {
		return false
	}
	if quoteSafePattern(pat) {
		tc.safeRe[g] = 1
	}
	return tc.safeRe[g] == 1
}

// globalRegexpPattern: the constant pattern of `var G = regexp.MustCompile(<const>)`, when G is assigned nowhere else.
func globalRegexpPattern(c *Ctx, g *ssa.Global) (string, bool) {
	p := c.ByPath[g.Pkg.Pkg.Path()]
	if p == nil {
		return "", false
	}
	for _, fn := range c.RepoFuncs() {
		if fn.Synthetic == "package initializer" {
			continue
		}
		for _, b := range fn.Blocks {
			for _, ins := range b.Instrs {
				if st, ok := ins.(*ssa.Store); ok && st.Addr == ssa.Value(g) {
					return "", false
				}
			}
		}
	}
	for _, f := range p.Syntax {
		for _, d := range f.Decls {
			gd, ok := d.(*ast.GenDecl)
			if !ok || gd.Tok != token.VAR {
				continue
			}
			for _, sp := range gd.Specs {
				vs := sp.(*ast.ValueSpec)
				for i, n := range vs.Names {
					if n.Name != g.Name() || i >= len(vs.Values) {
						continue
					}
					call, ok := vs.Values[i].(*ast.CallExpr)
					if !ok || len(call.Args) != 1 {
						return "", false
					}
					sel, ok := call.Fun.(*ast.SelectorExpr)
					if !ok || (sel.Sel.Name != "MustCompile") {
						return "", false
					}
					if obj, ok := p.TypesInfo.Uses[sel.Sel].(*types.Func); !ok || obj.Pkg() == nil || obj.Pkg().Path() != "regexp" {
						return "", false
					}
					tv, ok := p.TypesInfo.Types[call.Args[0]]
					if !ok || tv.Value == nil || tv.Value.Kind() != constant.String {
						return "", false
					}
					return constant.StringVal(tv.Value), true
				}
			}
		}
	}
	return "", false
}

// quoteSafePattern: the pattern matches only whole strings (^…$) made of characters other than ' " \ .
func quoteSafePattern(pat string) bool {
	re, err := syntax.Parse(pat, syntax.Perl)
	if err != nil {
		return false
	}
	if re.Op != syntax.OpConcat || len(re.Sub) < 2 {
		return false
	}
	if re.Sub[0].Op != syntax.OpBeginText || re.Sub[len(re.Sub)-1].Op != syntax.OpEndText {
		return false
	}
	bad := []rune{'\'', '"', '\\', ';', '-' - '-' + 0}
	bad = bad[:3]
	var ok func(r *syntax.Regexp) bool
	ok = func(r *syntax.Regexp) bool {
		switch r.Op {
		case syntax.OpLiteral:
			for _, ch := range r.Rune {
				for _, b := range bad {
					if ch == b {
						return false
					}
				}
			}
			return true
		case syntax.OpCharClass:
			for i := 0; i+1 < len(r.Rune); i += 2 {
				for _, b := range bad {
					if r.Rune[i] <= b && b <= r.Rune[i+1] {
						return false
					}
				}
				if r.Rune[i+1]-r.Rune[i] > 0x400 {
					return false // negated / very wide class
				}
			}
			return true
		case syntax.OpAnyChar, syntax.OpAnyCharNotNL:
			return false
		case syntax.OpBeginText, syntax.OpEndText, syntax.OpEmptyMatch:
			return true
		case syntax.OpBeginLine, syntax.OpEndLine:
			return false // would allow a newline-separated tail
		case syntax.OpCapture, syntax.OpStar, syntax.OpPlus, syntax.OpQuest, syntax.OpRepeat, syntax.OpConcat, syntax.OpAlternate:
			for _, s := range r.Sub {
				if !ok(s) {
					return false
				}
			}
			return true
		}
		return false
	}
	for _, s := range re.Sub[1 : len(re.Sub)-1] {
		if !ok(s) {
			return false
		}
	}
	return true
}

func init() { _ = strings.Contains }

func isByteOrRune(t types.Type) bool {
	b, ok := t.Underlying().(*types.Basic)
	return ok && (b.Kind() == types.Uint8 || b.Kind() == types.Int32)
}
