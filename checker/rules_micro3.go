package main

// Structural rules added after the third micro-mutation wave.

import (
	"fmt"
	"go/token"
	"go/types"
	"os"
	"path/filepath"
	"sort"
	"strings"

	"golang.org/x/tools/go/ssa"
)

// firstInstance: the function itself when it is not generic, otherwise its smallest ground instance.
func (c *Ctx) firstInstance(pkg, name string) *ssa.Function {
	var best, generic *ssa.Function
	defer func() {}()
	for f := range c.AllFns {
		o := origin(f)
		if fnPkgPath(o) != pkg || len(f.Blocks) == 0 {
			continue
		}
		n := o.Name()
		if r := recvTypeName(o); r != "" {
			n = r + "." + n
		}
		if n != name || f.Parent() != nil {
			continue
		}
		if f == o && o.TypeParams().Len() > 0 {
			generic = f // the generic body: used only when the program instantiates it nowhere
			continue
		}
		if f != o && !isGroundInstance(f) {
			continue
		}
		if best == nil || f.String() < best.String() {
			best = f
		}
	}
	if best == nil {
		return generic
	}
	return best
}

// R02h — `not world` is a negation.
//
// The accounts handed to the lock are ResolveResources' results filtered by collectionutils.FilterNot(FilterEq("world")).
// FilterNot must return the negation of its argument: every return of its closure is `!` of a call of the captured
// predicate (without the negation the lock request names only `world`: no real account is locked).
func ruleFilterNotNegates(c *Ctx, rule string) {
	fn := c.firstInstance(libsPath+"/collectionutils", "FilterNot")
	key := "collectionutils.FilterNot:returns-the-negation"
	if fn == nil {
		c.undecided(rule, key, token.NoPos, "collectionutils.FilterNot not found")
		return
	}
	c.seeFn(fn)
	var lit *ssa.Function
	for _, af := range fn.AnonFuncs {
		lit = af
	}
	if lit == nil || len(fn.AnonFuncs) != 1 {
		c.undecided(rule, key, fn.Pos(), "FilterNot does not return one function literal: the shape this rule reads changed")
		return
	}
	ok, n := true, 0
	for _, b := range lit.Blocks {
		ret, isRet := b.Instrs[len(b.Instrs)-1].(*ssa.Return)
		if !isRet || len(ret.Results) != 1 {
			continue
		}
		n++
		u, isNot := ret.Results[0].(*ssa.UnOp)
		if !isNot || u.Op != token.NOT {
			ok = false
			continue
		}
		call, isCall := u.X.(*ssa.Call)
		if !isCall {
			ok = false
			continue
		}
		if _, fromCapture := call.Call.Value.(*ssa.FreeVar); !fromCapture {
			if ld, isLd := call.Call.Value.(*ssa.UnOp); !isLd || ld.Op != token.MUL {
				ok = false
			}
		}
	}
	if ok && n > 0 {
		c.ok(rule, key, lit.Pos(), "the returned predicate is `!` of the predicate it was given")
	} else {
		c.bad(rule, key, lit.Pos(), "collectionutils.FilterNot does not return the negation of its argument: the lock request built with FilterNot(FilterEq(\"world\")) keeps only `world` — no real account is locked, racing spends are not serialised")
	}
}

// R04h — the in-memory store finds a record by the identity it was asked for.
//
// In package internal/storage (the in-memory store the engine tests and the posting-mode machinery run on): the result
// of a big.Int Cmp used to select a record is compared with 0 by == or != only (an order comparison selects the oldest
// record instead of the one named), and a function that filters a collection and takes element 0 takes it from the
// filtered result, not from the collection.
func ruleInMemoryIdentityLookups(c *Ctx, rule string) {
	pkg := modPath + "/internal/storage"
	nCmp, nIdx := 0, 0
	var fns []*ssa.Function
	for _, fn := range c.FuncsIn(pkg) {
		if len(fn.Blocks) > 0 && !strings.HasSuffix(c.Fset.Position(fn.Pos()).Filename, "_test.go") {
			fns = append(fns, fn)
		}
	}
	sort.Slice(fns, func(i, j int) bool { return fns[i].Pos() < fns[j].Pos() })
	for _, fn := range fns {
		k := 0
		filters := false
		allCalls(fn, func(ci ssa.CallInstruction) {
			if g := staticCallee(ci); g != nil && origName(g) == "Filter" && fnPkgPath(origin(g)) == libsPath+"/collectionutils" {
				filters = true
			}
		})
		for _, b := range fn.Blocks {
			for _, ins := range b.Instrs {
				switch x := ins.(type) {
				case *ssa.Call:
					if calleeFullName(x) != "(*math/big.Int).Cmp" {
						continue
					}
					for _, r := range *x.Referrers() {
						bo, ok := r.(*ssa.BinOp)
						if !ok {
							continue
						}
						if z, isC := constInt(bo.Y); !isC || z != 0 {
							continue
						}
						nCmp++
						k++
						c.seeFn(fn)
						key := fmt.Sprintf("%s:id-comparison#%d:is-an-equality", fnName(fn), k)
						if bo.Op == token.EQL || bo.Op == token.NEQ {
							c.ok(rule, key, bo.Pos(), "the identifier is compared for equality")
						} else {
							c.bad(rule, key, bo.Pos(), fmt.Sprintf("a record is selected by `Cmp(…) %s 0`: every record with a smaller (or larger) identifier matches and the first one is taken — the wrong transaction is read, reverted or flagged", bo.Op))
						}
					}
				case *ssa.IndexAddr:
					if !filters {
						continue
					}
					if _, isSlice := x.X.Type().Underlying().(*types.Slice); !isSlice {
						continue // the array behind a variadic argument
					}
					if z, isC := constInt(x.Index); !isC || z != 0 {
						continue
					}
					nIdx++
					c.seeFn(fn)
					key := fmt.Sprintf("%s:first-match#%d:taken-from-the-filtered-result", fnName(fn), nIdx)
					fromFilter := false
					for _, r := range roots(x.X, nil) {
						if call, ok := r.(*ssa.Call); ok {
							if g := staticCallee(call); g != nil && (origName(g) == "Filter" || inRepo(fnPkgPath(origin(g)))) {
								fromFilter = true
							}
						}
					}
					if fromFilter {
						c.ok(rule, key, x.Pos(), "element 0 of the filtered result")
					} else {
						c.bad(rule, key, x.Pos(), fnName(fn)+" filters a collection but takes element 0 of something else (the unfiltered collection): whatever identifier is asked for, the first record is returned")
					}
				}
			}
		}
	}
	if nCmp < 1 {
		c.undecided(rule, "floor:id-comparisons", token.NoPos, fmt.Sprintf("expected at least 1 identifier comparison in the in-memory store (GetTransaction, the revert flag), found %d", nCmp))
	}
}

// R05l — the allocation switch says what the log is.
//
// executionContext.appendLog is told whether the log consumes a transaction id and is given the function that builds
// the log from that id. At every call site with a constant switch: `true` goes with a builder that uses the id it is
// given (or is handed down from the caller), `false` with a builder that ignores it. A metadata log appended with
// `true` consumes an id no transaction will carry.
func ruleAllocationSwitchMatchesBuilder(c *Ctx, rule string) {
	n := 0
	var fns []*ssa.Function
	for _, fn := range c.FuncsIn(pkgCommand) {
		if len(fn.Blocks) > 0 && !strings.HasSuffix(c.Fset.Position(fn.Pos()).Filename, "_test.go") {
			fns = append(fns, fn)
		}
	}
	sort.Slice(fns, func(i, j int) bool { return fns[i].Pos() < fns[j].Pos() })
	isBuilder := func(t types.Type) bool {
		sig, ok := t.Underlying().(*types.Signature)
		if !ok || sig.Params().Len() != 1 || sig.Results().Len() != 1 {
			return false
		}
		pt, ok := sig.Params().At(0).Type().(*types.Pointer)
		if !ok || !isNamed(pt.Elem(), "math/big", "Int") {
			return false
		}
		rt, ok := sig.Results().At(0).Type().(*types.Pointer)
		return ok && isNamed(rt.Elem(), pkgLedger, "Log")
	}
	for _, fn := range fns {
		k := 0
		allCalls(fn, func(ci ssa.CallInstruction) {
			g := staticCallee(ci)
			if g == nil || fnPkgPath(origin(g)) != pkgCommand {
				return
			}
			var flag, builder ssa.Value
			for i, a := range ci.Common().Args {
				if i >= len(g.Params) {
					break
				}
				if b, ok := g.Params[i].Type().Underlying().(*types.Basic); ok && b.Kind() == types.Bool {
					flag = a
				}
				if isBuilder(g.Params[i].Type()) {
					builder = a
				}
			}
			if flag == nil || builder == nil {
				return
			}
			alloc, isC := constBool(flag)
			if !isC {
				return
			}
			n++
			k++
			c.seeFn(fn)
			key := fmt.Sprintf("%s:append#%d:switch-matches-builder", fnName(fn), k)
			lit := closureOf(strip(builder), 0)
			if lit == nil {
				// an adapter of the package that returns the literal (`constantLog(log)`)
				if call, isCall := strip(builder).(*ssa.Call); isCall {
					if h := staticCallee(call); h != nil && len(h.Blocks) > 0 && fnPkgPath(origin(h)) == pkgCommand {
						for _, hb := range h.Blocks {
							if ret, ok := hb.Instrs[len(hb.Instrs)-1].(*ssa.Return); ok && len(ret.Results) == 1 {
								if f := closureOf(strip(ret.Results[0]), 0); f != nil {
									lit = f
								}
							}
						}
					}
				}
			}
			switch {
			case lit == nil && alloc:
				c.ok(rule, key, ci.Pos(), "allocating append of a builder handed down by the caller")
			case lit == nil:
				c.undecided(rule, key, ci.Pos(), "a non-allocating append of a builder that is not a literal of this function")
			default:
				uses := len(lit.Params) > 0 && len(*lit.Params[len(lit.Params)-1].Referrers()) > 0
				if uses == alloc {
					c.ok(rule, key, ci.Pos(), fmt.Sprintf("allocate=%v and the builder %s the id", alloc, map[bool]string{true: "uses", false: "ignores"}[uses]))
				} else if alloc {
					c.bad(rule, key, ci.Pos(), "a log whose builder ignores the transaction id is appended with the allocation switch set: a log that carries no transaction (set / delete metadata) consumes a transaction id, the ids of the transactions are no longer consecutive")
				} else {
					c.bad(rule, key, ci.Pos(), "a log built from the transaction id is appended without allocating that id: the next transaction gets the same id")
				}
			}
		})
	}
	if n < 2 {
		c.undecided(rule, "floor:appends-with-a-switch", token.NoPos, fmt.Sprintf("expected at least 2 appends with a constant allocation switch (AppendLog, AppendTransactionLog), found %d", n))
	}
}

// R06j — the transaction wrapper of the store hands the callback's error on.
//
// ledgerstore.Store.withTransaction (everything InsertLogs does runs inside it) and the function literal it gives to
// RunInTx: no call that returns an error has its result discarded, and each returns an error derived from the call it
// wraps. A swallowed error commits the (partial) transaction and reports success: the batch is acknowledged.
func ruleTxWrapperPropagates(c *Ctx, rule string) {
	fn := c.MustFn(rule, pkgLedgerstore, "Store.withTransaction")
	if fn == nil {
		return
	}
	parts := append([]*ssa.Function{fn}, fn.AnonFuncs...)
	for i, part := range parts {
		c.seeFn(part)
		key := fmt.Sprintf("Store.withTransaction#%d:error-handed-on", i)
		bad := ""
		var pos token.Pos = part.Pos()
		allCalls(part, func(ci ssa.CallInstruction) {
			v, isVal := ci.(ssa.Value)
			if !isVal {
				return
			}
			res := ci.Common().Signature().Results()
			if res.Len() == 0 || !isErrorType(res.At(res.Len()-1).Type()) {
				return
			}
			if len(*v.Referrers()) == 0 {
				bad, pos = "the error returned by "+calleeFullName(ci)+" is discarded", ci.Pos()
			}
		})
		for _, b := range part.Blocks {
			ret, ok := b.Instrs[len(b.Instrs)-1].(*ssa.Return)
			if !ok || len(ret.Results) == 0 {
				continue
			}
			last := ret.Results[len(ret.Results)-1]
			if isNilConst(last) {
				// allowed only behind a nil test of an error
				guarded := false
				for _, p := range b.Preds {
					if iff, ok := p.Instrs[len(p.Instrs)-1].(*ssa.If); ok {
						if bo, ok := iff.Cond.(*ssa.BinOp); ok && (isNilConst(bo.X) || isNilConst(bo.Y)) {
							guarded = true
						}
					}
				}
				if !guarded {
					bad, pos = "it returns a nil error unconditionally", ret.Pos()
				}
			}
		}
		if bad == "" {
			c.ok(rule, key, part.Pos(), "every error is returned to the caller")
		} else {
			c.bad(rule, key, pos, "in the store's transaction wrapper "+bad+": a failed insert commits what was written so far and reports success — the batch is acknowledged although it was not persisted")
		}
	}
}

// openapiText: the OpenAPI document of the repository (the documented interface the code is compared with).
func (c *Ctx) openapiText() string {
	b, err := os.ReadFile(filepath.Join(c.Repo, "openapi.yaml"))
	if err != nil {
		return ""
	}
	return string(b)
}

// R07k — every API version reads the idempotency key from the documented header.
//
// The header names given to Header.Get in the functions of internal/api that fill command.Parameters.IdempotencyKey
// are one and the same constant across versions, and that constant is a header parameter of the OpenAPI document.
func ruleIdempotencyHeaderAgrees(c *Ctx, rule string) {
	fIK := c.Field(pkgCommand, "Parameters", "IdempotencyKey")
	if fIK == nil {
		c.undecided(rule, "anchor:Parameters.IdempotencyKey", token.NoPos, "not found")
		return
	}
	type site struct {
		fn   *ssa.Function
		name string
		pos  token.Pos
	}
	var sites []site
	var fns []*ssa.Function
	for _, fn := range c.RepoFuncs() {
		if strings.HasPrefix(fnPkgPath(origin(fn)), modPath+"/internal/api") && len(fn.Blocks) > 0 && fn.Synthetic == "" &&
			!strings.HasSuffix(c.Fset.Position(fn.Pos()).Filename, "_test.go") {
			fns = append(fns, fn)
		}
	}
	sort.Slice(fns, func(i, j int) bool { return fns[i].Pos() < fns[j].Pos() })
	for _, fn := range fns {
		for _, b := range fn.Blocks {
			for _, ins := range b.Instrs {
				v, _, ok := storeToField(ins, fIK)
				if !ok {
					continue
				}
				for _, r := range roots(v, nil) {
					call, ok := r.(*ssa.Call)
					if !ok || calleeFullName(call) != "(net/http.Header).Get" {
						continue
					}
					k := call.Call.Args[len(call.Call.Args)-1]
					if p, isP := k.(*ssa.Parameter); isP {
						// a shared reader given the name: the constants its callers pass
						for _, cs := range c.CallersOf(fn) {
							if i := paramIndex(p); i >= 0 && i < len(cs.Common().Args) {
								if s, ok := constString(cs.Common().Args[i]); ok {
									sites = append(sites, site{cs.Parent(), s, cs.Pos()})
								}
							}
						}
						continue
					}
					if s, ok := constString(k); ok {
						sites = append(sites, site{fn, s, call.Pos()})
					}
				}
			}
		}
	}
	if len(sites) == 0 {
		c.undecided(rule, "floor:header-readers", token.NoPos, "no function of internal/api fills Parameters.IdempotencyKey from a request header")
		return
	}
	doc := c.openapiText()
	for i, s := range sites {
		c.seeFn(s.fn)
		key := fmt.Sprintf("%s:idempotency-header#%d", fnName(s.fn), i+1)
		switch {
		case s.name != sites[0].name:
			c.bad(rule, key, s.pos, fmt.Sprintf("the API versions read the idempotency key from different headers (%q here, %q in %s): a client that sends the documented header gets no idempotency from one of them", s.name, sites[0].name, fnName(sites[0].fn)))
		case doc != "" && !strings.Contains(doc, "name: "+s.name+"\n"):
			c.bad(rule, key, s.pos, fmt.Sprintf("the idempotency key is read from header %q, which the OpenAPI document of the repository does not declare: requests that send the documented header are executed without a key", s.name))
		default:
			c.ok(rule, key, s.pos, "read from header "+s.name+", the one every version reads and the OpenAPI document declares")
		}
	}
}

// R08l — syntax errors are collected from the lexer and from the parser.
//
// In the function that builds the ANTLR pipeline (CompileFull): every recognizer created by a constructor of the
// generated parser package (lexer, parser) is given the compiler's collecting error listener. Without it on the lexer,
// characters outside the alphabet are skipped silently and a text the language rejects compiles.
func ruleRecognizersReportErrors(c *Ctx, rule string) {
	pkgParser := modPath + "/internal/machine/script/parser"
	n := 0
	for _, fn := range c.FuncsIn(pkgCompiler) {
		if len(fn.Blocks) == 0 || strings.HasSuffix(c.Fset.Position(fn.Pos()).Filename, "_test.go") {
			continue
		}
		allCalls(fn, func(ci ssa.CallInstruction) {
			call, ok := ci.(*ssa.Call)
			if !ok {
				return
			}
			g := staticCallee(call)
			if g == nil || fnPkgPath(origin(g)) != pkgParser || !strings.HasPrefix(g.Name(), "New") {
				return
			}
			hasAdd := false
			ms := types.NewMethodSet(call.Type())
			for i := 0; i < ms.Len(); i++ {
				if ms.At(i).Obj().Name() == "AddErrorListener" {
					hasAdd = true
				}
			}
			if !hasAdd {
				return
			}
			n++
			c.seeFn(fn)
			key := fmt.Sprintf("%s:%s:collecting-listener-installed", fnName(fn), g.Name())
			installed := false
			// AddErrorListener is promoted from an embedded base recognizer: walk the receiver back to the value it
			// is a part of
			allCalls(fn, func(uc ssa.CallInstruction) {
				name := ""
				if uc.Common().IsInvoke() {
					name = uc.Common().Method.Name()
				} else if h := staticCallee(uc); h != nil {
					name = h.Name()
				}
				if name != "AddErrorListener" || len(uc.Common().Args) == 0 {
					return
				}
				recv := uc.Common().Args[0]
				if uc.Common().IsInvoke() {
					recv = uc.Common().Value
				}
				for i := 0; i < 8; i++ {
					switch x := recv.(type) {
					case *ssa.UnOp:
						recv = x.X
						continue
					case *ssa.FieldAddr:
						recv = x.X
						continue
					case *ssa.Field:
						recv = x.X
						continue
					case *ssa.MakeInterface:
						recv = x.X
						continue
					}
					break
				}
				if recv != ssa.Value(call) {
					return
				}
				for _, a := range uc.Common().Args {
					for _, ar := range roots(a, nil) {
						if pt, ok := ar.Type().(*types.Pointer); ok && isNamed(pt.Elem(), pkgCompiler, "ErrorListener") {
							installed = true
						}
					}
				}
			})
			if installed {
				c.ok(rule, key, call.Pos(), "the recognizer reports to the compiler's ErrorListener")
			} else {
				c.bad(rule, key, call.Pos(), "the recognizer built by "+g.Name()+" is not given the compiler's collecting error listener: its errors are dropped (for the lexer: unknown characters are skipped) and a text the language rejects is compiled and run")
			}
		})
	}
	if n < 2 {
		c.undecided(rule, "floor:recognizers", token.NoPos, fmt.Sprintf("expected the lexer and the parser to be built in package compiler, found %d recognizers", n))
	}
}

// R11h — what is released is what was taken.
//
// Every call of Referencer.release in package command names the kind and the key of a Referencer.take made in the same
// function (or in the function the literal is nested in): releasing another kind frees a reservation some other
// request holds.
func ruleReleaseMatchesTake(c *Ctx, rule string) {
	take := c.Fn(pkgCommand, "Referencer.take")
	release := c.Fn(pkgCommand, "Referencer.release")
	if take == nil || release == nil {
		c.undecided(rule, "anchor:Referencer", token.NoPos, "Referencer.take / release not found")
		return
	}
	n := 0
	for _, fn := range c.FuncsIn(pkgCommand) {
		if len(fn.Blocks) == 0 || strings.HasSuffix(c.Fset.Position(fn.Pos()).Filename, "_test.go") {
			continue
		}
		// the takes of the package (a phase object may take in one method and release in another)
		var takes [][]ssa.Value
		for _, sf := range c.FuncsIn(pkgCommand) {
			if sf == take || sf == release {
				continue
			}
			allCalls(sf, func(ci ssa.CallInstruction) {
				if callsFn(ci, take) {
					takes = append(takes, ci.Common().Args)
				}
			})
		}
		k := 0
		allCalls(fn, func(ci ssa.CallInstruction) {
			if !callsFn(ci, release) {
				return
			}
			n++
			k++
			c.seeFn(fn)
			key := fmt.Sprintf("%s:release#%d:names-what-was-taken", fnName(fn), k)
			args := ci.Common().Args
			same := func(a, b ssa.Value) bool {
				a, b = normCaptured(strip(a)), normCaptured(strip(b))
				if a == b {
					return true
				}
				ka, oka := a.(*ssa.Const)
				kb, okb := b.(*ssa.Const)
				if oka && okb && ka.Value != nil && kb.Value != nil {
					return ka.Value.ExactString() == kb.Value.ExactString()
				}
				fa, _ := anyFieldRead(a)
				fb, _ := anyFieldRead(b)
				if fa != nil && fb != nil {
					return sameField(fa, fb)
				}
				// parameters and other opaque values: not comparable across functions, accepted
				_, ca := a.(*ssa.Const)
				_, cb := b.(*ssa.Const)
				return !ca && !cb && (fa == nil) == (fb == nil)
			}
			ok := false
			for _, t := range takes {
				if len(t) == len(args) && len(args) >= 3 && same(t[1], args[1]) && same(t[2], args[2]) {
					ok = true
				}
			}
			// a release that names its kind through a value (a reservation object remembering what it was taken
			// with, a wrapper's parameter) is decided where that value is bound, not here
			if _, kindIsConst := strip(args[1]).(*ssa.Const); !kindIsConst && len(args) >= 3 {
				ok = true
			}
			if ok {
				c.ok(rule, key, ci.Pos(), "same kind and key as a take of this function")
			} else {
				c.bad(rule, key, ci.Pos(), "a reservation is released under a kind or key that this function did not take: the reservation of another request (a transaction reference in flight) is freed and a duplicate gets through, while the one that was taken stays held")
			}
		})
	}
	if n < 2 {
		c.undecided(rule, "floor:releases", token.NoPos, fmt.Sprintf("expected at least 2 release calls in package command, found %d", n))
	}
}

// R15h — the list is searched for the value asked for; releasing walks every account.
func ruleLockListDetails(c *Ctx, rule string) {
	pkgCU := libsPath + "/collectionutils"
	if rv := c.firstInstance(pkgCU, "LinkedList.RemoveValue"); rv != nil && len(rv.AnonFuncs) == 1 {
		lit := rv.AnonFuncs[0]
		c.seeFn(rv)
		key := "LinkedList.RemoveValue:matches-equal-values"
		ok, n := true, 0
		for _, b := range lit.Blocks {
			if ret, isRet := b.Instrs[len(b.Instrs)-1].(*ssa.Return); isRet && len(ret.Results) == 1 {
				n++
				bo, isBo := ret.Results[0].(*ssa.BinOp)
				if !isBo || bo.Op != token.EQL {
					ok = false
					continue
				}
				// one side is the literal's own parameter, the other the value RemoveValue was given
				fromParam := func(v ssa.Value) bool {
					for _, r := range roots(v, nil) {
						if p, isP := r.(*ssa.Parameter); isP && p.Parent() == lit {
							return true
						}
					}
					return false
				}
				if fromParam(bo.X) == fromParam(bo.Y) {
					ok = false
				}
			}
		}
		if ok && n > 0 {
			c.ok(rule, key, lit.Pos(), "the predicate is an equality with the value to remove")
		} else {
			c.bad(rule, key, lit.Pos(), "LinkedList.RemoveValue does not look for the value it is given (its predicate is not an equality): a cancelled request removes another waiter from the queue and stays queued itself")
		}
	} else {
		c.undecided(rule, "LinkedList.RemoveValue:matches-equal-values", token.NoPos, "RemoveValue with one predicate literal not found")
	}
	// the function that gives the accounts back: its loops are left only when exhausted
	m := c.lockModel(rule)
	if m == nil || m.unlock == nil {
		c.undecided(rule, "unlock:walks-every-account", token.NoPos, "the function that releases the accounts was not found")
		return
	}
	c.seeFn(m.unlock)
	nLoops := 0
	var bad token.Pos
	var sccs [][]*ssa.BasicBlock
	for _, part := range append([]*ssa.Function{m.unlock}, packageHelpersOf(m.unlock, pkgCommand)...) {
		sccs = append(sccs, cfgSCCs(part)...)
	}
	for _, scc := range sccs {
		in := map[*ssa.BasicBlock]bool{}
		for _, b := range scc {
			in[b] = true
		}
		nLoops++
		for _, b := range scc {
			for _, s := range b.Succs {
				if !in[s] && !isRangeTest(b) {
					bad = b.Instrs[len(b.Instrs)-1].Pos()
					if !bad.IsValid() {
						bad = m.unlock.Pos()
					}
				}
			}
		}
	}
	switch {
	case nLoops == 0:
		c.undecided(rule, "unlock:walks-every-account", m.unlock.Pos(), "no loop in the releasing function")
	case bad.IsValid():
		c.bad(rule, "unlock:walks-every-account", bad, "a loop of the function that gives the accounts back is left before all accounts were visited (break / return inside): the accounts behind that point stay locked, requests waiting for them are never granted")
	default:
		c.ok(rule, "unlock:walks-every-account", m.unlock.Pos(), fmt.Sprintf("%d loops, each left only when its range is exhausted", nLoops))
	}
}

// R17i — hasMore says whether there is a next page.
//
// In the paginators of bunpaginate, the value stored into Cursor.HasMore is `next != nil` of the very pointer whose
// encoding is stored into Cursor.Next, or a boolean that was used to decide whether that pointer is set.
func ruleHasMoreMeansNext(c *Ctx, rule string) {
	pkg := libsPath + "/bun/bunpaginate"
	n := 0
	for _, name := range []string{"UsingOffset", "UsingColumn"} {
		fn := c.firstInstance(pkg, name)
		if fn == nil {
			continue
		}
		parts := append([]*ssa.Function{fn}, packageHelpersOf(fn, pkg)...)
		for _, part := range parts {
			for _, b := range part.Blocks {
				for _, ins := range b.Instrs {
					al, ok := ins.(*ssa.Alloc)
					if !ok || !isCursorType(al.Type()) {
						continue
					}
					var hasMore, next ssa.Value
					st, _ := al.Type().Underlying().(*types.Pointer).Elem().Underlying().(*types.Struct)
					for _, r := range *al.Referrers() {
						fa, ok := r.(*ssa.FieldAddr)
						if !ok || st == nil {
							continue
						}
						for _, r2 := range *fa.Referrers() {
							if s, ok := r2.(*ssa.Store); ok && s.Addr == ssa.Value(fa) {
								switch st.Field(fa.Field).Name() {
								case "HasMore":
									hasMore = s.Val
								case "Next":
									next = s.Val
								}
							}
						}
					}
					if hasMore == nil || next == nil {
						continue
					}
					if part != fn {
						// the cursor is assembled by a helper: its parameters are what the paginator passes
						bind := func(v ssa.Value) ssa.Value {
							p, ok := v.(*ssa.Parameter)
							if !ok {
								return v
							}
							res := v
							allCalls(fn, func(ci ssa.CallInstruction) {
								if g := staticCallee(ci); g == part {
									if i := paramIndex(p); i >= 0 && i < len(ci.Common().Args) {
										res = ci.Common().Args[i]
									}
								}
							})
							return res
						}
						hasMore, next = bind(hasMore), bind(next)
					}
					n++
					c.seeFn(part)
					key := name + ":hasMore-iff-next"
					// the pointer encoded into Next
					var nextPtr ssa.Value
					if call, ok := next.(*ssa.Call); ok && len(call.Call.Args) > 0 {
						nextPtr = call.Call.Args[0]
					}
					ok2 := false
					if bo, isBo := hasMore.(*ssa.BinOp); isBo && bo.Op == token.NEQ && nextPtr != nil {
						if (bo.X == nextPtr && isNilConst(bo.Y)) || (bo.Y == nextPtr && isNilConst(bo.X)) {
							ok2 = true
						}
					}
					if !ok2 && nextPtr != nil {
						// a boolean that also decides whether the pointer is set: it is the condition of the branch that
						// assigns the non-nil value of the phi
						if phi, isPhi := nextPtr.(*ssa.Phi); isPhi {
							for i, e := range phi.Edges {
								if isNilConst(e) {
									continue
								}
								for _, p := range phi.Block().Preds[i : i+1] {
									for q := p; q != nil; q = q.Idom() {
										if iff, ok := q.Instrs[len(q.Instrs)-1].(*ssa.If); ok && iff.Cond == hasMore {
											ok2 = true
										}
									}
								}
							}
						}
					}
					if ok2 {
						c.ok(rule, key, al.Pos(), "Cursor.HasMore is true exactly when a next cursor is encoded")
					} else if _, isBo := hasMore.(*ssa.BinOp); isBo {
						c.bad(rule, key, al.Pos(), name+" computes Cursor.HasMore from something else than the presence of the next cursor (for instance the length of the page after the look-ahead row was trimmed): hasMore is false while a next token exists, a client that walks while hasMore stops after the first page")
					} else {
						c.undecided(rule, key, al.Pos(), "Cursor.HasMore is not `next != nil` nor the condition under which next is set")
					}
				}
			}
		}
	}
	if n == 0 {
		c.undecided(rule, "floor:cursors-built", token.NoPos, "no paginator of bunpaginate builds a cursor with HasMore and Next")
	}
}

// packageHelpersOf: the functions of pkg that fn calls statically (one level).
func packageHelpersOf(fn *ssa.Function, pkg string) []*ssa.Function {
	seen := map[*ssa.Function]bool{fn: true}
	var out []*ssa.Function
	work := []*ssa.Function{fn}
	for depth := 0; depth < 3 && len(work) > 0; depth++ {
		var next []*ssa.Function
		for _, f := range work {
			allCalls(f, func(ci ssa.CallInstruction) {
				if g := staticCallee(ci); g != nil && len(g.Blocks) > 0 && fnPkgPath(origin(g)) == pkg && !seen[g] {
					seen[g] = true
					out = append(out, g)
					next = append(next, g)
				}
			})
		}
		work = next
	}
	return out
}

// R18j — the keys of a bulk element are the documented ones.
//
// The json keys of v2.Element (the envelope of one bulk element) that the OpenAPI document declares for
// V2BaseBulkElement are the keys the struct reads: a renamed tag makes the server ignore what clients send under the
// documented name (an element's `ik` ignored: the element is executed without its idempotency key).
func ruleBulkElementKeysDocumented(c *Ctx, rule string) {
	el := c.Named(pkgV2, "Element")
	doc := c.openapiText()
	if el == nil || doc == "" {
		c.undecided(rule, "anchor:Element/openapi", token.NoPos, "v2.Element or openapi.yaml not found")
		return
	}
	i := strings.Index(doc, "\n    V2BaseBulkElement:\n")
	if i < 0 {
		c.undecided(rule, "anchor:V2BaseBulkElement", token.NoPos, "schema V2BaseBulkElement not found in openapi.yaml")
		return
	}
	block := doc[i+1:]
	if j := strings.Index(block[10:], "\n    V2"); j >= 0 {
		block = block[:j+10]
	}
	var documented []string
	inProps := false
	for _, line := range strings.Split(block, "\n") {
		switch {
		case strings.HasPrefix(line, "      properties:"):
			inProps = true
		case inProps && strings.HasPrefix(line, "        ") && !strings.HasPrefix(line, "         ") && strings.HasSuffix(strings.TrimSpace(line), ":"):
			documented = append(documented, strings.TrimSuffix(strings.TrimSpace(line), ":"))
		case inProps && !strings.HasPrefix(line, "        "):
			inProps = false
		}
	}
	keys := jsonKeysOf(el)
	for _, d := range documented {
		key := "v2.Element:reads-documented-key:" + d
		if _, ok := keys[strings.ToLower(d)]; ok {
			c.ok(rule, key, el.Obj().Pos(), "the struct has a field for the documented key")
		} else {
			c.bad(rule, key, el.Obj().Pos(), fmt.Sprintf("the OpenAPI document declares the key %q for every bulk element, v2.Element has no field that reads it: what clients send under the documented name is ignored", d))
		}
	}
	if len(documented) == 0 {
		c.undecided(rule, "floor:documented-keys", token.NoPos, "no property found under V2BaseBulkElement")
	}
}

// normCaptured: a variable captured by a function literal, or a local that is captured, seen as the value it holds:
// the free variable (or a load of the captured cell) becomes the single value stored into the cell by the enclosing
// function.
func normCaptured(v ssa.Value) ssa.Value {
	for i := 0; i < 4; i++ {
		switch x := v.(type) {
		case *ssa.UnOp:
			if x.Op != token.MUL {
				return v
			}
			switch cell := x.X.(type) {
			case *ssa.Alloc:
				if sv := singleStore(cell); sv != nil {
					v = strip(sv)
					continue
				}
			case *ssa.FreeVar:
				if b := freeVarBinding(cell); b != nil {
					if al, ok := b.(*ssa.Alloc); ok {
						if sv := singleStore(al); sv != nil {
							v = strip(sv)
							continue
						}
					}
				}
			}
			return v
		case *ssa.FreeVar:
			if b := freeVarBinding(x); b != nil {
				v = strip(b)
				continue
			}
			return v
		default:
			return v
		}
	}
	return v
}

func freeVarBinding(fv *ssa.FreeVar) ssa.Value {
	fn := fv.Parent()
	if fn == nil || fn.Parent() == nil {
		return nil
	}
	idx := -1
	for i, f := range fn.FreeVars {
		if f == fv {
			idx = i
		}
	}
	if idx < 0 {
		return nil
	}
	for _, b := range fn.Parent().Blocks {
		for _, ins := range b.Instrs {
			if mc, ok := ins.(*ssa.MakeClosure); ok && mc.Fn == ssa.Value(fn) && idx < len(mc.Bindings) {
				return mc.Bindings[idx]
			}
		}
	}
	return nil
}
