package main

// Fresh decoding targets (R09i / R18f). encoding/json decodes *into* its target: keys of an existing map are
// kept, elements of a reused slice are not zeroed. A request decoded inside a loop (the elements of a bulk)
// must therefore be decoded into a value allocated in that iteration; decoding into a value that outlives
// the iteration lets an element inherit metadata or postings of the elements before it (seed C09-2).
//
// Rule, for every function of internal/api/**: the target of each json.Unmarshal / Decoder.Decode executed
// inside a loop is rooted at an allocation made inside the same loop (or at the result of a repository
// function that returns a fresh allocation on every path).

import (
	"fmt"
	"sort"
	"go/token"
	"strings"

	"golang.org/x/tools/go/ssa"
)

// naturalLoops: head -> blocks of the loop.
func naturalLoops(fn *ssa.Function) map[*ssa.BasicBlock]map[*ssa.BasicBlock]bool {
	loops := map[*ssa.BasicBlock]map[*ssa.BasicBlock]bool{}
	for _, t := range fn.Blocks {
		for _, h := range t.Succs {
			if !h.Dominates(t) {
				continue
			}
			body := loops[h]
			if body == nil {
				body = map[*ssa.BasicBlock]bool{h: true}
				loops[h] = body
			}
			stack := []*ssa.BasicBlock{t}
			for len(stack) > 0 {
				b := stack[len(stack)-1]
				stack = stack[:len(stack)-1]
				if body[b] {
					continue
				}
				body[b] = true
				stack = append(stack, b.Preds...)
			}
		}
	}
	return loops
}

func freshAllocIn(c *Ctx, v ssa.Value, body map[*ssa.BasicBlock]bool, depth int) (bool, string) {
	if depth > 8 {
		return false, "provenance too deep"
	}
	switch x := v.(type) {
	case *ssa.MakeInterface:
		return freshAllocIn(c, x.X, body, depth+1)
	case *ssa.ChangeType:
		return freshAllocIn(c, x.X, body, depth+1)
	case *ssa.Alloc:
		if body[x.Block()] {
			return true, "allocated in the iteration"
		}
		return false, "a value allocated outside the loop (" + x.Comment + ")"
	case *ssa.FieldAddr:
		return freshAllocIn(c, x.X, body, depth+1)
	case *ssa.IndexAddr:
		return freshAllocIn(c, x.X, body, depth+1)
	case *ssa.Phi:
		for _, e := range x.Edges {
			if ok, why := freshAllocIn(c, e, body, depth+1); !ok {
				return false, why
			}
		}
		return true, "allocated in the iteration"
	case *ssa.UnOp:
		if x.Op == token.MUL {
			if a, ok := x.X.(*ssa.Alloc); ok {
				n := 0
				for _, r := range *a.Referrers() {
					if st, ok := r.(*ssa.Store); ok && st.Addr == ssa.Value(a) {
						n++
						if !body[st.Block()] {
							return false, "a pointer assigned outside the loop"
						}
						if ok, why := freshAllocIn(c, st.Val, body, depth+1); !ok {
							return false, why
						}
					}
				}
				if n > 0 {
					return true, "allocated in the iteration"
				}
			}
		}
		return false, "a loaded pointer"
	case *ssa.Call:
		if !body[x.Block()] {
			return false, "the result of a call made outside the loop"
		}
		callee := staticCallee(x)
		if callee != nil && inRepo(fnPkgPath(callee)) && len(callee.Blocks) > 0 {
			all := true
			for _, b := range callee.Blocks {
				if r, ok := b.Instrs[len(b.Instrs)-1].(*ssa.Return); ok && len(r.Results) > 0 {
					if a, ok := r.Results[0].(*ssa.Alloc); !ok || a.Parent() != callee {
						all = false
					}
				}
			}
			if all {
				return true, "returned fresh by " + callee.Name()
			}
			return false, "the result of " + fnName(callee) + ", which does not return a fresh allocation (it hands back an existing value)"
		}
		return false, "the result of " + calleeFullName(x)
	case *ssa.Parameter:
		return false, "a parameter"
	case *ssa.Extract:
		return false, "a call result"
	}
	return false, fmt.Sprintf("%T", v)
}

func ruleFreshDecode(c *Ctx, rule string) {
	nLoopDecodes, nDecodes := 0, 0
	for _, fn := range c.RepoFuncs() {
		pk := fnPkgPath(origin(fn))
		if !strings.HasPrefix(pk, modPath+"/internal/api") || len(fn.Blocks) == 0 {
			continue
		}
		if strings.HasSuffix(c.Fset.Position(fn.Pos()).Filename, "_test.go") {
			continue
		}
		var loops map[*ssa.BasicBlock]map[*ssa.BasicBlock]bool
		k := 0
		for _, b := range fn.Blocks {
			for _, ins := range b.Instrs {
				call, ok := ins.(*ssa.Call)
				if !ok {
					continue
				}
				name := calleeFullName(call)
				var target ssa.Value
				switch name {
				case "encoding/json.Unmarshal":
					target = call.Call.Args[1]
				case "(*encoding/json.Decoder).Decode":
					target = call.Call.Args[1]
				default:
					continue
				}
				nDecodes++
				if loops == nil {
					loops = naturalLoops(fn)
				}
				// innermost loop containing the call
				var body map[*ssa.BasicBlock]bool
				for _, bd := range loops {
					if bd[b] && (body == nil || len(bd) < len(body)) {
						body = bd
					}
				}
				if body == nil {
					continue
				}
				nLoopDecodes++
				k++
				ok2, why := freshAllocIn(c, target, body, 0)
				c.check(ok2, rule, fmt.Sprintf("%s:decode-target-fresh#%d", fnName(fn), k), call.Pos(), why,
					fmt.Sprintf("%s decodes JSON, inside a loop, into %s: encoding/json merges into an existing map and does not zero reused slice elements, so an element inherits fields of the elements decoded before it", fnName(fn), why))
			}
		}
	}
	// decodes made by helpers that a loop calls for each element (`handlerFor(action)(ctx, l, params, i, data)`): the
	// target must be allocated by the helper on that call, or be a parameter whose argument is fresh in the loop
	for _, fn := range c.RepoFuncs() {
		pk := fnPkgPath(origin(fn))
		if !strings.HasPrefix(pk, modPath+"/internal/api") || len(fn.Blocks) == 0 || fn.Synthetic != "" {
			continue
		}
		if strings.HasSuffix(c.Fset.Position(fn.Pos()).Filename, "_test.go") {
			continue
		}
		for _, body := range naturalLoopsSorted(fn) {
			for _, lr := range loopReached(c, body) {
				k := 0
				for _, b := range lr.fn.Blocks {
					for _, ins := range b.Instrs {
						call, ok := ins.(*ssa.Call)
						if !ok {
							continue
						}
						name := calleeFullName(call)
						if name != "encoding/json.Unmarshal" && name != "(*encoding/json.Decoder).Decode" {
							continue
						}
						target := call.Call.Args[1]
						nLoopDecodes++
						k++
						ok2, why := freshAllocIn(c, target, allBlocks(lr.fn), 0)
						if !ok2 {
							if prm := paramOrigin(target, lr.fn); prm != nil && lr.via == lr.site {
								if idx := paramIndex(prm); idx >= 0 && idx < len(lr.site.Call.Args) {
									ok2, why = freshAllocIn(c, lr.site.Call.Args[idx], body, 0)
								}
							}
						}
						c.check(ok2, rule, fmt.Sprintf("%s:decode-target-fresh#%d", fnName(lr.fn), k), call.Pos(), why+" (helper called once per element)",
							fmt.Sprintf("%s, called for each element of a loop, decodes JSON into %s: an element inherits fields of the elements decoded before it", fnName(lr.fn), why))
					}
				}
			}
		}
	}
	c.NSites += nDecodes
	if nLoopDecodes < 2 {
		c.undecided(rule, "floor:decodes-in-loops", token.NoPos, fmt.Sprintf("only %d JSON decodes inside loops found in internal/api (of %d decodes)", nLoopDecodes, nDecodes))
	}
}

// ---- R18g: no argument of an engine call made in a loop carries state from earlier iterations -------------
//
// Same family as the fresh decoding targets: a value handed to backend.Ledger inside a loop (the parameters of a
// bulk element: idempotency key, dry-run flag, the decoded request) must be built in that iteration. A local
// declared before the loop and assigned inside it (`parameters` hoisted, the key set only when the element has
// one) hands the previous element's key to the next element: that element is then answered from the other
// element's log instead of being executed.
func ruleLoopCarriedArgs(c *Ctx, rule string, floor int) {
	ledgerIface := c.Named(modPath+"/internal/api/backend", "Ledger")
	if ledgerIface == nil {
		c.undecided(rule, "anchor:backend.Ledger", token.NoPos, "interface not found")
		return
	}
	nCalls := 0
	for _, fn := range c.RepoFuncs() {
		pk := fnPkgPath(origin(fn))
		if !strings.HasPrefix(pk, modPath+"/internal/api") || len(fn.Blocks) == 0 || fn.Synthetic != "" {
			continue
		}
		if strings.HasSuffix(c.Fset.Position(fn.Pos()).Filename, "_test.go") {
			continue
		}
		loops := naturalLoops(fn)
		if len(loops) == 0 {
			continue
		}
		seen := map[string]int{}
		for _, b := range fn.Blocks {
			for _, ins := range b.Instrs {
				call, ok := ins.(*ssa.Call)
				if !ok || !call.Call.IsInvoke() || namedOf(call.Call.Value.Type()) != ledgerIface {
					continue
				}
				// innermost loop containing the call
				var body map[*ssa.BasicBlock]bool
				for _, lb := range loops {
					if lb[b] && (body == nil || len(lb) < len(body)) {
						body = lb
					}
				}
				if body == nil {
					continue
				}
				nCalls++
				c.seeFn(fn)
				key := fmt.Sprintf("%s:%s", fnName(fn), call.Call.Method.Name())
				seen[key]++
				if n := seen[key]; n > 1 {
					key = fmt.Sprintf("%s#%d", key, n)
				}
				bad := ""
				for ai, a := range call.Call.Args {
					if isNamed(a.Type(), "context", "Context") {
						continue
					}
					if why := carriedAcrossIterations(a, call, body, 0, map[ssa.Value]bool{}); why != "" {
						bad = fmt.Sprintf("argument %d of %s is %s", ai+1, call.Call.Method.Name(), why)
						break
					}
				}
				c.check(bad == "", rule, key+":arguments-built-in-the-iteration", call.Pos(),
					"no argument of the engine call reads a variable that outlives the iteration and is assigned in the loop",
					bad+": an element of the bulk is executed with values left by the elements before it (e.g. their idempotency key, so it is answered from their log instead of being executed)")
			}
		}
	}
	// engine calls made by helpers that the loop calls for each element: an argument that is a parameter of the helper is
	// what the loop passes for it
	for _, fn := range c.RepoFuncs() {
		pk := fnPkgPath(origin(fn))
		if !strings.HasPrefix(pk, modPath+"/internal/api") || len(fn.Blocks) == 0 || fn.Synthetic != "" {
			continue
		}
		if strings.HasSuffix(c.Fset.Position(fn.Pos()).Filename, "_test.go") {
			continue
		}
		for _, body := range naturalLoopsSorted(fn) {
			for _, lr := range loopReached(c, body) {
				seen := map[string]int{}
				for _, b := range lr.fn.Blocks {
					for _, ins := range b.Instrs {
						call, ok := ins.(*ssa.Call)
						if !ok || !call.Call.IsInvoke() || namedOf(call.Call.Value.Type()) != ledgerIface {
							continue
						}
						nCalls++
						c.seeFn(lr.fn)
						key := fmt.Sprintf("%s:%s", fnName(lr.fn), call.Call.Method.Name())
						seen[key]++
						if n := seen[key]; n > 1 {
							key = fmt.Sprintf("%s#%d", key, n)
						}
						bad := ""
						for ai, a := range call.Call.Args {
							if isNamed(a.Type(), "context", "Context") {
								continue
							}
							prm := paramOrigin(a, lr.fn)
							if prm == nil || lr.via != lr.site {
								continue // built by the helper on this call
							}
							idx := paramIndex(prm)
							if idx < 0 || idx >= len(lr.site.Call.Args) {
								continue
							}
							if why := carriedAcrossIterations(lr.site.Call.Args[idx], lr.site, body, 0, map[ssa.Value]bool{}); why != "" {
								bad = fmt.Sprintf("argument %d of %s is the helper's parameter `%s`, for which the loop passes %s", ai+1, call.Call.Method.Name(), prm.Name(), why)
								break
							}
						}
						c.check(bad == "", rule, key+":arguments-built-in-the-iteration", call.Pos(),
							"no argument of the engine call reads a variable that outlives the iteration and is assigned in the loop",
							bad+": an element of the bulk is executed with values left by the elements before it (e.g. their idempotency key, so it is answered from their log instead of being executed)")
					}
				}
			}
		}
	}
	c.Info["engine_calls_in_loops"] = nCalls
	if nCalls < floor {
		c.undecided(rule, "floor:engine-calls-in-loops", token.NoPos, fmt.Sprintf("expected at least %d backend.Ledger calls inside the bulk loop, found %d", floor, nCalls))
	}
}

// carriedAcrossIterations: does v read a local that is declared outside the loop and assigned inside it (or a phi
// of the loop head fed from the body)? Returns a description, or "".
func carriedAcrossIterations(v ssa.Value, use ssa.Instruction, body map[*ssa.BasicBlock]bool, depth int, seen map[ssa.Value]bool) string {
	// a store made in the loop is harmless when it is made again in every iteration before the use
	precedesUse := func(st *ssa.Store) bool {
		if st.Block() == use.Block() {
			for _, ins := range st.Block().Instrs {
				if ins == ssa.Instruction(st) {
					return true
				}
				if ins == use {
					return false
				}
			}
		}
		return st.Block().Dominates(use.Block())
	}
	if v == nil || depth > 10 || seen[v] {
		return ""
	}
	seen[v] = true
	cellOf := func(addr ssa.Value) *ssa.Alloc {
		for i := 0; i < 10; i++ {
			switch x := addr.(type) {
			case *ssa.Alloc:
				return x
			case *ssa.FieldAddr:
				addr = x.X
			case *ssa.IndexAddr:
				addr = x.X
			default:
				return nil
			}
		}
		return nil
	}
	switch x := v.(type) {
	case *ssa.UnOp:
		if x.Op != token.MUL {
			return carriedAcrossIterations(x.X, use, body, depth+1, seen)
		}
		if a := cellOf(x.X); a != nil && !body[a.Block()] {
			for _, r := range allRefsToCell(a) {
				if st, ok := r.(*ssa.Store); ok && body[st.Block()] && !precedesUse(st) {
					return "read from the local `" + a.Comment + "`, declared before the loop and assigned inside it"
				}
			}
		}
		return ""
	case *ssa.Phi:
		if body[x.Block()] {
			for i, e := range x.Edges {
				p := x.Block().Preds[i]
				if !body[p] {
					continue
				}
				// an edge from inside the loop into a phi of the loop: the value of an earlier iteration, when the
				// phi also has an entry from outside (loop head)
				for j := range x.Edges {
					if !body[x.Block().Preds[j]] {
						if _, isConst := e.(*ssa.Const); !isConst {
							return "a value carried around the loop (`" + x.Comment + "`)"
						}
					}
				}
			}
		}
		for _, e := range x.Edges {
			if why := carriedAcrossIterations(e, use, body, depth+1, seen); why != "" {
				return why
			}
		}
		return ""
	case *ssa.MakeInterface:
		return carriedAcrossIterations(x.X, use, body, depth+1, seen)
	case *ssa.ChangeType:
		return carriedAcrossIterations(x.X, use, body, depth+1, seen)
	case *ssa.Convert:
		return carriedAcrossIterations(x.X, use, body, depth+1, seen)
	case *ssa.Field:
		return carriedAcrossIterations(x.X, use, body, depth+1, seen)
	case *ssa.Slice:
		return carriedAcrossIterations(x.X, use, body, depth+1, seen)
	case *ssa.Alloc:
		if !body[x.Block()] {
			for _, r := range allRefsToCell(x) {
				if st, ok := r.(*ssa.Store); ok && body[st.Block()] && !precedesUse(st) {
					return "the address of the local `" + x.Comment + "`, declared before the loop and assigned inside it"
				}
			}
		}
		return ""
	}
	return ""
}

// allRefsToCell: the instructions that refer to the cell or to addresses of its fields/elements.
func allRefsToCell(a *ssa.Alloc) []ssa.Instruction {
	var out []ssa.Instruction
	var walk func(v ssa.Value, depth int)
	walk = func(v ssa.Value, depth int) {
		if depth > 6 || v.Referrers() == nil {
			return
		}
		for _, r := range *v.Referrers() {
			switch x := r.(type) {
			case *ssa.Store:
				if x.Addr == v {
					out = append(out, x)
				}
			case *ssa.FieldAddr:
				walk(x, depth+1)
			case *ssa.IndexAddr:
				walk(x, depth+1)
			}
		}
	}
	walk(a, 0)
	return out
}

// loopReached: the functions of internal/api that the calls made inside a loop body may invoke (static callees, literals,
// functions returned by a selector helper — `handlerFor(action)(…)`), transitively to depth 2, each with the call site
// in the loop through which it is first reached.
type loopReach struct {
	fn   *ssa.Function
	site *ssa.Call // the call inside the loop body (for depth 1); for deeper functions, the depth-1 call that leads there
	via  *ssa.Call // the call instruction that invokes fn directly
}

func loopReached(c *Ctx, body map[*ssa.BasicBlock]bool) []loopReach {
	var out []loopReach
	seen := map[*ssa.Function]bool{}
	var visit func(call *ssa.Call, site *ssa.Call, depth int)
	visit = func(call *ssa.Call, site *ssa.Call, depth int) {
		if call.Call.IsInvoke() {
			return
		}
		for _, g := range c.CalleesOf(call) {
			if g == nil || len(g.Blocks) == 0 || seen[g] || !strings.HasPrefix(fnPkgPath(origin(g)), modPath+"/internal/api") {
				continue
			}
			seen[g] = true
			out = append(out, loopReach{g, site, call})
			if depth < 2 {
				for _, b := range g.Blocks {
					for _, ins := range b.Instrs {
						if cl, ok := ins.(*ssa.Call); ok {
							visit(cl, site, depth+1)
						}
					}
				}
			}
		}
	}
	var blocks []*ssa.BasicBlock
	for b := range body {
		blocks = append(blocks, b)
	}
	sort.Slice(blocks, func(i, j int) bool { return blocks[i].Index < blocks[j].Index })
	for _, b := range blocks {
		for _, ins := range b.Instrs {
			if cl, ok := ins.(*ssa.Call); ok {
				visit(cl, cl, 1)
			}
		}
	}
	return out
}

func allBlocks(fn *ssa.Function) map[*ssa.BasicBlock]bool {
	m := map[*ssa.BasicBlock]bool{}
	for _, b := range fn.Blocks {
		m[b] = true
	}
	return m
}

// paramOrigin: v is (a load/field/conversion of) a parameter of fn; returns it.
func paramOrigin(v ssa.Value, fn *ssa.Function) *ssa.Parameter {
	for i := 0; i < 10; i++ {
		switch x := v.(type) {
		case *ssa.Parameter:
			if x.Parent() == fn {
				return x
			}
			return nil
		case *ssa.UnOp:
			if p, ok := stripLoadOfParamCell(x).(*ssa.Parameter); ok && p.Parent() == fn {
				return p
			}
			v = x.X
		case *ssa.FieldAddr:
			v = x.X
		case *ssa.Field:
			v = x.X
		case *ssa.MakeInterface:
			v = x.X
		case *ssa.ChangeType:
			v = x.X
		case *ssa.Convert:
			v = x.X
		case *ssa.Alloc:
			if s := singleStore(x); s != nil {
				v = s
				continue
			}
			return nil
		default:
			return nil
		}
	}
	return nil
}

// naturalLoopsSorted: the loop bodies of fn in a stable order (by head index).
func naturalLoopsSorted(fn *ssa.Function) []map[*ssa.BasicBlock]bool {
	loops := naturalLoops(fn)
	var heads []*ssa.BasicBlock
	for h := range loops {
		heads = append(heads, h)
	}
	sort.Slice(heads, func(i, j int) bool { return heads[i].Index < heads[j].Index })
	var out []map[*ssa.BasicBlock]bool
	for _, h := range heads {
		out = append(out, loops[h])
	}
	return out
}
