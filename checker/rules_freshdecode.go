package main

// Fresh decoding targets (R09i / R18f). encoding/json decodes *into* its target: keys of an existing map are
// kept, elements of a reused slice are not zeroed. A request decoded inside a loop (the elements of a bulk)
// must therefore be decoded into a value allocated in that iteration; decoding into a value that outlives
// the iteration lets an element inherit metadata or postings of the elements before it (seed C09-2).
//
// Rule, for every function of internal/api/**: the target of each json.Unmarshal / Decoder.Decode executed
// inside a loop is rooted at an allocation made inside the same loop (or at the result of a repository
// function that returns a fresh allocation on every path).

import (
	"fmt"
	"go/token"
	"strings"

	"golang.org/x/tools/go/ssa"
)

// naturalLoops: head -> blocks of the loop.
func naturalLoops(fn *ssa.Function) map[*ssa.BasicBlock]map[*ssa.BasicBlock]bool {
	loops := map[*ssa.BasicBlock]map[*ssa.BasicBlock]bool{}
	for _, t := range fn.Blocks {
		for _, h := range t.Succs {
			if !h.Dominates(t) {
				continue
			}
			body := loops[h]
			if body == nil {
				body = map[*ssa.BasicBlock]bool{h: true}
				loops[h] = body
			}
			stack := []*ssa.BasicBlock{t}
			for len(stack) > 0 {
				b := stack[len(stack)-1]
				stack = stack[:len(stack)-1]
				if body[b] {
					continue
				}
				body[b] = true
				stack = append(stack, b.Preds...)
			}
		}
	}
	return loops
}

func freshAllocIn(c *Ctx, v ssa.Value, body map[*ssa.BasicBlock]bool, depth int) (bool, string) {
	if depth > 8 {
		return false, "provenance too deep"
	}
	switch x := v.(type) {
	case *ssa.MakeInterface:
		return freshAllocIn(c, x.X, body, depth+1)
	case *ssa.ChangeType:
		return freshAllocIn(c, x.X, body, depth+1)
	case *ssa.Alloc:
		if body[x.Block()] {
			return true, "allocated in the iteration"
		}
		return false, "a value allocated outside the loop (" + x.Comment + ")"
	case *ssa.FieldAddr:
		return freshAllocIn(c, x.X, body, depth+1)
	case *ssa.IndexAddr:
		return freshAllocIn(c, x.X, body, depth+1)
	case *ssa.Phi:
		for _, e := range x.Edges {
			if ok, why := freshAllocIn(c, e, body, depth+1); !ok {
				return false, why
			}
		}
		return true, "allocated in the iteration"
	case *ssa.UnOp:
		if x.Op == token.MUL {
			if a, ok := x.X.(*ssa.Alloc); ok {
				n := 0
				for _, r := range *a.Referrers() {
					if st, ok := r.(*ssa.Store); ok && st.Addr == ssa.Value(a) {
						n++
						if !body[st.Block()] {
							return false, "a pointer assigned outside the loop"
						}
						if ok, why := freshAllocIn(c, st.Val, body, depth+1); !ok {
							return false, why
						}
					}
				}
				if n > 0 {
					return true, "allocated in the iteration"
				}
			}
		}
		return false, "a loaded pointer"
	case *ssa.Call:
		if !body[x.Block()] {
			return false, "the result of a call made outside the loop"
		}
		callee := staticCallee(x)
		if callee != nil && inRepo(fnPkgPath(callee)) && len(callee.Blocks) > 0 {
			all := true
			for _, b := range callee.Blocks {
				if r, ok := b.Instrs[len(b.Instrs)-1].(*ssa.Return); ok && len(r.Results) > 0 {
					if a, ok := r.Results[0].(*ssa.Alloc); !ok || a.Parent() != callee {
						all = false
					}
				}
			}
			if all {
				return true, "returned fresh by " + callee.Name()
			}
			return false, "the result of " + fnName(callee) + ", which does not return a fresh allocation (it hands back an existing value)"
		}
		return false, "the result of " + calleeFullName(x)
	case *ssa.Parameter:
		return false, "a parameter"
	case *ssa.Extract:
		return false, "a call result"
	}
	return false, fmt.Sprintf("%T", v)
}

func ruleFreshDecode(c *Ctx, rule string) {
	nLoopDecodes, nDecodes := 0, 0
	for _, fn := range c.RepoFuncs() {
		pk := fnPkgPath(origin(fn))
		if !strings.HasPrefix(pk, modPath+"/internal/api") || len(fn.Blocks) == 0 {
			continue
		}
		if strings.HasSuffix(c.Fset.Position(fn.Pos()).Filename, "_test.go") {
			continue
		}
		var loops map[*ssa.BasicBlock]map[*ssa.BasicBlock]bool
		k := 0
		for _, b := range fn.Blocks {
			for _, ins := range b.Instrs {
				call, ok := ins.(*ssa.Call)
				if !ok {
					continue
				}
				name := calleeFullName(call)
				var target ssa.Value
				switch name {
				case "encoding/json.Unmarshal":
					target = call.Call.Args[1]
				case "(*encoding/json.Decoder).Decode":
					target = call.Call.Args[1]
				default:
					continue
				}
				nDecodes++
				if loops == nil {
					loops = naturalLoops(fn)
				}
				// innermost loop containing the call
				var body map[*ssa.BasicBlock]bool
				for _, bd := range loops {
					if bd[b] && (body == nil || len(bd) < len(body)) {
						body = bd
					}
				}
				if body == nil {
					continue
				}
				nLoopDecodes++
				k++
				ok2, why := freshAllocIn(c, target, body, 0)
				c.check(ok2, rule, fmt.Sprintf("%s:decode-target-fresh#%d", fnName(fn), k), call.Pos(), why,
					fmt.Sprintf("%s decodes JSON, inside a loop, into %s: encoding/json merges into an existing map and does not zero reused slice elements, so an element inherits fields of the elements decoded before it", fnName(fn), why))
			}
		}
	}
	c.NSites += nDecodes
	if nLoopDecodes < 4 {
		c.undecided(rule, "floor:decodes-in-loops", token.NoPos, fmt.Sprintf("only %d JSON decodes inside loops found in internal/api (of %d decodes)", nLoopDecodes, nDecodes))
	}
}
