package main

// Fresh decoding targets (R09i / R18f). encoding/json decodes *into* its target: keys of an existing map are
// kept, elements of a reused slice are not zeroed. A request decoded inside a loop (the elements of a bulk)
// must therefore be decoded into a value allocated in that iteration; decoding into a value that outlives
// the iteration lets an element inherit metadata or postings of the elements before it (seed C09-2).
//
// Rule, for every function of internal/api/**: the target of each json.Unmarshal / Decoder.Decode executed
// inside a loop is rooted at an allocation made inside the same loop (or at the result of a repository
// function that returns a fresh allocation on every path).

import (
	"fmt"
	"go/token"
	"strings"

	"golang.org/x/tools/go/ssa"
)

// naturalLoops: head -> blocks of the loop.
func naturalLoops(fn *ssa.Function) map[*ssa.BasicBlock]map[*ssa.BasicBlock]bool {
	loops := map[*ssa.BasicBlock]map[*ssa.BasicBlock]bool{}
	for _, t := range fn.Blocks {
		for _, h := range t.Succs {
			if !h.Dominates(t) {
				continue
			}
			body := loops[h]
			if body == nil {
				body = map[*ssa.BasicBlock]bool{h: true}
				loops[h] = body
			}
			stack := []*ssa.BasicBlock{t}
			for len(stack) > 0 {
				b := stack[len(stack)-1]
				stack = stack[:len(stack)-1]
				if body[b] {
					continue
				}
				body[b] = true
				stack = append(stack, b.Preds...)
			}
		}
	}
	return loops
}

func freshAllocIn(c *Ctx, v ssa.Value, body map[*ssa.BasicBlock]bool, depth int) (bool, string) {
	if depth > 8 {
		return false, "provenance too deep"
	}
	switch x := v.(type) {
	case *ssa.MakeInterface:
		return freshAllocIn(c, x.X, body, depth+1)
	case *ssa.ChangeType:
		return freshAllocIn(c, x.X, body, depth+1)
	case *ssa.Alloc:
		if body[x.Block()] {
			return true, "allocated in the iteration"
		}
		return false, "a value allocated outside the loop (" + x.Comment + ")"
	case *ssa.FieldAddr:
		return freshAllocIn(c, x.X, body, depth+1)
	case *ssa.IndexAddr:
		return freshAllocIn(c, x.X, body, depth+1)
	case *ssa.Phi:
		for _, e := range x.Edges {
			if ok, why := freshAllocIn(c, e, body, depth+1); !ok {
				return false, why
			}
		}
		return true, "allocated in the iteration"
	case *ssa.UnOp:
		if x.Op == token.MUL {
			if a, ok := x.X.(*ssa.Alloc); ok {
				n := 0
				for _, r := range *a.Referrers() {
					if st, ok := r.(*ssa.Store); ok && st.Addr == ssa.Value(a) {
						n++
						if !body[st.Block()] {
							return false, "a pointer assigned outside the loop"
						}
						if ok, why := freshAllocIn(c, st.Val, body, depth+1); !ok {
							return false, why
						}
					}
				}
				if n > 0 {
					return true, "allocated in the iteration"
				}
			}
		}
		return false, "a loaded pointer"
	case *ssa.Call:
		if !body[x.Block()] {
			return false, "the result of a call made outside the loop"
		}
		callee := staticCallee(x)
		if callee != nil && inRepo(fnPkgPath(callee)) && len(callee.Blocks) > 0 {
			all := true
			for _, b := range callee.Blocks {
				if r, ok := b.Instrs[len(b.Instrs)-1].(*ssa.Return); ok && len(r.Results) > 0 {
					if a, ok := r.Results[0].(*ssa.Alloc); !ok || a.Parent() != callee {
						all = false
					}
				}
			}
			if all {
				return true, "returned fresh by " + callee.Name()
			}
			return false, "the result of " + fnName(callee) + ", which does not return a fresh allocation (it hands back an existing value)"
		}
		return false, "the result of " + calleeFullName(x)
	case *ssa.Parameter:
		return false, "a parameter"
	case *ssa.Extract:
		return false, "a call result"
	}
	return false, fmt.Sprintf("%T", v)
}

func ruleFreshDecode(c *Ctx, rule string) {
	nLoopDecodes, nDecodes := 0, 0
	for _, fn := range c.RepoFuncs() {
		pk := fnPkgPath(origin(fn))
		if !strings.HasPrefix(pk, modPath+"/internal/api") || len(fn.Blocks) == 0 {
			continue
		}
		if strings.HasSuffix(c.Fset.Position(fn.Pos()).Filename, "_test.go") {
			continue
		}
		var loops map[*ssa.BasicBlock]map[*ssa.BasicBlock]bool
		k := 0
		for _, b := range fn.Blocks {
			for _, ins := range b.Instrs {
				call, ok := ins.(*ssa.Call)
				if !ok {
					continue
				}
				name := calleeFullName(call)
				var target ssa.Value
				switch name {
				case "encoding/json.Unmarshal":
					target = call.Call.Args[1]
				case "(*encoding/json.Decoder).Decode":
					target = call.Call.Args[1]
				default:
					continue
				}
				nDecodes++
				if loops == nil {
					loops = naturalLoops(fn)
				}
				// innermost loop containing the call
				var body map[*ssa.BasicBlock]bool
				for _, bd := range loops {
					if bd[b] && (body == nil || len(bd) < len(body)) {
						body = bd
					}
				}
				if body == nil {
					continue
				}
				nLoopDecodes++
				k++
				ok2, why := freshAllocIn(c, target, body, 0)
				c.check(ok2, rule, fmt.Sprintf("%s:decode-target-fresh#%d", fnName(fn), k), call.Pos(), why,
					fmt.Sprintf("%s decodes JSON, inside a loop, into %s: encoding/json merges into an existing map and does not zero reused slice elements, so an element inherits fields of the elements decoded before it", fnName(fn), why))
			}
		}
	}
	c.NSites += nDecodes
	if nLoopDecodes < 4 {
		c.undecided(rule, "floor:decodes-in-loops", token.NoPos, fmt.Sprintf("only %d JSON decodes inside loops found in internal/api (of %d decodes)", nLoopDecodes, nDecodes))
	}
}

// ---- R18g: no argument of an engine call made in a loop carries state from earlier iterations -------------
//
// Same family as the fresh decoding targets: a value handed to backend.Ledger inside a loop (the parameters of a
// bulk element: idempotency key, dry-run flag, the decoded request) must be built in that iteration. A local
// declared before the loop and assigned inside it (`parameters` hoisted, the key set only when the element has
// one) hands the previous element's key to the next element: that element is then answered from the other
// element's log instead of being executed.
func ruleLoopCarriedArgs(c *Ctx, rule string, floor int) {
	ledgerIface := c.Named(modPath+"/internal/api/backend", "Ledger")
	if ledgerIface == nil {
		c.undecided(rule, "anchor:backend.Ledger", token.NoPos, "interface not found")
		return
	}
	nCalls := 0
	for _, fn := range c.RepoFuncs() {
		pk := fnPkgPath(origin(fn))
		if !strings.HasPrefix(pk, modPath+"/internal/api") || len(fn.Blocks) == 0 || fn.Synthetic != "" {
			continue
		}
		if strings.HasSuffix(c.Fset.Position(fn.Pos()).Filename, "_test.go") {
			continue
		}
		loops := naturalLoops(fn)
		if len(loops) == 0 {
			continue
		}
		seen := map[string]int{}
		for _, b := range fn.Blocks {
			for _, ins := range b.Instrs {
				call, ok := ins.(*ssa.Call)
				if !ok || !call.Call.IsInvoke() || namedOf(call.Call.Value.Type()) != ledgerIface {
					continue
				}
				// innermost loop containing the call
				var body map[*ssa.BasicBlock]bool
				for _, lb := range loops {
					if lb[b] && (body == nil || len(lb) < len(body)) {
						body = lb
					}
				}
				if body == nil {
					continue
				}
				nCalls++
				c.seeFn(fn)
				key := fmt.Sprintf("%s:%s", fnName(fn), call.Call.Method.Name())
				seen[key]++
				if n := seen[key]; n > 1 {
					key = fmt.Sprintf("%s#%d", key, n)
				}
				bad := ""
				for ai, a := range call.Call.Args {
					if isNamed(a.Type(), "context", "Context") {
						continue
					}
					if why := carriedAcrossIterations(a, call, body, 0, map[ssa.Value]bool{}); why != "" {
						bad = fmt.Sprintf("argument %d of %s is %s", ai+1, call.Call.Method.Name(), why)
						break
					}
				}
				c.check(bad == "", rule, key+":arguments-built-in-the-iteration", call.Pos(),
					"no argument of the engine call reads a variable that outlives the iteration and is assigned in the loop",
					bad+": an element of the bulk is executed with values left by the elements before it (e.g. their idempotency key, so it is answered from their log instead of being executed)")
			}
		}
	}
	c.Info["engine_calls_in_loops"] = nCalls
	if nCalls < floor {
		c.undecided(rule, "floor:engine-calls-in-loops", token.NoPos, fmt.Sprintf("expected at least %d backend.Ledger calls inside the bulk loop, found %d", floor, nCalls))
	}
}

// carriedAcrossIterations: does v read a local that is declared outside the loop and assigned inside it (or a phi
// of the loop head fed from the body)? Returns a description, or "".
func carriedAcrossIterations(v ssa.Value, use ssa.Instruction, body map[*ssa.BasicBlock]bool, depth int, seen map[ssa.Value]bool) string {
	// a store made in the loop is harmless when it is made again in every iteration before the use
	precedesUse := func(st *ssa.Store) bool {
		if st.Block() == use.Block() {
			for _, ins := range st.Block().Instrs {
				if ins == ssa.Instruction(st) {
					return true
				}
				if ins == use {
					return false
				}
			}
		}
		return st.Block().Dominates(use.Block())
	}
	if v == nil || depth > 10 || seen[v] {
		return ""
	}
	seen[v] = true
	cellOf := func(addr ssa.Value) *ssa.Alloc {
		for i := 0; i < 10; i++ {
			switch x := addr.(type) {
			case *ssa.Alloc:
				return x
			case *ssa.FieldAddr:
				addr = x.X
			case *ssa.IndexAddr:
				addr = x.X
			default:
				return nil
			}
		}
		return nil
	}
	switch x := v.(type) {
	case *ssa.UnOp:
		if x.Op != token.MUL {
			return carriedAcrossIterations(x.X, use, body, depth+1, seen)
		}
		if a := cellOf(x.X); a != nil && !body[a.Block()] {
			for _, r := range allRefsToCell(a) {
				if st, ok := r.(*ssa.Store); ok && body[st.Block()] && !precedesUse(st) {
					return "read from the local `" + a.Comment + "`, declared before the loop and assigned inside it"
				}
			}
		}
		return ""
	case *ssa.Phi:
		if body[x.Block()] {
			for i, e := range x.Edges {
				p := x.Block().Preds[i]
				if !body[p] {
					continue
				}
				// an edge from inside the loop into a phi of the loop: the value of an earlier iteration, when the
				// phi also has an entry from outside (loop head)
				for j := range x.Edges {
					if !body[x.Block().Preds[j]] {
						if _, isConst := e.(*ssa.Const); !isConst {
							return "a value carried around the loop (`" + x.Comment + "`)"
						}
					}
				}
			}
		}
		for _, e := range x.Edges {
			if why := carriedAcrossIterations(e, use, body, depth+1, seen); why != "" {
				return why
			}
		}
		return ""
	case *ssa.MakeInterface:
		return carriedAcrossIterations(x.X, use, body, depth+1, seen)
	case *ssa.ChangeType:
		return carriedAcrossIterations(x.X, use, body, depth+1, seen)
	case *ssa.Convert:
		return carriedAcrossIterations(x.X, use, body, depth+1, seen)
	case *ssa.Field:
		return carriedAcrossIterations(x.X, use, body, depth+1, seen)
	case *ssa.Slice:
		return carriedAcrossIterations(x.X, use, body, depth+1, seen)
	case *ssa.Alloc:
		if !body[x.Block()] {
			for _, r := range allRefsToCell(x) {
				if st, ok := r.(*ssa.Store); ok && body[st.Block()] && !precedesUse(st) {
					return "the address of the local `" + x.Comment + "`, declared before the loop and assigned inside it"
				}
			}
		}
		return ""
	}
	return ""
}

// allRefsToCell: the instructions that refer to the cell or to addresses of its fields/elements.
func allRefsToCell(a *ssa.Alloc) []ssa.Instruction {
	var out []ssa.Instruction
	var walk func(v ssa.Value, depth int)
	walk = func(v ssa.Value, depth int) {
		if depth > 6 || v.Referrers() == nil {
			return
		}
		for _, r := range *v.Referrers() {
			switch x := r.(type) {
			case *ssa.Store:
				if x.Addr == v {
					out = append(out, x)
				}
			case *ssa.FieldAddr:
				walk(x, depth+1)
			case *ssa.IndexAddr:
				walk(x, depth+1)
			}
		}
	}
	walk(a, 0)
	return out
}
