package main

func init() {
	const cmdr = "internal/engine/command/commander.go"
	const ctxf = "internal/engine/command/context.go"
	const mon = "internal/bus/monitor.go"
	addMutants(
		Mutant{Property: "C16", Name: "monitor-skips-empty-account-metadata", File: "internal/bus/monitor.go",
			Old: "func (l *ledgerMonitor) SavedMetadata(ctx context.Context, targetType, targetID string, metadata metadata.Metadata) {\n", New: "func (l *ledgerMonitor) SavedMetadata(ctx context.Context, targetType, targetID string, metadata metadata.Metadata) {\n\tif len(metadata) == 0 {\n\t\treturn\n\t}\n", Expect: "R16f:ledgerMonitor.SavedMetadata"},
		Mutant{Property: "C14", Name: "dry-run-publishes-committed", File: cmdr,
			Old: "\tif !parameters.DryRun {\n\t\tcommander.monitor.CommittedTransactions(", New: "\tif !parameters.DryRun || len(script.Metadata) > 0 {\n\t\tcommander.monitor.CommittedTransactions(", Expect: "R14a:(*internal/engine/command.Commander).CreateTransaction:monitor.CommittedTransactions"},
		Mutant{Property: "C14", Name: "dry-run-publishes-deleted", File: cmdr,
			Old: "\tif !parameters.DryRun {\n\t\tcommander.monitor.DeletedMetadata(ctx, targetType, targetID, key)\n\t}", New: "\tcommander.monitor.DeletedMetadata(ctx, targetType, targetID, key)", Expect: "R14a:(*internal/engine/command.Commander).DeleteMetadata:monitor.DeletedMetadata"},
		Mutant{Property: "C14", Name: "dry-run-appends-metadata-logs", File: ctxf,
			Old: "\tif e.parameters.DryRun {\n\t\tret := make(chan struct{})", New: "\tif e.parameters.DryRun && allocateTXID {\n\t\tret := make(chan struct{})", Expect: "R14a:(*internal/engine/command.Commander).appendLog:"},
		Mutant{Property: "C14", Name: "dry-run-allocates-id", File: ctxf,
			Old: "return logBuilder(e.commander.peekNextTXID()).ChainLog(nil), ret, nil", New: "return e.commander.appendLog(allocateTXID, logBuilder, func() {}), ret, nil", Expect: "R14a:"},
		Mutant{Property: "C14", Name: "preview-uses-other-builder", File: ctxf,
			Old: "return logBuilder(e.commander.peekNextTXID()).ChainLog(nil), ret, nil", New: "return logComputer(e.commander.peekNextTXID()).ChainLog(nil), ret, nil", Expect: "R14b:"},
	)
	addMutants(
		Mutant{Property: "C16", Name: "event-before-error-check", File: cmdr,
			Old: "\t_, err := execContext.run(ctx, func(executionContext *executionContext) (*ledger.ChainedLog, chan struct{}, error) {\n\t\tvar (\n\t\t\tlog *ledger.Log\n\t\t\tat  = ledger.Now()\n\t\t)\n\t\tswitch targetType {\n\t\tcase ledger.MetaTargetTypeTransaction:\n\t\t\t_, err := commander.store.GetTransaction(ctx, targetID.(*big.Int))\n\t\t\tif err != nil {\n\t\t\t\treturn nil, nil, newErrDeleteMetadataTransactionNotFound()",
			New: "\tif !parameters.DryRun {\n\t\tcommander.monitor.DeletedMetadata(ctx, targetType, targetID, key)\n\t}\n\t_, err := execContext.run(ctx, func(executionContext *executionContext) (*ledger.ChainedLog, chan struct{}, error) {\n\t\tvar (\n\t\t\tlog *ledger.Log\n\t\t\tat  = ledger.Now()\n\t\t)\n\t\tswitch targetType {\n\t\tcase ledger.MetaTargetTypeTransaction:\n\t\t\t_, err := commander.store.GetTransaction(ctx, targetID.(*big.Int))\n\t\t\tif err != nil {\n\t\t\t\treturn nil, nil, newErrDeleteMetadataTransactionNotFound()", Expect: "R16a:"},
		Mutant{Property: "C16", Name: "revert-event-swapped", File: cmdr,
			Old: "commander.monitor.RevertedTransaction(ctx, transactionToRevert, log.Data.(ledger.RevertedTransactionLogPayload).RevertTransaction)", New: "commander.monitor.RevertedTransaction(ctx, log.Data.(ledger.RevertedTransactionLogPayload).RevertTransaction, transactionToRevert)", Expect: "R16d:"},
		Mutant{Property: "C16", Name: "monitor-fields-swapped", File: mon,
			Old: "\t\t\tRevertedTransaction: *reverted,\n\t\t\tRevertTransaction:   *revert,", New: "\t\t\tRevertedTransaction: *revert,\n\t\t\tRevertTransaction:   *reverted,", Expect: "R16d:ledgerMonitor.RevertedTransaction"},
		Mutant{Property: "C16", Name: "no-event-for-account-metadata", File: cmdr,
			Old: "\tif !parameters.DryRun {\n\t\tcommander.monitor.SavedMetadata(ctx, targetType, fmt.Sprint(targetID), m)\n\t}", New: "\tif !parameters.DryRun && targetType == ledger.MetaTargetTypeTransaction {\n\t\tcommander.monitor.SavedMetadata(ctx, targetType, fmt.Sprint(targetID), m)\n\t}", Expect: "R16c:"},
		Mutant{Property: "C16", Name: "event-in-dry-run", File: cmdr,
			Old: "\tif !parameters.DryRun {\n\t\tcommander.monitor.RevertedTransaction(", New: "\t{\n\t\tcommander.monitor.RevertedTransaction(", Expect: "R16b:"},
		Mutant{Property: "C16", Name: "committed-event-carries-request-metadata", File: cmdr,
			Old: "log.Data.(ledger.NewTransactionLogPayload).AccountMetadata)\n\t}", New: "map[string]metadata.Metadata{})\n\t}", Expect: "R16d:"},
		Mutant{Property: "C16", Name: "saved-event-wrong-id", File: mon,
			Old: "\t\t\tTargetID:   targetID,\n\t\t\tMetadata:   metadata,", New: "\t\t\tTargetID:   targetType,\n\t\t\tMetadata:   metadata,", Expect: "R16d:ledgerMonitor.SavedMetadata:TargetID"},
	)
}

func init() {
	const mon = "internal/bus/monitor.go"
	const msg = "internal/bus/message.go"
	addMutants(
		Mutant{Property: "C16", Name: "revert-published-as-committed-topic", File: mon, Old: "\tl.publish(ctx, events.EventTypeRevertedTransaction,", New: "\tl.publish(ctx, events.EventTypeCommittedTransactions,", Expect: "R16d:ledgerMonitor.RevertedTransaction:topic"},
		Mutant{Property: "C16", Name: "deleted-metadata-typed-as-saved", File: msg, Old: "\t\tType:    events.EventTypeDeletedMetadata,", New: "\t\tType:    events.EventTypeSavedMetadata,", Expect: "R16d:ledgerMonitor.DeletedMetadata:topic"},
		Mutant{Property: "C16", Name: "event-ledger-left-empty", File: mon, Old: "\t\tnewEventSavedMetadata(SavedMetadata{\n\t\t\tLedger:     l.ledgerName,\n", New: "\t\tnewEventSavedMetadata(SavedMetadata{\n", Expect: "R16d:ledgerMonitor.SavedMetadata:topic"},
	)
}
