package main

// R19e — the read-only switch reaches the router.
//
// The gate is installed where NewRouter's readOnly parameter is true (R19a/b); that parameter is api.Config.ReadOnly,
// which the serve command fills from the configuration registry (viper) under a constant key. A command-line flag of
// that name only reaches the registry when the flag set it is declared on is bound to it (viper.BindPFlags /
// BindPFlag); otherwise `serve --read-only` starts a server that executes every write. Rule: for the key whose
// viper.Get* result is stored into api.Config.ReadOnly, every declaration of a flag of that name in package cmd is
// made on a flag set of a command that is also given to viper.BindPFlags (same command value, same flag-set kind), or
// the flag is bound individually.

import (
	"fmt"
	"go/token"
	"sort"
	"strings"

	"golang.org/x/tools/go/ssa"
)

func ruleR19e(c *Ctx) {
	const rule = "R19e"
	pkgCmd := modPath + "/cmd"
	roField := c.Field(modPath+"/internal/api", "Config", "ReadOnly")
	if roField == nil {
		c.undecided(rule, "anchor:api.Config.ReadOnly", token.NoPos, "field not found")
		return
	}
	// keys read into api.Config.ReadOnly
	keys := map[string]token.Pos{}
	for _, fn := range c.RepoFuncs() {
		for _, b := range fn.Blocks {
			for _, ins := range b.Instrs {
				val, _, ok := storeToField(ins, roField)
				if !ok {
					continue
				}
				for _, r := range roots(val, nil) {
					if call, ok := r.(*ssa.Call); ok && strings.HasPrefix(calleeFullName(call), "github.com/spf13/viper.Get") && len(call.Call.Args) == 1 {
						if k, ok := constString(call.Call.Args[0]); ok {
							keys[k] = ins.Pos()
						}
					}
				}
			}
		}
	}
	if len(keys) == 0 {
		c.undecided(rule, "floor:read-only-setting", token.NoPos, "no store of a viper setting into api.Config.ReadOnly found: how read-only mode is switched on is not visible")
		return
	}
	// flag-set expressions: (kind, command value)
	type fsKey struct {
		kind string
		cmd  ssa.Value
	}
	flagSetOf := func(v ssa.Value) (fsKey, bool) {
		call, ok := v.(*ssa.Call)
		if !ok {
			return fsKey{}, false
		}
		name := calleeFullName(call)
		switch name {
		case "(*github.com/spf13/cobra.Command).Flags", "(*github.com/spf13/cobra.Command).PersistentFlags", "(*github.com/spf13/cobra.Command).LocalFlags":
			return fsKey{name[strings.LastIndex(name, ".")+1:], call.Call.Args[0]}, true
		}
		return fsKey{}, false
	}
	type decl struct {
		fn  *ssa.Function
		fs  fsKey
		pos token.Pos
	}
	decls := map[string][]decl{}
	bound := map[*ssa.Function]map[fsKey]bool{}
	boundSingle := map[string]bool{}
	for _, fn := range c.FuncsIn(pkgCmd) {
		allCalls(fn, func(ci ssa.CallInstruction) {
			call, ok := ci.(*ssa.Call)
			if !ok {
				return
			}
			name := calleeFullName(call)
			if strings.HasPrefix(name, "(*github.com/spf13/pflag.FlagSet).") && len(call.Call.Args) >= 2 {
				if k, ok := constString(call.Call.Args[1]); ok {
					if fs, ok := flagSetOf(call.Call.Args[0]); ok {
						decls[k] = append(decls[k], decl{fn, fs, call.Pos()})
					}
				}
			}
			if name == "github.com/spf13/viper.BindPFlags" || name == "(*github.com/spf13/viper.Viper).BindPFlags" {
				arg := call.Call.Args[len(call.Call.Args)-1]
				if fs, ok := flagSetOf(arg); ok {
					if bound[fn] == nil {
						bound[fn] = map[fsKey]bool{}
					}
					bound[fn][fs] = true
				}
			}
			if name == "github.com/spf13/viper.BindPFlag" || name == "(*github.com/spf13/viper.Viper).BindPFlag" {
				if k, ok := constString(call.Call.Args[len(call.Call.Args)-2]); ok {
					boundSingle[k] = true
				}
			}
		})
	}
	var ks []string
	for k := range keys {
		ks = append(ks, k)
	}
	sort.Strings(ks)
	for _, k := range ks {
		ds := decls[k]
		key := "setting:" + k + ":command-line-flag-is-bound"
		if len(ds) == 0 {
			c.ok(rule, key, keys[k], "no command-line flag of that name is declared in package cmd: the setting comes from the environment/configuration only")
			continue
		}
		for _, d := range ds {
			c.seeFn(d.fn)
			isBound := boundSingle[k] || (bound[d.fn] != nil && bound[d.fn][d.fs])
			c.check(isBound, rule, key, d.pos,
				"the flag set the flag is declared on is bound to the configuration registry",
				fmt.Sprintf("the flag --%s is declared on a flag set that is never given to viper.BindPFlags, while api.Config.ReadOnly is read with viper under that key: `serve --%s` starts the server WITHOUT the read-only gate and every write is executed", k, k))
		}
	}
	// the other settings of the same flag sets share the defect class; listed, not part of this property
	var unbound []string
	for k, ds := range decls {
		if _, isRO := keys[k]; isRO {
			continue
		}
		for _, d := range ds {
			if !(boundSingle[k] || (bound[d.fn] != nil && bound[d.fn][d.fs])) {
				unbound = append(unbound, k)
			}
		}
	}
	sort.Strings(unbound)
	c.Info["other_unbound_flags"] = unbound
}
