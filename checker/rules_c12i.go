package main

// R12i — no division by a value that client text can make zero.
//
// math/big panics ("division by zero") in NewRat, Rat.SetFrac/SetFrac64/Quo/Inv and Int.Div/Quo/Rem/Mod/DivMod/
// QuoRem when the divisor is zero, and nothing between the API and the machine recovers. In the packages that parse
// and execute client scripts and variables (internal/machine/**) every such call has a divisor that is a non-zero
// constant, the result of Rat.Denom() (always positive), or a value whose Sign()/Cmp was tested in a dominating
// branch. Integer `/` and `%` with a non-constant divisor are held to the same rule.

import (
	"fmt"
	"go/constant"
	"go/token"
	"go/types"
	"strings"

	"golang.org/x/tools/go/ssa"
)

func ruleR12i(c *Ctx) {
	const rule = "R12i"
	divisorArg := map[string]int{
		"math/big.NewRat":            1,
		"(*math/big.Rat).SetFrac":    2,
		"(*math/big.Rat).SetFrac64":  2,
		"(*math/big.Rat).Quo":        2,
		"(*math/big.Rat).Inv":        1,
		"(*math/big.Int).Div":        2,
		"(*math/big.Int).Quo":        2,
		"(*math/big.Int).Rem":        2,
		"(*math/big.Int).Mod":        2,
		"(*math/big.Int).DivMod":     2,
		"(*math/big.Int).QuoRem":     2,
	}
	nonZeroConst := func(v ssa.Value) bool {
		k, ok := strip(v).(*ssa.Const)
		if !ok || k.Value == nil {
			return false
		}
		switch k.Value.Kind() {
		case constant.Int, constant.Float:
			return constant.Sign(k.Value) != 0
		}
		return false
	}
	var safe func(v ssa.Value, at *ssa.BasicBlock, depth int) bool
	safe = func(v ssa.Value, at *ssa.BasicBlock, depth int) bool {
		if depth > 5 {
			return false
		}
		if nonZeroConst(v) {
			return true
		}
		switch x := v.(type) {
		case *ssa.Call:
			name := calleeFullName(x)
			switch name {
			case "(*math/big.Rat).Denom":
				return true
			case "math/big.NewInt":
				return nonZeroConst(x.Call.Args[0])
			case "math/big.NewRat":
				return nonZeroConst(x.Call.Args[0])
			}
		case *ssa.Convert:
			return safe(x.X, at, depth+1)
		case *ssa.ChangeType:
			return safe(x.X, at, depth+1)
		case *ssa.Alloc:
			// &res where res is a local big value: not decided
		}
		// tested in a dominating branch: v.Sign(), v.Cmp(…), v == 0, v != 0, v > 0
		if v.Referrers() != nil {
			for _, r := range *v.Referrers() {
				var cond ssa.Value
				switch u := r.(type) {
				case *ssa.Call:
					n := calleeFullName(u)
					if (strings.HasSuffix(n, ").Sign") || strings.HasSuffix(n, ").Cmp") || strings.HasSuffix(n, ").IsZero")) && len(u.Call.Args) > 0 && u.Call.Args[0] == v {
						cond = u
					}
				case *ssa.BinOp:
					if u.Op == token.EQL || u.Op == token.NEQ || u.Op == token.GTR || u.Op == token.LSS || u.Op == token.GEQ || u.Op == token.LEQ {
						cond = u
					}
				}
				if cond == nil || cond.Referrers() == nil {
					continue
				}
				// the comparison (or a comparison of the Sign/Cmp result) controls a branch that dominates the division
				var tests []ssa.Value
				tests = append(tests, cond)
				for _, rr := range *cond.Referrers() {
					if bo, ok := rr.(*ssa.BinOp); ok {
						tests = append(tests, bo)
					}
				}
				for _, tv := range tests {
					if tv.Referrers() == nil {
						continue
					}
					for _, rr := range *tv.Referrers() {
						if iff, ok := rr.(*ssa.If); ok && (iff.Block() == at || iff.Block().Dominates(at)) {
							return true
						}
					}
				}
			}
		}
		return false
	}
	n := 0
	seen := map[string]int{}
	for _, fn := range c.RepoFuncs() {
		pk := fnPkgPath(origin(fn))
		if !(strings.HasPrefix(pk, modPath+"/internal/machine") || pk == pkgLedger) || strings.Contains(pk, "/script/parser") || len(fn.Blocks) == 0 {
			continue
		}
		if strings.HasSuffix(c.Fset.Position(fn.Pos()).Filename, "_test.go") {
			continue
		}
		for _, b := range fn.Blocks {
			for _, ins := range b.Instrs {
				var divisor ssa.Value
				what := ""
				switch x := ins.(type) {
				case *ssa.Call:
					if idx, ok := divisorArg[calleeFullName(x)]; ok && idx < len(x.Call.Args) {
						divisor, what = x.Call.Args[idx], calleeFullName(x)
					}
				case *ssa.BinOp:
					if x.Op == token.QUO || x.Op == token.REM {
						if bt, ok := x.Type().Underlying().(*types.Basic); ok && bt.Info()&types.IsInteger != 0 {
							divisor, what = x.Y, "integer "+x.Op.String()
						}
					}
				}
				if divisor == nil {
					continue
				}
				n++
				c.seeFn(fn)
				key := fmt.Sprintf("%s:%s:divisor-not-zero", fnName(fn), what)
				seen[key]++
				if k := seen[key]; k > 1 {
					key = fmt.Sprintf("%s#%d", key, k)
				}
				c.check(safe(divisor, b, 0), rule, key, ins.Pos(), "the divisor is a non-zero constant, a denominator, or was tested before",
					fmt.Sprintf("%s is called in %s with a divisor that is not provably non-zero: a zero (a portion `1/0` in a script, a variable or account metadata) makes it panic with `division by zero`, and nothing recovers on the way from the API", what, fnName(fn)))
			}
		}
	}
	c.Info["divisions_in_machine_packages"] = n
	if n < 3 {
		c.undecided(rule, "floor:divisions", token.NoPos, fmt.Sprintf("only %d divisions found in the machine packages", n))
	}
}
