package main

// R08h — an arithmetic opcode is emitted only for operands of its own type.
//
// OP_IADD/OP_ISUB pop two numbers, OP_MONETARY_ADD/OP_MONETARY_SUB two monetaries; the machine's typed pop panics
// (caught as an internal error at run time — or, for a cached program, at every later run) when the compiler let a
// value of another type through. Decided on every path of the emitting function from its entry to the emission: the
// static type returned for the left operand and the one returned for the right operand (first result of the
// VisitExpr call over GetLhs() / GetRhs()) have both been compared equal to the operand type of the opcode
// (directly, or equal to each other and one of them to the type).

import (
	"fmt"
	"go/token"
	"go/types"
	"strings"

	"golang.org/x/tools/go/ssa"
)

func ruleR08h(c *Ctx, rule string) {
	num, okN := typeConst(c, "TypeNumber")
	mon, okM := typeConst(c, "TypeMonetary")
	if !okN || !okM {
		c.undecided(rule, "anchor:type-constants", token.NoPos, "machine.TypeNumber / machine.TypeMonetary not found")
		return
	}
	want := map[int64]int64{}
	names := map[int64]string{}
	for _, n := range []string{"OP_IADD", "OP_ISUB"} {
		if v, ok := opConst(c, n); ok {
			want[v], names[v] = num, n
		}
	}
	for _, n := range []string{"OP_MONETARY_ADD", "OP_MONETARY_SUB"} {
		if v, ok := opConst(c, n); ok {
			want[v], names[v] = mon, n
		}
	}
	const (
		lNum uint64 = 1 << iota
		rNum
		lMon
		rMon
		same
	)
	// role of a parse-tree node: 1 = the left operand (GetLhs), 2 = the right operand (GetRhs)
	roleOfNode := func(a ssa.Value) int {
		for _, ar := range roots(a, nil) {
			if ac, ok := ar.(*ssa.Call); ok {
				n := ""
				if ac.Call.IsInvoke() {
					n = ac.Call.Method.Name()
				} else if g := staticCallee(ac); g != nil {
					n = origName(g)
				}
				switch {
				case strings.HasSuffix(n, "GetLhs"):
					return 1
				case strings.HasSuffix(n, "GetRhs"):
					return 2
				}
			}
		}
		return 0
	}
	// role of a static type value: 1 = of the left operand, 2 = of the right operand
	roleOf := func(v ssa.Value) int {
		for _, r := range roots(v, nil) {
			ex, ok := r.(*ssa.Extract)
			if !ok || ex.Index != 0 {
				continue
			}
			call, ok := ex.Tuple.(*ssa.Call)
			if !ok {
				continue
			}
			for _, a := range call.Call.Args {
				for _, ar := range roots(a, nil) {
					if ac, ok := ar.(*ssa.Call); ok {
						n := ""
						if ac.Call.IsInvoke() {
							n = ac.Call.Method.Name()
						} else if g := staticCallee(ac); g != nil {
							n = origName(g)
						}
						switch {
						case strings.HasSuffix(n, "GetLhs"):
							return 1
						case strings.HasSuffix(n, "GetRhs"):
							return 2
						}
					}
				}
			}
		}
		return 0
	}
	byFn := map[*ssa.Function][]emission{}
	var order []*ssa.Function
	// the emitting functions that compile an expression of the script (the destination compiler adds machine-made
	// monetaries of its own: no script operand there)
	compilesExpr := visitsOperands
	for _, e := range opEmissions(c) {
		if _, ok := want[e.op]; ok && e.isOK && compilesExpr(e.fn) {
			if byFn[e.fn] == nil {
				order = append(order, e.fn)
			}
			byFn[e.fn] = append(byFn[e.fn], e)
		}
	}
	n := 0
	const (
		opNum uint64 = 1 << (iota + 8)
		opMon
	)
	type ek struct {
		ins ssa.Instruction
		op  int64
	}
	for _, fn := range order {
		at := map[ssa.Instruction][]emission{}
		classes := map[*ssa.Phi][]uint64{}
		for _, e := range byFn[fn] {
			at[e.ins] = append(at[e.ins], e)
			if phi, ok := e.via.(*ssa.Phi); ok && classes[phi] == nil {
				cl := make([]uint64, len(phi.Edges))
				for i, ed := range phi.Edges {
					if k, ok := ed.(*ssa.Const); ok {
						if v, ok := constInt64Of(k); ok {
							switch want[v] {
							case num:
								cl[i] = opNum
							case mon:
								cl[i] = opMon
							}
						}
					}
				}
				classes[phi] = cl
			}
		}
		missing := map[ek]string{}
		seen := map[ek]bool{}
		unknown := map[ek]bool{}
		c.RunPaths(fn, 0, &PathRule{
			Edge: func(pc *PathCtx, s uint64, from *ssa.BasicBlock, si int) (uint64, bool) {
				for _, f := range pc.edgeFacts(from, si) {
					if !f.Eq {
						continue
					}
					// the nil-error edge of a typed-visit helper: the type of the visited operand equals `expected`
					if isNilConst(f.Y) {
						if call, tv := c.typedVisitOfErr(f.X); tv != nil && tv.ok && tv.exprArg < len(call.Call.Args) && tv.expected < len(call.Call.Args) {
							role := roleOfNode(call.Call.Args[tv.exprArg])
							exp := call.Call.Args[tv.expected]
							if k, isC := exp.(*ssa.Const); isC {
								if v, ok := constInt64Of(k); ok {
									switch {
									case role == 1 && v == num:
										s |= lNum
									case role == 2 && v == num:
										s |= rNum
									case role == 1 && v == mon:
										s |= lMon
									case role == 2 && v == mon:
										s |= rMon
									}
								}
							} else if r2 := roleOf(exp); role != 0 && r2 != 0 && r2 != role {
								s |= same
							}
							continue
						}
					}
					x, y := f.X, f.Y
					if _, ok := x.(*ssa.Const); ok {
						x, y = y, x
					}
					if k, ok := y.(*ssa.Const); ok {
						v, ok := constInt64Of(k)
						if !ok {
							continue
						}
						switch role := roleOf(x); {
						case role == 1 && v == num:
							s |= lNum
						case role == 2 && v == num:
							s |= rNum
						case role == 1 && v == mon:
							s |= lMon
						case role == 2 && v == mon:
							s |= rMon
						}
						continue
					}
					if a, b := roleOf(x), roleOf(y); a != 0 && b != 0 && a != b {
						s |= same
					}
				}
				return s, true
			},
			Step: func(pc *PathCtx, s uint64, ins ssa.Instruction) uint64 {
				if phi, ok := ins.(*ssa.Phi); ok {
					if cl := classes[phi]; cl != nil {
						if pred := pc.PredBlock(); pred != nil {
							for i, pb := range phi.Block().Preds {
								if pb == pred && i < len(cl) {
									s = s&^(opNum|opMon) | cl[i]
								}
							}
						}
					}
					return s
				}
				es, ok := at[ins]
				if !ok {
					return s
				}
				if s&same != 0 {
					if s&(lNum|rNum) != 0 {
						s |= lNum | rNum
					}
					if s&(lMon|rMon) != 0 {
						s |= lMon | rMon
					}
				}
				for _, e := range es {
					k := ek{e.ins, e.op}
					l, r, cls := lNum, rNum, opNum
					if want[e.op] == mon {
						l, r, cls = lMon, rMon, opMon
					}
					if e.via != nil {
						// the byte is chosen by an earlier branch: this alternative is the one emitted on the paths
						// that came through the assignment of an opcode of its class
						if s&(opNum|opMon) == 0 {
							seen[k], unknown[k] = true, true
							continue
						}
						if s&cls == 0 {
							continue
						}
					}
					seen[k] = true
					switch {
					case s&l == 0:
						missing[k] = "left"
					case s&r == 0:
						missing[k] = "right"
					}
				}
				return s
			},
		})
		for _, e := range byFn[fn] {
			n++
			k := ek{e.ins, e.op}
			key := fmt.Sprintf("%s:%s:operands-typed", fnName(fn), names[e.op])
			tn := typeConstName(c, want[e.op])
			switch {
			case !seen[k]:
				c.undecided(rule, key, e.ins.Pos(), "the emission is not reached by the path exploration")
			case unknown[k]:
				c.undecided(rule, key, e.ins.Pos(), "the opcode is a value chosen earlier in a shape this rule does not follow (not a join of constant assignments)")
			case missing[k] != "":
				c.bad(rule, key, e.ins.Pos(), fmt.Sprintf("%s is emitted on a path where the static type of the %s operand was not compared equal to %s: a script mixing operand types compiles and the machine's typed pop fails at run time", names[e.op], missing[k], tn))
			default:
				c.ok(rule, key, e.ins.Pos(), "on every path to the emission both operand types were compared equal to "+tn)
			}
		}
	}
	if n < 4 {
		c.undecided(rule, "floor:arithmetic-emissions", token.NoPos, fmt.Sprintf("only %d emissions of arithmetic opcodes found (4 confirmed by reading)", n))
	}
}

func typeConst(c *Ctx, name string) (int64, bool) {
	p := c.Pkg(pkgMachine)
	if p == nil {
		return 0, false
	}
	k, ok := p.Types.Scope().Lookup(name).(*types.Const)
	if !ok {
		return 0, false
	}
	return constInt64(k)
}
