package main

// R17e — column pagination: the row a cursor is positioned on agrees with the comparison the cursor is read
// with (writer's and reader's tables of bunpaginate.UsingColumn).
//
//   reader  in reverse mode the pagination id is compared strictly (`<`, `>`), in forward mode inclusively
//           (`>=`, `<=`): read off the Where formats and the edge of `query.Reverse` they are reached on.
//   writer  every cursor is a copy of the query with, possibly, Reverse overridden and PaginationID set to
//           ids[len(ids)-k] under `hasMore` (pageSize+1 rows were fetched): k = 1 is the extra row, the first one
//           NOT shown; k = 2 is the last row shown.
//   rule    a cursor read strictly must be positioned on the last row shown (or keep the id and flip the
//           direction); a cursor read inclusively must be positioned on the first row not shown (or keep the id
//           and flip the direction). Otherwise following it skips or repeats a row (seed C17-2).

import (
	"fmt"
	"sort"
	"go/token"
	"go/types"
	"strings"

	"golang.org/x/tools/go/ssa"
)

func ruleR17e(c *Ctx) {
	const rule = "R17e"
	nInst := 0
	var cands []*ssa.Function
	for fn := range c.AllFns {
		if origName(fn) != "UsingColumn" || !strings.HasSuffix(fnPkgPath(origin(fn)), "/bun/bunpaginate") || len(fn.Blocks) == 0 || fn.Origin() == nil {
			continue
		}
		ground := true
		for _, ta := range fn.TypeArgs() {
			if mentionsTypeParam(ta, 0) {
				ground = false
			}
		}
		if ground {
			cands = append(cands, fn)
		}
	}
	sort.Slice(cands, func(i, j int) bool { return cands[i].String() < cands[j].String() })
	if len(cands) > 0 {
		nInst++
		columnCursorRule(c, rule, cands[0]) // instances share the body: one is enough
	}
	if nInst == 0 {
		c.undecided(rule, "anchor:bunpaginate.UsingColumn", token.NoPos, "no instantiated body of UsingColumn found")
	}
}

func columnCursorRule(c *Ctx, rule string, fn *ssa.Function) {
	if len(fn.Params) < 3 {
		c.undecided(rule, "anchor:UsingColumn-signature", fn.Pos(), "unexpected signature")
		return
	}
	qParam := fn.Params[2]
	var q *ssa.Alloc
	for _, r := range *qParam.Referrers() {
		if st, ok := r.(*ssa.Store); ok && st.Val == ssa.Value(qParam) {
			q, _ = st.Addr.(*ssa.Alloc)
		}
	}
	if q == nil {
		c.undecided(rule, "anchor:UsingColumn-query", fn.Pos(), fmt.Sprintf("the query parameter is not spilled to a local (%s, %d params, %d referrers)", fn.String(), len(fn.Params), len(*qParam.Referrers())))
		return
	}
	qType := q.Type().(*types.Pointer).Elem()
	// the functions the paginator is made of: UsingColumn and the helpers of the package that are given the query
	// (or its direction); each has its own copy of the query
	isQueryType := func(t types.Type) bool { return types.Identical(t, qType) }
	parts := []*ssa.Function{fn}
	seenPart := map[*ssa.Function]bool{fn: true}
	for i := 0; i < len(parts) && i < 12; i++ {
		allCalls(parts[i], func(ci ssa.CallInstruction) {
			g := staticCallee(ci)
			if g == nil || seenPart[g] || len(g.Blocks) == 0 || fnPkgPath(origin(g)) != fnPkgPath(origin(fn)) {
				return
			}
			for _, p := range g.Params {
				if isQueryType(p.Type()) {
					seenPart[g] = true
					parts = append(parts, g)
					return
				}
			}
		})
	}
	queryOf := map[ssa.Value]bool{q: true}
	for _, g := range parts {
		for _, p := range g.Params {
			if !isQueryType(p.Type()) {
				continue
			}
			queryOf[p] = true
			if p.Referrers() != nil {
				for _, r := range *p.Referrers() {
					if st, ok := r.(*ssa.Store); ok && st.Val == ssa.Value(p) {
						if a, ok := st.Addr.(*ssa.Alloc); ok {
							queryOf[a] = true
						}
					}
				}
			}
		}
	}
	fieldOn := func(v ssa.Value, base ssa.Value, name string) bool {
		f, b := anyFieldRead(v)
		return f != nil && f.Name() == name && (b == base || queryOf[b])
	}
	const (
		bRevT = 1 << iota
		bRevF
		bMore
	)
	// bits that hold on every path to an instruction
	must := map[ssa.Instruction]uint64{}
	// comparison operators chosen by a helper (`operator = "<"` … merged in a phi): the constant that flows in on
	// the current path, with the direction bits of that path
	type opEvent struct {
		op   string
		bits uint64
		pos  token.Pos
	}
	var opEvents []opEvent
	isCmpOp := func(s string) bool { return s == "<" || s == ">" || s == "<=" || s == ">=" }
	pr := &PathRule{
		Inline: func(ci ssa.CallInstruction) []*ssa.Function {
			if g := staticCallee(ci); g != nil && fnPkgPath(origin(g)) == fnPkgPath(origin(fn)) && len(g.Blocks) > 0 && g != fn {
				// helpers of the package that take the direction as a parameter
				for _, a := range ci.Common().Args {
					if fieldOn(a, q, "Reverse") {
						return []*ssa.Function{g}
					}
				}
				// … or the query itself
				if seenPart[g] {
					return []*ssa.Function{g}
				}
			}
			return nil
		},
		Edge: func(pc *PathCtx, s uint64, from *ssa.BasicBlock, si int) (uint64, bool) {
			for _, f := range pc.edgeFacts(from, si) {
				b, isB := constBool(f.Y)
				if !isB {
					continue
				}
				val := b == f.Eq
				if fieldOn(pc.Resolve(f.X), q, "Reverse") {
					// the direction of the query does not change during the call: a second test cannot disagree
					if (val && s&bRevF != 0) || (!val && s&bRevT != 0) {
						return s, false
					}
					if val {
						s |= bRevT
					} else {
						s |= bRevF
					}
				}
				if bo, ok := pc.Resolve(f.X).(*ssa.BinOp); ok && bo.Op == token.GTR {
					if call, ok := bo.X.(*ssa.Call); ok {
						if bi, ok := call.Call.Value.(*ssa.Builtin); ok && bi.Name() == "len" {
							if val {
								s |= bMore
							} else {
								s &^= bMore
							}
						}
					}
				}
			}
			// a comparison operator that flows into a phi of the successor along this edge
			to := from.Succs[si]
			for _, ins := range to.Instrs {
				phi, ok := ins.(*ssa.Phi)
				if !ok {
					break
				}
				if !isStringType(phi.Type()) {
					continue
				}
				for i, p := range to.Preds {
					if p == from && i < len(phi.Edges) {
						if sv, ok := constString(phi.Edges[i]); ok && isCmpOp(sv) {
							opEvents = append(opEvents, opEvent{sv, s, phi.Pos()})
						}
					}
				}
			}
			return s, true
		},
		Step: func(pc *PathCtx, s uint64, ins ssa.Instruction) uint64 {
			if old, ok := must[ins]; ok {
				must[ins] = old & s
			} else {
				must[ins] = s
			}
			return s
		},
		Exit: func(pc *PathCtx, s uint64, ins ssa.Instruction) {
			// a comparison operator handed back by a helper (`return "<", true`), with the direction of that path
			if pc.parent == nil {
				return
			}
			if ret, ok := ins.(*ssa.Return); ok && len(ret.Results) > 0 {
				if sv, ok := constString(ret.Results[0]); ok && isCmpOp(sv) {
					opEvents = append(opEvents, opEvent{sv, s, ret.Pos()})
				}
			}
		},
	}
	c.RunPaths(fn, 0, pr)

	// ---- reader table
	type strictness int // 1 strict, 2 inclusive
	reader := map[bool]map[strictness]token.Pos{true: {}, false: {}}
	nWhere := 0
	var partBlocks []*ssa.BasicBlock
	for _, g := range parts {
		partBlocks = append(partBlocks, g.Blocks...)
	}
	for _, b := range partBlocks {
		for _, ins := range b.Instrs {
			call, ok := ins.(*ssa.Call)
			if !ok || !strings.HasSuffix(calleeFullName(call), "bun.SelectQuery).Where") || len(call.Call.Args) < 2 {
				continue
			}
			var st strictness
			for _, parts := range strParts(call.Call.Args[1]) {
				for _, p := range parts {
					if !p.isLit() {
						continue
					}
					switch {
					case strings.Contains(p.lit, ">=") || strings.Contains(p.lit, "<="):
						st = 2
					case strings.Contains(p.lit, ">") || strings.Contains(p.lit, "<"):
						st = 1
					}
				}
			}
			if st == 0 {
				continue
			}
			nWhere++
			bits := must[ins]
			switch {
			case bits&bRevT != 0:
				reader[true][st] = call.Pos()
			case bits&bRevF != 0:
				reader[false][st] = call.Pos()
			default:
				c.undecided(rule, "UsingColumn:reader-table", call.Pos(), "a bound on the pagination column is applied on a path that has not tested query.Reverse")
				return
			}
		}
	}
	for _, ev := range opEvents {
		st := strictness(1)
		if strings.Contains(ev.op, "=") {
			st = 2
		}
		nWhere++
		switch {
		case ev.bits&bRevT != 0:
			reader[true][st] = ev.pos
		case ev.bits&bRevF != 0:
			reader[false][st] = ev.pos
		default:
			c.undecided(rule, "UsingColumn:reader-table", fn.Pos(), "a comparison operator is chosen on a path that has not tested the direction")
			return
		}
	}
	strictOf := func(rev bool) (strictness, bool) {
		if len(reader[rev]) != 1 {
			return 0, false
		}
		for s := range reader[rev] {
			return s, true
		}
		return 0, false
	}
	sRev, ok1 := strictOf(true)
	sFwd, ok2 := strictOf(false)
	if !ok1 || !ok2 || nWhere < 4 {
		c.undecided(rule, "UsingColumn:reader-table", fn.Pos(), fmt.Sprintf("could not read one comparison kind per direction off the Where formats (%d bounds found)", nWhere))
		return
	}
	name := map[strictness]string{1: "strictly", 2: "inclusively"}
	c.ok(rule, "UsingColumn:reader-table", fn.Pos(), fmt.Sprintf("reverse cursors are read %s, forward cursors %s", name[sRev], name[sFwd]))

	// ---- writer sites: copies of the query
	nCopies := 0
	for _, b := range partBlocks {
		for _, ins := range b.Instrs {
			cp, ok := ins.(*ssa.Alloc)
			if !ok || queryOf[cp] || !types.Identical(cp.Type().(*types.Pointer).Elem(), qType) {
				continue
			}
			var copyStore *ssa.Store
			var revOverride *bool
			var pidVal ssa.Value
			var pidPos token.Pos
			for _, r := range *cp.Referrers() {
				switch u := r.(type) {
				case *ssa.Store:
					if u.Addr == ssa.Value(cp) {
						if l, ok := u.Val.(*ssa.UnOp); ok && l.Op == token.MUL && queryOf[l.X] {
							copyStore = u
						}
						if queryOf[u.Val] {
							copyStore = u
						}
					}
				case *ssa.FieldAddr:
					for _, rr := range *u.Referrers() {
						st, ok := rr.(*ssa.Store)
						if !ok || st.Addr != ssa.Value(u) {
							continue
						}
						switch fieldOfAddr(u).Name() {
						case "Reverse":
							if bv, isB := constBool(st.Val); isB {
								revOverride = &bv
							}
						case "PaginationID":
							pidVal, pidPos = st.Val, st.Pos()
						}
					}
				}
			}
			if copyStore == nil {
				continue
			}
			nCopies++
			key := fmt.Sprintf("UsingColumn:cursor#%d:position-agrees-with-comparison", nCopies)
			bits := must[copyStore]
			var stateRev, known bool
			switch {
			case bits&bRevT != 0:
				stateRev, known = true, true
			case bits&bRevF != 0:
				stateRev, known = false, true
			}
			effRev := stateRev
			if revOverride != nil {
				effRev, known = *revOverride, true
			}
			if !known {
				c.undecided(rule, key, cp.Pos(), "the direction of this cursor cannot be read (no constant Reverse and no test of query.Reverse on the way)")
				continue
			}
			st := sFwd
			if effRev {
				st = sRev
			}
			dir := map[bool]string{true: "reverse", false: "forward"}[effRev]
			if pidVal == nil {
				// the id is kept: the direction must flip
				okFlip := revOverride != nil && bits&(bRevT|bRevF) != 0 && *revOverride != stateRev
				c.check(okFlip, rule, key, cp.Pos(), "keeps the pagination id and flips the direction ("+dir+")", "a cursor keeps the pagination id of the query without flipping its direction: it denotes the page being served, not an adjacent one")
				continue
			}
			k, underMore, okK := cursorRowIndex(pidVal, must, bMore, 0)
			if !okK {
				c.undecided(rule, key, pidPos, "the pagination id of this cursor is not `ids[len(ids)-k]` of the fetched rows")
				continue
			}
			if !underMore {
				c.bad(rule, key, pidPos, "the pagination id is taken from the fetched rows on a path that has not established that the additional row was fetched (hasMore): without it the last row is a row of the page")
				continue
			}
			row := map[int64]string{1: "the additional row (first one not shown)", 2: "the last row shown"}[k]
			okPos := (st == 1 && k == 2) || (st == 2 && k == 1)
			c.check(okPos, rule, key, pidPos, fmt.Sprintf("%s cursor, read %s, positioned on %s", dir, name[st], row),
				fmt.Sprintf("a %s cursor is read %s but is positioned on %s: following it %s", dir, name[st], orQ(row), map[strictness]string{1: "skips the row it is positioned on (an item is never listed)", 2: "lists the row it is positioned on twice"}[st]))
		}
	}
	if nCopies < 3 {
		c.undecided(rule, "floor:cursor-sites", fn.Pos(), fmt.Sprintf("only %d cursors built from the query found", nCopies))
	}
}

// cursorRowIndex: v denotes ids[len(ids)-k] (through conversions, nil-or-value phis and locals); reports k and
// whether the indexing happens under hasMore on every path.
func cursorRowIndex(v ssa.Value, must map[ssa.Instruction]uint64, bMore uint64, depth int) (int64, bool, bool) {
	if depth > 8 {
		return 0, false, false
	}
	switch x := v.(type) {
	case *ssa.ChangeType:
		return cursorRowIndex(x.X, must, bMore, depth+1)
	case *ssa.Convert:
		return cursorRowIndex(x.X, must, bMore, depth+1)
	case *ssa.Phi:
		var k int64
		under, found := true, false
		for _, e := range x.Edges {
			if isNilConst(e) {
				continue
			}
			kk, u, ok := cursorRowIndex(e, must, bMore, depth+1)
			if !ok || (found && kk != k) {
				return 0, false, false
			}
			k, found = kk, true
			under = under && u
		}
		return k, under, found
	case *ssa.UnOp:
		if x.Op != token.MUL {
			return 0, false, false
		}
		if ia, ok := x.X.(*ssa.IndexAddr); ok {
			bo, ok := ia.Index.(*ssa.BinOp)
			if !ok || bo.Op != token.SUB {
				return 0, false, false
			}
			k, isC := constInt(bo.Y)
			call, isCall := bo.X.(*ssa.Call)
			if !isC || !isCall {
				return 0, false, false
			}
			if bi, ok := call.Call.Value.(*ssa.Builtin); !ok || bi.Name() != "len" || call.Call.Args[0] != ia.X {
				return 0, false, false
			}
			return k, must[ia]&bMore != 0, true
		}
		if a, ok := x.X.(*ssa.Alloc); ok {
			if s := singleStore(a); s != nil {
				return cursorRowIndex(s, must, bMore, depth+1)
			}
		}
	}
	return 0, false, false
}
