package main

// R17d — the JSON kinds the query-builder encoders can emit are kinds their decoder accepts.
//
// A cursor carries the filter as JSON produced by the MarshalJSON methods of query.{set,keyValue,not} and
// read back by query.ParseJSON → mapMapToExpression → parseSet / parseKeyValue, which dispatch on the Go
// type json.Unmarshal produced for the operand ([]any = array, map[string]any = object, nil = null, …).
// For each builder, the operand written under the operator key is traced (through a marshalling helper if
// there is one) to its Go value; a slice, map or pointer that may be nil encodes as `null`. The kinds that
// can be emitted must all be cases of the decoder's type switch: otherwise the server hands out a cursor
// it refuses when it comes back (seed C17-1: an empty `$and` encoded as null).

import (
	"fmt"
	"go/token"
	"go/types"
	"sort"
	"strings"

	"golang.org/x/tools/go/ssa"
)

func ruleR17d(c *Ctx) {
	const rule = "R17d"
	mm := c.MustFn(rule, pkgQuery, "mapMapToExpression")
	if mm == nil {
		return
	}
	// operator and operand of the clause being decoded: the results of singleKey(m)
	var opVal, operand ssa.Value
	for _, b := range mm.Blocks {
		for _, ins := range b.Instrs {
			ex, ok := ins.(*ssa.Extract)
			if !ok {
				continue
			}
			if call, ok := ex.Tuple.(*ssa.Call); ok {
				if g := staticCallee(call); g != nil && g.Name() == "singleKey" {
					switch ex.Index {
					case 0:
						opVal = ex
					case 1:
						operand = ex
					}
				}
			}
		}
	}
	if opVal == nil || operand == nil {
		c.undecided(rule, "anchor:mapMapToExpression:operator-and-operand", mm.Pos(), "the operator and operand of a clause are not obtained from singleKey")
		return
	}
	// the operators the decoder distinguishes
	var ops []string
	opBit := map[string]uint64{}
	for _, b := range mm.Blocks {
		for _, ins := range b.Instrs {
			if bo, ok := ins.(*ssa.BinOp); ok && bo.Op == token.EQL && (bo.X == opVal || bo.Y == opVal) {
				other := bo.Y
				if other == opVal {
					other = bo.X
				}
				if sv, ok := constString(other); ok {
					if _, dup := opBit[sv]; !dup && len(ops) < 60 {
						opBit[sv] = 1 << uint(len(ops))
						ops = append(ops, sv)
					}
				}
			}
		}
	}
	if len(ops) < 4 {
		c.undecided(rule, "anchor:mapMapToExpression:operator-cases", mm.Pos(), fmt.Sprintf("only %d operator comparisons found", len(ops)))
		return
	}
	all := uint64(1)<<uint(len(ops)) - 1
	// where the operand goes, per operator: type assertions on it, and package functions it is handed to
	accepted := map[string]map[string]bool{}
	where := map[string]string{}
	addKinds := func(s uint64, kinds map[string]bool, what string) {
		if s == all {
			return // not under a specific operator
		}
		for _, op := range ops {
			if s&opBit[op] == 0 {
				continue
			}
			if accepted[op] == nil {
				accepted[op] = map[string]bool{}
			}
			for k := range kinds {
				accepted[op][k] = true
			}
			where[op] = what
		}
	}
	pr := &PathRule{
		Edge: func(pc *PathCtx, s uint64, from *ssa.BasicBlock, si int) (uint64, bool) {
			for _, f := range pc.edgeFacts(from, si) {
				if f.X != opVal && f.Y != opVal {
					continue
				}
				other := f.Y
				if other == opVal {
					other = f.X
				}
				sv, ok := constString(other)
				if !ok {
					continue
				}
				if f.Eq {
					if s&opBit[sv] == 0 {
						return s, false
					}
					s = opBit[sv]
				} else {
					s &^= opBit[sv]
				}
			}
			return s, true
		},
		Step: func(pc *PathCtx, s uint64, ins ssa.Instruction) uint64 {
			switch x := ins.(type) {
			case *ssa.TypeAssert:
				if x.X == operand {
					addKinds(s, assertedKinds(mm, operand), "mapMapToExpression")
				}
			case *ssa.Call:
				g := staticCallee(x)
				if g == nil || fnPkgPath(g) != pkgQuery || len(g.Blocks) == 0 {
					return s
				}
				for i, a := range x.Call.Args {
					if a == operand && i < len(g.Params) {
						addKinds(s, assertedKinds(g, g.Params[i]), g.Name())
					}
				}
			}
			return s
		},
	}
	c.RunPaths(mm, all, pr)

	// what each builder emits, under which operators
	type emitter struct {
		typ string
		ops []string
	}
	var emitters []emitter
	opKV := c.Field(pkgQuery, "keyValue", "operator")
	opSet := c.Field(pkgQuery, "set", "operator")
	kvOps, setOps := map[string]bool{}, map[string]bool{}
	for _, fn := range c.FuncsIn(pkgQuery) {
		for _, b := range fn.Blocks {
			for _, ins := range b.Instrs {
				if v, _, ok := storeToField(ins, opKV); ok {
					for _, sv := range constStringsThroughParams(c, v, fn, 0) {
						kvOps[sv] = true
					}
				}
				if v, _, ok := storeToField(ins, opSet); ok {
					for _, sv := range constStringsThroughParams(c, v, fn, 0) {
						setOps["$"+sv] = true
					}
				}
			}
		}
	}
	keys := func(m map[string]bool) []string {
		var out []string
		for k := range m {
			out = append(out, k)
		}
		sort.Strings(out)
		return out
	}
	emitters = append(emitters, emitter{"set", keys(setOps)}, emitter{"keyValue", keys(kvOps)}, emitter{"not", []string{"$not"}})
	for _, em := range emitters {
		mfn := c.MustFn(rule, pkgQuery, em.typ+".MarshalJSON")
		if mfn == nil {
			continue
		}
		key := em.typ + ".MarshalJSON:operand-kind-accepted-by-the-decoder"
		operands := marshalledOperands(c, mfn)
		if len(operands) == 0 {
			c.undecided(rule, key, mfn.Pos(), "the operand written under the operator key could not be traced to a json.Marshal of a map")
			continue
		}
		if len(em.ops) == 0 {
			c.undecided(rule, key, mfn.Pos(), "no operator emitted by this builder was found")
			continue
		}
		var emitted []string
		for _, op := range operands {
			emitted = append(emitted, kindsOf(op)...)
		}
		sort.Strings(emitted)
		emitted = dedupStrings(emitted)
		var problems []string
		var okDesc []string
		for _, op := range em.ops {
			acc := accepted[op]
			if acc == nil {
				problems = append(problems, fmt.Sprintf("the decoder does not look at the operand of %s", op))
				continue
			}
			for _, k := range emitted {
				if !acc[k] {
					problems = append(problems, fmt.Sprintf("%s under %s, while %s accepts only %v", k, op, where[op], keys(acc)))
				}
			}
			okDesc = append(okDesc, fmt.Sprintf("%s: %s accepts %v", op, where[op], keys(acc)))
		}
		if len(problems) == 0 {
			c.ok(rule, key, mfn.Pos(), fmt.Sprintf("emits %v; %s", emitted, strings.Join(okDesc, "; ")))
		} else {
			c.bad(rule, key, operands[0].Pos(), fmt.Sprintf("query.%s.MarshalJSON can write %s (a nil slice, map or pointer encodes as null): a cursor carrying such a filter is handed out and then rejected when the client sends it back", em.typ, strings.Join(problems, "; ")))
		}
	}
}

// assertedKinds: the JSON kinds for which a decoder goes on with the value: the types it asserts the value to
// (type switches are chains of comma-ok assertions), not counting an assertion whose success branch only fails,
// and `nil` when the value is compared with nil.
func assertedKinds(fn *ssa.Function, v ssa.Value) map[string]bool {
	kinds := map[string]bool{}
	isV := func(x ssa.Value) bool { return x == v || stripLoadOfParamCell(x) == v }
	for _, b := range fn.Blocks {
		for _, ins := range b.Instrs {
			switch x := ins.(type) {
			case *ssa.TypeAssert:
				if !isV(x.X) {
					continue
				}
				k := jsonKindOfType(x.AssertedType)
				if k == "" {
					continue
				}
				if x.CommaOk && okBranchOnlyFails(x) {
					continue
				}
				kinds[k] = true
			case *ssa.BinOp:
				if (x.Op == token.EQL || x.Op == token.NEQ) && ((isV(x.X) && isNilConst(x.Y)) || (isV(x.Y) && isNilConst(x.X))) {
					kinds["null"] = true
				}
			}
		}
	}
	return kinds
}

// okBranchOnlyFails: the block taken when the comma-ok assertion succeeds immediately returns a non-nil error.
func okBranchOnlyFails(ta *ssa.TypeAssert) bool {
	for _, r := range *ta.Referrers() {
		ex, ok := r.(*ssa.Extract)
		if !ok || ex.Index != 1 {
			continue
		}
		for _, rr := range *ex.Referrers() {
			iff, ok := rr.(*ssa.If)
			if !ok || iff.Cond != ssa.Value(ex) {
				continue
			}
			tb := iff.Block().Succs[0]
			if ret, ok := tb.Instrs[len(tb.Instrs)-1].(*ssa.Return); ok && len(ret.Results) > 0 && len(tb.Instrs) <= 6 {
				if errNilness(ret.Results[len(ret.Results)-1]) == 2 {
					return true
				}
			}
		}
	}
	return false
}

// jsonKindOfType: the JSON kind encoding/json decodes into this Go type when the target is `any`.
func jsonKindOfType(t types.Type) string {
	switch x := t.Underlying().(type) {
	case *types.Slice:
		return "array"
	case *types.Map:
		return "object"
	case *types.Basic:
		switch {
		case x.Info()&types.IsString != 0:
			return "string"
		case x.Info()&types.IsNumeric != 0:
			return "number"
		case x.Info()&types.IsBoolean != 0:
			return "bool"
		}
	}
	return ""
}

// marshalledOperands: the Go values stored as elements of the map[string]any that MarshalJSON (or the
// helper it delegates to) hands to json.Marshal.
func marshalledOperands(c *Ctx, mfn *ssa.Function) []ssa.Value {
	var out []ssa.Value
	collect := func(fn *ssa.Function, bind func(p *ssa.Parameter) []ssa.Value) {
		for _, b := range fn.Blocks {
			for _, ins := range b.Instrs {
				mu, ok := ins.(*ssa.MapUpdate)
				if !ok {
					continue
				}
				mt, ok := mu.Map.Type().Underlying().(*types.Map)
				if !ok || !isStringType(mt.Key()) {
					continue
				}
				if _, isIface := mt.Elem().Underlying().(*types.Interface); !isIface {
					continue
				}
				// only the outer map: the one reaching json.Marshal (not nested literals, which are operands)
				if !reachesJSONMarshal(mu.Map) {
					continue
				}
				v := mu.Value
				if mi, ok := v.(*ssa.MakeInterface); ok {
					v = mi.X
				}
				if p, ok := v.(*ssa.Parameter); ok && bind != nil {
					out = append(out, bind(p)...)
					continue
				}
				out = append(out, v)
			}
		}
	}
	collect(mfn, nil)
	// one level of delegation: helper(operator, operand)
	allCalls(mfn, func(ci ssa.CallInstruction) {
		call, ok := ci.(*ssa.Call)
		if !ok {
			return
		}
		h := staticCallee(call)
		if h == nil || !inRepo(fnPkgPath(h)) || len(h.Blocks) == 0 || h == mfn {
			return
		}
		collect(h, func(p *ssa.Parameter) []ssa.Value {
			for i, hp := range h.Params {
				if hp == p && i < len(call.Call.Args) {
					v := call.Call.Args[i]
					if mi, ok := v.(*ssa.MakeInterface); ok {
						v = mi.X
					}
					return []ssa.Value{v}
				}
			}
			return nil
		})
	})
	return out
}

func reachesJSONMarshal(m ssa.Value) bool {
	refs := m.Referrers()
	if refs == nil {
		return false
	}
	for _, r := range *refs {
		if mi, ok := r.(*ssa.MakeInterface); ok {
			for _, rr := range *mi.Referrers() {
				if call, ok := rr.(*ssa.Call); ok && calleeFullName(call) == "encoding/json.Marshal" {
					return true
				}
			}
		}
	}
	return false
}

// kindsOf: the JSON kinds a Go value encodes as.
func kindsOf(v ssa.Value) []string {
	t := v.Type().Underlying()
	switch t.(type) {
	case *types.Slice:
		if mayBeNil(v, 0) {
			return []string{"array", "null"}
		}
		return []string{"array"}
	case *types.Map:
		if mayBeNil(v, 0) {
			return []string{"object", "null"}
		}
		return []string{"object"}
	case *types.Pointer:
		if mayBeNil(v, 0) {
			return []string{"object", "null"}
		}
		return []string{"object"}
	case *types.Interface:
		// a Builder: its dynamic type encodes itself as an object; a dynamic `any` operand (the value of a
		// key/value) lives one level below the kind the decoder dispatches on
		return []string{"object"}
	case *types.Struct:
		return []string{"object"}
	}
	if k := jsonKindOfType(v.Type()); k != "" {
		return []string{k}
	}
	return []string{"?" + v.Type().String()}
}

func mayBeNil(v ssa.Value, depth int) bool {
	if depth > 10 {
		return true
	}
	switch x := v.(type) {
	case *ssa.MakeSlice, *ssa.MakeMap, *ssa.Alloc:
		return false
	case *ssa.Slice:
		if _, ok := x.X.(*ssa.Alloc); ok {
			return false // slice of a fresh array: a literal, never nil
		}
		return mayBeNil(x.X, depth+1)
	case *ssa.Const:
		return x.Value == nil
	case *ssa.ChangeType:
		return mayBeNil(x.X, depth+1)
	case *ssa.Call:
		if bi, ok := x.Call.Value.(*ssa.Builtin); ok && bi.Name() == "append" {
			if !mayBeNil(x.Call.Args[0], depth+1) {
				return false
			}
			if len(x.Call.Args) > 1 {
				if sl, ok := x.Call.Args[1].(*ssa.Slice); ok {
					if a, ok := sl.X.(*ssa.Alloc); ok {
						if arr, ok := a.Type().(*types.Pointer).Elem().(*types.Array); ok && arr.Len() > 0 {
							return false
						}
					}
				}
			}
			return true
		}
		return true
	case *ssa.Phi:
		for i, e := range x.Edges {
			if !mayBeNil(e, depth+1) {
				continue
			}
			// the edge may be guarded: the predecessor leaves through the `e != nil` side of a test
			pred := x.Block().Preds[i]
			guarded := false
			for si, s := range pred.Succs {
				if s != x.Block() {
					continue
				}
				for _, f := range edgeFacts(pred, si) {
					if f.X == e && isNilConst(f.Y) && !f.Eq {
						guarded = true
					}
				}
			}
			if !guarded {
				return true
			}
		}
		return false
	}
	return true
}
