package main

// R17d — the JSON kinds the query-builder encoders can emit are kinds their decoder accepts.
//
// A cursor carries the filter as JSON produced by the MarshalJSON methods of query.{set,keyValue,not} and
// read back by query.ParseJSON → mapMapToExpression → parseSet / parseKeyValue, which dispatch on the Go
// type json.Unmarshal produced for the operand ([]any = array, map[string]any = object, nil = null, …).
// For each builder, the operand written under the operator key is traced (through a marshalling helper if
// there is one) to its Go value; a slice, map or pointer that may be nil encodes as `null`. The kinds that
// can be emitted must all be cases of the decoder's type switch: otherwise the server hands out a cursor
// it refuses when it comes back (seed C17-1: an empty `$and` encoded as null).

import (
	"fmt"
	"go/ast"
	"go/token"
	"go/types"
	"sort"
	"strings"

	"golang.org/x/tools/go/ssa"
)

func ruleR17d(c *Ctx) {
	const rule = "R17d"
	type pair struct {
		typ     string // builder type
		decoder string // function holding the type switch
		subject string // name of the switched variable / parameter
		inCase  string // for an inline switch: the operator case that contains it
	}
	pairs := []pair{
		{"set", "parseSet", "value", ""},
		{"keyValue", "parseKeyValue", "m", ""},
		{"not", "mapMapToExpression", "value", "$not"},
	}
	for _, p := range pairs {
		accepted, pos := decoderKinds(c, rule, p.decoder, p.subject, p.inCase)
		if accepted == nil {
			continue
		}
		mfn := c.MustFn(rule, pkgQuery, p.typ+".MarshalJSON")
		if mfn == nil {
			continue
		}
		operands := marshalledOperands(c, mfn)
		key := p.typ + ".MarshalJSON:operand-kind-accepted-by-" + p.decoder
		if len(operands) == 0 {
			c.undecided(rule, key, mfn.Pos(), "the operand written under the operator key could not be traced to a json.Marshal of a map")
			continue
		}
		var emitted []string
		var badKinds []string
		var badPos token.Pos
		for _, op := range operands {
			for _, k := range kindsOf(op) {
				emitted = append(emitted, k)
				if !accepted[k] {
					badKinds = append(badKinds, k)
					if badPos == token.NoPos {
						badPos = op.Pos()
					}
				}
			}
		}
		sort.Strings(emitted)
		emitted = dedupStrings(emitted)
		var acc []string
		for k := range accepted {
			acc = append(acc, k)
		}
		sort.Strings(acc)
		if len(badKinds) == 0 {
			c.ok(rule, key, pos, fmt.Sprintf("emits %v; %s accepts %v", emitted, p.decoder, acc))
		} else {
			if !badPos.IsValid() {
				badPos = mfn.Pos()
			}
			sort.Strings(badKinds)
			c.bad(rule, key, badPos, fmt.Sprintf("query.%s.MarshalJSON can write %v under its operator (a nil slice, map or pointer encodes as null) but %s only accepts %v: a cursor carrying such a filter is handed out and then rejected when the client sends it back", p.typ, dedupStrings(badKinds), p.decoder, acc))
		}
	}
}

// decoderKinds: the JSON kinds accepted by the type switch on `subject` in the decoder (inside the case
// clause of operator inCase when given).
func decoderKinds(c *Ctx, rule, fnName_, subject, inCase string) (map[string]bool, token.Pos) {
	p, fd := c.MustFuncDecl(rule, pkgQuery, fnName_)
	if fd == nil {
		return nil, token.NoPos
	}
	var scope ast.Node = fd.Body
	if inCase != "" {
		scope = nil
		for _, sw := range switchesIn(fd.Body) {
			for _, cl := range clausesOf(sw.Body) {
				for _, e := range cl.Exprs {
					if v := constVal(p, e); v != nil && strings.Trim(v.ExactString(), `"`) == inCase {
						scope = &ast.BlockStmt{List: cl.Body}
					}
				}
			}
		}
		if scope == nil {
			c.undecided(rule, "anchor:"+fnName_+":case-"+inCase, fd.Pos(), "operator case not found")
			return nil, token.NoPos
		}
	}
	for _, ts := range typeSwitchesIn(scope) {
		// subject: `x := value.(type)` or `value.(type)`
		var ta *ast.TypeAssertExpr
		switch a := ts.Assign.(type) {
		case *ast.AssignStmt:
			if len(a.Rhs) == 1 {
				ta, _ = a.Rhs[0].(*ast.TypeAssertExpr)
			}
		case *ast.ExprStmt:
			ta, _ = a.X.(*ast.TypeAssertExpr)
		}
		if ta == nil {
			continue
		}
		id, ok := ta.X.(*ast.Ident)
		if !ok || id.Name != subject {
			continue
		}
		kinds := map[string]bool{}
		for _, st := range ts.Body.List {
			cc, ok := st.(*ast.CaseClause)
			if !ok || cc.List == nil {
				continue // default: an error branch in these decoders
			}
			// a clause that only returns an error does not accept the kind
			if clauseOnlyFails(p, cc) {
				continue
			}
			for _, e := range cc.List {
				if tv, ok := p.TypesInfo.Types[e]; ok {
					if tv.IsNil() {
						kinds["null"] = true
						continue
					}
					if k := jsonKindOfType(tv.Type); k != "" {
						kinds[k] = true
					}
				}
			}
		}
		return kinds, ts.Pos()
	}
	c.undecided(rule, "anchor:"+fnName_+":type-switch-on-"+subject, fd.Pos(), "the decoder has no type switch on "+subject)
	return nil, token.NoPos
}

func clauseOnlyFails(p interface{}, cc *ast.CaseClause) bool {
	if len(cc.Body) != 1 {
		return false
	}
	ret, ok := cc.Body[0].(*ast.ReturnStmt)
	if !ok || len(ret.Results) == 0 {
		return false
	}
	last := ret.Results[len(ret.Results)-1]
	call, ok := last.(*ast.CallExpr)
	if !ok {
		return false
	}
	s := types.ExprString(call.Fun)
	return strings.Contains(s, "Errorf") || strings.Contains(s, "errors.New") || strings.Contains(s, "Wrap")
}

// jsonKindOfType: the JSON kind encoding/json decodes into this Go type when the target is `any`.
func jsonKindOfType(t types.Type) string {
	switch x := t.Underlying().(type) {
	case *types.Slice:
		return "array"
	case *types.Map:
		return "object"
	case *types.Basic:
		switch {
		case x.Info()&types.IsString != 0:
			return "string"
		case x.Info()&types.IsNumeric != 0:
			return "number"
		case x.Info()&types.IsBoolean != 0:
			return "bool"
		}
	}
	return ""
}

// marshalledOperands: the Go values stored as elements of the map[string]any that MarshalJSON (or the
// helper it delegates to) hands to json.Marshal.
func marshalledOperands(c *Ctx, mfn *ssa.Function) []ssa.Value {
	var out []ssa.Value
	collect := func(fn *ssa.Function, bind func(p *ssa.Parameter) []ssa.Value) {
		for _, b := range fn.Blocks {
			for _, ins := range b.Instrs {
				mu, ok := ins.(*ssa.MapUpdate)
				if !ok {
					continue
				}
				mt, ok := mu.Map.Type().Underlying().(*types.Map)
				if !ok || !isStringType(mt.Key()) {
					continue
				}
				if _, isIface := mt.Elem().Underlying().(*types.Interface); !isIface {
					continue
				}
				// only the outer map: the one reaching json.Marshal (not nested literals, which are operands)
				if !reachesJSONMarshal(mu.Map) {
					continue
				}
				v := mu.Value
				if mi, ok := v.(*ssa.MakeInterface); ok {
					v = mi.X
				}
				if p, ok := v.(*ssa.Parameter); ok && bind != nil {
					out = append(out, bind(p)...)
					continue
				}
				out = append(out, v)
			}
		}
	}
	collect(mfn, nil)
	// one level of delegation: helper(operator, operand)
	allCalls(mfn, func(ci ssa.CallInstruction) {
		call, ok := ci.(*ssa.Call)
		if !ok {
			return
		}
		h := staticCallee(call)
		if h == nil || !inRepo(fnPkgPath(h)) || len(h.Blocks) == 0 || h == mfn {
			return
		}
		collect(h, func(p *ssa.Parameter) []ssa.Value {
			for i, hp := range h.Params {
				if hp == p && i < len(call.Call.Args) {
					v := call.Call.Args[i]
					if mi, ok := v.(*ssa.MakeInterface); ok {
						v = mi.X
					}
					return []ssa.Value{v}
				}
			}
			return nil
		})
	})
	return out
}

func reachesJSONMarshal(m ssa.Value) bool {
	refs := m.Referrers()
	if refs == nil {
		return false
	}
	for _, r := range *refs {
		if mi, ok := r.(*ssa.MakeInterface); ok {
			for _, rr := range *mi.Referrers() {
				if call, ok := rr.(*ssa.Call); ok && calleeFullName(call) == "encoding/json.Marshal" {
					return true
				}
			}
		}
	}
	return false
}

// kindsOf: the JSON kinds a Go value encodes as.
func kindsOf(v ssa.Value) []string {
	t := v.Type().Underlying()
	switch t.(type) {
	case *types.Slice:
		if mayBeNil(v, 0) {
			return []string{"array", "null"}
		}
		return []string{"array"}
	case *types.Map:
		if mayBeNil(v, 0) {
			return []string{"object", "null"}
		}
		return []string{"object"}
	case *types.Pointer:
		if mayBeNil(v, 0) {
			return []string{"object", "null"}
		}
		return []string{"object"}
	case *types.Interface:
		// a Builder: its dynamic type encodes itself as an object; a dynamic `any` operand (the value of a
		// key/value) lives one level below the kind the decoder dispatches on
		return []string{"object"}
	case *types.Struct:
		return []string{"object"}
	}
	if k := jsonKindOfType(v.Type()); k != "" {
		return []string{k}
	}
	return []string{"?" + v.Type().String()}
}

func mayBeNil(v ssa.Value, depth int) bool {
	if depth > 10 {
		return true
	}
	switch x := v.(type) {
	case *ssa.MakeSlice, *ssa.MakeMap, *ssa.Alloc:
		return false
	case *ssa.Slice:
		if _, ok := x.X.(*ssa.Alloc); ok {
			return false // slice of a fresh array: a literal, never nil
		}
		return mayBeNil(x.X, depth+1)
	case *ssa.Const:
		return x.Value == nil
	case *ssa.ChangeType:
		return mayBeNil(x.X, depth+1)
	case *ssa.Call:
		if bi, ok := x.Call.Value.(*ssa.Builtin); ok && bi.Name() == "append" {
			if !mayBeNil(x.Call.Args[0], depth+1) {
				return false
			}
			if len(x.Call.Args) > 1 {
				if sl, ok := x.Call.Args[1].(*ssa.Slice); ok {
					if a, ok := sl.X.(*ssa.Alloc); ok {
						if arr, ok := a.Type().(*types.Pointer).Elem().(*types.Array); ok && arr.Len() > 0 {
							return false
						}
					}
				}
			}
			return true
		}
		return true
	case *ssa.Phi:
		for i, e := range x.Edges {
			if !mayBeNil(e, depth+1) {
				continue
			}
			// the edge may be guarded: the predecessor leaves through the `e != nil` side of a test
			pred := x.Block().Preds[i]
			guarded := false
			for si, s := range pred.Succs {
				if s != x.Block() {
					continue
				}
				for _, f := range edgeFacts(pred, si) {
					if f.X == e && isNilConst(f.Y) && !f.Eq {
						guarded = true
					}
				}
			}
			if !guarded {
				return true
			}
		}
		return false
	}
	return true
}
