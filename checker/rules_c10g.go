package main

// R10g — a reversed posting is ONE original posting with its endpoints swapped.
//
// Transaction.Reverse() builds the postings of the reversal. Whatever the way it is written (swap in place then
// reorder, or build mirrored copies), every posting of the result must take its four fields from a single posting
// of the original: Source ← Destination, Destination ← Source, Asset and Amount of that same posting. Decided on the
// field stores of the Reverse functions of package ledger: a store into field F of element i of a postings slice
// whose value is field G of element j of a postings slice is fine when it is the same element (in-place swap);
// when it is another element (another slice, or a mirrored index) then every field of element i must be stored in
// that function from that same element j — otherwise the fields that are not stored keep what `copy` put there
// (posting i), and the reversal moves the amount of one posting between the accounts of another.

import (
	"fmt"
	"go/token"
	"go/types"
	"sort"
	"strings"

	"golang.org/x/tools/go/ssa"
)

func ruleR10g(c *Ctx) {
	const rule = "R10g"
	postingT := c.Named(pkgLedger, "Posting")
	if postingT == nil {
		c.undecided(rule, "anchor:ledger.Posting", token.NoPos, "type not found")
		return
	}
	st := postingT.Underlying().(*types.Struct)
	nFields := st.NumFields()
	var fns []*ssa.Function
	seen := map[*ssa.Function]bool{}
	for _, fn := range c.FuncsIn(pkgLedger) {
		if (origName(fn) != "Reverse" && origName(fn) != "Reversed") || len(fn.Blocks) == 0 || fn.Synthetic != "" || seen[fn] {
			continue
		}
		seen[fn] = true
		fns = append(fns, fn)
		allCalls(fn, func(ci ssa.CallInstruction) {
			if g := staticCallee(ci); g != nil && fnPkgPath(origin(g)) == pkgLedger && len(g.Blocks) > 0 && !seen[g] {
				seen[g] = true
				fns = append(fns, g)
			}
		})
	}
	sort.Slice(fns, func(i, j int) bool { return fns[i].Pos() < fns[j].Pos() })
	// element: (slice description, index description)
	elemOf := func(addr ssa.Value) (string, bool) {
		fa, ok := addr.(*ssa.FieldAddr)
		if !ok || !isNamed(fa.X.Type(), pkgLedger, "Posting") {
			return "", false
		}
		switch x := fa.X.(type) {
		case *ssa.IndexAddr:
			return descr(x.X, 0) + "[" + descr(x.Index, 0) + "]", true
		case *ssa.Alloc:
			// a local copy of an element (`mirror := t.Postings[j]`), a posting received as a parameter, or a new literal
			if sv := singleStore(x); sv != nil {
				if u, ok := sv.(*ssa.UnOp); ok && u.Op == token.MUL {
					if ia, ok := u.X.(*ssa.IndexAddr); ok {
						return descr(ia.X, 0) + "[" + descr(ia.Index, 0) + "]", true
					}
				}
				if prm, ok := sv.(*ssa.Parameter); ok {
					return "posting " + prm.Name(), true
				}
			}
			if x.Comment == "complit" {
				return fmt.Sprintf("new posting@%d", x.Pos()), true
			}
		case *ssa.Parameter:
			return "posting " + x.Name(), true
		}
		return "", false
	}
	// a field read as a value: p.Destination of a posting held by value
	valueField := func(v ssa.Value) (string, string, bool) {
		f, ok := v.(*ssa.Field)
		if !ok || !isNamed(f.X.Type(), pkgLedger, "Posting") {
			return "", "", false
		}
		switch x := f.X.(type) {
		case *ssa.Parameter:
			return "posting " + x.Name(), fieldOfField(f).Name(), true
		case *ssa.UnOp:
			if ia, ok := x.X.(*ssa.IndexAddr); ok && x.Op == token.MUL {
				return descr(ia.X, 0) + "[" + descr(ia.Index, 0) + "]", fieldOfField(f).Name(), true
			}
		}
		return "", "", false
	}
	nStores := 0
	for _, fn := range fns {
		type fstore struct {
			field string
			from  string // source element
			fromF string
			pos   token.Pos
		}
		byElem := map[string][]fstore{}
		for _, b := range fn.Blocks {
			for _, ins := range b.Instrs {
				s, ok := ins.(*ssa.Store)
				if !ok {
					continue
				}
				dst, ok := elemOf(s.Addr)
				if !ok {
					continue
				}
				f := fieldOfAddr(s.Addr.(*ssa.FieldAddr))
				v := s.Val
				if src, sf, ok := valueField(v); ok {
					byElem[dst] = append(byElem[dst], fstore{f.Name(), src, sf, s.Pos()})
					continue
				}
				ld, ok := v.(*ssa.UnOp)
				if !ok || ld.Op != token.MUL {
					continue
				}
				src, ok := elemOf(ld.X)
				if !ok {
					continue
				}
				byElem[dst] = append(byElem[dst], fstore{f.Name(), src, fieldOfAddr(ld.X.(*ssa.FieldAddr)).Name(), s.Pos()})
			}
		}
		var elems []string
		for e := range byElem {
			elems = append(elems, e)
		}
		sort.Slice(elems, func(i, j int) bool { return byElem[elems[i]][0].pos < byElem[elems[j]][0].pos })
		for ei, e := range elems {
			stores := byElem[e]
			nStores += len(stores)
			c.seeFn(fn)
			key := fmt.Sprintf("%s:posting#%d:fields-of-one-original-posting", fnName(fn), ei+1)
			srcs := map[string]bool{}
			for _, s := range stores {
				srcs[s.from] = true
			}
			var sl []string
			for s := range srcs {
				sl = append(sl, s)
			}
			sort.Strings(sl)
			switch {
			case len(srcs) == 1 && srcs[e]:
				c.ok(rule, key, stores[0].pos, "endpoints swapped inside one posting")
			case len(srcs) == 1 && len(stores) >= nFields:
				c.ok(rule, key, stores[0].pos, "every field of the posting is taken from the single posting "+sl[0])
			default:
				var fs []string
				for _, s := range stores {
					fs = append(fs, s.field+"←"+s.from+"."+s.fromF)
				}
				c.bad(rule, key, stores[0].pos, fmt.Sprintf("the reversed posting %s takes %s while its other fields stay those of another posting: the reversal moves the amount (or asset) of one posting between the accounts of another, so original + reversal no longer restore the balances", e, strings.Join(fs, ", ")))
			}
		}
	}
	if nStores < 2 {
		c.undecided(rule, "floor:endpoint-swaps", token.NoPos, fmt.Sprintf("expected the Source/Destination swap of the Reverse functions of package ledger, found %d field stores", nStores))
	}
}
