package main

// Exact uniqueness lookups (R11d transaction reference, R07e idempotency key).
//
// "At most once" is enforced by looking the key up among what is committed: the in-process reservation only covers
// requests in flight, and the schema has no unique index on either column. The lookup must therefore see EVERY
// committed row that carries the key: any further condition (not reverted, of a given type, younger than …) takes
// rows out of the lookup that still hold the key, and the key can then be committed a second time.
//
// Rule, for every implementation of command.Store.<lookup> in the repository:
//   - PostgreSQL store: in the query chain that selects from the table, the Where formats are the key predicate
//     (`[q.]<column> = ?`, bound to the method's key parameter) and the ledger predicate — nothing else;
//   - other stores (in-memory): the only field of a stored record the method (and its literals) loads is the key
//     field (fields of the receiver itself excepted).

import (
	"fmt"
	"go/token"
	"go/types"
	"regexp"
	"sort"
	"strings"

	"golang.org/x/tools/go/ssa"
)

func ruleExactLookup(c *Ctx, rule string, method *types.Func, keyField, column string) {
	if method == nil {
		c.undecided(rule, "anchor:Store."+keyField+"-lookup", token.NoPos, "interface method not found")
		return
	}
	ri := &reachInfo{c: c, memo: map[*ssa.Function]map[string]string{}, impls: map[*types.Func][]*ssa.Function{}}
	impls := ri.implementations(method)
	sort.Slice(impls, func(i, j int) bool { return impls[i].String() < impls[j].String() })
	reKey := regexp.MustCompile(`(?i)^\s*([a-z_][a-z0-9_]*\.)?` + regexp.QuoteMeta(column) + `\s*=\s*\?\s*$`)
	reLedger := regexp.MustCompile(`(?i)^\s*([a-z_][a-z0-9_]*\.)?ledger\s*=\s*\?\s*$`)
	n := 0
	for _, fn := range impls {
		if fn.Synthetic != "" || len(fn.Blocks) == 0 || strings.HasSuffix(c.Fset.Position(fn.Pos()).Filename, "_test.go") {
			continue
		}
		if strings.Contains(c.Fset.Position(fn.Pos()).Filename, "mock") || strings.HasSuffix(fnPkgPath(fn), "/backend") {
			continue
		}
		n++
		c.seeFn(fn)
		key := fnName(fn) + ":sees-every-committed-" + strings.ToLower(keyField)
		if fnPkgPath(fn) == pkgLedgerstore {
			ls := loadLedgerSchema(c, rule)
			nameField := c.MustField(rule, pkgLedgerstore, "Store", "name")
			if ls == nil || nameField == nil {
				return
			}
			qa := &qAnalyzer{c: c, ls: ls, nameField: nameField, memo: map[*ssa.Function]*qFacts{}, busy: map[*ssa.Function]bool{}}
			var all []*ssa.Function
			var collect func(g *ssa.Function)
			collect = func(g *ssa.Function) {
				all = append(all, g)
				for _, a := range g.AnonFuncs {
					collect(a)
				}
			}
			collect(fn)
			found := false
			var extra []string
			for _, g := range all {
				classes, _ := qa.analyse(g)
				for _, f := range classes {
					hasKey := false
					for _, w := range f.wheres {
						if reKey.MatchString(w) {
							hasKey = true
						}
					}
					if !hasKey {
						continue
					}
					found = true
					for _, w := range dedupStrings(f.wheres) {
						if !reKey.MatchString(w) && !reLedger.MatchString(w) {
							extra = append(extra, strings.TrimSpace(w))
						}
					}
				}
			}
			sort.Strings(extra)
			switch {
			case !found:
				c.undecided(rule, key, fn.Pos(), fmt.Sprintf("no query chain with a `%s = ?` predicate found in the lookup", column))
			case len(extra) > 0:
				c.bad(rule, key, fn.Pos(), fmt.Sprintf("the lookup of a %s is narrowed by `%s`: a committed row outside that subset still carries its %s but is no longer found, so the same %s can be committed again", column, strings.Join(extra, "`, `"), column, column))
			default:
				c.ok(rule, key, fn.Pos(), "the query is conditioned by the key and the ledger only")
			}
			continue
		}
		// other stores: field loads
		var bad []string
		var visit func(g *ssa.Function)
		visit = func(g *ssa.Function) {
			var recv ssa.Value
			if fn.Signature.Recv() != nil && len(fn.Params) > 0 {
				recv = fn.Params[0]
			}
			for _, b := range g.Blocks {
				for _, ins := range b.Instrs {
					u, ok := ins.(*ssa.UnOp)
					var f *types.Var
					var base ssa.Value
					if ok && u.Op == token.MUL {
						f, base = anyFieldRead(u)
					} else if fl, ok := ins.(*ssa.Field); ok {
						f, base = anyFieldRead(fl)
					}
					if f == nil {
						continue
					}
					rb := rootBase(base)
					if rb == recv && recv != nil {
						continue
					}
					if fv, ok := rb.(*ssa.FreeVar); ok && recv != nil && types.Identical(fv.Type(), recv.Type()) {
						continue // the receiver captured by a literal
					}
					if _, isStruct := f.Type().Underlying().(*types.Struct); isStruct && f.Embedded() {
						continue
					}
					if f.Name() != keyField {
						bad = append(bad, f.Name())
					}
				}
			}
			for _, a := range g.AnonFuncs {
				visit(a)
			}
		}
		visit(fn)
		bad = dedupStrings(bad)
		sort.Strings(bad)
		c.check(len(bad) == 0, rule, key, fn.Pos(), "the lookup reads only the key of the stored records",
			fmt.Sprintf("the lookup of a %s also looks at %s of the stored records: a committed record excluded by that condition still carries its key, which can then be committed again", keyField, strings.Join(bad, ", ")))
	}
	if n < 2 {
		c.undecided(rule, "floor:lookup-implementations", token.NoPos, fmt.Sprintf("expected the PostgreSQL and in-memory implementations of the lookup, found %d", n))
	}
}
