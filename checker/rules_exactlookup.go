package main

// Exact uniqueness lookups (R11d transaction reference, R07e idempotency key).
//
// "At most once" is enforced by looking the key up among what is committed: the in-process reservation only covers
// requests in flight, and the schema has no unique index on either column. The lookup must therefore see EVERY
// committed row that carries the key: any further condition (not reverted, of a given type, younger than …) takes
// rows out of the lookup that still hold the key, and the key can then be committed a second time.
//
// Rule, for every implementation of command.Store.<lookup> in the repository:
//   - PostgreSQL store: in the query chain that selects from the table, the Where formats are the key predicate
//     (`[q.]<column> = ?`, bound to the method's key parameter) and the ledger predicate — nothing else;
//   - other stores (in-memory): the only field of a stored record the method (and its literals) loads is the key
//     field (fields of the receiver itself excepted).

import (
	"fmt"
	"go/token"
	"go/types"
	"regexp"
	"sort"
	"strings"

	"golang.org/x/tools/go/ssa"
)

func ruleExactLookup(c *Ctx, rule string, method *types.Func, keyField, column string) {
	if method == nil {
		c.undecided(rule, "anchor:Store."+keyField+"-lookup", token.NoPos, "interface method not found")
		return
	}
	ri := &reachInfo{c: c, memo: map[*ssa.Function]map[string]string{}, impls: map[*types.Func][]*ssa.Function{}}
	impls := ri.implementations(method)
	sort.Slice(impls, func(i, j int) bool { return impls[i].String() < impls[j].String() })
	reKey := regexp.MustCompile(`(?i)^\s*([a-z_][a-z0-9_]*\.)?` + regexp.QuoteMeta(column) + `\s*=\s*\?\s*$`)
	reLedger := regexp.MustCompile(`(?i)^\s*([a-z_][a-z0-9_]*\.)?ledger\s*=\s*\?\s*$`)
	n := 0
	for _, fn := range impls {
		if fn.Synthetic != "" || len(fn.Blocks) == 0 || strings.HasSuffix(c.Fset.Position(fn.Pos()).Filename, "_test.go") {
			continue
		}
		if strings.Contains(c.Fset.Position(fn.Pos()).Filename, "mock") || strings.HasSuffix(fnPkgPath(fn), "/backend") {
			continue
		}
		n++
		c.seeFn(fn)
		key := fnName(fn) + ":sees-every-committed-" + strings.ToLower(keyField)
		if fnPkgPath(fn) == pkgLedgerstore {
			ls := loadLedgerSchema(c, rule)
			nameField := c.MustField(rule, pkgLedgerstore, "Store", "name")
			if ls == nil || nameField == nil {
				return
			}
			qa := &qAnalyzer{c: c, ls: ls, nameField: nameField, memo: map[*ssa.Function]*qFacts{}, busy: map[*ssa.Function]bool{}}
			var all []*ssa.Function
			var collect func(g *ssa.Function)
			collect = func(g *ssa.Function) {
				all = append(all, g)
				for _, a := range g.AnonFuncs {
					collect(a)
				}
			}
			collect(fn)
			found := false
			var extra []string
			for _, g := range all {
				classes, _ := qa.analyse(g)
				for _, f := range classes {
					hasKey := false
					for _, w := range f.wheres {
						if reKey.MatchString(w) {
							hasKey = true
						}
					}
					if !hasKey {
						continue
					}
					found = true
					for _, w := range dedupStrings(f.wheres) {
						if !reKey.MatchString(w) && !reLedger.MatchString(w) {
							extra = append(extra, strings.TrimSpace(w))
						}
					}
				}
			}
			sort.Strings(extra)
			switch {
			case !found:
				c.undecided(rule, key, fn.Pos(), fmt.Sprintf("no query chain with a `%s = ?` predicate found in the lookup", column))
			case len(extra) > 0:
				c.bad(rule, key, fn.Pos(), fmt.Sprintf("the lookup of a %s is narrowed by `%s`: a committed row outside that subset still carries its %s but is no longer found, so the same %s can be committed again", column, strings.Join(extra, "`, `"), column, column))
			default:
				c.ok(rule, key, fn.Pos(), "the query is conditioned by the key and the ledger only")
			}
			continue
		}
		// other stores: field loads
		var bad []string
		var visit func(g *ssa.Function)
		visit = func(g *ssa.Function) {
			var recv ssa.Value
			if fn.Signature.Recv() != nil && len(fn.Params) > 0 {
				recv = fn.Params[0]
			}
			for _, b := range g.Blocks {
				for _, ins := range b.Instrs {
					u, ok := ins.(*ssa.UnOp)
					var f *types.Var
					var base ssa.Value
					if ok && u.Op == token.MUL {
						f, base = anyFieldRead(u)
					} else if fl, ok := ins.(*ssa.Field); ok {
						f, base = anyFieldRead(fl)
					}
					if f == nil {
						continue
					}
					rb := rootBase(base)
					if rb == recv && recv != nil {
						continue
					}
					if fv, ok := rb.(*ssa.FreeVar); ok && recv != nil && types.Identical(fv.Type(), recv.Type()) {
						continue // the receiver captured by a literal
					}
					if _, isStruct := f.Type().Underlying().(*types.Struct); isStruct && f.Embedded() {
						continue
					}
					if f.Name() != keyField {
						bad = append(bad, f.Name())
					}
				}
			}
			for _, a := range g.AnonFuncs {
				visit(a)
			}
		}
		visit(fn)
		bad = dedupStrings(bad)
		sort.Strings(bad)
		c.check(len(bad) == 0, rule, key, fn.Pos(), "the lookup reads only the key of the stored records",
			fmt.Sprintf("the lookup of a %s also looks at %s of the stored records: a committed record excluded by that condition still carries its key, which can then be committed again", keyField, strings.Join(bad, ", ")))
	}
	if n < 2 {
		c.undecided(rule, "floor:lookup-implementations", token.NoPos, fmt.Sprintf("expected the PostgreSQL and in-memory implementations of the lookup, found %d", n))
	}
}

// ---- the key that is reserved and looked up is the request's key (R07g, R14g) ----------------------------------
//
// executionContext.run reserves an idempotency key and searches the store for it: that key must be
// Parameters.IdempotencyKey itself on every path — not a value that is sometimes empty although the request carries a
// key (`recordedKey()` returning "" for previews): a preview would then skip the replay lookup and answer something
// else than the real request (which is answered from the recorded log), and a real write would take effect twice.
func ruleRequestKeyIsLookedUp(c *Ctx, rule string) {
	m := c.cmdModel(rule)
	if !m.ok {
		return
	}
	n := 0
	for _, fn := range m.fns {
		allCalls(fn, func(ci ssa.CallInstruction) {
			var keyVal ssa.Value
			what := ""
			if k, key, ok := m.takeKind(c, ci); ok && k == "referenceIks" {
				keyVal, what = key, "reserved"
			}
			if call, ok := ci.(*ssa.Call); ok && isCallTo(call, m.readLogIK) && ifaceMethodOf(call) != nil && len(call.Call.Args) >= 2 {
				keyVal, what = call.Call.Args[len(call.Call.Args)-1], "looked up in the store"
			}
			if keyVal == nil {
				return
			}
			n++
			c.seeFn(fn)
			key := fmt.Sprintf("%s:key-%s-is-the-request-key", fnName(fn), strings.ReplaceAll(what, " ", "-"))
			bad := notRequestKey(c, m, keyVal, 0, map[ssa.Value]bool{})
			c.check(bad == "", rule, key, ci.Pos(), "the key "+what+" is Parameters.IdempotencyKey on every path",
				"the idempotency key that is "+what+" is not always the request's key ("+bad+"): with DryRun (or whatever that value depends on) the replay lookup is skipped although the request carries a key — the preview answers a fresh execution where the real request is answered from its recorded log")
		})
	}
	if n < 2 {
		c.undecided(rule, "floor:key-uses", token.NoPos, fmt.Sprintf("expected the reservation and the store lookup of the idempotency key, found %d", n))
	}
}

// notRequestKey: "" when every source of v is a read of Parameters.IdempotencyKey; otherwise what else it can be.
func notRequestKey(c *Ctx, m *cmdModel, v ssa.Value, depth int, seen map[ssa.Value]bool) string {
	if depth > 6 || seen[v] {
		return ""
	}
	seen[v] = true
	if _, ok := fieldRead(v, m.fIK); ok {
		return ""
	}
	switch x := v.(type) {
	case *ssa.Const:
		if s, ok := constString(x); ok {
			return fmt.Sprintf("the constant %q", s)
		}
	case *ssa.Phi:
		for _, e := range x.Edges {
			if bad := notRequestKey(c, m, e, depth+1, seen); bad != "" {
				return bad
			}
		}
		return ""
	case *ssa.UnOp:
		if x.Op == token.MUL {
			if sv := singleStore(x.X); sv != nil {
				return notRequestKey(c, m, sv, depth+1, seen)
			}
			if a, ok := x.X.(*ssa.Alloc); ok {
				for _, r := range *a.Referrers() {
					if st, ok := r.(*ssa.Store); ok && st.Addr == ssa.Value(a) {
						if bad := notRequestKey(c, m, st.Val, depth+1, seen); bad != "" {
							return bad
						}
					}
				}
				return ""
			}
		}
	case *ssa.ChangeType:
		return notRequestKey(c, m, x.X, depth+1, seen)
	case *ssa.MakeInterface:
		return notRequestKey(c, m, x.X, depth+1, seen)
	case *ssa.Parameter:
		// a helper's parameter: what its callers pass
		fn := x.Parent()
		idx := paramIndex(x)
		nn := 0
		for _, site := range c.CallersOf(fn) {
			if site.Parent() == nil || idx < 0 || idx >= len(site.Common().Args) {
				continue
			}
			if strings.HasSuffix(c.Fset.Position(site.Pos()).Filename, "_test.go") {
				continue
			}
			nn++
			if bad := notRequestKey(c, m, site.Common().Args[idx], depth+1, seen); bad != "" {
				return bad
			}
		}
		if nn > 0 {
			return ""
		}
	case *ssa.Call:
		if g := staticCallee(x); g != nil && inRepo(fnPkgPath(origin(g))) && len(g.Blocks) > 0 {
			for _, b := range g.Blocks {
				if r, ok := b.Instrs[len(b.Instrs)-1].(*ssa.Return); ok && len(r.Results) == 1 {
					if bad := notRequestKey(c, m, r.Results[0], depth+1, seen); bad != "" {
						return bad + ", returned by " + g.Name()
					}
				}
			}
			return ""
		}
	}
	return "a value of another origin (" + v.Name() + ")"
}

// ---- the reservation that is released is the one that was taken (R07h, R10h, R11e) ------------------------------
//
// Referencer.take(kind, key) reserves one entry; Referencer.release(kind, key) must give back that entry and nothing
// else. Decided on the two functions: take stores under a key built from (kind, key) in the table of that kind;
// release performs exactly one mutation of a sync.Map — Delete — on the table of the same kind, with a key built the
// same way from its own parameters. A release that clears the table (Clear, Range+Delete, a new map) drops the
// reservations of every other request in flight: their duplicates are then accepted.
func ruleReferencerSymmetric(c *Ctx, rule string) {
	m := c.cmdModel(rule)
	if !m.ok || m.take == nil || m.release == nil {
		return
	}
	type op struct {
		name  string
		table string // description of the receiver
		key   string // canonical text of the key, parameters by position
		pos   token.Pos
	}
	canon := func(fn *ssa.Function, v ssa.Value) string {
		out := ""
		vs := strParts(v)
		if len(vs) != 1 {
			if mi, ok := v.(*ssa.MakeInterface); ok {
				vs = strParts(mi.X)
			}
		}
		if len(vs) != 1 {
			return descrByParam(fn, v)
		}
		for _, p := range vs[0] {
			if p.isLit() {
				out += p.lit
			} else {
				out += "{" + descrByParam(fn, p.dyn) + "}"
			}
		}
		return out
	}
	collect := func(fn *ssa.Function) []op {
		var ops []op
		allCalls(fn, func(ci ssa.CallInstruction) {
			g := staticCallee(ci)
			if g == nil || recvTypeName(g) != "Map" || fnPkgPath(g) != "sync" {
				return
			}
			switch g.Name() {
			case "Load", "Range": // reads (Range is judged by what its callback does: a literal calling Delete shows up as its own call)
				if g.Name() == "Load" {
					return
				}
			}
			args := ci.Common().Args
			o := op{name: g.Name(), table: descrByParam(fn, args[0]), pos: ci.Pos()}
			if len(args) > 1 {
				o.key = canon(fn, args[1])
			}
			ops = append(ops, o)
		})
		for _, lit := range fn.AnonFuncs {
			allCalls(lit, func(ci ssa.CallInstruction) {
				if g := staticCallee(ci); g != nil && recvTypeName(g) == "Map" && fnPkgPath(g) == "sync" && g.Name() != "Load" {
					ops = append(ops, op{name: g.Name() + " (in a literal)", pos: ci.Pos()})
				}
			})
		}
		return ops
	}
	takeOps, relOps := collect(m.take), collect(m.release)
	key := "Referencer:release-gives-back-exactly-what-take-reserved"
	var tk *op
	for i := range takeOps {
		if takeOps[i].name == "LoadOrStore" {
			tk = &takeOps[i]
		}
	}
	switch {
	case tk == nil:
		c.undecided(rule, key, m.take.Pos(), "Referencer.take does not reserve with sync.Map.LoadOrStore: the reservation moved out of the shape this rule decides")
	case len(relOps) != 1 || relOps[0].name != "Delete":
		var names []string
		for _, o := range relOps {
			names = append(names, o.name)
		}
		pos := m.release.Pos()
		if len(relOps) > 0 {
			pos = relOps[0].pos
		}
		c.bad(rule, key, pos, fmt.Sprintf("Referencer.release changes the reservation table with [%s] instead of one Delete of its own entry: the reservations of the other requests in flight are dropped, and their duplicates are accepted", strings.Join(names, ", ")))
	case relOps[0].table != tk.table || relOps[0].key != tk.key:
		c.bad(rule, key, relOps[0].pos, fmt.Sprintf("Referencer.release deletes %s in %s, but take reserved %s in %s: the entry that was taken stays reserved forever (or another one is freed)", relOps[0].key, relOps[0].table, tk.key, tk.table))
	default:
		c.ok(rule, key, relOps[0].pos, "release deletes the entry "+tk.key+" of the table "+tk.table+", as take stored it")
	}
}

// descrByParam: descr with the function's parameters named by position, so that two functions can be compared.
func descrByParam(fn *ssa.Function, v ssa.Value) string {
	saved := map[ssa.Value]*string{}
	for i, p := range fn.Params {
		if old, ok := descrAlias[p]; ok {
			o := old
			saved[p] = &o
		} else {
			saved[p] = nil
		}
		descrAlias[p] = fmt.Sprintf("#%d", i)
	}
	out := descr(v, 0)
	for k, o := range saved {
		if o == nil {
			delete(descrAlias, k)
		} else {
			descrAlias[k] = *o
		}
	}
	return out
}
