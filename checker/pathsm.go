package main

// pathsm.go — path state machines over a function's SSA control-flow graph.
//
// A rule supplies a small automaton (states are uint64 bit sets of its own choosing). The engine
// explores every (block, state) pair reachable from the function entry — i.e. it follows every CFG
// path, merging only paths that agree on the automaton state — so a rule's verdict quantifies over
// all paths of the function. Deferred calls that the rule tracks are remembered per path and replayed
// (LIFO) at each RunDefers. Selected static callees are analysed inline (context-sensitively, by
// entry state) and their exit states continue in the caller.

import (
	"fmt"
	"go/token"
	"go/types"
	"sort"
	"strings"

	"golang.org/x/tools/go/ssa"
)

type pnode struct {
	b      *ssa.BasicBlock
	s      uint64
	defers uint32
}

type PathRule struct {
	// Step: transfer of one instruction (not called for Defer instructions the rule tracks).
	Step func(pc *PathCtx, s uint64, ins ssa.Instruction) uint64
	// Edge: state after leaving `from` via successor index si; ok=false prunes the edge.
	Edge func(pc *PathCtx, s uint64, from *ssa.BasicBlock, si int) (uint64, bool)
	// DeferID: id (0..31) of a tracked deferred call, or -1.
	DeferID func(d *ssa.Defer) int
	// RunDeferred: effect of a tracked deferred call when it runs at function exit.
	RunDeferred func(pc *PathCtx, s uint64, d *ssa.Defer) uint64
	// Inline: callees to analyse inline for this call (nil = opaque). Several callees (a dynamic
	// call resolved to several literals) are explored as alternatives.
	Inline func(call ssa.CallInstruction) []*ssa.Function
	// Exit: called at every Return and Panic with the state after deferred calls ran.
	Exit func(pc *PathCtx, s uint64, ins ssa.Instruction)
	// MaxDepth of inlining (default 10).
	MaxDepth int
}

type PathCtx struct {
	c     *Ctx
	rule  *PathRule
	fn    *ssa.Function
	cur   pnode
	par   map[pnode]pnode
	notes map[pnode][]string
	depth int
	stack []*ssa.Function
	memo  map[memoKey][]uint64
	alt   int // which alternative of the current edge's facts is being explored (predicate helpers)
	// inlined analysis: the context and the call through which this function was entered
	parent       *PathCtx
	callSite     ssa.CallInstruction
	inlinedCalls map[ssa.Value]bool
}

// Reserved state bits, managed by the engine: whether the error result of the most recently inlined call is
// nil / non-nil on the current path. A rule's own bits must stay below bit 60.
const (
	stErrNil    uint64 = 1 << 62
	stErrNonNil uint64 = 1 << 63
	// the first bool result of the most recently inlined call, when it returned a constant on the current path
	stBoolTrue  uint64 = 1 << 60
	stBoolFalse uint64 = 1 << 61
	stInlined          = stErrNil | stErrNonNil | stBoolTrue | stBoolFalse
)

// Resolve maps a parameter (or the local cell a parameter was spilled into) of an inlined function to the value
// the caller passed, transitively up the inlining stack.
func (pc *PathCtx) Resolve(v ssa.Value) ssa.Value {
	for cur := pc; cur != nil && cur.callSite != nil; cur = cur.parent {
		w := v
		if u, ok := w.(*ssa.UnOp); ok && u.Op == token.MUL {
			if st := singleStore(u.X); st != nil {
				w = st
			}
		}
		p, ok := w.(*ssa.Parameter)
		if !ok || p.Parent() != cur.fn {
			return v
		}
		idx := -1
		for i, q := range cur.fn.Params {
			if q == p {
				idx = i
			}
		}
		args := cur.callSite.Common().Args
		if cur.callSite.Common().IsInvoke() {
			idx-- // receiver is not in Args
		}
		if idx < 0 || idx >= len(args) {
			return v
		}
		v = args[idx]
	}
	return v
}

type memoKey struct {
	fn   *ssa.Function
	s    uint64
	site ssa.CallInstruction // rules may resolve parameters through the call site: memoise per site
}

// Note attaches an event description to the current path node (shown in reported paths).
func (pc *PathCtx) Note(format string, a ...any) {
	pc.notes[pc.cur] = append(pc.notes[pc.cur], fmt.Sprintf(format, a...))
}

// Trail renders the path from the function entry to the current node.
func (pc *PathCtx) Trail() []string {
	var nodes []pnode
	n := pc.cur
	for {
		nodes = append(nodes, n)
		p, ok := pc.par[n]
		if !ok {
			break
		}
		n = p
	}
	var out []string
	out = append(out, "in "+fnName(pc.fn))
	for i := len(nodes) - 1; i >= 0; i-- {
		n := nodes[i]
		line := fmt.Sprintf("block %d", n.b.Index)
		for _, ins := range n.b.Instrs {
			if ins.Pos().IsValid() {
				line += " (" + pc.c.pos(ins.Pos()) + ")"
				break
			}
		}
		if n.b.Comment != "" {
			line += " " + n.b.Comment
		}
		out = append(out, line)
		for _, nt := range pc.notes[n] {
			out = append(out, "    "+nt)
		}
	}
	return out
}

func (pc *PathCtx) Fn() *ssa.Function { return pc.fn }

// PredBlock: the block the current path came from (nil at the entry).
func (pc *PathCtx) PredBlock() *ssa.BasicBlock {
	if p, ok := pc.par[pc.cur]; ok {
		return p.b
	}
	return nil
}

// RunPaths explores fn from state init; returns the set of states at normal returns.
func (c *Ctx) RunPaths(fn *ssa.Function, init uint64, rule *PathRule) []uint64 {
	memo := map[memoKey][]uint64{}
	return c.runPaths(fn, init, rule, 0, nil, memo, nil, nil)
}

func (c *Ctx) runPaths(fn *ssa.Function, init uint64, rule *PathRule, depth int, stack []*ssa.Function, memo map[memoKey][]uint64, parent *PathCtx, site ssa.CallInstruction) []uint64 {
	if fn == nil || len(fn.Blocks) == 0 {
		return []uint64{init}
	}
	k := memoKey{fn, init, site}
	if r, ok := memo[k]; ok {
		return r
	}
	c.seeFn(fn)
	memo[k] = []uint64{init} // recursion guard: identity
	pc := &PathCtx{c: c, rule: rule, fn: fn, par: map[pnode]pnode{}, notes: map[pnode][]string{}, depth: depth, stack: append(stack, fn), memo: memo, parent: parent, callSite: site}
	errIdx := -1
	if parent != nil {
		errIdx = errResultIdx(fn.Signature)
	}
	maxDepth := rule.MaxDepth
	if maxDepth == 0 {
		maxDepth = 10
	}
	// collect tracked defers in program order so that ids are stable
	var tracked []*ssa.Defer
	if rule.DeferID != nil {
		for _, b := range fn.Blocks {
			for _, ins := range b.Instrs {
				if d, ok := ins.(*ssa.Defer); ok && rule.DeferID(d) >= 0 {
					tracked = append(tracked, d)
				}
			}
		}
	}
	if len(tracked) > 32 {
		tracked = tracked[:32]
	}
	deferBit := func(d *ssa.Defer) int {
		for i, t := range tracked {
			if t == d {
				return i
			}
		}
		return -1
	}
	exits := map[uint64]bool{}
	start := pnode{fn.Blocks[0], init, 0}
	seen := map[pnode]bool{start: true}
	work := []pnode{start}
	for len(work) > 0 {
		n := work[0]
		work = work[1:]
		pc.cur = n
		// a block may fork into several states (inlined callee with several exit states)
		runs := []run{{n.s, n.defers}}
		terminated := false
		for _, ins := range n.b.Instrs {
			var next []run
			for _, r := range runs {
				s, df := r.s, r.defers
				switch x := ins.(type) {
				case *ssa.Defer:
					if bit := deferBit(x); bit >= 0 {
						df |= 1 << uint(bit)
						next = append(next, run{s, df})
						continue
					}
					s = pc.step(s, ins)
					next = append(next, run{s, df})
				case *ssa.RunDefers:
					for i := len(tracked) - 1; i >= 0; i-- {
						if df&(1<<uint(i)) != 0 && rule.RunDeferred != nil {
							s = rule.RunDeferred(pc, s, tracked[i])
						}
					}
					next = append(next, run{s, 0})
				case *ssa.Return:
					if rule.Exit != nil {
						rule.Exit(pc, s, ins)
					}
					if parent != nil {
						s &^= stInlined
						if errIdx >= 0 && errIdx < len(x.Results) {
							switch errNilness(x.Results[errIdx]) {
							case 1:
								s |= stErrNil
							case 2:
								s |= stErrNonNil
							}
						}
						if bi := boolResultIdx(fn.Signature); bi >= 0 && bi < len(x.Results) {
							if bv, isC := constBool(x.Results[bi]); isC {
								if bv {
									s |= stBoolTrue
								} else {
									s |= stBoolFalse
								}
							}
						}
					}
					exits[s] = true
					terminated = true
				case *ssa.Panic:
					// deferred calls run while panicking
					for i := len(tracked) - 1; i >= 0; i-- {
						if df&(1<<uint(i)) != 0 && rule.RunDeferred != nil {
							s = rule.RunDeferred(pc, s, tracked[i])
						}
					}
					if rule.Exit != nil {
						rule.Exit(pc, s, ins)
					}
					terminated = true
				default:
					if ci, ok := ins.(ssa.CallInstruction); ok && rule.Inline != nil && depth < maxDepth {
						if _, isGo := ins.(*ssa.Go); !isGo {
							inlined := false
							for _, callee := range rule.Inline(ci) {
								if callee == nil || len(callee.Blocks) == 0 || inStack(pc.stack, callee) {
									continue
								}
								inlined = true
								for _, o := range c.runPaths(callee, s&^stInlined, rule, depth+1, pc.stack, memo, pc, ci) {
									next = append(next, run{o, df})
								}
								if pc.inlinedCalls == nil {
									pc.inlinedCalls = map[ssa.Value]bool{}
								}
								if v, ok := ci.(ssa.Value); ok {
									pc.inlinedCalls[v] = true
								}
							}
							if inlined {
								continue
							}
						}
					}
					s = pc.step(s, ins)
					next = append(next, run{s, df})
				}
			}
			if terminated {
				break
			}
			runs = dedupRuns(next)
		}
		if terminated {
			continue
		}
		for si, succ := range n.b.Succs {
			nAlt := 1
			{
				a := pc.edgeFactAlts(n.b, si)
				if isInfeasible(a) {
					continue
				}
				if rule.Edge != nil && len(a) > 1 {
					nAlt = len(a)
				}
			}
			for _, r := range runs {
				for k := 0; k < nAlt; k++ {
					s := r.s
					pc.alt = k
					if s&(stErrNil|stErrNonNil) != 0 && pc.contradictsInlinedError(s, n.b, si) {
						continue // the inlined callee returned a nil (non-nil) error on this path: the other side of the test is infeasible
					}
					if s&(stBoolTrue|stBoolFalse) != 0 && pc.contradictsInlinedBool(s, n.b, si) {
						continue // the inlined callee returned a constant boolean on this path: the other side of the test is infeasible
					}
					if rule.Edge != nil {
						var ok bool
						s, ok = rule.Edge(pc, s, n.b, si)
						if !ok {
							continue
						}
					}
					m := pnode{succ, s, r.defers}
					if !seen[m] {
						seen[m] = true
						pc.par[m] = n
						work = append(work, m)
					}
				}
			}
			pc.alt = 0
		}
	}
	var out []uint64
	for s := range exits {
		out = append(out, s)
	}
	sort.Slice(out, func(i, j int) bool { return out[i] < out[j] })
	memo[k] = out
	return out
}

type run struct {
	s      uint64
	defers uint32
}

func dedupRuns(in []run) []run {
	seen := map[[2]uint64]bool{}
	out := in[:0]
	for _, r := range in {
		k := [2]uint64{r.s, uint64(r.defers)}
		if !seen[k] {
			seen[k] = true
			out = append(out, r)
		}
	}
	return out
}

func inStack(st []*ssa.Function, f *ssa.Function) bool {
	for _, g := range st {
		if g == f {
			return true
		}
	}
	return false
}

func (pc *PathCtx) step(s uint64, ins ssa.Instruction) uint64 {
	if pc.rule.Step == nil {
		return s
	}
	return pc.rule.Step(pc, s, ins)
}

// stepAfterInline: an inlined call's own effects were applied by analysing the callee; the rule's
// Step is not applied to the call instruction again.
func (pc *PathCtx) stepAfterInline(s uint64, ins ssa.Instruction) uint64 { return s }

// edgeFacts: facts established by leaving `from` through successor si on the current path. Conditions
// that are boolean phis of the same block (value form of `a || b`, `a && b`) are resolved to the value
// that flowed in from the block the current path came from.
func (pc *PathCtx) edgeFacts(from *ssa.BasicBlock, si int) []Fact {
	alts := pc.edgeFactAlts(from, si)
	if len(alts) == 0 || isInfeasible(alts) {
		return nil
	}
	if pc.alt < len(alts) {
		return alts[pc.alt]
	}
	return alts[0]
}

// edgeFactAlts: the alternatives of facts for an edge. One alternative in general; when the condition is a
// call of a side-effect-free boolean helper of the repository (`if !isReadMethod(r.Method)`), one
// alternative per path of the helper that returns the value the edge stands for, with the helper's
// parameters replaced by the call's arguments.
func (pc *PathCtx) edgeFactAlts(from *ssa.BasicBlock, si int) [][]Fact {
	if len(from.Instrs) == 0 {
		return nil
	}
	iff, ok := from.Instrs[len(from.Instrs)-1].(*ssa.If)
	if !ok {
		return nil
	}
	cond := iff.Cond
	holds := si == 0
	for depth := 0; depth < 4; depth++ {
		if u, ok := cond.(*ssa.UnOp); ok && u.Op == token.NOT {
			cond = u.X
			holds = !holds
			continue
		}
		phi, ok := cond.(*ssa.Phi)
		if !ok || phi.Block() != from || pc.cur.b != from {
			break
		}
		p, ok := pc.par[pc.cur]
		if !ok {
			break
		}
		found := false
		for i, pred := range from.Preds {
			if pred == p.b && i < len(phi.Edges) {
				cond = phi.Edges[i]
				found = true
				break
			}
		}
		if !found {
			break
		}
	}
	if b, isConst := constBool(cond); isConst {
		if b != holds {
			return infeasibleEdge
		}
		return nil
	}
	if call, ok := cond.(*ssa.Call); ok {
		if alts := predicateAlternatives(call, holds, 0); alts != nil {
			// the fact about the call itself stays available in every alternative
			self := condFacts(cond, holds)
			for i := range alts {
				alts[i] = append(append([]Fact(nil), self...), alts[i]...)
			}
			return alts
		}
	}
	return [][]Fact{condFacts(cond, holds)}
}

// infeasibleEdge: the condition of the edge is a boolean whose value is known on the current path (a phi of
// constants, the value form of `a && b`) and it disagrees with the edge.
var infeasibleEdge = [][]Fact{{{X: nil, Y: nil, Eq: false}}}

func isInfeasible(alts [][]Fact) bool {
	return len(alts) == 1 && len(alts[0]) == 1 && alts[0][0].X == nil && alts[0][0].Y == nil
}

var predicateMemo = map[*ssa.Function]map[bool][][]Fact{}

// predicateAlternatives summarises a boolean helper: for the outcome `want`, the fact lists of its paths,
// expressed over the caller's argument values. nil when the callee is not a summarisable predicate.
func predicateAlternatives(call *ssa.Call, want bool, depth int) [][]Fact {
	callee := call.Call.StaticCallee()
	if callee == nil || len(callee.Blocks) == 0 || depth > 2 || callee.Pkg == nil || !inRepo(callee.Pkg.Pkg.Path()) {
		return nil
	}
	res := callee.Signature.Results()
	if res.Len() != 1 {
		return nil
	}
	if b, ok := res.At(0).Type().Underlying().(*types.Basic); !ok || b.Kind() != types.Bool {
		return nil
	}
	sum, ok := predicateMemo[callee]
	if !ok {
		sum = summarisePredicate(callee, depth)
		predicateMemo[callee] = sum
	}
	if sum == nil {
		return nil
	}
	// substitute parameters
	args := call.Call.Args
	subst := func(v ssa.Value) (ssa.Value, bool) {
		switch x := v.(type) {
		case *ssa.Parameter:
			for i, p := range callee.Params {
				if p == x && i < len(args) {
					return args[i], true
				}
			}
			return nil, false
		case *ssa.Const, *ssa.Global:
			return v, true
		}
		return nil, false
	}
	var out [][]Fact
	for _, fs := range sum[want] {
		var alt []Fact
		for _, f := range fs {
			x, okx := subst(f.X)
			y, oky := subst(f.Y)
			if okx && oky {
				alt = append(alt, Fact{x, y, f.Eq})
			}
		}
		out = append(out, alt)
	}
	if len(out) == 0 {
		// the outcome is impossible or unknown: no knowledge
		return [][]Fact{nil}
	}
	return out
}

// summarisePredicate enumerates the acyclic paths of a side-effect-free function returning bool.
func summarisePredicate(fn *ssa.Function, depth int) map[bool][][]Fact {
	for _, b := range fn.Blocks {
		for _, ins := range b.Instrs {
			switch x := ins.(type) {
			case *ssa.Store, *ssa.MapUpdate, *ssa.Send, *ssa.Go, *ssa.Defer, *ssa.Panic:
				return nil
			case *ssa.Call:
				if _, isBuiltin := x.Call.Value.(*ssa.Builtin); isBuiltin {
					continue
				}
				// calls of other pure helpers / standard-library predicates are tolerated: their result is opaque
				if c := x.Call.StaticCallee(); c == nil {
					return nil
				}
			}
		}
	}
	out := map[bool][][]Fact{}
	n := 0
	var walk func(b *ssa.BasicBlock, facts []Fact, seen map[*ssa.BasicBlock]bool) bool
	walk = func(b *ssa.BasicBlock, facts []Fact, seen map[*ssa.BasicBlock]bool) bool {
		if seen[b] {
			return false // loops are not summarised
		}
		seen[b] = true
		defer delete(seen, b)
		last := b.Instrs[len(b.Instrs)-1]
		switch t := last.(type) {
		case *ssa.Return:
			n++
			if n > 32 {
				return false
			}
			if v, ok := constBool(t.Results[0]); ok {
				out[v] = append(out[v], append([]Fact(nil), facts...))
				return true
			}
			// `return a == b`, `return x` (a phi of constants is resolved below by the caller of walk)
			r := t.Results[0]
			if phi, ok := r.(*ssa.Phi); ok && phi.Block() == b {
				return false
			}
			for _, v := range []bool{true, false} {
				out[v] = append(out[v], append(append([]Fact(nil), facts...), condFacts(r, v)...))
			}
			return true
		case *ssa.If:
			for si, succ := range b.Succs {
				fs := append(append([]Fact(nil), facts...), condFacts(t.Cond, si == 0)...)
				// a phi of constant booleans in the successor stands for `return <const>` through a merge block
				if !walkThroughPhi(succ, b, fs, seen, &out, &n, walk) {
					return false
				}
			}
			return true
		case *ssa.Jump:
			return walkThroughPhi(b.Succs[0], b, facts, seen, &out, &n, walk)
		}
		return false
	}
	if !walk(fn.Blocks[0], nil, map[*ssa.BasicBlock]bool{}) {
		return nil
	}
	return out
}

// walkThroughPhi continues into succ; when succ only returns a phi of boolean constants, the edge taken decides
// the outcome.
func walkThroughPhi(succ, from *ssa.BasicBlock, facts []Fact, seen map[*ssa.BasicBlock]bool, out *map[bool][][]Fact, n *int, walk func(*ssa.BasicBlock, []Fact, map[*ssa.BasicBlock]bool) bool) bool {
	if ret, ok := succ.Instrs[len(succ.Instrs)-1].(*ssa.Return); ok && len(ret.Results) == 1 {
		if phi, ok := ret.Results[0].(*ssa.Phi); ok && phi.Block() == succ {
			for i, p := range succ.Preds {
				if p == from && i < len(phi.Edges) {
					*n++
					if v, ok := constBool(phi.Edges[i]); ok {
						(*out)[v] = append((*out)[v], append([]Fact(nil), facts...))
						return true
					}
					for _, v := range []bool{true, false} {
						(*out)[v] = append((*out)[v], append(append([]Fact(nil), facts...), condFacts(phi.Edges[i], v)...))
					}
					return true
				}
			}
		}
	}
	return walk(succ, facts, seen)
}


// errNilness of a returned error value: 1 = certainly nil, 2 = certainly non-nil, 0 = unknown.
func errNilness(v ssa.Value) int {
	switch x := v.(type) {
	case *ssa.Const:
		if x.Value == nil {
			return 1
		}
	case *ssa.MakeInterface:
		// a concrete error value boxed into the interface: non-nil when the boxed value is a fresh pointer or a struct
		switch y := x.X.(type) {
		case *ssa.Alloc:
			return 2
		case *ssa.Call:
			if c := y.Call.StaticCallee(); c != nil && strings.HasPrefix(c.Name(), "New") || c != nil && strings.HasPrefix(c.Name(), "new") {
				return 2
			}
		default:
			if _, isPtr := x.X.Type().Underlying().(*types.Pointer); !isPtr {
				return 2
			}
		}
	case *ssa.Call:
		if c := x.Call.StaticCallee(); c != nil {
			n := c.Name()
			full := c.String()
			if strings.HasPrefix(n, "NewErr") || strings.HasPrefix(n, "newErr") || full == "errors.New" || full == "fmt.Errorf" || strings.HasSuffix(full, "pkg/errors.New") || strings.HasSuffix(full, "pkg/errors.Errorf") {
				return 2
			}
		}
	}
	return 0
}

// contradictsInlinedError: the edge tests the error result of a call that was analysed inline, against what the
// callee returned on this path.
func (pc *PathCtx) contradictsInlinedError(s uint64, from *ssa.BasicBlock, si int) bool {
	for _, f := range edgeFacts(from, si) {
		if !isNilConst(f.Y) {
			continue
		}
		var call ssa.Value
		switch x := f.X.(type) {
		case *ssa.Call:
			call = x
		case *ssa.Extract:
			if c, ok := x.Tuple.(*ssa.Call); ok {
				if x.Index != errResultIdx(c.Call.Signature()) {
					continue
				}
				call = c
			}
		}
		if call == nil || !pc.inlinedCalls[call] || call != pc.lastInlined(from) {
			continue
		}
		if f.Eq && s&stErrNonNil != 0 {
			return true
		}
		if !f.Eq && s&stErrNil != 0 {
			return true
		}
	}
	return false
}

// boolResultIdx: the index of the first bool result of a signature (-1: none).
func boolResultIdx(sig *types.Signature) int {
	for i := 0; i < sig.Results().Len(); i++ {
		if bt, ok := sig.Results().At(i).Type().Underlying().(*types.Basic); ok && bt.Kind() == types.Bool {
			return i
		}
	}
	return -1
}

// contradictsInlinedBool: the edge tests the boolean result of a call that was analysed inline (`log, found, err :=
// e.find(…); …; if found`), against the constant the callee returned on this path. The test may sit in a later block
// than the call as long as no other inlined call lies between them.
func (pc *PathCtx) contradictsInlinedBool(s uint64, from *ssa.BasicBlock, si int) bool {
	for _, f := range edgeFacts(from, si) {
		want, isC := constBool(f.Y)
		if !isC {
			continue
		}
		var call *ssa.Call
		switch x := f.X.(type) {
		case *ssa.Call:
			if boolResultIdx(x.Call.Signature()) == 0 && x.Call.Signature().Results().Len() == 1 {
				call = x
			}
		case *ssa.Extract:
			if cl, ok := x.Tuple.(*ssa.Call); ok && x.Index == boolResultIdx(cl.Call.Signature()) {
				call = cl
			}
		}
		if call == nil || !pc.inlinedCalls[call] || !(call.Block() == from || call.Block().Dominates(from)) {
			continue
		}
		// no other inlined call between the call and the test
		clean := true
		for v := range pc.inlinedCalls {
			ins, ok := v.(ssa.Instruction)
			if !ok || v == ssa.Value(call) {
				continue
			}
			b := ins.Block()
			if b == call.Block() {
				after := false
				for _, i2 := range b.Instrs {
					if i2 == ssa.Instruction(call) {
						after = true
					} else if i2 == ins && after {
						clean = false
					}
				}
				continue
			}
			if call.Block().Dominates(b) && (b == from || b.Dominates(from)) {
				clean = false
			}
		}
		if !clean {
			continue
		}
		value := want == f.Eq // what the edge says the result is
		if value && s&stBoolFalse != 0 {
			return true
		}
		if !value && s&stBoolTrue != 0 {
			return true
		}
	}
	return false
}

// lastInlined: the last call of block b that was analysed inline (the bits describe that call).
func (pc *PathCtx) lastInlined(b *ssa.BasicBlock) ssa.Value {
	var last ssa.Value
	for _, ins := range b.Instrs {
		if v, ok := ins.(ssa.Value); ok && pc.inlinedCalls[v] {
			last = v
		}
	}
	return last
}
