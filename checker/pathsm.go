package main

// pathsm.go — path state machines over a function's SSA control-flow graph.
//
// A rule supplies a small automaton (states are uint64 bit sets of its own choosing). The engine
// explores every (block, state) pair reachable from the function entry — i.e. it follows every CFG
// path, merging only paths that agree on the automaton state — so a rule's verdict quantifies over
// all paths of the function. Deferred calls that the rule tracks are remembered per path and replayed
// (LIFO) at each RunDefers. Selected static callees are analysed inline (context-sensitively, by
// entry state) and their exit states continue in the caller.

import (
	"fmt"
	"go/token"
	"sort"

	"golang.org/x/tools/go/ssa"
)

type pnode struct {
	b      *ssa.BasicBlock
	s      uint64
	defers uint32
}

type PathRule struct {
	// Step: transfer of one instruction (not called for Defer instructions the rule tracks).
	Step func(pc *PathCtx, s uint64, ins ssa.Instruction) uint64
	// Edge: state after leaving `from` via successor index si; ok=false prunes the edge.
	Edge func(pc *PathCtx, s uint64, from *ssa.BasicBlock, si int) (uint64, bool)
	// DeferID: id (0..31) of a tracked deferred call, or -1.
	DeferID func(d *ssa.Defer) int
	// RunDeferred: effect of a tracked deferred call when it runs at function exit.
	RunDeferred func(pc *PathCtx, s uint64, d *ssa.Defer) uint64
	// Inline: callees to analyse inline for this call (nil = opaque). Several callees (a dynamic
	// call resolved to several literals) are explored as alternatives.
	Inline func(call ssa.CallInstruction) []*ssa.Function
	// Exit: called at every Return and Panic with the state after deferred calls ran.
	Exit func(pc *PathCtx, s uint64, ins ssa.Instruction)
	// MaxDepth of inlining (default 10).
	MaxDepth int
}

type PathCtx struct {
	c     *Ctx
	rule  *PathRule
	fn    *ssa.Function
	cur   pnode
	par   map[pnode]pnode
	notes map[pnode][]string
	depth int
	stack []*ssa.Function
	memo  map[memoKey][]uint64
}

type memoKey struct {
	fn *ssa.Function
	s  uint64
}

// Note attaches an event description to the current path node (shown in reported paths).
func (pc *PathCtx) Note(format string, a ...any) {
	pc.notes[pc.cur] = append(pc.notes[pc.cur], fmt.Sprintf(format, a...))
}

// Trail renders the path from the function entry to the current node.
func (pc *PathCtx) Trail() []string {
	var nodes []pnode
	n := pc.cur
	for {
		nodes = append(nodes, n)
		p, ok := pc.par[n]
		if !ok {
			break
		}
		n = p
	}
	var out []string
	out = append(out, "in "+fnName(pc.fn))
	for i := len(nodes) - 1; i >= 0; i-- {
		n := nodes[i]
		line := fmt.Sprintf("block %d", n.b.Index)
		for _, ins := range n.b.Instrs {
			if ins.Pos().IsValid() {
				line += " (" + pc.c.pos(ins.Pos()) + ")"
				break
			}
		}
		if n.b.Comment != "" {
			line += " " + n.b.Comment
		}
		out = append(out, line)
		for _, nt := range pc.notes[n] {
			out = append(out, "    "+nt)
		}
	}
	return out
}

func (pc *PathCtx) Fn() *ssa.Function { return pc.fn }

// RunPaths explores fn from state init; returns the set of states at normal returns.
func (c *Ctx) RunPaths(fn *ssa.Function, init uint64, rule *PathRule) []uint64 {
	memo := map[memoKey][]uint64{}
	return c.runPaths(fn, init, rule, 0, nil, memo)
}

func (c *Ctx) runPaths(fn *ssa.Function, init uint64, rule *PathRule, depth int, stack []*ssa.Function, memo map[memoKey][]uint64) []uint64 {
	if fn == nil || len(fn.Blocks) == 0 {
		return []uint64{init}
	}
	k := memoKey{fn, init}
	if r, ok := memo[k]; ok {
		return r
	}
	c.seeFn(fn)
	memo[k] = []uint64{init} // recursion guard: identity
	pc := &PathCtx{c: c, rule: rule, fn: fn, par: map[pnode]pnode{}, notes: map[pnode][]string{}, depth: depth, stack: append(stack, fn), memo: memo}
	maxDepth := rule.MaxDepth
	if maxDepth == 0 {
		maxDepth = 10
	}
	// collect tracked defers in program order so that ids are stable
	var tracked []*ssa.Defer
	if rule.DeferID != nil {
		for _, b := range fn.Blocks {
			for _, ins := range b.Instrs {
				if d, ok := ins.(*ssa.Defer); ok && rule.DeferID(d) >= 0 {
					tracked = append(tracked, d)
				}
			}
		}
	}
	if len(tracked) > 32 {
		tracked = tracked[:32]
	}
	deferBit := func(d *ssa.Defer) int {
		for i, t := range tracked {
			if t == d {
				return i
			}
		}
		return -1
	}
	exits := map[uint64]bool{}
	start := pnode{fn.Blocks[0], init, 0}
	seen := map[pnode]bool{start: true}
	work := []pnode{start}
	for len(work) > 0 {
		n := work[0]
		work = work[1:]
		pc.cur = n
		// a block may fork into several states (inlined callee with several exit states)
		runs := []run{{n.s, n.defers}}
		terminated := false
		for _, ins := range n.b.Instrs {
			var next []run
			for _, r := range runs {
				s, df := r.s, r.defers
				switch x := ins.(type) {
				case *ssa.Defer:
					if bit := deferBit(x); bit >= 0 {
						df |= 1 << uint(bit)
						next = append(next, run{s, df})
						continue
					}
					s = pc.step(s, ins)
					next = append(next, run{s, df})
				case *ssa.RunDefers:
					for i := len(tracked) - 1; i >= 0; i-- {
						if df&(1<<uint(i)) != 0 && rule.RunDeferred != nil {
							s = rule.RunDeferred(pc, s, tracked[i])
						}
					}
					next = append(next, run{s, 0})
				case *ssa.Return:
					if rule.Exit != nil {
						rule.Exit(pc, s, ins)
					}
					exits[s] = true
					terminated = true
				case *ssa.Panic:
					// deferred calls run while panicking
					for i := len(tracked) - 1; i >= 0; i-- {
						if df&(1<<uint(i)) != 0 && rule.RunDeferred != nil {
							s = rule.RunDeferred(pc, s, tracked[i])
						}
					}
					if rule.Exit != nil {
						rule.Exit(pc, s, ins)
					}
					terminated = true
				default:
					if ci, ok := ins.(ssa.CallInstruction); ok && rule.Inline != nil && depth < maxDepth {
						if _, isGo := ins.(*ssa.Go); !isGo {
							inlined := false
							for _, callee := range rule.Inline(ci) {
								if callee == nil || len(callee.Blocks) == 0 || inStack(pc.stack, callee) {
									continue
								}
								inlined = true
								for _, o := range c.runPaths(callee, s, rule, depth+1, pc.stack, memo) {
									next = append(next, run{o, df})
								}
							}
							if inlined {
								continue
							}
						}
					}
					s = pc.step(s, ins)
					next = append(next, run{s, df})
				}
			}
			if terminated {
				break
			}
			runs = dedupRuns(next)
		}
		if terminated {
			continue
		}
		for si, succ := range n.b.Succs {
			for _, r := range runs {
				s := r.s
				if rule.Edge != nil {
					var ok bool
					s, ok = rule.Edge(pc, s, n.b, si)
					if !ok {
						continue
					}
				}
				m := pnode{succ, s, r.defers}
				if !seen[m] {
					seen[m] = true
					pc.par[m] = n
					work = append(work, m)
				}
			}
		}
	}
	var out []uint64
	for s := range exits {
		out = append(out, s)
	}
	sort.Slice(out, func(i, j int) bool { return out[i] < out[j] })
	memo[k] = out
	return out
}

type run struct {
	s      uint64
	defers uint32
}

func dedupRuns(in []run) []run {
	seen := map[[2]uint64]bool{}
	out := in[:0]
	for _, r := range in {
		k := [2]uint64{r.s, uint64(r.defers)}
		if !seen[k] {
			seen[k] = true
			out = append(out, r)
		}
	}
	return out
}

func inStack(st []*ssa.Function, f *ssa.Function) bool {
	for _, g := range st {
		if g == f {
			return true
		}
	}
	return false
}

func (pc *PathCtx) step(s uint64, ins ssa.Instruction) uint64 {
	if pc.rule.Step == nil {
		return s
	}
	return pc.rule.Step(pc, s, ins)
}

// stepAfterInline: an inlined call's own effects were applied by analysing the callee; the rule's
// Step is not applied to the call instruction again.
func (pc *PathCtx) stepAfterInline(s uint64, ins ssa.Instruction) uint64 { return s }

// edgeFacts: facts established by leaving `from` through successor si on the current path. Conditions
// that are boolean phis of the same block (value form of `a || b`, `a && b`) are resolved to the value
// that flowed in from the block the current path came from.
func (pc *PathCtx) edgeFacts(from *ssa.BasicBlock, si int) []Fact {
	if len(from.Instrs) == 0 {
		return nil
	}
	iff, ok := from.Instrs[len(from.Instrs)-1].(*ssa.If)
	if !ok {
		return nil
	}
	cond := iff.Cond
	holds := si == 0
	for depth := 0; depth < 4; depth++ {
		if u, ok := cond.(*ssa.UnOp); ok && u.Op == token.NOT {
			cond = u.X
			holds = !holds
			continue
		}
		phi, ok := cond.(*ssa.Phi)
		if !ok || phi.Block() != from || pc.cur.b != from {
			break
		}
		p, ok := pc.par[pc.cur]
		if !ok {
			break
		}
		found := false
		for i, pred := range from.Preds {
			if pred == p.b && i < len(phi.Edges) {
				cond = phi.Edges[i]
				found = true
				break
			}
		}
		if !found {
			break
		}
	}
	if b, isConst := constBool(cond); isConst {
		_ = b
		return nil
	}
	return condFacts(cond, holds)
}
