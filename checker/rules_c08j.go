package main

// R08j — a type check of the compiler cannot be walked around.
//
// Where a function of the compiler compares the static type returned for a sub-expression (first result of
// VisitExpr / VisitVariable / VisitLit / …) with a type constant, it does so to refuse the script. Rule, per such
// call site: every path from the call to a successful return of the function (nil *CompileError) passes an edge on
// which that type was found EQUAL to a constant (the else-side of `if ty != T { return error }`, a switch case). A
// weakened test (`ty != T && somethingElse`) opens a path to success on which the type is anything: the script
// compiles and the machine's typed pop or type assertion fails at run time.

import (
	"fmt"
	"go/token"
	"go/types"
	"sort"

	"golang.org/x/tools/go/ssa"
)

func ruleR08j(c *Ctx, rule string, floor int) {
	isTypeT := func(t types.Type) bool { return isNamed(t, pkgMachine, "Type") }
	isCompErr := func(t types.Type) bool {
		p, ok := types.Unalias(t).(*types.Pointer)
		return ok && isNamed(p.Elem(), pkgCompiler, "CompileError")
	}
	var fns []*ssa.Function
	for _, fn := range c.FuncsIn(pkgCompiler) {
		if len(fn.Blocks) == 0 || fn.Synthetic != "" {
			continue
		}
		rs := fn.Signature.Results()
		if rs.Len() == 0 || !isCompErr(rs.At(rs.Len()-1).Type()) {
			continue
		}
		fns = append(fns, fn)
	}
	sort.Slice(fns, func(i, j int) bool { return fns[i].Pos() < fns[j].Pos() })
	n := 0
	for _, fn := range fns {
		type site struct {
			call *ssa.Call
			ty   ssa.Value
			idx  uint
		}
		var sites []*site
		byCall := map[ssa.Instruction]*site{}
		byTy := map[ssa.Value]*site{}
		for _, b := range fn.Blocks {
			for _, ins := range b.Instrs {
				call, ok := ins.(*ssa.Call)
				if !ok {
					continue
				}
				g := staticCallee(call)
				if g == nil || fnPkgPath(origin(g)) != pkgCompiler || g.Signature.Results().Len() < 2 || !isTypeT(g.Signature.Results().At(0).Type()) {
					continue
				}
				// the static type of a sub-expression: the callee is given a node of the parse tree (a helper that maps a
				// keyword to the type it declares is not a check of anything)
				visits := false
				for i := 0; i < g.Signature.Params().Len(); i++ {
					if typeFromPkg(g.Signature.Params().At(i).Type(), modPath+"/internal/machine/script/parser") {
						visits = true
					}
				}
				if !visits {
					continue
				}
				var ty ssa.Value
				for _, r := range *call.Referrers() {
					if ex, ok := r.(*ssa.Extract); ok && ex.Index == 0 {
						ty = ex
					}
				}
				if ty == nil {
					continue
				}
				compared := false
				for _, r := range *ty.Referrers() {
					if bo, ok := r.(*ssa.BinOp); ok && (bo.Op == token.EQL || bo.Op == token.NEQ) {
						other := bo.X
						if other == ty {
							other = bo.Y
						}
						if _, isC := other.(*ssa.Const); isC {
							compared = true
						}
					}
				}
				if !compared || len(sites) >= 28 {
					continue
				}
				s := &site{call, ty, uint(len(sites))}
				sites = append(sites, s)
				byCall[call] = s
				byTy[ty] = s
			}
		}
		if len(sites) == 0 {
			continue
		}
		c.seeFn(fn)
		walked := map[*site]token.Pos{}
		c.RunPaths(fn, 0, &PathRule{
			Edge: func(pc *PathCtx, s uint64, from *ssa.BasicBlock, si int) (uint64, bool) {
				for _, f := range pc.edgeFacts(from, si) {
					if !f.Eq {
						continue
					}
					x, y := f.X, f.Y
					if _, isC := x.(*ssa.Const); isC {
						x, y = y, x
					}
					if _, isC := y.(*ssa.Const); !isC {
						// compared equal to another checked type: as good as the check of that one
						if a, b := byTy[x], byTy[y]; a != nil && b != nil {
							if s&(1<<(2*a.idx+1)) != 0 {
								s |= 1 << (2*b.idx + 1)
							}
							if s&(1<<(2*b.idx+1)) != 0 {
								s |= 1 << (2*a.idx + 1)
							}
						}
						continue
					}
					if st := byTy[x]; st != nil {
						s |= 1 << (2*st.idx + 1)
					}
				}
				return s, true
			},
			Step: func(pc *PathCtx, s uint64, ins ssa.Instruction) uint64 {
				if st := byCall[ins]; st != nil {
					s |= 1 << (2 * st.idx)
					s &^= 1 << (2*st.idx + 1)
				}
				return s
			},
			Exit: func(pc *PathCtx, s uint64, ins ssa.Instruction) {
				r, ok := ins.(*ssa.Return)
				if !ok || len(r.Results) == 0 || !isNilConst(r.Results[len(r.Results)-1]) {
					return
				}
				for _, st := range sites {
					if s&(1<<(2*st.idx)) != 0 && s&(1<<(2*st.idx+1)) == 0 {
						if _, have := walked[st]; !have {
							walked[st] = r.Pos()
						}
					}
				}
			},
		})
		for i, st := range sites {
			n++
			key := fmt.Sprintf("%s:checked-type#%d:no-way-around-the-check", fnName(fn), i+1)
			if pos, bad := walked[st]; bad {
				c.bad(rule, key, st.call.Pos(), fmt.Sprintf("the static type returned by %s is compared with a type constant, yet a path reaches the successful return at line %d without that type having been found equal to any constant: the check can be walked around (a weakened condition), a script of the wrong type compiles and fails inside the machine", staticCallee(st.call).Name(), c.Fset.Position(pos).Line))
			} else {
				c.ok(rule, key, st.call.Pos(), "every successful return lies behind an edge on which the type equals a constant")
			}
		}
	}
	// checks made through a typed-visit helper: the helper's contract is decided once, its call sites count as checked
	var helpers []*typedVisit
	for _, tv := range c.typedVisitHelpers() {
		helpers = append(helpers, tv)
	}
	sort.Slice(helpers, func(i, j int) bool { return helpers[i].fn.Pos() < helpers[j].fn.Pos() })
	for _, tv := range helpers {
		c.seeFn(tv.fn)
		key := fnName(tv.fn) + ":enforces-the-expected-type"
		sites := len(c.CallersOf(tv.fn))
		if tv.ok {
			n += sites
			c.ok(rule, key, tv.fn.Pos(), fmt.Sprintf("every successful return of the helper lies behind `type == expected` (%d call sites rely on it)", sites))
		} else {
			c.bad(rule, key, tv.fn.Pos(), fmt.Sprintf("%s is given the static type it must require, yet a path returns successfully without the visited expression's type having been found equal to it: its %d call sites accept expressions of any type", fnName(tv.fn), sites))
		}
	}
	if n < floor {
		c.undecided(rule, "floor:checked-types", token.NoPos, fmt.Sprintf("expected at least %d call sites whose static type is compared with a constant, found %d", floor, n))
	}
}

func typeFromPkg(t types.Type, pkg string) bool {
	t = types.Unalias(t)
	if p, ok := t.(*types.Pointer); ok {
		t = types.Unalias(p.Elem())
	}
	n, ok := t.(*types.Named)
	return ok && n.Obj().Pkg() != nil && n.Obj().Pkg().Path() == pkg
}
