package main

// Structural rules added after the fourth micro-mutation wave.

import (
	"fmt"
	"go/token"
	"go/types"
	"sort"
	"strings"

	"golang.org/x/tools/go/ssa"
)

// R01i — the amount type's operations are the big.Int operations of the same name.
//
// A method of machine.MonetaryInt named after a big.Int operation (Add, Sub, Neg, Cmp, …) whose body calls one
// arithmetic big.Int method calls the method of its own name (`Neg` implemented with `Abs` turns the negative tracked
// balance after a bounded overdraft into a positive one).
func ruleAmountOpsMatch(c *Ctx, rule string) {
	n := 0
	arith := map[string]bool{"Add": true, "Sub": true, "Neg": true, "Abs": true, "Mul": true, "Div": true, "Quo": true, "Rem": true, "Mod": true, "Cmp": true, "CmpAbs": true, "Sign": true}
	var fns []*ssa.Function
	for _, fn := range c.FuncsIn(pkgMachine) {
		if fn.Signature.Recv() != nil && recvTypeName(fn) == "MonetaryInt" && arith[fn.Name()] && len(fn.Blocks) > 0 {
			fns = append(fns, fn)
		}
	}
	sort.Slice(fns, func(i, j int) bool { return fns[i].Pos() < fns[j].Pos() })
	for _, fn := range fns {
		var used []string
		allCalls(fn, func(ci ssa.CallInstruction) {
			name := calleeFullName(ci)
			if strings.HasPrefix(name, "(*math/big.Int).") {
				m := name[strings.LastIndex(name, ".")+1:]
				if arith[m] {
					used = append(used, m)
				}
			}
		})
		if len(used) == 0 {
			continue
		}
		n++
		c.seeFn(fn)
		key := "MonetaryInt." + fn.Name() + ":is-big.Int." + fn.Name()
		ok := true
		for _, u := range used {
			if u != fn.Name() {
				ok = false
			}
		}
		if ok {
			c.ok(rule, key, fn.Pos(), "implemented with the big.Int operation of the same name")
		} else {
			c.bad(rule, key, fn.Pos(), fmt.Sprintf("MonetaryInt.%s is implemented with big.Int.%s: every balance computed with it is wrong (a negated overdraft becomes a positive balance that can be spent again)", fn.Name(), strings.Join(used, "/")))
		}
	}
	// comparisons: through big.Int.Cmp / Sign (or another comparison method of the type), never through a truncating
	// conversion (`a.Uint64() == b.Uint64()` merges amounts that differ above 64 bits)
	cmpNames := map[string]bool{"Lte": true, "Gte": true, "Lt": true, "Gt": true, "Eq": true, "Equal": true, "Ltz": true, "Cmp": true}
	for _, fn := range c.FuncsIn(pkgMachine) {
		if fn.Signature.Recv() == nil || recvTypeName(fn) != "MonetaryInt" || !cmpNames[fn.Name()] || len(fn.Blocks) == 0 {
			continue
		}
		exact, trunc := false, ""
		allCalls(fn, func(ci ssa.CallInstruction) {
			name := calleeFullName(ci)
			switch {
			case name == "(*math/big.Int).Cmp" || name == "(*math/big.Int).CmpAbs" || name == "(*math/big.Int).Sign":
				exact = true
			case strings.HasPrefix(name, "(*math/big.Int).") && (strings.HasSuffix(name, "Uint64") || strings.HasSuffix(name, "Int64") || strings.HasSuffix(name, "Float64")):
				trunc = name
			}
			if g := staticCallee(ci); g != nil && g.Signature.Recv() != nil && recvTypeName(origin(g)) == "MonetaryInt" {
				if cmpNames[g.Name()] {
					exact = true
				} else if g.Name() == "Uint64" || g.Name() == "Int64" {
					trunc = "MonetaryInt." + g.Name()
				}
			}
		})
		n++
		c.seeFn(fn)
		key := "MonetaryInt." + fn.Name() + ":compares-whole-values"
		if trunc == "" && exact {
			c.ok(rule, key, fn.Pos(), "compares through big.Int.Cmp")
		} else {
			c.bad(rule, key, fn.Pos(), "MonetaryInt."+fn.Name()+" compares through "+trunc+" instead of big.Int.Cmp: amounts that differ above 64 bits compare equal (the compiler merges their constants, the program moves another amount than the source says)")
		}
	}
	if n < 3 {
		c.undecided(rule, "floor:amount-operations", token.NoPos, fmt.Sprintf("expected at least 3 arithmetic methods of MonetaryInt implemented with big.Int (Add, Sub, Neg), found %d", n))
	}
}

// R04i — the last element of a slice is indexed with that slice's own length.
func ruleLastElementOfSameSlice(c *Ctx, rule string) {
	n := 0
	for _, fn := range c.FuncsIn(modPath + "/internal/storage") {
		if len(fn.Blocks) == 0 || strings.HasSuffix(c.Fset.Position(fn.Pos()).Filename, "_test.go") {
			continue
		}
		k := 0
		for _, b := range fn.Blocks {
			for _, ins := range b.Instrs {
				ia, ok := ins.(*ssa.IndexAddr)
				if !ok {
					continue
				}
				bo, ok := ia.Index.(*ssa.BinOp)
				if !ok || bo.Op != token.SUB {
					continue
				}
				call, ok := bo.X.(*ssa.Call)
				if !ok {
					continue
				}
				if bi, ok := call.Call.Value.(*ssa.Builtin); !ok || bi.Name() != "len" {
					continue
				}
				n++
				k++
				c.seeFn(fn)
				key := fmt.Sprintf("%s:index-from-the-end#%d:uses-its-own-length", fnName(fn), k)
				fa, ba := anyFieldRead(ia.X)
				fb, bb := anyFieldRead(call.Call.Args[0])
				same := ia.X == call.Call.Args[0] || (fa != nil && sameField(fa, fb) && ba == bb)
				if same {
					c.ok(rule, key, ia.Pos(), "s[len(s)-k]")
				} else {
					c.bad(rule, key, ia.Pos(), fnName(fn)+" indexes a slice from the end with the length of ANOTHER slice: once the two differ in length (metadata logs add no transaction) the element returned is not the last one — the chain is resumed from a stale log")
				}
			}
		}
	}
	if n == 0 {
		c.undecided(rule, "floor:last-element-reads", token.NoPos, "no s[len(s)-k] read in internal/storage (InMemoryStore.GetLastLog confirmed by reading)")
	}
}

// R05m / R13k — every appended log becomes the head of the chain.
//
// In the function that chains and hands a log off (Commander.appendLog): on every path that reaches the hand-off,
// Commander.lastLog was stored, unconditionally of the allocation switch (a metadata log that is not recorded as the
// head makes the next log chain onto the last transaction log: its hash no longer follows from the stored predecessor).
func ruleHeadAdvancesWithEveryLog(c *Ctx, rule string) {
	m := c.cmdModel(rule)
	if !m.ok {
		return
	}
	n := 0
	for _, fn := range c.FuncsIn(pkgCommand) {
		if len(fn.Blocks) == 0 {
			continue
		}
		var stores []ssa.Instruction
		// the function and the helpers of the package it calls (`commander.chainLog(…)`)
		for _, fi := range flattenCalls(fn, pkgCommand, 2) {
			if v, _, ok := storeToField(fi.ins, m.fLastLog); ok {
				if _, isNil := v.(*ssa.Const); !isNil {
					stores = append(stores, fi.ins)
				}
			}
		}
		hands := false
		allCalls(fn, func(ci ssa.CallInstruction) {
			if g := staticCallee(ci); g != nil && origName(g) == "Append" && strings.Contains(fnPkgPath(origin(g)), "batching") {
				hands = true
			}
		})
		if len(stores) == 0 || !hands {
			continue
		}
		n++
		c.seeFn(fn)
		key := fnName(fn) + ":head-advanced-before-every-hand-off"
		isStore := map[ssa.Instruction]bool{}
		for _, s := range stores {
			isStore[s] = true
		}
		bad := token.NoPos
		storesIn := map[*ssa.Function]bool{}
		for _, s := range stores {
			storesIn[s.Parent()] = true
		}
		c.RunPaths(fn, 0, &PathRule{
			MaxDepth: 2,
			Inline: func(call ssa.CallInstruction) []*ssa.Function {
				if g := staticCallee(call); g != nil && g != fn && storesIn[g] {
					return []*ssa.Function{g}
				}
				return nil
			},
			Step: func(pc *PathCtx, s uint64, ins ssa.Instruction) uint64 {
				if isStore[ins] {
					return s | 1
				}
				if ci, ok := ins.(ssa.CallInstruction); ok {
					if g := staticCallee(ci); g != nil && origName(g) == "Append" && strings.Contains(fnPkgPath(origin(g)), "batching") && s&1 == 0 {
						bad = ins.Pos()
					}
				}
				return s
			},
		})
		if bad.IsValid() {
			c.bad(rule, key, bad, fnName(fn)+" hands a log to the batcher on a path that has not recorded it as Commander.lastLog: the next log is chained onto an older one, its stored hash cannot be recomputed from its stored predecessor and ids repeat")
		} else {
			c.ok(rule, key, stores[0].Pos(), "lastLog is stored on every path to the hand-off")
		}
	}
	if n == 0 {
		c.undecided(rule, "floor:chain-head-writers", token.NoPos, "no function of package command stores Commander.lastLog and hands the log off")
	}
}

// R05n — a batch taken from the queue is handed to a worker.
//
// In job.Runner.Run every non-nil result of nextJob() is sent on the jobs channel before the loop goes round again:
// a batch that was taken out of the pending list and dropped is never persisted.
func ruleTakenJobIsDispatched(c *Ctx, rule string) {
	pkg := modPath + "/internal/engine/utils/job"
	fn := c.firstInstance(pkg, "Runner.Run")
	key := "Runner.Run:every-taken-job-is-dispatched"
	if fn == nil {
		c.undecided(rule, key, token.NoPos, "job.Runner.Run not found")
		return
	}
	fNext := c.Field(pkg, "Runner", "nextJob")
	parts := append([]*ssa.Function{fn}, packageHelpersOf(fn, pkg)...)
	n := 0
	for _, part := range parts {
		var takes []*ssa.Call
		allCalls(part, func(ci ssa.CallInstruction) {
			call, ok := ci.(*ssa.Call)
			if !ok || call.Call.IsInvoke() || staticCallee(call) != nil {
				return
			}
			if f, _ := anyFieldRead(call.Call.Value); f != nil && sameField(f, fNext) {
				takes = append(takes, call)
			}
		})
		for _, tk := range takes {
			n++
			c.seeFn(part)
			bad := token.NoPos
			tk := tk
			c.RunPaths(part, 0, &PathRule{
				Edge: func(pc *PathCtx, s uint64, from *ssa.BasicBlock, si int) (uint64, bool) {
					for _, f := range pc.edgeFacts(from, si) {
						if f.X == ssa.Value(tk) && isNilConst(f.Y) {
							if f.Eq {
								s &^= 1
							} else if s&2 != 0 {
								s |= 1
							}
						}
					}
					return s, true
				},
				Step: func(pc *PathCtx, s uint64, ins ssa.Instruction) uint64 {
					switch x := ins.(type) {
					case *ssa.Call:
						if x == tk {
							if s&1 != 0 {
								bad = x.Pos()
							}
							return (s | 2) &^ 1
						}
					case *ssa.Send:
						if x.X == ssa.Value(tk) {
							return s &^ 1
						}
					case *ssa.Select:
						if s&1 != 0 {
							bad = tk.Pos()
						}
						return s &^ 3
					}
					return s
				},
				Exit: func(pc *PathCtx, s uint64, ins ssa.Instruction) {
					if s&1 != 0 {
						bad = tk.Pos()
					}
				},
			})
			k := fmt.Sprintf("%s#%d", key, n)
			if bad.IsValid() {
				c.bad(rule, k, bad, "a batch returned by nextJob() is not sent to the workers on some path (it was taken out of the pending list while no worker could take it): its logs are chained and acknowledged to nobody, never persisted")
			} else {
				c.ok(rule, k, tk.Pos(), "a non-nil job is sent on the jobs channel before the loop goes round")
			}
		}
	}
	if n == 0 {
		c.undecided(rule, "floor:nextJob-calls", token.NoPos, "no call of Runner.nextJob found in Runner.Run")
	}
}

// R06k — a write that failed is reported as failed.
//
// In the write methods of the commander: on a path where the error returned by executionContext.run (or exec) was
// found non-nil, the method does not return a nil error.
func ruleRunErrorIsReturned(c *Ctx, rule string) {
	m := c.cmdModel(rule)
	if !m.ok {
		return
	}
	n := 0
	var fns []*ssa.Function
	for _, fn := range c.FuncsIn(pkgCommand) {
		if fn.Parent() == nil && recvTypeName(fn) == "Commander" && len(fn.Blocks) > 0 && fn.Signature.Results().Len() > 0 &&
			isErrorType(fn.Signature.Results().At(fn.Signature.Results().Len()-1).Type()) {
			fns = append(fns, fn)
		}
	}
	sort.Slice(fns, func(i, j int) bool { return fns[i].Pos() < fns[j].Pos() })
	for _, fn := range fns {
		var errs []ssa.Value
		allCalls(fn, func(ci ssa.CallInstruction) {
			call, ok := ci.(*ssa.Call)
			if !ok {
				return
			}
			g := staticCallee(call)
			if g == nil || fnPkgPath(origin(g)) != pkgCommand || !(g == m.run || m.persisters[g]) {
				return
			}
			rs := g.Signature.Results()
			if rs.Len() == 0 || !isErrorType(rs.At(rs.Len()-1).Type()) {
				return
			}
			if rs.Len() == 1 {
				errs = append(errs, call)
				return
			}
			for _, r := range *call.Referrers() {
				if ex, ok := r.(*ssa.Extract); ok && ex.Index == rs.Len()-1 {
					errs = append(errs, ex)
				}
			}
		})
		if len(errs) == 0 {
			continue
		}
		n++
		c.seeFn(fn)
		key := fnName(fn) + ":failed-write-is-reported"
		isErr := map[ssa.Value]bool{}
		for _, e := range errs {
			isErr[e] = true
		}
		bad := token.NoPos
		c.RunPaths(fn, 0, &PathRule{
			Edge: func(pc *PathCtx, s uint64, from *ssa.BasicBlock, si int) (uint64, bool) {
				for _, f := range pc.edgeFacts(from, si) {
					if isErr[f.X] && isNilConst(f.Y) {
						if f.Eq {
							if s&1 != 0 {
								return s, false
							}
							s |= 2
						} else {
							if s&2 != 0 {
								return s, false
							}
							s |= 1
						}
					}
				}
				return s, true
			},
			Exit: func(pc *PathCtx, s uint64, ins ssa.Instruction) {
				r, ok := ins.(*ssa.Return)
				if !ok || s&1 == 0 || len(r.Results) == 0 {
					return
				}
				if isNilConst(r.Results[len(r.Results)-1]) {
					bad = r.Pos()
				}
			},
		})
		if bad.IsValid() {
			c.bad(rule, key, bad, fnName(fn)+" returns a nil error on a path where the execution reported an error: a rejected or failed write is answered as a success although nothing was logged")
		} else {
			c.ok(rule, key, fn.Pos(), "no nil error is returned once the execution failed")
		}
	}
	if n < 3 {
		c.undecided(rule, "floor:write-methods", token.NoPos, fmt.Sprintf("expected at least 3 write methods of the commander that run an execution, found %d", n))
	}
}

// R08m — a string literal loses its quotes and nothing else.
func ruleQuotesOnlyTrimmed(c *Ctx, rule string) {
	n := 0
	for _, fn := range c.FuncsIn(pkgCompiler) {
		if len(fn.Blocks) == 0 || strings.HasSuffix(c.Fset.Position(fn.Pos()).Filename, "_test.go") {
			continue
		}
		k := 0
		allCalls(fn, func(ci ssa.CallInstruction) {
			name := calleeFullName(ci)
			if name != "strings.Trim" && name != "strings.TrimLeft" && name != "strings.TrimRight" {
				return
			}
			n++
			k++
			c.seeFn(fn)
			key := fmt.Sprintf("%s:trim#%d:removes-the-quotes-only", fnName(fn), k)
			cut, ok := constString(ci.Common().Args[1])
			switch {
			case !ok:
				c.undecided(rule, key, ci.Pos(), "the cut set is not a constant")
			case cut == `"`:
				c.ok(rule, key, ci.Pos(), "only the double quotes are removed")
			default:
				c.bad(rule, key, ci.Pos(), fmt.Sprintf("the text of a literal is trimmed with the cut set %q: characters that belong to the client's string (blanks at its ends) are removed with the quotes — the metadata written is not what the source says", cut))
			}
		})
	}
	if n < 1 {
		c.undecided(rule, "floor:literal-trims", token.NoPos, "no strings.Trim of a literal's text found in package compiler")
	}
}

// R10m — only the client's own `force` forces a revert.
//
// The force argument of every RevertTransaction call made by the API is the request's own switch (a field named Force,
// or the boolean reader applied to the query parameter): nothing else may be mixed in.
func ruleForceIsTheRequests(c *Ctx, rule string) {
	n := 0
	var fns []*ssa.Function
	for _, p := range []string{pkgV1, pkgV2} {
		fns = append(fns, c.FuncsIn(p)...)
	}
	sort.Slice(fns, func(i, j int) bool { return fns[i].Pos() < fns[j].Pos() })
	for _, fn := range fns {
		if len(fn.Blocks) == 0 || strings.HasSuffix(c.Fset.Position(fn.Pos()).Filename, "_test.go") {
			continue
		}
		k := 0
		allCalls(fn, func(ci ssa.CallInstruction) {
			if !ci.Common().IsInvoke() || ci.Common().Method.Name() != "RevertTransaction" {
				return
			}
			var force ssa.Value
			for _, a := range ci.Common().Args {
				if b, ok := a.Type().Underlying().(*types.Basic); ok && b.Kind() == types.Bool {
					force = a
				}
			}
			if force == nil {
				return
			}
			n++
			k++
			c.seeFn(fn)
			key := fmt.Sprintf("%s:RevertTransaction#%d:force-is-the-request's", fnName(fn), k)
			bad := forceSourceProblem(c, force, 0)
			if bad == "" {
				c.ok(rule, key, ci.Pos(), "force comes from the request's own switch only")
			} else {
				c.bad(rule, key, ci.Pos(), "the force argument of RevertTransaction also depends on "+bad+": a revert the client did not force can overdraw an account")
			}
		})
	}
	if n < 2 {
		c.undecided(rule, "floor:revert-calls", token.NoPos, fmt.Sprintf("expected at least 2 RevertTransaction calls in the API (v2 handler, bulk), found %d", n))
	}
}

// R11i — the not-found test is a test for not-found.
func ruleNotFoundIsNotFound(c *Ctx, rule string) {
	pkg := modPath + "/internal/storage/sqlutils"
	fn := c.Fn(pkg, "IsNotFoundError")
	key := "sqlutils.IsNotFoundError:is-errors.Is-ErrNotFound"
	if fn == nil || len(fn.Blocks) == 0 {
		c.undecided(rule, key, token.NoPos, "sqlutils.IsNotFoundError not found")
		return
	}
	c.seeFn(fn)
	ok, n := true, 0
	for _, b := range fn.Blocks {
		ret, isRet := b.Instrs[len(b.Instrs)-1].(*ssa.Return)
		if !isRet || len(ret.Results) != 1 {
			continue
		}
		n++
		good := false
		for _, r := range roots(ret.Results[0], nil) {
			if call, isCall := r.(*ssa.Call); isCall {
				name := calleeFullName(call)
				if strings.HasSuffix(name, "errors.Is") || strings.HasSuffix(name, "errors.As") {
					for _, a := range call.Call.Args[1:] {
						for _, ar := range roots(a, nil) {
							if ld, isLd := ar.(*ssa.UnOp); isLd {
								if g, isG := ld.X.(*ssa.Global); isG && strings.Contains(g.Name(), "NotFound") {
									good = true
								}
							}
						}
					}
				}
			}
			if k, isC := r.(*ssa.Const); isC {
				if bv, isB := constBool(k); isB && !bv {
					good = true // `if err == nil { return false }`
				}
			}
		}
		if !good {
			ok = false
		}
	}
	if ok && n > 0 {
		c.ok(rule, key, fn.Pos(), "errors.Is(err, ErrNotFound)")
	} else {
		c.bad(rule, key, fn.Pos(), "sqlutils.IsNotFoundError does not test for the not-found error: a store failure during the look-up of a reference (or of an idempotency key) is read as `absent` and the write is committed a second time")
	}
}

// R15i — the exported walk of the waiting list agrees with the list's own walks.
//
// The methods of LinkedList that walk it (Length, ForEach, Slice, RemoveFirst …) start from one end field and advance
// through one link field. The accessors the lock manager walks with — FirstNode() and Next() — return that end and
// that link (returning the other end or the other link makes the re-examination after a release look at one waiter only).
func ruleAccessorsAgreeWithWalks(c *Ctx, rule string) {
	pkgCU := libsPath + "/collectionutils"
	starts, links := map[string]int{}, map[string]int{}
	var first, next *ssa.Function
	for f := range c.AllFns {
		o := origin(f)
		if fnPkgPath(o) != pkgCU || len(f.Blocks) == 0 || (f != o && !isGroundInstance(f)) || (f == o && o.TypeParams().Len() > 0) {
			continue
		}
		switch recvTypeName(o) + "." + o.Name() {
		case "LinkedList.FirstNode":
			if first == nil || f.String() < first.String() {
				first = f
			}
			continue
		case "LinkedListNode.Next":
			if next == nil || f.String() < next.String() {
				next = f
			}
			continue
		}
		if recvTypeName(o) != "LinkedList" {
			continue
		}
		// loops `node := r.X; for node != nil { …; node = node.Y }`
		for _, b := range f.Blocks {
			for _, ins := range b.Instrs {
				phi, ok := ins.(*ssa.Phi)
				if !ok || len(phi.Edges) != 2 {
					continue
				}
				var start, link string
				for _, e := range phi.Edges {
					fl, base := anyFieldRead(e)
					if fl == nil {
						continue
					}
					if base == ssa.Value(phi) {
						link = fl.Name()
					} else if base == ssa.Value(f.Params[0]) {
						start = fl.Name()
					}
				}
				if start != "" && link != "" {
					key := origName(f)
					_ = key
					starts[start]++
					links[link]++
				}
			}
		}
	}
	majority := func(m map[string]int) (string, bool) {
		best, bestN, total := "", 0, 0
		for k, n := range m {
			total += n
			if n > bestN || (n == bestN && k < best) {
				best, bestN = k, n
			}
		}
		return best, total > 0 && bestN == total
	}
	start, okS := majority(starts)
	link, okL := majority(links)
	if !okS || !okL || first == nil || next == nil {
		c.undecided(rule, "LinkedList:walks", token.NoPos, "the walks of LinkedList do not all start from one end and advance through one link, or FirstNode / Next were not found")
		return
	}
	check := func(fn *ssa.Function, want, what string) {
		c.seeFn(fn)
		key := recvTypeName(origin(fn)) + "." + origName(fn) + ":returns-" + what
		good := true
		n := 0
		for _, b := range fn.Blocks {
			if ret, ok := b.Instrs[len(b.Instrs)-1].(*ssa.Return); ok && len(ret.Results) == 1 {
				n++
				if fl, _ := anyFieldRead(ret.Results[0]); fl == nil || fl.Name() != want {
					good = false
				}
			}
		}
		if good && n > 0 {
			c.ok(rule, key, fn.Pos(), "returns "+want+", as the list's own walks use")
		} else {
			c.bad(rule, key, fn.Pos(), fmt.Sprintf("%s does not return the field %s the walks of the list itself go by: the lock manager's re-examination after a release visits one waiter instead of the whole queue, requests that became grantable stay blocked", origName(fn), want))
		}
	}
	check(first, start, "the-head")
	check(next, link, "the-forward-link")
}

// R18k — results are appended in the order of the elements.
//
// In ProcessBulk every assignment of the result list extends the list built so far at its end: the first argument of
// each `append` that feeds the returned list is that list, and no fresh slice is put in front of it.
func ruleResultsAppendedInOrder(c *Ctx, rule string) {
	fn := c.MustFn(rule, pkgV2, "ProcessBulk")
	if fn == nil {
		return
	}
	parts := append([]*ssa.Function{fn}, packageHelpersOf(fn, pkgV2)...)
	n := 0
	isResultSlice := func(t types.Type) bool {
		sl, ok := t.Underlying().(*types.Slice)
		return ok && isNamed(sl.Elem(), pkgV2, "Result")
	}
	for _, part := range parts {
		for _, b := range part.Blocks {
			for _, ins := range b.Instrs {
				call, ok := ins.(*ssa.Call)
				if !ok {
					continue
				}
				if bi, ok := call.Call.Value.(*ssa.Builtin); !ok || bi.Name() != "append" || !isResultSlice(call.Type()) {
					continue
				}
				n++
				c.seeFn(part)
				key := fmt.Sprintf("%s:append#%d:extends-the-list-at-its-end", fnName(part), n)
				// the first argument must be the list itself (a phi / parameter / earlier append), not a fresh literal
				fresh := false
				for _, r := range roots(call.Call.Args[0], nil) {
					switch x := r.(type) {
					case *ssa.Alloc:
						fresh = true
					case *ssa.Call:
						if bi, ok := x.Call.Value.(*ssa.Builtin); ok && bi.Name() == "append" {
							continue
						}
					case *ssa.MakeSlice, *ssa.Const:
						// the initial `make([]Result, 0, n)` / nil is the start of the list, but only as first argument of the
						// first append: it never holds an earlier result, accepted
					}
				}
				if sl, ok := call.Call.Args[0].(*ssa.Slice); ok {
					if _, isAlloc := sl.X.(*ssa.Alloc); isAlloc {
						fresh = true
					}
				}
				if fresh {
					c.bad(rule, key, call.Pos(), "a result is put in FRONT of the results collected so far (`append([]Result{r}, ret...)`): results no longer sit at the position of the element they answer")
				} else {
					c.ok(rule, key, call.Pos(), "append(ret, …)")
				}
			}
		}
	}
	if n < 1 {
		c.undecided(rule, "floor:result-appends", token.NoPos, fmt.Sprintf("expected at least 1 append to the result list in ProcessBulk, found %d", n))
	}
}

// R18l — continueOnFailure is the VALUE of the query parameter.
func ruleContinueOnFailureIsRead(c *Ctx, rule string) {
	pb := c.MustFn(rule, pkgV2, "ProcessBulk")
	if pb == nil {
		return
	}
	n := 0
	for _, cs := range c.CallersOf(pb) {
		if strings.HasSuffix(c.Fset.Position(cs.Pos()).Filename, "_test.go") {
			continue
		}
		var flag ssa.Value
		for i, a := range cs.Common().Args {
			if i < len(pb.Params) {
				if b, ok := pb.Params[i].Type().Underlying().(*types.Basic); ok && b.Kind() == types.Bool {
					flag = a
				}
			}
		}
		if flag == nil {
			continue
		}
		n++
		key := fnName(cs.Parent()) + ":continueOnFailure-is-the-parameter's-value"
		good := false
		what := "a value this rule does not follow"
		for _, r := range roots(flag, nil) {
			call, ok := r.(*ssa.Call)
			if !ok {
				continue
			}
			if g := staticCallee(call); g != nil && len(g.Blocks) > 0 {
				if set, _ := acceptedSpellings(g); len(set) > 0 {
					good = true
				}
			}
			if name := calleeFullName(call); strings.HasSuffix(name, "url.Values).Has") {
				what = "the mere presence of the parameter (url.Values.Has)"
			}
		}
		if good {
			c.ok(rule, key, cs.Pos(), "read through a reader that compares the parameter's value")
		} else {
			c.bad(rule, key, cs.Pos(), "ProcessBulk is given "+what+" as continueOnFailure: `continueOnFailure=false` keeps executing the elements after a failure")
		}
	}
	if n == 0 {
		c.undecided(rule, "floor:ProcessBulk-callers", token.NoPos, "no caller of ProcessBulk found")
	}
}

// R11k — the reference travels from the posting-mode request to the executed script.
func ruleReferencePassesThrough(c *Ctx, rule string) {
	fn := c.MustFn(rule, pkgLedger, "TxToScriptData")
	if fn == nil || len(fn.Params) == 0 {
		return
	}
	dst := c.Field(pkgLedger, "RunScript", "Reference")
	src := c.Field(pkgLedger, "TransactionData", "Reference")
	ok := false
	for _, b := range fn.Blocks {
		for _, ins := range b.Instrs {
			if v, _, isSt := storeToField(ins, dst); isSt {
				if f, base := anyFieldRead(v); sameField(f, src) && isParamOrSpill(base, fn.Params[0]) {
					ok = true
				}
			}
		}
	}
	c.seeFn(fn)
	c.check(ok, rule, "TxToScriptData:passes-Reference", fn.Pos(), "RunScript.Reference = txData.Reference", "the script generated for a posting-mode request does not carry its reference: the reservation and the look-up are skipped, the same reference is committed twice")
}

// forceSourceProblem: "" when every origin of v is the request's own force switch — a field named Force, the boolean
// reader applied to the `force` (or `disableChecks`) query parameter, or a parameter of an API helper that every call
// site binds to such a value; otherwise what else it depends on.
func forceSourceProblem(c *Ctx, v ssa.Value, depth int) string {
	if depth > 4 {
		return "a value handed down too deep to follow"
	}
	for _, r := range roots(v, nil) {
		switch x := r.(type) {
		case *ssa.Const:
			if bv, ok := constBool(x); ok && bv {
				return "the constant true"
			}
		case *ssa.Call:
			g := staticCallee(x)
			if g != nil && len(g.Blocks) > 0 && strings.HasPrefix(fnPkgPath(origin(g)), modPath+"/internal/api") {
				// a named reader of the handler (`forceRevert(r)`): what it returns
				for _, b := range g.Blocks {
					if ret, ok := b.Instrs[len(b.Instrs)-1].(*ssa.Return); ok && len(ret.Results) == 1 {
						if why := forceSourceProblem(c, ret.Results[0], depth+1); why != "" {
							return why
						}
					}
				}
				continue
			}
			if g == nil || len(x.Call.Args) != 2 {
				return "the result of " + calleeFullName(x)
			}
			if s, ok := constString(x.Call.Args[1]); !ok || (!strings.EqualFold(s, "force") && !strings.EqualFold(s, "disableChecks")) {
				return "another query parameter"
			}
		case *ssa.Parameter:
			fn := x.Parent()
			sites := c.CallersOf(fn)
			if fn == nil || len(sites) == 0 || !strings.HasPrefix(fnPkgPath(origin(fn)), modPath+"/internal/api") || !strings.Contains(strings.ToLower(x.Name()), "force") {
				return "the parameter " + x.Name()
			}
			i := paramIndex(x)
			for _, cs := range sites {
				if i < 0 || i >= len(cs.Common().Args) {
					return "the parameter " + x.Name()
				}
				if why := forceSourceProblem(c, cs.Common().Args[i], depth+1); why != "" {
					return why
				}
			}
		default:
			if f, _ := anyFieldRead(r); f == nil || f.Name() != "Force" {
				return r.Name()
			}
		}
	}
	return ""
}
