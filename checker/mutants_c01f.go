package main

func init() {
	const mach = "internal/machine/vm/machine.go"
	wdAllOld := "\t\t\tamountTaken := machine.Zero\n\t\t\tbalanceWithOverdraft := balance.Add(overdraft)\n\t\t\tif balanceWithOverdraft.Gt(machine.Zero) {\n\t\t\t\tamountTaken = balanceWithOverdraft\n\t\t\t\taccBalances[asset] = overdraft.Neg()\n\t\t\t}\n"
	addMutants(
		Mutant{Property: "C01", Name: "resolved-balance-is-not-the-store-balance", File: "internal/machine/vm/machine.go",
			Old: "\t\t\tm.Balances[accountAddress][asset] = machine.NewMonetaryIntFromBigInt(balance)", New: "\t\t\tm.Balances[accountAddress][asset] = machine.NewMonetaryIntFromBigInt(balance).Add(machine.NewMonetaryInt(1))", Expect: "R01h:"},
		Mutant{Property: "C01", Name: "withdrawAll-sets-floor-unconditionally", File: mach, Old: wdAllOld,
			New:    "\t\t\tamountTaken := machine.Zero\n\t\t\tfloor := overdraft.Neg()\n\t\t\tif balance.Gt(floor) {\n\t\t\t\tamountTaken = balance.Sub(floor)\n\t\t\t}\n\t\t\taccBalances[asset] = floor\n",
			Expect: "R01f:withdrawAll:debits-exactly"},
		Mutant{Property: "C01", Name: "withdrawAll-refactored-with-floor", File: mach, Old: wdAllOld,
			New:    "\t\t\tamountTaken := machine.Zero\n\t\t\tfloor := overdraft.Neg()\n\t\t\tif balance.Gt(floor) {\n\t\t\t\tamountTaken = balance.Sub(floor)\n\t\t\t\taccBalances[asset] = floor\n\t\t\t}\n",
			Expect: "none", Benign: true},
		Mutant{Property: "C01", Name: "withdrawAll-gte-guard", File: mach, Old: "\t\t\tif balanceWithOverdraft.Gt(machine.Zero) {", New: "\t\t\tif balanceWithOverdraft.Gte(machine.Zero) {",
			Expect: "none", Benign: true},
		Mutant{Property: "C01", Name: "withdrawAll-no-positivity-guard", File: mach, Old: "\t\t\tif balanceWithOverdraft.Gt(machine.Zero) {", New: "\t\t\t{",
			Expect: "R01f:withdrawAll:hands-out-at-most"},
		Mutant{Property: "C01", Name: "withdrawAll-overdraft-counted-twice", File: mach, Old: "\t\t\t\tamountTaken = balanceWithOverdraft\n", New: "\t\t\t\tamountTaken = balanceWithOverdraft.Add(overdraft)\n",
			Expect: "R01f:withdrawAll"},
		Mutant{Property: "C01", Name: "withdrawAll-forgets-to-negate-the-floor", File: mach, Old: "\t\t\t\taccBalances[asset] = overdraft.Neg()\n", New: "\t\t\t\taccBalances[asset] = overdraft\n",
			Expect: "R01f:withdrawAll:debits-exactly"},
		Mutant{Property: "C01", Name: "withdrawAll-does-not-debit", File: mach, Old: "\t\t\t\taccBalances[asset] = overdraft.Neg()\n", New: "",
			Expect: "R01f:withdrawAll:debits-exactly"},
		Mutant{Property: "C01", Name: "withdrawAlways-adds", File: mach, Old: "\t\t\taccBalance[mon.Asset] = balance.Sub(mon.Amount)\n", New: "\t\t\taccBalance[mon.Asset] = balance.Add(mon.Amount)\n",
			Expect: "R01f:withdrawAlways"},
		Mutant{Property: "C01", Name: "credit-twice", File: mach, Old: "\t\t\t\taccBalance[funding.Asset] = balance.Add(part.Amount)\n", New: "\t\t\t\taccBalance[funding.Asset] = balance.Add(part.Amount).Add(part.Amount)\n",
			Expect: "R01f:credit"},
		Mutant{Property: "C01", Name: "credit-the-total-per-part", File: mach, Old: "\t\t\t\taccBalance[funding.Asset] = balance.Add(part.Amount)\n", New: "\t\t\t\taccBalance[funding.Asset] = balance.Add(part.Amount).Add(funding.Total())\n",
			Expect: "R01f:credit"},
		Mutant{Property: "C01", Name: "repay-to-the-first-part-account", File: mach, Old: "\t\tm.Balances[part.Account][funding.Asset] = balance.Add(part.Amount)\n", New: "\t\tm.Balances[funding.Parts[0].Account][funding.Asset] = balance.Add(part.Amount)\n",
			Expect: "R01f:repay"},
		Mutant{Property: "C01", Name: "save-all-raises-negative-balance", File: mach,
			Old:    "\t\t\t\tif balance, tracked := accBalances[v]; !tracked || balance.Gt(machine.Zero) {\n\t\t\t\t\taccBalances[v] = machine.Zero\n\t\t\t\t}\n",
			New:    "\t\t\t\taccBalances[v] = machine.Zero\n",
			Expect: "R01f:tick:OP_SAVE"},
		Mutant{Property: "C01", Name: "save-negative-amount-accepted", File: mach,
			Old:    "\t\t\tif v.Amount.Ltz() {\n\t\t\t\treturn true, machine.NewErrNegativeAmount(\n\t\t\t\t\t\"cannot save a monetary with a negative amount: [%s %s]\",\n\t\t\t\t\tstring(v.Asset), v.Amount)\n\t\t\t}\n",
			New:    "",
			Expect: "R01f:tick:OP_SAVE"},
		Mutant{Property: "C01", Name: "save-adds", File: mach, Old: "\t\t\t\taccBalances[v.Asset] = accBalances[v.Asset].Sub(v.Amount)\n", New: "\t\t\t\taccBalances[v.Asset] = accBalances[v.Asset].Add(v.Amount)\n",
			Expect: "R01f:tick:OP_SAVE"},
		Mutant{Property: "C01", Name: "save-all-with-nil-check", File: mach,
			Old:    "\t\t\t\tif balance, tracked := accBalances[v]; !tracked || balance.Gt(machine.Zero) {\n",
			New:    "\t\t\t\tbalance, tracked := accBalances[v]\n\t\t\t\tif !tracked {\n\t\t\t\t\taccBalances[v] = machine.Zero\n\t\t\t\t} else if balance.Gt(machine.Zero) {\n",
			Expect: "none", Benign: true},
	)
}

func init() {
	const comp = "internal/machine/script/compiler/compiler.go"
	addMutants(
		Mutant{Property: "C08", Name: "monetary-literal-memoised-by-text", File: comp,
			Old: "\tcase *parser2.LitMonetaryContext:\n\t\ttyp, assetAddr, compErr := p.VisitExpr(c.Monetary().GetAsset(), false)", New: "\tcase *parser2.LitMonetaryContext:\n\t\tif addr, ok := p.varIdx[c.GetText()]; ok {\n\t\t\tif push {\n\t\t\t\tp.PushAddress(addr)\n\t\t\t}\n\t\t\treturn machine.TypeMonetary, &addr, nil\n\t\t}\n\t\ttyp, assetAddr, compErr := p.VisitExpr(c.Monetary().GetAsset(), false)", Expect: "R08f:"},
		Mutant{Property: "C08", Name: "monetary-amount-text-logged", File: comp,
			Old: "\tcase *parser2.LitMonetaryContext:\n\t\ttyp, assetAddr, compErr := p.VisitExpr(c.Monetary().GetAsset(), false)", New: "\tcase *parser2.LitMonetaryContext:\n\t\tif len(c.GetText()) == 0 {\n\t\t\treturn 0, nil, LogicError(c, errors.New(\"empty monetary\"))\n\t\t}\n\t\ttyp, assetAddr, compErr := p.VisitExpr(c.Monetary().GetAsset(), false)", Expect: "none", Benign: true},
		Mutant{Property: "C08", Name: "save-pushes-address-of-left-operand", File: comp,
			Old:    "\t\ttyp, _, compErr = p.VisitExpr(mon, true)\n\t\tif compErr != nil {\n\t\t\treturn compErr\n\t\t}\n\t\tif typ != machine.TypeMonetary {\n\t\t\treturn LogicError(c, fmt.Errorf(\n\t\t\t\t\"save monetary from account: the first expression should be of type 'monetary' instead of '%s'\", typ))\n\t\t}\n",
			New:    "\t\ttyp, addr, compErr = p.VisitExpr(mon, false)\n\t\tif compErr != nil {\n\t\t\treturn compErr\n\t\t}\n\t\tif typ != machine.TypeMonetary {\n\t\t\treturn LogicError(c, fmt.Errorf(\n\t\t\t\t\"save monetary from account: the first expression should be of type 'monetary' instead of '%s'\", typ))\n\t\t}\n\t\tp.PushAddress(*addr)\n",
			Expect: "R08e:"},
		Mutant{Property: "C08", Name: "send-pushes-address-of-left-operand", File: comp,
			Old:    "\t\tp.setNeededBalances(accounts, monAddr)\n\n\t\tif _, _, err := p.VisitExpr(mon, true); err != nil {\n\t\t\treturn err\n\t\t}\n",
			New:    "\t\tp.setNeededBalances(accounts, monAddr)\n\n\t\tp.PushAddress(*monAddr)\n",
			Expect: "R08e:"},
	)
}

func init() {
	const fund = "internal/machine/funding.go"
	addMutants(
		Mutant{Property: "C01", Name: "take-loses-the-excess-of-a-part", File: fund, Nth: 1,
			Old:    "\t\t\tremainder.Parts = append(remainder.Parts, FundingPart{\n\t\t\t\tAccount: f.Parts[i].Account,\n\t\t\t\tAmount:  rem,\n\t\t\t})\n",
			New:    "\t\t\t_ = rem\n", Expect: "R01g:Funding.Take:each-iteration"},
		Mutant{Property: "C01", Name: "take-does-not-count-what-it-took", File: fund, Nth: 1,
			Old: "\t\tremainingToWithdraw = remainingToWithdraw.Sub(amtToWithdraw)\n", New: "\t\tremainingToWithdraw = remainingToWithdraw.Sub(Zero)\n", Expect: "R01g:Funding.Take:each-iteration"},
		Mutant{Property: "C01", Name: "take-attributes-parts-to-the-first-account", File: fund, Nth: 1,
			Old: "\t\tresult.Parts = append(result.Parts, FundingPart{\n\t\t\tAccount: f.Parts[i].Account,\n\t\t\tAmount:  amtToWithdraw,\n\t\t})\n", New: "\t\tresult.Parts = append(result.Parts, FundingPart{\n\t\t\tAccount: f.Parts[0].Account,\n\t\t\tAmount:  amtToWithdraw,\n\t\t})\n", Expect: "R01g:Funding.Take:each-iteration"},
		Mutant{Property: "C01", Name: "take-accepts-a-short-funding", File: fund,
			Old: "\tif !remainingToWithdraw.Eq(Zero) {\n", New: "\tif remainingToWithdraw.Ltz() {\n", Expect: "R01g:Funding.Take:success-only"},
		Mutant{Property: "C01", Name: "take-takes-the-whole-part-when-it-exceeds", File: fund, Nth: 1,
			Old: "\t\t\tamtToWithdraw = remainingToWithdraw\n", New: "", Expect: "R01g:Funding.Take:each-iteration"},
		Mutant{Property: "C01", Name: "take-drain-skips-a-part", File: fund, Nth: 1,
			Old: "\t\t\tAmount:  f.Parts[i].Amount,\n\t\t})\n\t\ti++\n", New: "\t\t\tAmount:  f.Parts[i].Amount,\n\t\t})\n\t\ti += 2\n", Expect: "R01g:Funding.Take:"},
		Mutant{Property: "C01", Name: "takemax-puts-the-excess-in-the-result", File: fund, Nth: 2,
			Old:    "\t\t\tremainder.Parts = append(remainder.Parts, FundingPart{\n\t\t\t\tAccount: f.Parts[i].Account,\n\t\t\t\tAmount:  rem,\n\t\t\t})\n",
			New:    "\t\t\tresult.Parts = append(result.Parts, FundingPart{\n\t\t\t\tAccount: f.Parts[i].Account,\n\t\t\t\tAmount:  rem,\n\t\t\t})\n", Expect: "R01g:Funding.TakeMax:each-iteration"},
		Mutant{Property: "C01", Name: "take-gte-comparison", File: fund, Nth: 1,
			Old: "\t\tif amtToWithdraw.Gt(remainingToWithdraw) {\n", New: "\t\tif amtToWithdraw.Gte(remainingToWithdraw) {\n", Expect: "none", Benign: true},
	)
}

func init() {
	const comp = "internal/machine/script/compiler/compiler.go"
	const src = "internal/machine/script/compiler/source.go"
	const js = "internal/machine/json.go"
	addMutants(
		Mutant{Property: "C12", Name: "source-allotment-portions-unchecked-in-send", File: comp,
			Old: "\t\tif err := p.VisitAllotment(c.SourceAllotment(), c.SourceAllotment().GetPortions()); err != nil {\n\t\t\treturn err\n\t\t}\n", New: "\t\tp.VisitAllotment(c.SourceAllotment(), c.SourceAllotment().GetPortions())\n", Expect: "R12g:"},
		// (the same dropped error in VisitValueAwareSource is not a variant: that method is dead code)
		Mutant{Property: "C12", Name: "null-number-accepted", File: js,
			Old: "\t\tif number == nil {\n\t\t\treturn nil, errors.New(\"number must not be null\")\n\t\t}\n", New: "", Expect: "R12h:"},
	)
}

func init() {
	const comp = "internal/machine/script/compiler/compiler.go"
	addMutants(
		Mutant{Property: "C12", Name: "compile-counter-at-package-level", File: comp, Old: "func CompileFull(input string) CompileArtifacts {\n", New: "var compileStats sync.Map\n\nfunc CompileFull(input string) CompileArtifacts {\n\tcompileStats.Store(len(input), true)\n",
			Edits: []Edit{{File: comp, Old: "import (\n", New: "import (\n\t\"sync\"\n"}}, Expect: "R12d:"},
	)
}
