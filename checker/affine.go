package main

// Per-path evaluation of money values in the domain of affine forms over opaque symbols
// (linear equalities à la Karr, restricted to the three operations the repository has on
// *machine.MonetaryInt: Add, Sub, Neg, plus the constant machine.Zero). Used by the balance
// bookkeeping rules (R01f): the paths of the handful of functions that own Machine.Balances are
// enumerated (every loop body at most once), and on each path the new value of a balance cell, the
// amount handed out and the comparisons that guard the path are affine forms that are compared
// for identity. No value is ever computed: the forms are syntactic normal forms of the source.

import (
	"fmt"
	"go/token"
	"go/types"
	"sort"
	"strings"

	"golang.org/x/tools/go/ssa"
)

type aff map[string]int64 // symbol -> coefficient; symbol "1" carries constants

func affSym(s string) aff { return aff{s: 1} }
func affZero() aff         { return aff{} }

func (a aff) plus(b aff, k int64) aff {
	r := aff{}
	for s, c := range a {
		r[s] = c
	}
	for s, c := range b {
		r[s] += k * c
		if r[s] == 0 {
			delete(r, s)
		}
	}
	return r
}

func (a aff) equal(b aff) bool { return len(a.plus(b, -1)) == 0 }
func (a aff) isZero() bool     { return len(a) == 0 }

func (a aff) String() string {
	if len(a) == 0 {
		return "0"
	}
	var ks []string
	for s := range a {
		ks = append(ks, s)
	}
	sort.Strings(ks)
	var sb strings.Builder
	for i, s := range ks {
		c := a[s]
		switch {
		case c == 1 && i == 0:
		case c == 1:
			sb.WriteString(" + ")
		case c == -1 && i == 0:
			sb.WriteString("-")
		case c == -1:
			sb.WriteString(" - ")
		case c < 0:
			fmt.Fprintf(&sb, " - %d·", -c)
		default:
			if i > 0 {
				sb.WriteString(" + ")
			}
			fmt.Fprintf(&sb, "%d·", c)
		}
		sb.WriteString(s)
	}
	return sb.String()
}

// descr: a canonical textual name for a value, stable across re-loads of the same source location
// (parameters by name, field paths, map elements by the description of map and key).
// descrAlias: while a helper is evaluated inline (affEval.inline), its parameters are named after the caller's
// arguments, so that cells and accounts keep one name across the call.
var descrAlias = map[ssa.Value]string{}

func descr(v ssa.Value, depth int) string {
	if depth > 12 {
		return v.Name()
	}
	if a, ok := descrAlias[v]; ok {
		return a
	}
	switch x := v.(type) {
	case *ssa.Parameter:
		return x.Name()
	case *ssa.FreeVar:
		return x.Name()
	case *ssa.Global:
		return x.Name()
	case *ssa.Const:
		if x.Value == nil {
			return "nil"
		}
		return x.Value.ExactString()
	case *ssa.Field:
		return descr(x.X, depth+1) + "." + fieldOfField(x).Name()
	case *ssa.FieldAddr:
		return descr(x.X, depth+1) + "." + fieldOfAddr(x).Name()
	case *ssa.IndexAddr:
		return descr(x.X, depth+1) + "[" + descr(x.Index, depth+1) + "]"
	case *ssa.Index:
		return descr(x.X, depth+1) + "[" + descr(x.Index, depth+1) + "]"
	case *ssa.Slice:
		lo, hi := "", ""
		if x.Low != nil {
			lo = descr(x.Low, depth+1)
		}
		if x.High != nil {
			hi = descr(x.High, depth+1)
		}
		if lo == "" && hi == "" {
			return descr(x.X, depth+1)
		}
		return descr(x.X, depth+1) + "[" + lo + ":" + hi + "]"
	case *ssa.Lookup:
		return descr(x.X, depth+1) + "[" + descr(x.Index, depth+1) + "]"
	case *ssa.Extract:
		if lk, ok := x.Tuple.(*ssa.Lookup); ok && x.Index == 0 {
			return descr(lk, depth+1)
		}
		if ta, ok := x.Tuple.(*ssa.TypeAssert); ok && x.Index == 0 {
			return descr(ta.X, depth+1)
		}
		return descr(x.Tuple, depth+1) + fmt.Sprintf("#%d", x.Index)
	case *ssa.TypeAssert:
		return descr(x.X, depth+1)
	case *ssa.ChangeType:
		return descr(x.X, depth+1)
	case *ssa.Convert:
		return descr(x.X, depth+1)
	case *ssa.MakeInterface:
		return descr(x.X, depth+1)
	case *ssa.Alloc:
		if s := singleStore(x); s != nil {
			return descr(s, depth+1)
		}
		if x.Comment != "" {
			return x.Comment
		}
		return x.Name()
	case *ssa.UnOp:
		if x.Op == token.MUL {
			return descr(x.X, depth+1)
		}
	case *ssa.Phi:
		if x.Comment != "" {
			return x.Comment + "@" + x.Name()
		}
	}
	return v.Name()
}

type affGuard struct {
	e   aff    // the form compared with zero
	op  string // ">0", ">=0", "<0", "<=0", "==0", "!=0"
	pos token.Pos
}

func (g affGuard) String() string { return "(" + g.e.String() + ") " + g.op }

type affStore struct {
	cell string
	val  aff
	ins  ssa.Instruction
}

// affPath: the state at the end of one enumerated path.
type affPath struct {
	val    map[ssa.Value]aff
	cells  map[string]aff // cell -> current content (absent: still the entry content, symbol "old:"+cell)
	stores []affStore
	guards []affGuard
	facts  []Fact // non-money branch facts along the path
	parts  []aff  // amounts stored into FundingPart.Amount, in order
	blocks []*ssa.BasicBlock
	ret    *ssa.Return
	left   bool // the path left the region (region mode) instead of returning
	// segment mode: the path ended by entering the loop head endHead from endPred
	endHead, endPred *ssa.BasicBlock
	notes            map[string][]aff    // rule-specific bags, filled by affEval.hook
	strs             map[string][]string // rule-specific bags
	bools            map[ssa.Value]bool  // boolean phis whose value is known on this path
	nilness          map[ssa.Value]int   // results of inlined helpers: 1 nil, 2 certainly not nil
}

func (p *affPath) clone() *affPath {
	q := &affPath{val: map[ssa.Value]aff{}, cells: map[string]aff{}}
	for k, v := range p.val {
		q.val[k] = v
	}
	for k, v := range p.cells {
		q.cells[k] = v
	}
	q.stores = append([]affStore(nil), p.stores...)
	q.guards = append([]affGuard(nil), p.guards...)
	q.facts = append([]Fact(nil), p.facts...)
	q.parts = append([]aff(nil), p.parts...)
	q.blocks = append([]*ssa.BasicBlock(nil), p.blocks...)
	if p.notes != nil {
		q.notes = map[string][]aff{}
		for k, v := range p.notes {
			q.notes[k] = append([]aff(nil), v...)
		}
	}
	if p.strs != nil {
		q.strs = map[string][]string{}
		for k, v := range p.strs {
			q.strs[k] = append([]string(nil), v...)
		}
	}
	if p.bools != nil {
		q.bools = map[ssa.Value]bool{}
		for k, v := range p.bools {
			q.bools[k] = v
		}
	}
	if p.nilness != nil {
		q.nilness = map[ssa.Value]int{}
		for k, v := range p.nilness {
			q.nilness[k] = v
		}
	}
	return q
}

func (p *affPath) cell(name string) aff {
	if a, ok := p.cells[name]; ok {
		return a
	}
	return affSym("old:" + name)
}

func (p *affPath) trail() string {
	var sb strings.Builder
	for i, b := range p.blocks {
		if i > 0 {
			sb.WriteString("→")
		}
		fmt.Fprintf(&sb, "%d", b.Index)
	}
	return sb.String()
}

type affEval struct {
	c       *Ctx
	fn      *ssa.Function
	isCell  func(m ssa.Value) (string, bool) // is this map value a balance map; its canonical name
	inRange func(b *ssa.BasicBlock) bool     // region mode: blocks that belong to the region (nil: whole function)
	amountF *types.Var                       // machine.FundingPart.Amount
	zero    *ssa.Global
	limit   int
	n       int
	visit   func(p *affPath)
	over    bool
	heads   map[*ssa.BasicBlock]bool                 // segment mode: paths stop when they enter a loop head
	hook    func(p *affPath, ins ssa.Instruction) // rule-specific bookkeeping, after the standard step
	// inline: helpers evaluated as part of the caller's path (nil: calls are opaque). Parameters are bound to the
	// arguments (value and name), every return path continues the caller's block after the call.
	inline func(call *ssa.Call) *ssa.Function
	frames []affFrame
}

type affFrame struct {
	cont func(p *affPath, ret *ssa.Return)
}

func (e *affEval) moneyOp(call *ssa.Call) string {
	fn := staticCallee(call)
	if fn == nil || fn.Pkg == nil || fn.Pkg.Pkg.Path() != pkgMachine {
		return ""
	}
	if recvTypeName(fn) != "MonetaryInt" {
		if fn.Name() == "NewMonetaryInt" {
			return "New"
		}
		return ""
	}
	return fn.Name()
}

func (e *affEval) of(p *affPath, v ssa.Value) aff {
	if a, ok := p.val[v]; ok {
		return a
	}
	switch x := v.(type) {
	case *ssa.Const:
		if n, ok := constInt(x); ok && x.Value != nil {
			if n == 0 {
				return affZero()
			}
			return aff{"1": n}
		}
	case *ssa.ChangeType:
		return e.of(p, x.X)
	case *ssa.Convert:
		return e.of(p, x.X)
	case *ssa.UnOp:
		if x.Op == token.MUL {
			if g, ok := x.X.(*ssa.Global); ok && e.zero != nil && g == e.zero {
				return affZero()
			}
		}
	}
	return affSym(descr(v, 0))
}

func (e *affEval) step(p *affPath, ins ssa.Instruction) {
	defer func() {
		if e.hook != nil {
			e.hook(p, ins)
		}
	}()
	switch x := ins.(type) {
	case *ssa.BinOp:
		// integer index arithmetic: i + c, i - c
		if b, ok := x.Type().Underlying().(*types.Basic); ok && b.Info()&types.IsInteger != 0 && (x.Op == token.ADD || x.Op == token.SUB) {
			if n, isC := constInt(x.Y); isC {
				k := int64(1)
				if x.Op == token.SUB {
					k = -1
				}
				p.val[x] = e.of(p, x.X).plus(aff{"1": n}, k)
			}
		}
	case *ssa.Call:
		switch e.moneyOp(x) {
		case "Add":
			p.val[x] = e.of(p, x.Call.Args[0]).plus(e.of(p, x.Call.Args[1]), 1)
		case "Sub":
			p.val[x] = e.of(p, x.Call.Args[0]).plus(e.of(p, x.Call.Args[1]), -1)
		case "Neg":
			p.val[x] = affZero().plus(e.of(p, x.Call.Args[0]), -1)
		case "New":
			if n, ok := constInt(x.Call.Args[0]); ok {
				if n == 0 {
					p.val[x] = affZero()
				} else {
					p.val[x] = aff{"1": n}
				}
			}
		}
	case *ssa.Lookup:
		if name, ok := e.isCell(x.X); ok {
			cell := name + "[" + descr(x.Index, 0) + "]"
			if !x.CommaOk {
				p.val[x] = p.cell(cell)
			} else {
				p.val[x] = p.cell(cell) // value of the tuple's first component, picked up by Extract
			}
		}
	case *ssa.Extract:
		if lk, ok := x.Tuple.(*ssa.Lookup); ok && x.Index == 0 {
			if a, ok := p.val[lk]; ok {
				p.val[x] = a
			}
		}
	case *ssa.MapUpdate:
		if name, ok := e.isCell(x.Map); ok {
			cell := name + "[" + descr(x.Key, 0) + "]"
			a := e.of(p, x.Value)
			p.cells[cell] = a
			p.stores = append(p.stores, affStore{cell, a, x})
		}
	case *ssa.Store:
		if fa, ok := x.Addr.(*ssa.FieldAddr); ok && e.amountF != nil && sameField(fieldOfAddr(fa), e.amountF) {
			p.parts = append(p.parts, e.of(p, x.Val))
		}
	}
}

// guardOf: the affine reading of a branch on a money comparison.
func (e *affEval) guardOf(p *affPath, cond ssa.Value, holds bool) (affGuard, bool) {
	if u, ok := cond.(*ssa.UnOp); ok && u.Op == token.NOT {
		return e.guardOf(p, u.X, !holds)
	}
	call, ok := cond.(*ssa.Call)
	if !ok {
		return affGuard{}, false
	}
	op := e.moneyOp(call)
	var d aff
	switch op {
	case "Gt", "Gte", "Lt", "Lte", "Eq", "Equal":
		d = e.of(p, call.Call.Args[0]).plus(e.of(p, call.Call.Args[1]), -1)
	case "Ltz":
		d = e.of(p, call.Call.Args[0])
	default:
		return affGuard{}, false
	}
	var rel string
	switch op {
	case "Gt":
		rel = map[bool]string{true: ">0", false: "<=0"}[holds]
	case "Gte":
		rel = map[bool]string{true: ">=0", false: "<0"}[holds]
	case "Lt", "Ltz":
		rel = map[bool]string{true: "<0", false: ">=0"}[holds]
	case "Lte":
		rel = map[bool]string{true: "<=0", false: ">0"}[holds]
	default:
		rel = map[bool]string{true: "==0", false: "!=0"}[holds]
	}
	return affGuard{d, rel, call.Pos()}, true
}

func (e *affEval) walk(p *affPath, b *ssa.BasicBlock, pred *ssa.BasicBlock, visits map[*ssa.BasicBlock]int) {
	if e.over {
		return
	}
	if visits[b] >= 2 {
		return // every loop body at most once
	}
	visits[b]++
	defer func() { visits[b]-- }()
	p.blocks = append(p.blocks, b)
	// phis first, simultaneously
	if pred != nil {
		idx := -1
		for i, pb := range b.Preds {
			if pb == pred {
				idx = i
			}
		}
		newv := map[ssa.Value]aff{}
		for _, ins := range b.Instrs {
			phi, ok := ins.(*ssa.Phi)
			if !ok {
				break
			}
			if idx >= 0 {
				newv[phi] = e.of(p, phi.Edges[idx])
			}
		}
		for k, v := range newv {
			p.val[k] = v
		}
		// boolean phis: the value that flowed in, when it is a constant (value form of `a && b`)
		for _, ins := range b.Instrs {
			phi, ok := ins.(*ssa.Phi)
			if !ok {
				break
			}
			if idx < 0 || idx >= len(phi.Edges) {
				continue
			}
			if bt, ok := phi.Type().Underlying().(*types.Basic); !ok || bt.Kind() != types.Bool {
				continue
			}
			if p.bools == nil {
				p.bools = map[ssa.Value]bool{}
			}
			if bv, isC := constBool(phi.Edges[idx]); isC {
				p.bools[phi] = bv
			} else if bv, known := p.bools[phi.Edges[idx]]; known {
				p.bools[phi] = bv
			} else {
				delete(p.bools, phi)
			}
		}
	}
	e.walkFrom(p, b, 0, visits)
}

// walkFrom continues the path in block b at instruction index start.
func (e *affEval) walkFrom(p *affPath, b *ssa.BasicBlock, start int, visits map[*ssa.BasicBlock]int) {
	inCallee := b.Parent() != e.fn
	for i := start; i < len(b.Instrs); i++ {
		ins := b.Instrs[i]
		if _, ok := ins.(*ssa.Phi); ok {
			continue
		}
		if call, ok := ins.(*ssa.Call); ok && e.inline != nil && len(e.frames) < 4 {
			if callee := e.inline(call); callee != nil && len(callee.Blocks) > 0 && callee != b.Parent() {
				e.inlineCall(p, call, callee, func(q *affPath) {
					e.walkFrom(q, b, i+1, visits)
				})
				return
			}
		}
		e.step(p, ins)
		if r, ok := ins.(*ssa.Return); ok {
			if inCallee && len(e.frames) > 0 {
				fr := e.frames[len(e.frames)-1]
				e.frames = e.frames[:len(e.frames)-1]
				fr.cont(p, r)
				e.frames = append(e.frames, fr)
				return
			}
			p.ret = r
			e.emit(p)
			return
		}
		if _, ok := ins.(*ssa.Panic); ok {
			return
		}
	}
	for si, succ := range b.Succs {
		if iff, ok := b.Instrs[len(b.Instrs)-1].(*ssa.If); ok {
			if bv, known := p.bools[iff.Cond]; known && bv != (si == 0) {
				continue // the condition is a boolean whose value is known on this path
			}
			// `x == nil` / `x != nil` on a result of an inlined helper whose nil-ness is known on this path
			if bo, ok := iff.Cond.(*ssa.BinOp); ok && (bo.Op == token.EQL || bo.Op == token.NEQ) && p.nilness != nil {
				var x ssa.Value
				if isNilConst(bo.Y) {
					x = bo.X
				} else if isNilConst(bo.X) {
					x = bo.Y
				}
				if n, known := p.nilness[x]; known && x != nil {
					isNil := n == 1
					condTrue := isNil == (bo.Op == token.EQL)
					if condTrue != (si == 0) {
						continue
					}
				}
			}
		}
		q := p
		if len(b.Succs) > 1 {
			q = p.clone()
		}
		if iff, ok := b.Instrs[len(b.Instrs)-1].(*ssa.If); ok {
			if g, ok := e.guardOf(q, iff.Cond, si == 0); ok {
				q.guards = append(q.guards, g)
			}
			q.facts = append(q.facts, edgeFacts(b, si)...)
		}
		if !inCallee && e.inRange != nil && !e.inRange(succ) {
			q.left = true
			e.emit(q)
			continue
		}
		if !inCallee && e.heads != nil && e.heads[succ] {
			q.endHead, q.endPred = succ, b
			e.emit(q)
			continue
		}
		e.walk(q, succ, b, visits)
	}
}

// inlineCall evaluates callee as part of the path: parameters take the value and the name of the arguments; each
// of its return paths binds the results (value, nil-ness) and resumes the caller through cont.
func (e *affEval) inlineCall(p *affPath, call *ssa.Call, callee *ssa.Function, cont func(q *affPath)) {
	args := call.Call.Args
	saved := map[ssa.Value]*string{}
	for i, prm := range callee.Params {
		if i >= len(args) {
			break
		}
		p.val[prm] = e.of(p, args[i])
		name := descr(args[i], 0)
		if old, ok := descrAlias[prm]; ok {
			o := old
			saved[prm] = &o
		} else {
			saved[prm] = nil
		}
		descrAlias[prm] = name
	}
	restore := func() {
		for k, v := range saved {
			if v == nil {
				delete(descrAlias, k)
			} else {
				descrAlias[k] = *v
			}
		}
	}
	e.frames = append(e.frames, affFrame{cont: func(q *affPath, ret *ssa.Return) {
		// results: the call value itself (single result) or its extracts
		bind := func(dst ssa.Value, res ssa.Value) {
			q.val[dst] = e.of(q, res)
			if q.nilness == nil {
				q.nilness = map[ssa.Value]int{}
			}
			if n := errNilness(res); n != 0 {
				q.nilness[dst] = n
			} else if _, isAlloc := res.(*ssa.Alloc); isAlloc {
				q.nilness[dst] = 2
			} else {
				delete(q.nilness, dst)
			}
		}
		if len(ret.Results) == 1 {
			bind(call, ret.Results[0])
		} else if call.Referrers() != nil {
			for _, r := range *call.Referrers() {
				if ex, ok := r.(*ssa.Extract); ok && ex.Index < len(ret.Results) {
					bind(ex, ret.Results[ex.Index])
				}
			}
		}
		// the caller resumes under its own names
		restore()
		cont(q)
		for i, prm := range callee.Params {
			if i < len(args) {
				descrAlias[prm] = descr(args[i], 0)
			}
		}
	}})
	e.walk(p, callee.Blocks[0], nil, map[*ssa.BasicBlock]int{})
	e.frames = e.frames[:len(e.frames)-1]
	restore()
}

func (e *affEval) emit(p *affPath) {
	e.n++
	if e.n > e.limit {
		e.over = true
		return
	}
	e.visit(p)
}

// run enumerates the paths from `from` (the entry block when nil). Returns false when the path budget
// was exhausted (the caller reports undecided).
func (e *affEval) run(from *ssa.BasicBlock) bool {
	if e.limit == 0 {
		e.limit = 4000
	}
	if from == nil {
		from = e.fn.Blocks[0]
	}
	p := &affPath{val: map[ssa.Value]aff{}, cells: map[string]aff{}, notes: map[string][]aff{}, strs: map[string][]string{}}
	// segment mode, starting at a loop head: its phis are arbitrary (named after themselves)
	if e.heads != nil && e.heads[from] {
		for _, ins := range from.Instrs {
			phi, ok := ins.(*ssa.Phi)
			if !ok {
				break
			}
			p.val[phi] = affSym(descr(phi, 0))
		}
	}
	e.walk(p, from, nil, map[*ssa.BasicBlock]int{})
	return !e.over
}

// phiIn: the value a phi of the head receives at the end of a segment.
func (e *affEval) phiIn(p *affPath, phi *ssa.Phi) (aff, bool) {
	for i, pb := range phi.Block().Preds {
		if pb == p.endPred {
			return e.of(p, phi.Edges[i]), true
		}
	}
	return nil, false
}

// loopHeads: blocks that are the target of a back edge.
func loopHeads(fn *ssa.Function) map[*ssa.BasicBlock]bool {
	h := map[*ssa.BasicBlock]bool{}
	for _, b := range fn.Blocks {
		for _, s := range b.Succs {
			if s.Dominates(b) {
				h[s] = true
			}
		}
	}
	return h
}

// impliesPositive: does one of the guards of the path say that the form is > 0 ?
func impliesPositive(gs []affGuard, a aff) bool {
	for _, g := range gs {
		if g.op == ">0" && g.e.equal(a) {
			return true
		}
		if g.op == "<0" && g.e.equal(affZero().plus(a, -1)) {
			return true
		}
	}
	return false
}

// impliesNonNegative: does one of the guards say the form is >= 0 (or > 0)?
func impliesNonNegative(gs []affGuard, a aff) bool {
	if a.isZero() || impliesPositive(gs, a) {
		return true
	}
	for _, g := range gs {
		if g.op == ">=0" && g.e.equal(a) {
			return true
		}
		if g.op == "<=0" && g.e.equal(affZero().plus(a, -1)) {
			return true
		}
	}
	return false
}
