package main

func init() {
	addMutants(
		Mutant{Property: "C13", Name: "string-table-driven", File: "internal/log.go",
			Old: "func (l LogType) String() string {\n\tswitch l {\n\tcase SetMetadataLogType:\n\t\treturn \"SET_METADATA\"\n\tcase NewTransactionLogType:\n\t\treturn \"NEW_TRANSACTION\"\n\tcase RevertedTransactionLogType:\n\t\treturn \"REVERTED_TRANSACTION\"\n\tcase DeleteMetadataLogType:\n\t\treturn \"DELETE_METADATA\"\n\t}\n\n\treturn \"\"\n}", New: "var logTypeNames = [...]string{\n\tSetMetadataLogType: \"SET_METADATA\",\n\tNewTransactionLogType: \"NEW_TRANSACTION\",\n\tRevertedTransactionLogType: \"REVERTED_TRANSACTION\",\n\tDeleteMetadataLogType: \"DELETE_METADATA\",\n}\n\nfunc (l LogType) String() string {\n\tif l < 0 || int(l) >= len(logTypeNames) {\n\t\treturn \"\"\n\t}\n\treturn logTypeNames[l]\n}", Expect: "none", Benign: true},
		Mutant{Property: "C13", Name: "string-table-driven-label-typo", File: "internal/log.go",
			Old: "func (l LogType) String() string {\n\tswitch l {\n\tcase SetMetadataLogType:\n\t\treturn \"SET_METADATA\"\n\tcase NewTransactionLogType:\n\t\treturn \"NEW_TRANSACTION\"\n\tcase RevertedTransactionLogType:\n\t\treturn \"REVERTED_TRANSACTION\"\n\tcase DeleteMetadataLogType:\n\t\treturn \"DELETE_METADATA\"\n\t}\n\n\treturn \"\"\n}", New: "var logTypeNames = [...]string{\n\tSetMetadataLogType: \"SET_METADATA\",\n\tNewTransactionLogType: \"NEW_TRANSACTION\",\n\tRevertedTransactionLogType: \"REVERT_TRANSACTION\",\n\tDeleteMetadataLogType: \"DELETE_METADATA\",\n}\n\nfunc (l LogType) String() string {\n\tif l < 0 || int(l) >= len(logTypeNames) {\n\t\treturn \"\"\n\t}\n\treturn logTypeNames[l]\n}", Expect: "R13a:"},
		Mutant{Property: "C13", Name: "delete-envelope-key-renamed", File: "internal/log.go",
			Old: "\t\tTargetID   json.RawMessage `json:\"targetId\"`\n\t\tKey        string          `json:\"key\"`", New: "\t\tTargetID   json.RawMessage `json:\"targetId\"`\n\t\tKey        string          `json:\"metadataKey\"`", Expect: "R13h:ledger.DeleteMetadataLogPayload"},
		Mutant{Property: "C13", Name: "set-envelope-key-case-only", File: "internal/log.go",
			Old: "\t\tTargetID   json.RawMessage   `json:\"targetId\"`\n\t\tMetadata   metadata.Metadata `json:\"metadata\"`\n\t}\n\tx := X{}", New: "\t\tTargetID   json.RawMessage   `json:\"targetID\"`\n\t\tMetadata   metadata.Metadata `json:\"metadata\"`\n\t}\n\tx := X{}", Expect: "none", Benign: true},
		Mutant{Property: "C13", Name: "chained-envelope-explicit-without-date", File: "internal/log.go",
			Old: "\ttype auxLog ChainedLog\n\ttype log struct {\n\t\tauxLog\n\t\tData json.RawMessage `json:\"data\"`\n\t}", New: "\ttype auxLog struct {\n\t\tLog  `json:\"-\"`\n\t\tType LogType  `json:\"type\"`\n\t\tIdempotencyKey string `json:\"idempotencyKey\"`\n\t\tID   *big.Int `json:\"id\"`\n\t\tHash []byte   `json:\"hash\"`\n\t}\n\ttype log struct {\n\t\tauxLog\n\t\tData json.RawMessage `json:\"data\"`\n\t}",
			Edits: []Edit{{File: "internal/log.go", Old: "\trawLog.auxLog.Data, err = HydrateLog(rawLog.Type, rawLog.Data)\n\tif err != nil {\n\t\treturn err\n\t}\n\t*l = ChainedLog(rawLog.auxLog)", New: "\tpayload, err := HydrateLog(rawLog.Type, rawLog.Data)\n\tif err != nil {\n\t\treturn err\n\t}\n\t*l = ChainedLog{Log: Log{Type: rawLog.Type, Data: payload, IdempotencyKey: rawLog.IdempotencyKey}, ID: rawLog.ID, Hash: rawLog.Hash}"}},
			Expect: "R13h:ledger.ChainedLog"},
		Mutant{Property: "C13", Name: "hydrate-drops-delete-case", File: "internal/log.go",
			Old: "\tcase DeleteMetadataLogType:\n\t\tpayload = &DeleteMetadataLogPayload{}\n", New: "", Expect: "R13a:HydrateLog:DeleteMetadataLogType"},
		Mutant{Property: "C13", Name: "string-label-typo", File: "internal/log.go",
			Old: "\t\treturn \"DELETE_METADATA\"", New: "\t\treturn \"DELETED_METADATA\"", Expect: "R13a:FromString:DeleteMetadataLogType"},
		Mutant{Property: "C13", Name: "fromstring-swapped", File: "internal/log.go",
			Old: "\tcase \"REVERTED_TRANSACTION\":\n\t\treturn RevertedTransactionLogType", New: "\tcase \"REVERTED_TRANSACTION\":\n\t\treturn NewTransactionLogType", Expect: "R13a:FromString:RevertedTransactionLogType"},
		Mutant{Property: "C13", Name: "parsetime-not-rounded", File: "internal/time.go",
			Old: "\t\tTime: t.Round(DatePrecision),", New: "\t\tTime: t,", Expect: "R13d:"},
		Mutant{Property: "C13", Name: "now-rounded-to-ms", File: "internal/time.go",
			Old: "time.Now().UTC().Round(DatePrecision)", New: "time.Now().UTC().Round(time.Millisecond).Add(time.Nanosecond)", Expect: "R13d:"},
		Mutant{Property: "C13", Name: "chain-not-linked", File: "internal/log.go",
			Old: "\tret.ComputeHash(previous)", New: "\tret.ComputeHash(nil)", Expect: "R13c:ChainLog:hash-links-previous"},
		Mutant{Property: "C13", Name: "hash-skips-previous", File: "internal/log.go",
			Old: "enc.Encode(previous.Hash)", New: "enc.Encode(previous.ID)", Expect: "R13c:ComputeHash:feeds-previous-hash"},
		Mutant{Property: "C13", Name: "idempotency-key-not-hashed", File: "internal/log.go",
			Old: "`json:\"idempotencyKey\"`", New: "`json:\"-\"`", Expect: "R13c:hash-covers:IdempotencyKey"},
		Mutant{Property: "C13", Name: "delete-payload-loses-decoder", File: "internal/log.go",
			Old: "func (s *DeleteMetadataLogPayload) UnmarshalJSON(", New: "func (s *DeleteMetadataLogPayload) unmarshalJSONDisabled(", Expect: "R13b:decoder:DeleteMetadataLogPayload.TargetID"},
		Mutant{Property: "C13", Name: "sql-enum-misses-delete", File: migrationSQL,
			Old: "        'SET_METADATA',\n        'DELETE_METADATA'\n", New: "        'SET_METADATA'\n", Expect: "R13a:sqlenum:DeleteMetadataLogType"},
		Mutant{Property: "C13", Name: "sql-trigger-misses-revert", File: migrationSQL,
			Old: "if new.type = 'REVERTED_TRANSACTION' then", New: "if new.type = 'REVERT_TRANSACTION' then", Expect: "R13a:handle_log:RevertedTransactionLogType"},
		Mutant{Property: "C13", Name: "constructor-wrong-payload", File: "internal/log.go",
			Old: "\t\tType: DeleteMetadataLogType,\n\t\tDate: at,\n\t\tData: payload,", New: "\t\tType: SetMetadataLogType,\n\t\tDate: at,\n\t\tData: payload,", Expect: "R13b:writer:"},
	)
}

func init() {
	const mon = "internal/machine/monetary.go"
	parseOld := "\ti, ok := (&big.Int{}).SetString(s, 10)\n\tif !ok {\n\t\treturn nil, errors.New(\"invalid monetary int\")\n\t}\n\n\treturn (*MonetaryInt)(i), nil"
	viaFloat := "\tf, _, err := big.ParseFloat(s, 10, 0, big.ToNearestEven)\n\tif err != nil || !f.IsInt() {\n\t\treturn nil, errors.New(\"invalid monetary int\")\n\t}\n\ti, _ := f.Int(nil)\n\n\treturn (*MonetaryInt)(i), nil"
	viaFloat64 := "\tvar f float64\n\tif _, err := fmt.Sscanf(s, \"%g\", &f); err != nil {\n\t\treturn nil, errors.New(\"invalid monetary int\")\n\t}\n\n\treturn (*MonetaryInt)(big.NewInt(int64(f))), nil"
	for _, p := range []struct{ prop, rule string }{{"C13", "R13g:"}, {"C09", "R09g:"}} {
		addMutants(
			Mutant{Property: p.prop, Name: "amount-parsed-through-big-float", File: mon, Old: parseOld, New: viaFloat, Expect: p.rule},
			Mutant{Property: p.prop, Name: "amount-parsed-through-float64", File: mon, Old: parseOld, New: viaFloat64, Expect: p.rule},
		)
	}
}
