package main

// sqlscan.go — a lexical scanner for the one SQL migration that defines the ledger schema
// (internal/storage/ledgerstore/migrations/0-init-schema.sql). It is not an SQL parser: it
// tokenises (comments, strings, $$ bodies), recognises `create type … as enum`, `create table`,
// `create function` headers/bodies, and inside bodies the table references (from/join/update/
// insert into/delete from) with their parenthesis scope. Rules built on it are limited to
// set-membership and "predicate present in the scope of the table reference" facts.

import (
	"strings"
	"unicode"
)

type sqlTok struct {
	Text  string // lower-cased for words; strings keep quotes stripped in Str
	Kind  byte   // 'w' word, 's' string, 'n' number, 'p' punctuation, 'b' dollar body
	Line  int
	Depth int // parenthesis depth at this token (computed per token list)
}

type sqlFunc struct {
	Name   string
	Params []string
	Body   []sqlTok
	Line   int
	Lang   string
}

type sqlTable struct {
	Name    string
	Columns []string
	Line    int
}

type sqlSchema struct {
	File   string
	Enums  map[string][]string
	Tables map[string]*sqlTable
	Funcs  []*sqlFunc
}

func sqlTokenize(src string, baseLine int) []sqlTok {
	var toks []sqlTok
	line := baseLine
	i := 0
	depth := 0
	for i < len(src) {
		ch := src[i]
		switch {
		case ch == '\n':
			line++
			i++
		case ch == ' ' || ch == '\t' || ch == '\r':
			i++
		case ch == '-' && i+1 < len(src) && src[i+1] == '-':
			for i < len(src) && src[i] != '\n' {
				i++
			}
		case ch == '/' && i+1 < len(src) && src[i+1] == '*':
			j := strings.Index(src[i+2:], "*/")
			end := len(src)
			if j >= 0 {
				end = i + 2 + j + 2
			}
			line += strings.Count(src[i:end], "\n")
			i = end
		case ch == '$' && i+1 < len(src) && src[i+1] == '$':
			j := strings.Index(src[i+2:], "$$")
			end := len(src)
			body := src[i+2:]
			if j >= 0 {
				end = i + 2 + j + 2
				body = src[i+2 : i+2+j]
			}
			toks = append(toks, sqlTok{Text: body, Kind: 'b', Line: line, Depth: depth})
			line += strings.Count(src[i:end], "\n")
			i = end
		case ch == '\'':
			j := i + 1
			for j < len(src) {
				if src[j] == '\'' {
					if j+1 < len(src) && src[j+1] == '\'' {
						j += 2
						continue
					}
					break
				}
				j++
			}
			toks = append(toks, sqlTok{Text: src[i+1 : min(j, len(src))], Kind: 's', Line: line, Depth: depth})
			line += strings.Count(src[i:min(j+1, len(src))], "\n")
			i = j + 1
		case ch == '"':
			j := strings.IndexByte(src[i+1:], '"')
			if j < 0 {
				j = len(src) - i - 1
			}
			toks = append(toks, sqlTok{Text: strings.ToLower(src[i+1 : i+1+j]), Kind: 'w', Line: line, Depth: depth})
			i = i + 1 + j + 1
		case unicode.IsLetter(rune(ch)) || ch == '_':
			j := i
			for j < len(src) && (unicode.IsLetter(rune(src[j])) || unicode.IsDigit(rune(src[j])) || src[j] == '_') {
				j++
			}
			toks = append(toks, sqlTok{Text: strings.ToLower(src[i:j]), Kind: 'w', Line: line, Depth: depth})
			i = j
		case unicode.IsDigit(rune(ch)):
			j := i
			for j < len(src) && (unicode.IsDigit(rune(src[j])) || src[j] == '.') {
				j++
			}
			toks = append(toks, sqlTok{Text: src[i:j], Kind: 'n', Line: line, Depth: depth})
			i = j
		default:
			if ch == '(' {
				toks = append(toks, sqlTok{Text: "(", Kind: 'p', Line: line, Depth: depth})
				depth++
			} else if ch == ')' {
				if depth > 0 {
					depth--
				}
				toks = append(toks, sqlTok{Text: ")", Kind: 'p', Line: line, Depth: depth})
			} else {
				toks = append(toks, sqlTok{Text: string(ch), Kind: 'p', Line: line, Depth: depth})
			}
			i++
		}
	}
	return toks
}

func loadSQLSchema(c *Ctx, rel string) (*sqlSchema, error) {
	b, err := c.ReadFile(rel)
	if err != nil {
		return nil, err
	}
	s := &sqlSchema{File: rel, Enums: map[string][]string{}, Tables: map[string]*sqlTable{}}
	toks := sqlTokenize(string(b), 1)
	for i := 0; i < len(toks); i++ {
		if toks[i].Kind != 'w' || toks[i].Text != "create" {
			continue
		}
		j := i + 1
		if j+1 < len(toks) && toks[j].Text == "or" && toks[j+1].Text == "replace" {
			j += 2
		}
		if j >= len(toks) {
			break
		}
		switch toks[j].Text {
		case "type":
			// create type NAME as enum ( 'a', 'b' )
			if j+3 < len(toks) && toks[j+2].Text == "as" && toks[j+3].Text == "enum" {
				name := toks[j+1].Text
				k := j + 4
				for k < len(toks) && toks[k].Text != ")" {
					if toks[k].Kind == 's' {
						s.Enums[name] = append(s.Enums[name], toks[k].Text)
					}
					k++
				}
			}
		case "table":
			name := toks[j+1].Text
			t := &sqlTable{Name: name, Line: toks[j].Line}
			k := j + 2
			if k < len(toks) && toks[k].Text == "(" {
				d := toks[k].Depth
				k++
				expectCol := true
				for k < len(toks) && !(toks[k].Text == ")" && toks[k].Depth == d) {
					if toks[k].Depth == d+1 {
						if expectCol && toks[k].Kind == 'w' {
							if toks[k].Text != "primary" && toks[k].Text != "unique" && toks[k].Text != "constraint" && toks[k].Text != "foreign" {
								t.Columns = append(t.Columns, toks[k].Text)
							}
							expectCol = false
						}
						if toks[k].Text == "," {
							expectCol = true
						}
					}
					k++
				}
			}
			s.Tables[name] = t
		case "function":
			f := &sqlFunc{Name: toks[j+1].Text, Line: toks[j].Line}
			k := j + 2
			if k < len(toks) && toks[k].Text == "(" {
				d := toks[k].Depth
				k++
				expect := true
				for k < len(toks) && !(toks[k].Text == ")" && toks[k].Depth == d) {
					if toks[k].Depth == d+1 {
						if expect && toks[k].Kind == 'w' {
							f.Params = append(f.Params, toks[k].Text)
							expect = false
						}
						if toks[k].Text == "," {
							expect = true
						}
					}
					k++
				}
			}
			for k < len(toks) && toks[k].Kind != 'b' {
				if toks[k].Text == "language" && k+1 < len(toks) {
					f.Lang = toks[k+1].Text
				}
				if toks[k].Text == "create" {
					break
				}
				k++
			}
			if k < len(toks) && toks[k].Kind == 'b' {
				f.Body = sqlTokenize(toks[k].Text, toks[k].Line)
				// language may follow the body
				for m := k + 1; m < len(toks) && toks[m].Text != ";" && toks[m].Text != "create"; m++ {
					if toks[m].Text == "language" && m+1 < len(toks) {
						f.Lang = toks[m+1].Text
					}
				}
			}
			s.Funcs = append(s.Funcs, f)
		}
	}
	return s, nil
}

func (s *sqlSchema) Func(name string) *sqlFunc {
	for _, f := range s.Funcs {
		if f.Name == name {
			return f
		}
	}
	return nil
}

// sqlTableRef is one occurrence of a table name in a statement position (from/join/update/insert/delete).
type sqlTableRef struct {
	Table string
	Verb  string // from | join | update | insert | delete
	Idx   int    // token index of the table name
	Alias string
	Line  int
}

// tableRefs finds references to the given tables in a token list, skipping references that resolve
// to a CTE of the same name (`with moves as (…) select … from moves`).
func tableRefs(toks []sqlTok, tables map[string]bool) []sqlTableRef {
	// CTE definitions: name, open paren index, close paren index
	type cte struct {
		name       string
		open, end  int
		stmtStart  int
		stmtEndIdx int
	}
	var ctes []cte
	for i := 0; i+2 < len(toks); i++ {
		if toks[i].Kind == 'w' && toks[i+1].Text == "as" && toks[i+2].Text == "(" && i > 0 && (toks[i-1].Text == "with" || toks[i-1].Text == "," || toks[i-1].Text == "recursive") {
			d := toks[i+2].Depth
			end := i + 3
			for end < len(toks) && !(toks[end].Text == ")" && toks[end].Depth == d) {
				end++
			}
			// statement extent: until ';' at depth <= d or end
			se := end
			for se < len(toks) && !(toks[se].Text == ";" && toks[se].Depth <= d) {
				se++
			}
			ctes = append(ctes, cte{name: toks[i].Text, open: i + 2, end: end, stmtEndIdx: se})
		}
	}
	isCTERef := func(name string, idx int) bool {
		for _, c := range ctes {
			if c.name != name {
				continue
			}
			if idx > c.open && idx < c.end {
				continue // inside its own (non-recursive) definition: the real table
			}
			if idx > c.end && idx <= c.stmtEndIdx {
				return true
			}
		}
		return false
	}
	var out []sqlTableRef
	for i := 0; i < len(toks); i++ {
		if toks[i].Kind != 'w' {
			continue
		}
		verb := ""
		ti := -1
		switch toks[i].Text {
		case "from":
			verb, ti = "from", i+1
			if i > 0 && toks[i-1].Text == "delete" {
				verb = "delete"
			}
		case "join":
			verb, ti = "join", i+1
			if ti < len(toks) && toks[ti].Text == "lateral" {
				ti++
			}
		case "update":
			verb, ti = "update", i+1
		case "into":
			if i > 0 && toks[i-1].Text == "insert" {
				verb, ti = "insert", i+1
			}
		}
		if ti < 0 || ti >= len(toks) || toks[ti].Kind != 'w' || !tables[toks[ti].Text] {
			continue
		}
		if verb == "update" && i > 0 && (toks[i-1].Text == "do" || toks[i-1].Text == "for") {
			continue // "on conflict do update", "for update"
		}
		if isCTERef(toks[ti].Text, ti) {
			continue
		}
		ref := sqlTableRef{Table: toks[ti].Text, Verb: verb, Idx: ti, Line: toks[ti].Line}
		if ti+1 < len(toks) && toks[ti+1].Kind == 'w' && !sqlKeyword[toks[ti+1].Text] {
			ref.Alias = toks[ti+1].Text
		}
		out = append(out, ref)
	}
	return out
}

var sqlKeyword = map[string]bool{"where": true, "set": true, "on": true, "order": true, "group": true, "limit": true,
	"join": true, "left": true, "inner": true, "union": true, "values": true, "into": true, "returning": true, "as": true,
	"for": true, "loop": true, "using": true, "cross": true, "right": true, "full": true, "having": true, "window": true}

// scopeOf returns the token range [lo,hi) of the select/update/insert scope that contains token idx:
// the tokens at the same parenthesis depth between the enclosing '(' (or the previous ';') and the
// matching ')' (or the next ';'). Set operators (union) end a scope.
func scopeOf(toks []sqlTok, idx int) (lo, hi int) {
	d := toks[idx].Depth
	lo = idx
	for lo > 0 {
		t := toks[lo-1]
		if t.Depth < d || (t.Depth == d && (t.Text == ";" || t.Text == "union" || t.Text == "then" || t.Text == "else" || t.Text == "begin" || t.Text == "loop")) {
			break
		}
		lo--
	}
	hi = idx
	for hi < len(toks) {
		t := toks[hi]
		if t.Depth < d || (t.Depth == d && (t.Text == ";" || t.Text == "union")) {
			break
		}
		hi++
	}
	return
}

// hasLedgerPredicate: within toks[lo:hi] at exactly depth d, is there `[qual.]ledger = <rhs>` (either
// order) with rhs one of the accepted ledger sources? When quals is not nil, a qualified column counts
// only if its qualifier is one of quals (the table being scoped or its alias): `accounts.ledger = ?`
// inside `select … from moves` constrains the outer row, not the moves being read.
func hasLedgerPredicate(toks []sqlTok, lo, hi, d int, rhs func(toks []sqlTok, i int) (int, bool), quals map[string]bool) bool {
	var flat []sqlTok
	for i := lo; i < hi; i++ {
		if toks[i].Depth == d {
			flat = append(flat, toks[i])
		}
	}
	isLedgerCol := func(i int) (int, bool) { // returns next index
		if i < len(flat) && flat[i].Text == "ledger" && (i == 0 || flat[i-1].Text != ".") {
			return i + 1, true
		}
		if i+2 < len(flat) && flat[i].Kind == 'w' && flat[i+1].Text == "." && flat[i+2].Text == "ledger" && flat[i].Text != "new" {
			if quals != nil && !quals[flat[i].Text] {
				return i, false
			}
			return i + 3, true
		}
		return i, false
	}
	for i := 0; i < len(flat); i++ {
		if n, ok := isLedgerCol(i); ok && n < len(flat) && flat[n].Text == "=" {
			if _, ok := rhs(flat, n+1); ok {
				return true
			}
		}
		if n, ok := rhs(flat, i); ok && n < len(flat) && flat[n].Text == "=" {
			if _, ok := isLedgerCol(n + 1); ok {
				return true
			}
		}
	}
	return false
}

// hasSeqKey: within toks[lo:hi] at depth d, is the table (quals) keyed by a sequence of another row:
// `[qual.]<x>seq = other.<y>seq` (either order)? Sequences are unique across ledgers.
func hasSeqKey(toks []sqlTok, lo, hi, d int, quals map[string]bool) bool {
	var flat []sqlTok
	for i := lo; i < hi; i++ {
		if toks[i].Depth == d {
			flat = append(flat, toks[i])
		}
	}
	isSeq := func(s string) bool { return s == "seq" || s == "accounts_seq" || s == "transactions_seq" }
	// col(i): a possibly qualified seq column starting at i: returns (qualifier, next, ok)
	col := func(i int) (string, int, bool) {
		if i+2 < len(flat) && flat[i].Kind == 'w' && flat[i+1].Text == "." && isSeq(flat[i+2].Text) {
			return flat[i].Text, i + 3, true
		}
		if i < len(flat) && isSeq(flat[i].Text) && (i == 0 || flat[i-1].Text != ".") {
			return "", i + 1, true
		}
		return "", i, false
	}
	for i := 0; i < len(flat); i++ {
		q1, n, ok := col(i)
		if !ok || n >= len(flat) || flat[n].Text != "=" {
			continue
		}
		q2, _, ok2 := col(n + 1)
		if !ok2 {
			continue
		}
		own1 := q1 == "" || quals[q1]
		own2 := q2 == "" || quals[q2]
		if own1 != own2 || (q1 != q2 && (own1 || own2)) {
			return true
		}
	}
	return false
}
