package main

import (
	"fmt"
	"go/token"
	"go/types"

	"golang.org/x/tools/go/ssa"
)

func init() {
	register("C05", propMeta{
		Level: "other",
		Explanation: "Decides, for every path from every entry point of package command (hence every interleaving of writers), the region structure that makes the persisted log a gap-free chain: R05a every store to Commander.lastLog and every Batcher.Append happen with Commander.mu held, in the same uninterrupted held region, and the appended value is the stored chain head; R05b/c every store to Commander.lastTXID lies in such a region too (an id is published only together with the log that carries it; no exit from the region between allocation and hand-off), is lastTXID+1, and that value is the one given to the log builder; " +
			"R05g reads of lastLog/lastTXID outside Init hold the mutex; R05d the batcher has exactly one worker and its pending FIFO is only touched under its mutex; R05e Init reloads lastLog/lastTXID from the store on every successful path and precedes the start of the worker; R05f hash inputs (previous hash, log content, id = previous id + 1). " +
			"R05l at every append with a constant allocation switch, `true` goes with a log builder that uses the transaction id it is given (or is handed down), `false` with one that ignores it; R05k the function that advances Commander.lastTXID does so only on paths where its boolean allocation switch was tested true (metadata logs consume no transaction id); " +
			"R05h taking a batch splits the FIFO: every replacement of Batcher.pending that is not the tail append is paired with the batch handed over on the same path — {batch = pending, rest = fresh} or {batch = pending[:k], rest = pending[k:]} with one k — and nothing in package batching writes into the pending buffer in place (element store, copy, append to an upper-bounded slice of it, slices/sort mutators), since handed-out batches alias it. R05i the hand-off cannot refuse: every returning path of Batcher.Append has queued its object (the chain head and the id were advanced just before, under the same mutex). R05j one persister: Runner.runner (InsertLogs) is called at exactly one site of package job, the worker loop.",
		NotDecided:  "the hash value itself; that InsertLogs keeps slice order inside one batch (COPY in one transaction, trusted); atomicity of PostgreSQL on crash.",
		Trusted:     []string{"sync.Mutex semantics", "Batcher.Append enqueues in call order (checked: append to pending under Batcher.mu)", "job.Runner hands batches to the single worker in FIFO order"},
		Assumptions: []string{"Commander.Init runs before any writer (checked for engine.Ledger.Start)"},
	}, func(c *Ctx) {
		ruleR05abc(c)
		ruleR05d(c)
		ruleR05h(c)
		ruleAppendAlwaysEnqueues(c, "R05i")
		ruleR05j(c)
		ruleTXIDAdvanceGuarded(c, "R05k")
		ruleAllocationSwitchMatchesBuilder(c, "R05l")
		ruleHeadAdvancesWithEveryLog(c, "R05m")
		ruleTakenJobIsDispatched(c, "R05n")
		ruleLastElementOfSameSlice(c, "R05o")
		ruleLastMeansLast(c, "R05p")
		ruleR05e(c)
		ruleR05f(c, "R05f")
	})
}

const (
	rgMU = 1 << iota
	rgSLOG
	rgSTX
	rgAPP
)

func ruleR05abc(c *Ctx) {
	const rule = "R05a"
	m := c.cmdModel(rule)
	if !m.ok {
		return
	}
	obl := newOblSet(c, rule)
	defer obl.flush()
	exempt := func(fn *ssa.Function) bool {
		// Init reloads the counters before any writer runs (R05e); New builds the value.
		return fn.Pkg != nil && fn.Parent() == nil && (fn.Name() == "Init" && recvTypeName(fn) == "Commander" || fn.Name() == "New")
	}
	nStoreLog, nStoreTx, nAppend := 0, 0, 0
	regionEnd := func(pc *PathCtx, s uint64, pos token.Pos) uint64 {
		fn := fnName(pc.Fn())
		if s&(rgSLOG|rgSTX) != 0 && s&rgAPP == 0 {
			what := "the chain head (lastLog)"
			key := fn + ":chain-and-handoff-in-one-region"
			if s&rgSLOG == 0 {
				what = "a transaction id (lastTXID)"
				key = fn + ":txid-published-with-its-log"
			}
			pc.Note("mutex released at %s", c.pos(pos))
			obl.violate(key, pos, "Commander.mu is released after "+what+" was updated but before the log was handed to the batcher: another writer can chain/allocate and hand off first, so logs reach the store out of chain order (or an id is consumed by a request that never appends)", pc.Trail())
		}
		if s&rgAPP != 0 && s&rgSLOG == 0 {
			obl.violate(fn+":handoff-of-the-chained-head", pos, "a log is handed to the batcher in a mutex region that did not store it as the new chain head", pc.Trail())
		}
		return s &^ (rgMU | rgSLOG | rgSTX | rgAPP)
	}
	for _, root := range c.entryPoints(pkgCommand) {
		if exempt(root) {
			continue
		}
		pr := &PathRule{
			DeferID: func(d *ssa.Defer) int {
				if mutexOp(d, m.fMu) == "unlock" {
					return 0
				}
				return -1
			},
			RunDeferred: func(pc *PathCtx, s uint64, d *ssa.Defer) uint64 { return regionEnd(pc, s, d.Pos()) },
			Inline: func(ci ssa.CallInstruction) []*ssa.Function {
				var out []*ssa.Function
				for _, f := range c.CalleesOf(ci) {
					if fnPkgPath(f) == pkgCommand && !exempt(f) {
						out = append(out, f)
					}
				}
				return out
			},
			Step: func(pc *PathCtx, s uint64, ins ssa.Instruction) uint64 {
				fn := fnName(pc.Fn())
				if ci, ok := ins.(ssa.CallInstruction); ok {
					switch mutexOp(ci, m.fMu) {
					case "lock":
						return rgMU
					case "unlock":
						return regionEnd(pc, s, ci.Pos())
					}
					if isCallTo(ci, m.batcherAppend) {
						nAppend++
						obl.expect(fn+":handoff-under-mutex", ci.Pos(), "Batcher.Append is called with Commander.mu held")
						obl.expect(fn+":handoff-of-the-chained-head", ci.Pos(), "the appended log is the one stored as chain head in the same region")
						if s&rgMU == 0 {
							obl.violate(fn+":handoff-under-mutex", ci.Pos(), "the log is handed to the batcher without holding Commander.mu: hand-off order is not the chain order", pc.Trail())
						}
						return s | rgAPP
					}
				}
				if _, base, ok := storeToField(ins, m.fLastLog); ok && !freshBase(base) {
					nStoreLog++
					obl.expect(fn+":lastLog-store-under-mutex", ins.Pos(), "Commander.lastLog is stored with Commander.mu held")
					obl.expect(fn+":chain-and-handoff-in-one-region", ins.Pos(), "the store and the hand-off to the batcher lie in one held region on every path")
					if s&rgMU == 0 {
						obl.violate(fn+":lastLog-store-under-mutex", ins.Pos(), "Commander.lastLog is stored without holding Commander.mu", pc.Trail())
					}
					return s | rgSLOG
				}
				if _, base, ok := storeToField(ins, m.fLastTXID); ok && !freshBase(base) {
					nStoreTx++
					obl.expect(fn+":lastTXID-store-under-mutex", ins.Pos(), "Commander.lastTXID is stored with Commander.mu held")
					obl.expect(fn+":txid-published-with-its-log", ins.Pos(), "the id is stored only in a region that also hands the log off")
					if s&rgMU == 0 {
						obl.violate(fn+":lastTXID-store-under-mutex", ins.Pos(), "Commander.lastTXID is stored without holding Commander.mu", pc.Trail())
					}
					return s | rgSTX
				}
				return s
			},
			Exit: func(pc *PathCtx, s uint64, ins ssa.Instruction) {
				if pc.Fn() == root && s&(rgSLOG|rgSTX) != 0 && s&rgAPP == 0 {
					regionEnd(pc, s, ins.Pos())
				}
			},
		}
		c.RunPaths(root, 0, pr)
	}
	if nStoreLog == 0 || nStoreTx == 0 || nAppend == 0 {
		obl.undecided("floor:chain-sites", token.NoPos, fmt.Sprintf("expected stores to lastLog, lastTXID and a Batcher.Append call outside Init; found %d/%d/%d", nStoreLog, nStoreTx, nAppend))
	}
	// value-level structure inside the function(s) that append
	for _, fn := range m.fns {
		var appendArg, storedLog, storedTx ssa.Value
		var appendPos token.Pos
		for _, b := range fn.Blocks {
			for _, ins := range b.Instrs {
				if ci, ok := ins.(ssa.CallInstruction); ok && isCallTo(ci, m.batcherAppend) {
					args := ci.Common().Args
					appendArg = args[len(args)-2]
					appendPos = ci.Pos()
				}
				if v, base, ok := storeToField(ins, m.fLastLog); ok && !freshBase(base) {
					storedLog = v
				}
				if v, base, ok := storeToField(ins, m.fLastTXID); ok && !freshBase(base) {
					storedTx = v
				}
			}
		}
		if appendArg == nil {
			continue
		}
		name := fnName(fn)
		// the chaining may live in a helper of the commander that stores the new head and returns it
		// (`chainedLog := commander.chainLog(logBuilder(nextTXID))`)
		var viaHelper *ssa.Call
		var helperParamArg = map[*ssa.Parameter]ssa.Value{}
		if storedLog == nil {
			if call, ok := appendArg.(*ssa.Call); ok {
				if h := staticCallee(call); h != nil && fnPkgPath(origin(h)) == pkgCommand && len(h.Blocks) > 0 {
					var hs ssa.Value
					for _, b := range h.Blocks {
						for _, ins := range b.Instrs {
							if v, base, ok := storeToField(ins, m.fLastLog); ok && !freshBase(base) {
								hs = v
							}
						}
					}
					returnsIt := hs != nil
					for _, b := range h.Blocks {
						if r, ok := b.Instrs[len(b.Instrs)-1].(*ssa.Return); ok && (len(r.Results) != 1 || r.Results[0] != hs) {
							returnsIt = false
						}
					}
					if returnsIt {
						storedLog, appendArg, viaHelper = hs, hs, call
						for i, p := range h.Params {
							if i < len(call.Call.Args) {
								helperParamArg[p] = call.Call.Args[i]
							}
						}
					}
				}
			}
		}
		c.check(storedLog != nil && storedLog == appendArg, rule, name+":appended-value-is-chain-head", appendPos, "the value handed to the batcher is the value stored in lastLog", "the value handed to the batcher is not the value stored as Commander.lastLog")
		// chain head = X.ChainLog(load lastLog)
		chained := false
		var builderCall *ssa.Call
		if call, ok := storedLog.(*ssa.Call); ok && isCallTo(call, m.chainLog) {
			if _, ok := fieldRead(call.Call.Args[1], m.fLastLog); ok {
				chained = true
			}
			builderCall, _ = call.Call.Args[0].(*ssa.Call)
			if p, isParam := call.Call.Args[0].(*ssa.Parameter); isParam && viaHelper != nil {
				builderCall, _ = helperParamArg[p].(*ssa.Call)
			}
		}
		c.check(chained, rule, name+":chained-on-current-head", appendPos, "the new head is ChainLog(<current lastLog>)", "the new chain head is not computed as ChainLog(commander.lastLog)")
		if storedTx != nil {
			isNext := false
			// lastTXID + 1, computed here or by a helper of the commander every return of which is that expression
			// (`commander.nextTXID()`, read under the same mutex: R05g checks the helper's reads)
			plusOne := storedTx
			if call, ok := storedTx.(*ssa.Call); ok {
				if h := staticCallee(call); h != nil && fnPkgPath(origin(h)) == pkgCommand && len(h.Blocks) > 0 && len(call.Call.Args) == 1 {
					var rets []ssa.Value
					for _, b := range h.Blocks {
						if r, ok := b.Instrs[len(b.Instrs)-1].(*ssa.Return); ok && len(r.Results) == 1 {
							rets = append(rets, r.Results[0])
						}
					}
					if len(rets) == 1 {
						plusOne = rets[0]
					}
				}
			}
			if call, ok := plusOne.(*ssa.Call); ok && calleeFullName(call) == "(*math/big.Int).Add" && len(call.Call.Args) == 3 {
				_, a := fieldRead(call.Call.Args[1], m.fLastTXID)
				_, b := fieldRead(call.Call.Args[2], m.fLastTXID)
				one := func(v ssa.Value) bool {
					if cc, ok := v.(*ssa.Call); ok && calleeFullName(cc) == "math/big.NewInt" {
						n, ok := constInt(cc.Call.Args[0])
						return ok && n == 1
					}
					return false
				}
				isNext = (a && one(call.Call.Args[2])) || (b && one(call.Call.Args[1]))
			}
			c.check(isNext, "R05b", name+":txid-is-last-plus-one", appendPos, "the stored id is lastTXID + 1", "the value stored into Commander.lastTXID is not lastTXID + 1: ids do not increase by exactly one")
			given := false
			if builderCall != nil {
				for _, a := range builderCall.Call.Args {
					if a == storedTx {
						given = true
					}
				}
			}
			c.check(given, "R05b", name+":allocated-id-is-the-id-of-the-log", appendPos, "the id stored is the id passed to the log builder whose result is chained", "the transaction id that is stored is not the one handed to the builder of the chained log: the log can carry a different id than the one consumed")
		}
	}
	// R05g: reads under the mutex too
	n := runLockDiscipline(c, lockDisc{
		rule: "R05g", pkg: pkgCommand, mutex: m.fMu, guarded: []*types.Var{m.fLastLog, m.fLastTXID},
		exempt: exempt,
	})
	if n < 3 {
		c.undecided("R05g", "floor:guarded-accesses", token.NoPos, fmt.Sprintf("only %d accesses to lastLog/lastTXID found outside Init", n))
	}
}

func ruleR05d(c *Ctx) {
	const rule = "R05d"
	newBatcher := c.MustFn(rule, pkgBatching, "NewBatcher")
	pending := c.MustFieldLike(rule, pkgBatching, "Batcher", "pending", func(t types.Type) bool { _, ok := t.Underlying().(*types.Slice); return ok })
	bmu := c.MustField(rule, pkgBatching, "Batcher", "mu")
	if newBatcher == nil || pending == nil || bmu == nil {
		return
	}
	n := 0
	for _, fn := range c.FuncsIn(pkgCommand) {
		allCalls(fn, func(ci ssa.CallInstruction) {
			if !callsFn(ci, newBatcher) {
				return
			}
			n++
			w, ok := constInt(ci.Common().Args[1])
			c.check(ok && w == 1, rule, fnName(fn)+":single-worker", ci.Pos(), "the commander's batcher has exactly one worker", "the commander's batcher is created with a worker count that is not the constant 1: two InsertLogs batches can run concurrently and commit out of order")
		})
	}
	if n == 0 {
		c.undecided(rule, "floor:NewBatcher-in-command", token.NoPos, "package command does not create its batcher with batching.NewBatcher")
	}
	k := runLockDiscipline(c, lockDisc{rule: rule, pkg: pkgBatching, mutex: bmu, guarded: []*types.Var{pending},
		exempt: func(fn *ssa.Function) bool { return fn.Name() == "NewBatcher" }})
	if k < 2 {
		c.undecided(rule, "floor:pending-accesses", token.NoPos, fmt.Sprintf("only %d accesses to Batcher.pending found", k))
	}
	// Append adds at the tail: pending = append(pending, x)
	if app := c.MustFn(rule, pkgBatching, "Batcher.Append"); app != nil {
		tail := false
		// Append, or the helper of the package it delegates the insertion to (`enqueue`)
		var appBlocks []*ssa.BasicBlock
		appBlocks = append(appBlocks, app.Blocks...)
		for _, f := range c.AllInstancesOf(app) {
			appBlocks = append(appBlocks, f.Blocks...)
			allCalls(f, func(ci ssa.CallInstruction) {
				if g := staticCallee(ci); g != nil && fnPkgPath(origin(g)) == pkgBatching && len(g.Blocks) > 0 {
					appBlocks = append(appBlocks, g.Blocks...)
				}
			})
		}
		for _, b := range appBlocks {
			for _, ins := range b.Instrs {
				if v, _, ok := storeToField(ins, pending); ok {
					if call, ok := v.(*ssa.Call); ok {
						if bi, ok := call.Call.Value.(*ssa.Builtin); ok && bi.Name() == "append" {
							if _, ok := fieldRead(call.Call.Args[0], pending); ok {
								tail = true
							}
						}
					}
				}
			}
		}
		c.check(tail, rule, "Batcher.Append:fifo-tail", app.Pos(), "Append puts the object at the tail of pending", "Batcher.Append does not append at the tail of pending: hand-off order is not preserved")
	}
}

func ruleR05e(c *Ctx) {
	const rule = "R05e"
	m := c.cmdModel(rule)
	if !m.ok {
		return
	}
	initFn := c.MustFn(rule, pkgCommand, "Commander.Init")
	if initFn == nil {
		return
	}
	const (
		gotLog = 1 << iota
		gotTx
		noTx
	)
	obl := newOblSet(c, rule)
	obl.expect("Init:reloads-chain-head-and-last-txid", initFn.Pos(), "every successful path of Init stores lastLog from Store.GetLastLog and lastTXID from Store.GetLastTransaction (or found no transaction)")
	et := newErrTracker(initFn)
	pr := &PathRule{
		Step: func(pc *PathCtx, s uint64, ins ssa.Instruction) uint64 {
			if v, _, ok := storeToField(ins, m.fLastLog); ok {
				for _, r := range roots(v, nil) {
					if call, idx := resultOf(r); call != nil && idx == 0 && isCallTo(call, m.getLastLog) {
						return s | gotLog
					}
				}
			}
			if v, _, ok := storeToField(ins, m.fLastTXID); ok {
				for _, r := range roots(v, nil) {
					if f, base := anyFieldRead(r); f != nil && f.Name() == "ID" {
						for _, rr := range roots(rootBase(base), nil) {
							if call, idx := resultOf(rr); call != nil && idx == 0 && isCallTo(call, m.getLastTx) {
								return s | gotTx
							}
						}
					}
				}
			}
			return s
		},
		Edge: func(pc *PathCtx, s uint64, from *ssa.BasicBlock, si int) (uint64, bool) {
			for _, f := range pc.edgeFacts(from, si) {
				if call, idx := resultOf(f.X); call != nil && idx == 0 && isCallTo(call, m.getLastTx) && isNilConst(f.Y) && f.Eq {
					s |= noTx
				}
			}
			return s, true
		},
		Exit: func(pc *PathCtx, s uint64, ins ssa.Instruction) {
			ret, ok := ins.(*ssa.Return)
			if !ok {
				return
			}
			if known, isNil := et.directNil(ret); known && isNil {
				if s&gotLog == 0 || s&(gotTx|noTx) == 0 {
					obl.violate("Init:reloads-chain-head-and-last-txid", ret.Pos(), "Init returns nil on a path that did not reload the chain head and the last transaction id from the store: after a restart new logs would not continue the persisted chain", pc.Trail())
				}
			}
		},
	}
	c.RunPaths(initFn, 0, pr)
	obl.flush()
	// Start: Init dominates `go commander.Run`
	n := 0
	for _, fn := range c.RepoFuncs() {
		for _, b := range fn.Blocks {
			for _, ins := range b.Instrs {
				g, ok := ins.(*ssa.Go)
				if !ok {
					continue
				}
				callee := staticCallee(g)
				if callee == nil || len(g.Call.Args) == 0 {
					continue
				}
				if o := callee.Origin(); o != nil {
					callee = o
				}
				if callee.Name() != "Run" {
					continue
				}
				if !basedOnType(g.Call.Args[0], pkgCommand, "Commander") {
					continue
				}
				n++
				dominated := false
				for _, b2 := range fn.Blocks {
					for _, i2 := range b2.Instrs {
						if call, ok := i2.(*ssa.Call); ok && callsFn(call, initFn) {
							if b2 == b {
								// same block: Init must come first
								for _, x := range b.Instrs {
									if x == ssa.Instruction(call) {
										dominated = true
										break
									}
									if x == ins {
										break
									}
								}
							} else if b2.Dominates(b) {
								dominated = true
							}
						}
					}
				}
				c.check(dominated, rule, fnName(fn)+":Init-before-Run", g.Pos(), "Commander.Init is called before the commander's worker is started", "the commander's worker is started without a preceding Commander.Init: the first logs after a restart do not continue the persisted chain")
			}
		}
	}
	if n == 0 {
		c.undecided(rule, "floor:go-commander-Run", token.NoPos, "no `go commander.Run(...)` found in production code")
	}
}
