package main

// R04f — in a fold of postings into a balance, the credit does not depend on the debit.
//
// The in-memory store computes GetBalance by folding the postings of the log: a posting debits the account when it
// is its source and credits it when it is its destination — both for a posting from an account to itself (which the
// validation accepts and the VM emits: `source = @a destination = @a`, or a share of an allotment going back to the
// sender). Writing the two tests as alternatives (`switch address { case p.Source: … case p.Destination: … }`,
// `else if`) debits such a posting without crediting it. Rule, for every function of package storage that compares
// both Posting.Source and Posting.Destination with a value: on every path of one loop iteration on which the Source
// test held, the Destination test is evaluated too before the iteration ends.

import (
	"fmt"
	"go/token"

	"golang.org/x/tools/go/ssa"
)

func ruleR04f(c *Ctx) {
	const rule = "R04f"
	pkgStorage := modPath + "/internal/storage"
	isPostingField := func(v ssa.Value, name string) bool {
		f, base := anyFieldRead(v)
		if f == nil || f.Name() != name {
			return false
		}
		t := base.Type()
		return isNamed(t, pkgLedger, "Posting")
	}
	n := 0
	for _, fn := range c.FuncsIn(pkgStorage) {
		if len(fn.Blocks) == 0 || fn.Synthetic != "" {
			continue
		}
		// does it test both endpoints?
		hasSrc, hasDst := false, false
		var dstTests = map[ssa.Value]bool{}
		var srcTests = map[ssa.Value]bool{}
		for _, b := range fn.Blocks {
			for _, ins := range b.Instrs {
				bo, ok := ins.(*ssa.BinOp)
				if !ok || (bo.Op != token.EQL && bo.Op != token.NEQ) {
					continue
				}
				if isPostingField(bo.X, "Source") || isPostingField(bo.Y, "Source") {
					hasSrc = true
					srcTests[bo] = true
				}
				if isPostingField(bo.X, "Destination") || isPostingField(bo.Y, "Destination") {
					hasDst = true
					dstTests[bo] = true
				}
			}
		}
		if !hasSrc || !hasDst {
			continue
		}
		n++
		c.seeFn(fn)
		heads := loopHeads(fn)
		key := fnName(fn) + ":credit-independent-of-debit"
		obl := newOblSet(c, rule)
		obl.expect(key, fn.Pos(), "whenever the source test holds, the destination test is evaluated in the same iteration")
		const (
			srcHeld = 1 << iota
			dstSeen
			dstHeld
			srcSeen
		)
		pr := &PathRule{
			Step: func(pc *PathCtx, s uint64, ins ssa.Instruction) uint64 {
				if v, ok := ins.(ssa.Value); ok && dstTests[v] {
					s |= dstSeen
				}
				if v, ok := ins.(ssa.Value); ok && srcTests[v] {
					s |= srcSeen
				}
				return s
			},
			Edge: func(pc *PathCtx, s uint64, from *ssa.BasicBlock, si int) (uint64, bool) {
				for _, f := range pc.edgeFacts(from, si) {
					if f.Eq && (isPostingField(f.X, "Source") || isPostingField(f.Y, "Source")) {
						s |= srcHeld
					}
					if f.Eq && (isPostingField(f.X, "Destination") || isPostingField(f.Y, "Destination")) {
						s |= dstHeld
					}
				}
				to := from.Succs[si]
				if heads[to] {
					// the iteration ends here
					if s&srcHeld != 0 && s&dstSeen == 0 {
						obl.violate(key, from.Instrs[len(from.Instrs)-1].Pos(), "on a path where the posting's source is the account, the iteration ends without testing its destination: a posting from the account to itself is debited and never credited, the balance is no longer the replay of the log", pc.Trail())
					}
					if s&dstHeld != 0 && s&srcSeen == 0 {
						obl.violate(key, from.Instrs[len(from.Instrs)-1].Pos(), "on a path where the posting's destination is the account, the iteration ends without testing its source: a posting from the account to itself is credited and never debited", pc.Trail())
					}
					return s &^ (srcHeld | dstSeen | dstHeld | srcSeen), true
				}
				return s, true
			},
			Exit: func(pc *PathCtx, s uint64, ins ssa.Instruction) {
				if _, isRet := ins.(*ssa.Return); isRet && s&srcHeld != 0 && s&dstSeen == 0 {
					obl.violate(key, ins.Pos(), "on a path where the posting's source is the account, the function returns without testing its destination", pc.Trail())
				}
			},
		}
		c.RunPaths(fn, 0, pr)
		obl.flush()
	}
	if n == 0 {
		c.undecided(rule, "floor:posting-folds", token.NoPos, fmt.Sprintf("no function of %s compares both endpoints of a posting with an account: the in-memory balance fold moved", pkgStorage))
	}
}
