package main

// Mutants for the rules added after the second micro-mutation wave.
func init() {
	const ll = "libs/collectionutils/linked_list.go"
	const addr = "internal/machine/address.go"
	const mon = "internal/machine/monetary.go"
	const resp = "libs/api/response.go"
	const qry = "libs/api/query.go"
	const cmdr = "internal/engine/command/commander.go"
	const bulk = "internal/api/v2/bulk.go"
	const ccomp = "internal/engine/command/compiler.go"
	const inmem = "internal/storage/inmemory.go"
	const post = "internal/posting.go"
	const v1tx = "internal/api/v1/controllers_transactions.go"
	const comp = "internal/machine/script/compiler/compiler.go"
	addMutants(
		// R15g
		Mutant{Property: "C15", Name: "remove-first-forgets-to-unlink", File: ll,
			Old: "\t\t\tnode.Remove()\n\t\t\treturn node", New: "\t\t\treturn node", Expect: "R15g:LinkedList.RemoveFirst"},
		Mutant{Property: "C15", Name: "remove-keeps-stale-tail", File: ll,
			Old: "\tif n == n.list.lastNode {\n\t\tn.list.lastNode = n.previousNode\n\t}\n", New: "", Expect: "R15g:LinkedListNode.Remove:updates-list.lastNode"},
		Mutant{Property: "C15", Name: "remove-keeps-stale-head", File: ll,
			Old: "\tif n == n.list.firstNode {\n\t\tn.list.firstNode = n.nextNode\n\t}\n", New: "", Expect: "R15g:LinkedListNode.Remove:updates-list.firstNode"},
		Mutant{Property: "C15", Name: "benign-remove-first-unlinks-through-local", File: ll,
			Old: "\t\t\tnode.Remove()\n\t\t\treturn node", New: "\t\t\tfound := node\n\t\t\tfound.Remove()\n\t\t\treturn found", Expect: "none", Benign: true},
		// R02g
		Mutant{Property: "C02", Name: "swap-assigns-sequentially", File: addr,
			Old: "\ta[i], a[j] = a[j], a[i]", New: "\ta[i] = a[j]\n\ta[j] = a[i]", Expect: "R02g:"},
		Mutant{Property: "C02", Name: "benign-swap-through-temporary", File: addr,
			Old: "\ta[i], a[j] = a[j], a[i]", New: "\ttmp := a[i]\n\ta[i] = a[j]\n\ta[j] = tmp", Expect: "none", Benign: true},
		// R08i
		Mutant{Property: "C08", Name: "amounts-parsed-with-base-0", File: mon,
			Old: "SetString(s, 10)", New: "SetString(s, 0)", Expect: "R08i:"},
		// R17h
		Mutant{Property: "C17", Name: "mapped-cursor-loses-hasmore", File: resp,
			Old: "\t\tHasMore:  cursor.HasMore,\n", New: "", Expect: "R17h:MapCursor:carries-HasMore"},
		Mutant{Property: "C17", Name: "mapped-cursor-next-is-previous", File: resp,
			Old: "\t\tNext:     cursor.Next,", New: "\t\tNext:     cursor.Previous,", Expect: "R17h:MapCursor:carries-Next"},
		// R18i
		Mutant{Property: "C18", Name: "zero-read-as-true", File: qry,
			Old: "v == \"1\"", New: "v == \"0\"", Expect: "R18i:"},
		// R05k
		Mutant{Property: "C05", Name: "every-log-consumes-a-transaction-id", File: cmdr,
			Old: "\tif allocateTXID {\n\t\tcommander.lastTXID = nextTXID\n\t}", New: "\tcommander.lastTXID = nextTXID", Expect: "R05k:"},
		// R07i / R07j
		Mutant{Property: "C07", Name: "save-meta-context-loses-the-key", File: cmdr,
			Old: "\texecContext := newExecutionContext(commander, parameters)\n\t_, err := execContext.run(ctx, func(executionContext *executionContext) (*ledger.ChainedLog, chan struct{}, error) {\n\t\tvar (\n\t\t\tlog *ledger.Log\n\t\t\tat  = ledger.Now()\n\t\t)\n\t\tswitch targetType {\n\t\tcase ledger.MetaTargetTypeTransaction:\n\t\t\t_, err := commander.store.GetTransaction(ctx, targetID.(*big.Int))\n\t\t\tif err != nil {\n\t\t\t\tif storageerrors",
			New: "\texecContext := newExecutionContext(commander, Parameters{DryRun: parameters.DryRun})\n\t_, err := execContext.run(ctx, func(executionContext *executionContext) (*ledger.ChainedLog, chan struct{}, error) {\n\t\tvar (\n\t\t\tlog *ledger.Log\n\t\t\tat  = ledger.Now()\n\t\t)\n\t\tswitch targetType {\n\t\tcase ledger.MetaTargetTypeTransaction:\n\t\t\t_, err := commander.store.GetTransaction(ctx, targetID.(*big.Int))\n\t\t\tif err != nil {\n\t\t\t\tif storageerrors", Expect: "R07i:"},
		Mutant{Property: "C07", Name: "bulk-elements-lose-their-key", File: bulk,
			Old: "\t\t\tIdempotencyKey: element.IdempotencyKey,\n", New: "", Expect: "R07j:"},
		// R13j
		Mutant{Property: "C13", Name: "account-metadata-logged-as-transaction-target", File: cmdr,
			Old: "\t\t\t\tTargetType: ledger.MetaTargetTypeAccount,\n\t\t\t\tTargetID:   targetID.(string),\n\t\t\t\tKey:        key,", New: "\t\t\t\tTargetType: ledger.MetaTargetTypeTransaction,\n\t\t\t\tTargetID:   targetID.(string),\n\t\t\t\tKey:        key,", Expect: "R13j:"},
		// R11f / R11g
		Mutant{Property: "C11", Name: "lookup-failure-read-as-free", File: cmdr,
			Old: "\t\t\tif err != nil && !storageerrors.IsNotFoundError(err) {\n\t\t\t\treturn nil, nil, err\n\t\t\t}\n", New: "", Expect: "R11f:"},
		Mutant{Property: "C11", Name: "v1-conflict-answered-as-validation", File: v1tx,
			Old: "\t\t\t\tcase command.IsInvalidTransactionError(err, command.ErrInvalidTransactionCodeConflict):\n\t\t\t\t\tsharedapi.BadRequest(w, ErrConflict, err)\n\t\t\t\t\treturn\n", New: "", Expect: "R11g:"},
		// R12k / R12l
		Mutant{Property: "C12", Name: "cache-filled-before-the-error-test", File: ccomp,
			Old: "\tprogram, err := compiler.Compile(script)\n\tif err != nil {\n\t\treturn nil, err\n\t}\n\t_ = c.cache.Set(cacheKey, program)\n", New: "\tprogram, err := compiler.Compile(script)\n\t_ = c.cache.Set(cacheKey, program)\n\tif err != nil {\n\t\treturn nil, err\n\t}\n", Expect: "R12k:"},
		Mutant{Property: "C12", Name: "monetary-literal-asset-check-weakened", File: comp,
			Old: "\t\tif typ != machine.TypeAsset {\n\t\t\treturn 0, nil, LogicError(c, fmt.Errorf(\n\t\t\t\t\"the expression in monetary literal", New: "\t\tif typ != machine.TypeAsset && assetAddr == nil {\n\t\t\treturn 0, nil, LogicError(c, fmt.Errorf(\n\t\t\t\t\"the expression in monetary literal", Expect: "R12l:"},
		Mutant{Property: "C08", Name: "monetary-literal-asset-check-weakened", File: comp,
			Old: "\t\tif typ != machine.TypeAsset {\n\t\t\treturn 0, nil, LogicError(c, fmt.Errorf(\n\t\t\t\t\"the expression in monetary literal", New: "\t\tif typ != machine.TypeAsset && assetAddr == nil {\n\t\t\treturn 0, nil, LogicError(c, fmt.Errorf(\n\t\t\t\t\"the expression in monetary literal", Expect: "R08j:"},
		// R04g
		Mutant{Property: "C04", Name: "fold-stops-at-another-asset", File: inmem,
			Old: "\t\t\tif posting.Asset != asset {\n\t\t\t\tcontinue\n\t\t\t}", New: "\t\t\tif posting.Asset != asset {\n\t\t\t\tbreak\n\t\t\t}", Expect: "R04g:"},
		// R10i
		Mutant{Property: "C10", Name: "reverse-swaps-with-the-last", File: post,
			Old: "\t\tp[i], p[len(p)-i-1] = p[len(p)-i-1], p[i]", New: "\t\tp[i], p[len(p)-1] = p[len(p)-1], p[i]", Expect: "R10i:"},
		Mutant{Property: "C10", Name: "benign-reverse-with-opposite-index", File: post,
			Old: "\t\tp[i], p[len(p)-i-1] = p[len(p)-i-1], p[i]", New: "\t\tj := len(p) - 1 - i\n\t\tp[i], p[j] = p[j], p[i]", Expect: "none", Benign: true},
	)
}
