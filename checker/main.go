package main

import (
	"flag"
	"fmt"
	"os"
	"path/filepath"
	"runtime/debug"
	"sort"
	"strings"
)

type propDef struct {
	run  func(c *Ctx)
	meta propMeta
}

var props = map[string]*propDef{}

func register(id string, meta propMeta, run func(c *Ctx)) {
	props[id] = &propDef{run: run, meta: meta}
}

func main() {
	var (
		property = flag.String("property", "", "property id (C01..C20)")
		tier     = flag.String("tier", "quick", "quick|thorough")
		repo     = flag.String("repo", "/repo", "repository root")
		verif    = flag.String("verif", "", "verif root (default: parent of the executable's directory)")
		explain  = flag.String("explain", "", "replay file: re-evaluate and print that obligation on the current tree")
		list     = flag.Bool("list", false, "list obligations (all statuses)")
		mutants  = flag.Bool("mutants", false, "run the mutant kill matrix of the property (informational)")
		overlayF = flag.String("overlay", "", "internal: JSON file {abs path: replacement file} applied to the load")
		dump     = flag.String("dump", "", "debug: print the SSA of the functions whose name contains this string and exit")
	)
	flag.Parse()
	if t := os.Getenv("VERIF_TIER"); t != "" && !flagSet("tier") {
		*tier = t
	}
	if *verif == "" {
		exe, _ := os.Executable()
		*verif = filepath.Dir(filepath.Dir(exe))
	}
	if *property == "" {
		var ids []string
		for k := range props {
			ids = append(ids, k)
		}
		sort.Strings(ids)
		fmt.Println("properties:", ids)
		os.Exit(2)
	}
	pd := props[*property]
	if pd == nil {
		die("unknown property %q", *property)
	}
	if *tier != "quick" && *tier != "thorough" {
		die("bad tier %q", *tier)
	}
	if *mutants {
		os.Exit(runMutants(*repo, *verif, *property))
	}
	overlay := readOverlay(*overlayF)
	c, err := Load(*repo, overlay)
	if err != nil {
		// a tree that does not load cannot be decided: fail loudly, as a violation of the check's
		// own preconditions (no evidence of holding)
		fmt.Fprintf(os.Stderr, "checker: %v\n", err)
		fmt.Printf("VIOLATION property=%s replay=%s\n", *property, "load-failure")
		os.Exit(1)
	}
	if *dump != "" {
		for _, fn := range c.RepoFuncs() {
			if strings.Contains(fnName(fn), *dump) {
				fn.WriteTo(os.Stdout)
			}
		}
		os.Exit(0)
	}
	c.Verif = *verif
	c.Property = *property
	c.Tier = *tier
	func() {
		defer func() {
			if r := recover(); r != nil {
				c.undecided("internal", "panic", 0, fmt.Sprintf("analyser panic: %v\n%s", r, debug.Stack()))
			}
		}()
		pd.run(c)
	}()
	if *tier == "thorough" && overlay == nil {
		// thorough: the same rules, plus the kill matrix of the property's single-edit variants
		// (informational: says whether the rules still have teeth on this tree; never an alarm)
		res := computeMutants(*repo, *verif, *property)
		sum := map[string]int{}
		var notKilled []mutantResult
		for _, r := range res {
			sum[r.Status]++
			if r.Status != "killed" && r.Status != "silent-ok" {
				notKilled = append(notKilled, r)
			}
		}
		c.Info["mutant_variants"] = len(res)
		c.Info["mutant_summary"] = sum
		c.Info["mutants_not_killed"] = notKilled
		for _, r := range notKilled {
			fmt.Fprintf(os.Stderr, "note: variant %s %s (expected %s)\n", r.Name, r.Status, r.Expect)
		}
	}
	if *list {
		for _, o := range c.Obls {
			fmt.Printf("%-10s %s  %s  %s\n", o.Status, o.Key, o.Pos, o.Detail)
		}
	}
	if *explain != "" {
		explainReplay(c, *explain)
	}
	if overlay != nil {
		// mutant mode: print failing keys only, never touch evidence
		code := 0
		for _, o := range c.Obls {
			if o.Status != Discharged {
				fmt.Printf("MUTANT-REPORT %s %s %s\n", o.Status, o.Key, o.Pos)
				code = 1
			}
		}
		os.Exit(code)
	}
	os.Exit(c.finish(pd.meta))
}

func flagSet(name string) bool {
	set := false
	flag.Visit(func(f *flag.Flag) {
		if f.Name == name {
			set = true
		}
	})
	return set
}
