package main

func init() {
	const cmdr = "internal/engine/command/commander.go"
	const ctxf = "internal/engine/command/context.go"
	const logs = "internal/storage/ledgerstore/logs.go"
	const txs = "internal/storage/ledgerstore/transactions.go"
	const nums = "internal/numscript.go"
	addMutants(
		Mutant{Property: "C10", Name: "reverse-mirrors-endpoints-only", File: "internal/transaction.go",
			Old: "\tpostings := make(Postings, len(t.Postings))\n\tcopy(postings, t.Postings)\n\tpostings.Reverse()\n", New: "\tn := len(t.Postings)\n\tpostings := make(Postings, n)\n\tcopy(postings, t.Postings)\n\tfor i := range postings {\n\t\tmirror := t.Postings[n-1-i]\n\t\tpostings[i].Source, postings[i].Destination = mirror.Destination, mirror.Source\n\t}\n", Expect: "R10g:"},
		Mutant{Property: "C10", Name: "reverse-builds-mirrored-copies", File: "internal/transaction.go",
			Old: "\tpostings := make(Postings, len(t.Postings))\n\tcopy(postings, t.Postings)\n\tpostings.Reverse()\n", New: "\tn := len(t.Postings)\n\tpostings := make(Postings, n)\n\tfor i := range postings {\n\t\tmirror := t.Postings[n-1-i]\n\t\tpostings[i].Source = mirror.Destination\n\t\tpostings[i].Destination = mirror.Source\n\t\tpostings[i].Asset = mirror.Asset\n\t\tpostings[i].Amount = mirror.Amount\n\t}\n", Expect: "none", Benign: true},
		Mutant{Property: "C11", Name: "reference-lookup-skips-reverted-sql", File: "internal/storage/ledgerstore/transactions.go",
			Old: "\t\t\t\tWhere(\"transactions.reference = ?\", ref).\n\t\t\t\tWhere(\"transactions.ledger = ?\", store.name).", New: "\t\t\t\tWhere(\"transactions.reference = ?\", ref).\n\t\t\t\tWhere(\"transactions.ledger = ?\", store.name).\n\t\t\t\tWhere(\"transactions.reverted_at is null\").", Expect: "R11d:(*internal/storage/ledgerstore.Store)"},
		Mutant{Property: "C11", Name: "reference-lookup-skips-reverted-inmemory", File: "internal/storage/inmemory.go",
			Old: "\t\treturn transaction.Reference == ref\n", New: "\t\treturn transaction.Reference == ref && !transaction.Reverted\n", Expect: "R11d:(*internal/storage.InMemoryStore)"},
		Mutant{Property: "C11", Name: "reference-lookup-inmemory-as-loop", File: "internal/storage/inmemory.go",
			Old: "\tfiltered := collectionutils.Filter(m.transactions, func(transaction *ledger.ExpandedTransaction) bool {\n\t\treturn transaction.Reference == ref\n\t})\n\tif len(filtered) == 0 {\n\t\treturn nil, sqlutils.ErrNotFound\n\t}\n\treturn filtered[0], nil", New: "\tfor _, transaction := range m.transactions {\n\t\tif transaction.Reference == ref {\n\t\t\treturn transaction, nil\n\t\t}\n\t}\n\treturn nil, sqlutils.ErrNotFound", Expect: "none", Benign: true},
		Mutant{Property: "C07", Name: "ik-lookup-only-transactions", File: "internal/storage/ledgerstore/logs.go",
			Old: "\t\t\t\tWhere(\"idempotency_key = ?\", key).\n\t\t\t\tWhere(\"ledger = ?\", store.name)", New: "\t\t\t\tWhere(\"idempotency_key = ?\", key).\n\t\t\t\tWhere(\"type = 'NEW_TRANSACTION'\").\n\t\t\t\tWhere(\"ledger = ?\", store.name)", Expect: "R07e:"},
		Mutant{Property: "C07", Name: "ik-lookup-inmemory-skips-metadata-logs", File: "internal/storage/inmemory.go",
			Old: "\t\treturn log.IdempotencyKey == key\n", New: "\t\treturn log.IdempotencyKey == key && log.Type == ledger.NewTransactionLogType\n", Expect: "R07e:"},
		Mutant{Property: "C07", Name: "ik-lookup-ledger-predicate-first", File: "internal/storage/ledgerstore/logs.go",
			Old: "\t\t\t\tWhere(\"idempotency_key = ?\", key).\n\t\t\t\tWhere(\"ledger = ?\", store.name)", New: "\t\t\t\tWhere(\"logs.ledger = ?\", store.name).\n\t\t\t\tWhere(\"logs.idempotency_key = ?\", key)", Expect: "none", Benign: true},
		Mutant{Property: "C07", Name: "ik-released-before-executor", File: ctxf,
			Old: "\t\tdefer e.commander.referencer.release(referenceIks, ik)\n\n\t\tchainedLog, err := e.commander.store.ReadLogWithIdempotencyKey(ctx, ik)\n\t\tif err == nil {\n\t\t\treturn chainedLog, nil\n\t\t}",
			New: "\t\tchainedLog, err := e.commander.store.ReadLogWithIdempotencyKey(ctx, ik)\n\t\te.commander.referencer.release(referenceIks, ik)\n\t\tif err == nil {\n\t\t\treturn chainedLog, nil\n\t\t}", Expect: "R07a:"},
		Mutant{Property: "C07", Name: "ik-lookup-before-take", File: ctxf,
			Old: "\t\tif err := e.commander.referencer.take(referenceIks, ik); err != nil {\n\t\t\treturn nil, err\n\t\t}\n\t\tdefer e.commander.referencer.release(referenceIks, ik)\n\n\t\tchainedLog, err := e.commander.store.ReadLogWithIdempotencyKey(ctx, ik)\n\t\tif err == nil {\n\t\t\treturn chainedLog, nil\n\t\t}\n\t\tif err != nil && !storageerrors.IsNotFoundError(err) {\n\t\t\treturn nil, err\n\t\t}",
			New: "\t\tchainedLog, err := e.commander.store.ReadLogWithIdempotencyKey(ctx, ik)\n\t\tif err == nil {\n\t\t\treturn chainedLog, nil\n\t\t}\n\t\tif err != nil && !storageerrors.IsNotFoundError(err) {\n\t\t\treturn nil, err\n\t\t}\n\t\tif err := e.commander.referencer.take(referenceIks, ik); err != nil {\n\t\t\treturn nil, err\n\t\t}\n\t\tdefer e.commander.referencer.release(referenceIks, ik)", Expect: "R07a:"},
		Mutant{Property: "C07", Name: "ik-no-reservation", File: ctxf,
			Old: "\t\tif err := e.commander.referencer.take(referenceIks, ik); err != nil {\n\t\t\treturn nil, err\n\t\t}\n\t\tdefer e.commander.referencer.release(referenceIks, ik)\n", New: "", Expect: "R07a:"},
		Mutant{Property: "C07", Name: "ik-lookup-skipped", File: ctxf,
			Old: "\t\tchainedLog, err := e.commander.store.ReadLogWithIdempotencyKey(ctx, ik)\n\t\tif err == nil {\n\t\t\treturn chainedLog, nil\n\t\t}\n\t\tif err != nil && !storageerrors.IsNotFoundError(err) {\n\t\t\treturn nil, err\n\t\t}\n", New: "\t\t_ = storageerrors.IsNotFoundError\n", Expect: "R07a:"},
		Mutant{Property: "C07", Name: "ik-only-on-transactions", File: ctxf,
			Old: "\t\tif e.parameters.IdempotencyKey != \"\" {\n\t\t\tlog = log.WithIdempotencyKey(e.parameters.IdempotencyKey)\n\t\t}", New: "\t\tif e.parameters.IdempotencyKey != \"\" && allocateTXID {\n\t\t\tlog = log.WithIdempotencyKey(e.parameters.IdempotencyKey)\n\t\t}", Expect: "R07b:"},
		Mutant{Property: "C07", Name: "dry-run-uses-unstamped-builder", File: ctxf,
			Old: "return logBuilder(e.commander.peekNextTXID()).ChainLog(nil), ret, nil", New: "return logComputer(e.commander.peekNextTXID()).ChainLog(nil), ret, nil", Expect: "R07b:(*internal/engine/command.executionContext).appendLog:chained-log-carries-the-key"},
		Mutant{Property: "C07", Name: "ik-lookup-not-ledger-scoped", File: logs,
			Old: "Where(\"idempotency_key = ?\", key).\n\t\t\t\tWhere(\"ledger = ?\", store.name)", New: "Where(\"idempotency_key = ?\", key)", Expect: "R07c:"},
	)
	addMutants(
		Mutant{Property: "C11", Name: "reference-released-before-wait", File: cmdr,
			Old: "\t\t\tdefer commander.referencer.release(referenceTxReference, script.Reference)\n", New: "",
			Edits: []Edit{{File: cmdr, Old: "\t\t<-done\n\n\t\treturn chainedLog, done, nil", New: "\t\tif script.Reference != \"\" {\n\t\t\tcommander.referencer.release(referenceTxReference, script.Reference)\n\t\t}\n\t\t<-done\n\n\t\treturn chainedLog, done, nil"}}, Expect: "R11a:"},
		Mutant{Property: "C11", Name: "no-wait-in-executor", File: cmdr, Old: "\t\t<-done\n\n\t\treturn chainedLog, done, nil", New: "\t\treturn chainedLog, done, nil", Expect: "R11a:(*internal/engine/command.Commander).exec$1:reservation-spans-persistence"},
		Mutant{Property: "C11", Name: "lookup-before-take", File: cmdr,
			Old: "\t\t\tif err := commander.referencer.take(referenceTxReference, script.Reference); err != nil {\n\t\t\t\treturn nil, nil, NewErrConflict()\n\t\t\t}\n\t\t\tdefer commander.referencer.release(referenceTxReference, script.Reference)\n\n\t\t\t_, err := commander.store.GetTransactionByReference(ctx, script.Reference)\n\t\t\tif err == nil {\n\t\t\t\treturn nil, nil, NewErrConflict()\n\t\t\t}",
			New: "\t\t\t_, err := commander.store.GetTransactionByReference(ctx, script.Reference)\n\t\t\tif err == nil {\n\t\t\t\treturn nil, nil, NewErrConflict()\n\t\t\t}\n\t\t\tif err := commander.referencer.take(referenceTxReference, script.Reference); err != nil {\n\t\t\t\treturn nil, nil, NewErrConflict()\n\t\t\t}\n\t\t\tdefer commander.referencer.release(referenceTxReference, script.Reference)\n", Expect: "R11a:(*internal/engine/command.Commander).exec$1:reserved-before-lookup-and-handoff"},
		Mutant{Property: "C11", Name: "conflict-not-rejected", File: cmdr,
			Old: "\t\t\tif err == nil {\n\t\t\t\treturn nil, nil, NewErrConflict()\n\t\t\t}\n\t\t\tif err != nil && !storageerrors.IsNotFoundError(err) {\n\t\t\t\treturn nil, nil, err\n\t\t\t}\n\t\t}\n\n\t\tprogram, err :=", New: "\t\t\tif err != nil && !storageerrors.IsNotFoundError(err) {\n\t\t\t\treturn nil, nil, err\n\t\t\t}\n\t\t}\n\n\t\tprogram, err :=", Expect: "R11a:(*internal/engine/command.Commander).exec$1:existing-reference-rejected"},
		Mutant{Property: "C11", Name: "reference-lookup-not-ledger-scoped", File: txs,
			Old: "Where(\"transactions.reference = ?\", ref).\n\t\t\t\tWhere(\"transactions.ledger = ?\", store.name)", New: "Where(\"transactions.reference = ?\", ref)", Expect: "R11b:"},
	)
	addMutants(
		Mutant{Property: "C10", Name: "revert-guard-after-read", File: cmdr,
			Old: "\tif err := commander.referencer.take(referenceReverts, id); err != nil {\n\t\treturn nil, NewErrRevertTransactionOccurring()\n\t}\n\tdefer commander.referencer.release(referenceReverts, id)\n\n\ttransactionToRevert, err := commander.store.GetTransaction(ctx, id)\n\tif err != nil {\n\t\tif storageerrors.IsNotFoundError(err) {\n\t\t\treturn nil, NewErrRevertTransactionNotFound()\n\t\t}\n\t\treturn nil, err\n\t}",
			New: "\ttransactionToRevert, err := commander.store.GetTransaction(ctx, id)\n\tif err != nil {\n\t\tif storageerrors.IsNotFoundError(err) {\n\t\t\treturn nil, NewErrRevertTransactionNotFound()\n\t\t}\n\t\treturn nil, err\n\t}\n\tif err := commander.referencer.take(referenceReverts, id); err != nil {\n\t\treturn nil, NewErrRevertTransactionOccurring()\n\t}\n\tdefer commander.referencer.release(referenceReverts, id)\n", Expect: "R10a:"},
		Mutant{Property: "C10", Name: "revert-guard-released-early", File: cmdr,
			Old: "\tdefer commander.referencer.release(referenceReverts, id)\n", New: "",
			Edits: []Edit{{File: cmdr, Old: "\tif transactionToRevert.Reverted {\n\t\treturn nil, NewErrRevertTransactionAlreadyReverted()\n\t}", New: "\tcommander.referencer.release(referenceReverts, id)\n\tif transactionToRevert.Reverted {\n\t\treturn nil, NewErrRevertTransactionAlreadyReverted()\n\t}"}}, Expect: "R10a:"},
		Mutant{Property: "C10", Name: "reverted-check-dropped", File: cmdr,
			Old: "\tif transactionToRevert.Reverted {\n\t\treturn nil, NewErrRevertTransactionAlreadyReverted()\n\t}\n", New: "", Expect: "R10b:"},
		Mutant{Property: "C10", Name: "reverted-check-only-unforced", File: cmdr,
			Old: "\tif transactionToRevert.Reverted {", New: "\tif transactionToRevert.Reverted && !force {", Expect: "R10b:"},
		Mutant{Property: "C10", Name: "always-forced", File: cmdr,
			Old: "\t\t}, force),", New: "\t\t}, true),", Expect: "R10c:"},
		Mutant{Property: "C10", Name: "overdraft-text-unconditional", File: nums,
			Old: "\t\t\tif allowUnboundedOverdrafts {\n\t\t\t\tsb.WriteString(\" allowing unbounded overdraft\")\n\t\t\t}", New: "\t\t\tsb.WriteString(\" allowing unbounded overdraft\")", Expect: "R10c:TxToScriptData:overdraft-text-under-flag"},
		Mutant{Property: "C10", Name: "revert-log-names-new-tx-as-reverted", File: cmdr,
			Old: "return ledger.NewRevertedTransactionLog(tx.Timestamp, transactionToRevert.ID, tx)", New: "return ledger.NewRevertedTransactionLog(tx.Timestamp, tx.ID, tx)", Expect: "R10d:revert-log"},
		Mutant{Property: "C10", Name: "sql-revert-wrong-key", File: migrationSQL,
			Old: "(new.data ->> 'revertedTransactionID')::numeric", New: "(new.data -> 'transaction' ->> 'id')::numeric", Expect: "R10d:handle_log:revert-branch-marks-the-reverted-id"},
		Mutant{Property: "C10", Name: "sql-revert-not-ledger-scoped", File: migrationSQL,
			Old: "set reverted_at = _date\nwhere id = _id\n  and ledger = _ledger;", New: "set reverted_at = _date\nwhere id = _id;", Expect: "R10d:revert_transaction"},
		Mutant{Property: "C10", Name: "script-not-reversed", File: cmdr,
			Old: "\t\t\tPostings: rt.Postings,", New: "\t\t\tPostings: transactionToRevert.Postings,", Expect: "R10f:"},
		Mutant{Property: "C10", Name: "payload-tag-renamed", File: "internal/log.go",
			Old: "`json:\"revertedTransactionID\"`", New: "`json:\"revertedTransactionId\"`", Expect: "R10d:handle_log:revert-branch-marks-the-reverted-id"},
	)
}

func init() {
	const logf = "internal/log.go"
	const txf = "internal/transaction.go"
	const cmdr = "internal/engine/command/commander.go"
	addMutants(
		Mutant{Property: "C07", Name: "key-truncated-when-stamped", File: logf, Old: "\tl.IdempotencyKey = key\n", New: "\tif len(key) > 255 {\n\t\tkey = key[:255]\n\t}\n\tl.IdempotencyKey = key\n", Expect: "R07d:"},
		Mutant{Property: "C07", Name: "key-lowercased-when-stamped", File: logf, Old: "\tl.IdempotencyKey = key\n", New: "\tl.IdempotencyKey = strings.ToLower(key)\n", Expect: "R07d:"},
		Mutant{Property: "C11", Name: "reference-trimmed-when-stored", File: txf, Old: "\tt.Reference = ref\n", New: "\tt.Reference = strings.TrimSpace(ref)\n",
			Edits: []Edit{{File: txf, Old: "import (\n", New: "import (\n\t\"strings\"\n"}}, Expect: "R11c:"},
		Mutant{Property: "C11", Name: "reference-normalised-at-the-call-site", File: cmdr, Old: "\t\t\t\tWithReference(script.Reference)", New: "\t\t\t\tWithReference(strings.ToUpper(script.Reference))",
			Edits: []Edit{{File: cmdr, Old: "import (\n", New: "import (\n\t\"strings\"\n"}}, Expect: "R11c:"},
	)
}
