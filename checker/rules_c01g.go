package main

// R01g — Funding.Take / Funding.TakeMax split a funding without creating or losing money, decided as a
// loop invariant in the affine domain (affine.go, segment mode: paths are cut at loop heads, whose phis are
// arbitrary, so every segment is one loop iteration, the prologue, the hand-over between the loops or the
// epilogue).
//
// Let R be the loop-carried amount still to take and i the loop-carried index of the taking loop, j the
// index of the draining loop, A_k = f.Parts[k].Amount.
//   prologue        R := amount, i := 0, and what was appended adds up to 0 (the zero-amount marker part)
//   taking loop     the parts appended to the two results add up to A_i and carry the account of part i;
//                   R decreases by exactly what was appended to the first result; a part of the first result
//                   is R itself or A_i under the guard A_i ≤ R; a part of the second is A_i − R under the guard
//                   A_i > R; i := i + 1
//   hand-over       nothing appended, j := i
//   draining loop   one part A_j with the account of part j appended to the second result only; j := j + 1
//   epilogue        (Take) a success return lies behind the guard R = 0
// Together: first result + second result = f, first result = amount − R, R = 0 on success.

import (
	"fmt"
	"go/token"
	"go/types"
	"strings"

	"golang.org/x/tools/go/ssa"
)

func ruleR01g(c *Ctx) {
	const rule = "R01g"
	amountF := c.MustField(rule, pkgMachine, "FundingPart", "Amount")
	accountF := c.MustField(rule, pkgMachine, "FundingPart", "Account")
	partsF := c.MustField(rule, pkgMachine, "Funding", "Parts")
	if amountF == nil || accountF == nil || partsF == nil {
		return
	}
	var zero *ssa.Global
	if p := c.SSAPkg(pkgMachine); p != nil {
		zero, _ = p.Members["Zero"].(*ssa.Global)
	}
	coreDone := map[*ssa.Function]bool{}
	for _, name := range []string{"Take", "TakeMax"} {
		fn := c.MustFn(rule, pkgMachine, "Funding."+name)
		if fn == nil {
			continue
		}
		if len(loopHeads(fn)) > 0 {
			fundingSplit(c, rule, fn, name, amountF, accountF, partsF, zero, name == "Take", -1)
			continue
		}
		// a wrapper around a shared splitting helper (`result, remainder, left := f.takeUpTo(amount)`)
		var coreCall *ssa.Call
		allCalls(fn, func(ci ssa.CallInstruction) {
			call, ok := ci.(*ssa.Call)
			if !ok {
				return
			}
			g := staticCallee(call)
			if g == nil || fnPkgPath(g) != pkgMachine || len(loopHeads(g)) == 0 || g.Signature.Results().Len() < 2 {
				return
			}
			if isNamed(g.Signature.Results().At(0).Type(), pkgMachine, "Funding") && isNamed(g.Signature.Results().At(1).Type(), pkgMachine, "Funding") {
				coreCall = call
			}
		})
		if coreCall == nil {
			c.undecided(rule, "Funding."+name+":loop-structure", fn.Pos(), "no loop over the parts and no call of a splitting helper found")
			continue
		}
		core := staticCallee(coreCall)
		leftIdx := -1
		for i := 2; i < core.Signature.Results().Len(); i++ {
			if strings.HasSuffix(core.Signature.Results().At(i).Type().String(), "machine.MonetaryInt") {
				leftIdx = i
			}
		}
		if !coreDone[core] {
			coreDone[core] = true
			fundingSplit(c, rule, core, core.Name(), amountF, accountF, partsF, zero, false, leftIdx)
		}
		fundingWrapper(c, rule, fn, name, coreCall, leftIdx, amountF, accountF, partsF, zero, name == "Take")
	}
}

// fundingWrapper: Take/TakeMax written as a wrapper of a splitting helper: the two results are the helper's (plus
// at most a zero amount), the helper is given the funding and the requested amount, and (Take) success lies behind
// the guard `what the helper could not cover = 0`.
func fundingWrapper(c *Ctx, rule string, fn *ssa.Function, name string, coreCall *ssa.Call, leftIdx int, amountF, accountF, partsF *types.Var, zero *ssa.Global, needExact bool) {
	obl := newOblSet(c, rule)
	defer obl.flush()
	key := func(s string) string { return "Funding." + name + ":" + s }
	kPass, kEpi := key("hands-out-the-split-of-the-helper"), key("success-only-when-nothing-remains")
	obl.expect(kPass, fn.Pos(), "the helper splits this funding for the requested amount; its two results are returned, plus at most a zero amount")
	if needExact {
		obl.expect(kEpi, fn.Pos(), "a success return lies behind the guard `uncovered amount = 0`")
	}
	args := coreCall.Call.Args
	core := staticCallee(coreCall)
	coreAmount, ownAmount := moneyParam(core), moneyParam(fn)
	okArgs := len(args) >= 2 && coreAmount != nil && ownAmount != nil &&
		(stripLoadOfParamCell(args[0]) == ssa.Value(fn.Params[0]) || descr(args[0], 0) == fn.Params[0].Name())
	if okArgs {
		ai := paramIndex(coreAmount)
		okArgs = ai > 0 && ai < len(args) && stripLoadOfParamCell(args[ai]) == ssa.Value(ownAmount)
	}
	if !okArgs {
		obl.violate(kPass, coreCall.Pos(), "the splitting helper is not applied to this funding and the requested amount", nil)
	}
	// a funding the helper is given to append to (`f.withdraw(result, amount)`): the wrapper's own first result (whose
	// parts are accounted below) or a new, empty one
	var accArgs []ssa.Value
	for i := 1; i < len(args); i++ {
		if isNamed(args[i].Type(), pkgMachine, "Funding") {
			accArgs = append(accArgs, args[i])
		}
	}
	if needExact && leftIdx < 0 {
		obl.violate(kEpi, coreCall.Pos(), "the splitting helper does not report what it could not cover", nil)
		return
	}
	var left aff
	var ext [2]ssa.Value
	for _, r := range *coreCall.Referrers() {
		if ex, ok := r.(*ssa.Extract); ok {
			if ex.Index == leftIdx {
				left = affSym(descr(ex, 0))
			}
			if ex.Index < 2 {
				ext[ex.Index] = ex
			}
		}
	}
	// the two result locals, by return position, must be initialised from the helper's results
	var resLocal [2]*ssa.Alloc
	direct := [2]bool{}
	for _, b := range fn.Blocks {
		if r, ok := b.Instrs[len(b.Instrs)-1].(*ssa.Return); ok && len(r.Results) >= 2 {
			if len(r.Results) > 2 && !isNilConst(r.Results[len(r.Results)-1]) {
				continue
			}
			for k := 0; k < 2; k++ {
				if r.Results[k] == ext[k] && ext[k] != nil {
					direct[k] = true
					continue
				}
				if u, ok := r.Results[k].(*ssa.UnOp); ok && u.Op == token.MUL {
					if a, ok := u.X.(*ssa.Alloc); ok {
						resLocal[k] = a
					}
				}
			}
		}
	}
	for _, acc := range accArgs {
		okAcc := false
		if u, ok := acc.(*ssa.UnOp); ok && u.Op == token.MUL {
			if a, ok := u.X.(*ssa.Alloc); ok {
				if a == resLocal[0] {
					okAcc = true
				} else {
					// a new literal: its Parts field is never assigned
					assigned := false
					for _, r := range *a.Referrers() {
						if fa, ok := r.(*ssa.FieldAddr); ok && sameField(fieldOfAddr(fa), partsF) {
							for _, rr := range *fa.Referrers() {
								if st, ok := rr.(*ssa.Store); ok && st.Addr == ssa.Value(fa) {
									assigned = true
								}
							}
						}
					}
					okAcc = !assigned && a.Comment == "complit"
				}
			}
		}
		if !okAcc {
			obl.violate(kPass, coreCall.Pos(), "the funding the helper appends to is neither the wrapper's own first result nor a new empty funding: parts of unknown origin are handed out", nil)
		}
	}
	for k := 0; k < 2; k++ {
		if direct[k] {
			continue
		}
		okInit := false
		if resLocal[k] != nil {
			for _, r := range *resLocal[k].Referrers() {
				if st, ok := r.(*ssa.Store); ok && st.Addr == ssa.Value(resLocal[k]) && st.Val == ext[k] && ext[k] != nil {
					okInit = true
				}
			}
		}
		if !okInit {
			obl.violate(kPass, fn.Pos(), fmt.Sprintf("result #%d is not the result #%d of the splitting helper", k, k), nil)
		}
	}
	// what the wrapper appends itself, and the guards of its success returns
	hookParts := map[string][]aff{}
	_ = hookParts
	ev := &affEval{c: c, fn: fn, isCell: func(ssa.Value) (string, bool) { return "", false }, zero: zero}
	ev.hook = splitHook(c, fn, resLocal, amountF, accountF, partsF)
	nSucc := 0
	ev.visit = func(p *affPath) {
		if p.ret == nil {
			return
		}
		all := affZero()
		for _, k := range []string{"res0", "res1", "tail0", "tail1"} {
			for _, a := range p.notes[k] {
				all = all.plus(a, 1)
			}
		}
		zeroOK := all.isZero()
		for _, g := range p.guards {
			if g.op == "==0" && (all.equal(g.e) || all.plus(g.e, 1).isZero()) {
				zeroOK = true
			}
		}
		if !zeroOK || len(p.notes["tail0"])+len(p.notes["tail1"]) > 0 {
			obl.violate(kPass, p.ret.Pos(), fmt.Sprintf("on path %s the wrapper adds parts amounting to `%s` to what the helper split (guards %v): funds appear from nowhere", p.trail(), all, p.guards), []string{p.trail()})
		}
		if needExact && isNilConst(p.ret.Results[len(p.ret.Results)-1]) {
			nSucc++
			okG := false
			for _, g := range p.guards {
				if g.op == "==0" && left != nil && (g.e.equal(left) || g.e.equal(affZero().plus(left, -1))) {
					okG = true
				}
			}
			if !okG {
				obl.violate(kEpi, p.ret.Pos(), fmt.Sprintf("a success return is reached without the guard `uncovered amount = 0` (guards %v): a funding shorter than the requested amount is handed out as if it covered it", p.guards), []string{p.trail()})
			}
		}
	}
	if !ev.run(nil) {
		obl.undecided(key("path-budget"), fn.Pos(), "too many paths")
	}
	if needExact && nSucc == 0 {
		obl.undecided(key("success-paths"), fn.Pos(), "no success return found")
	}
}

func fundingSplit(c *Ctx, rule string, fn *ssa.Function, name string, amountF, accountF, partsF *types.Var, zero *ssa.Global, needExact bool, leftIdx int) {
	obl := newOblSet(c, rule)
	defer obl.flush()
	key := func(s string) string { return "Funding." + name + ":" + s }
	kPro, kIter, kHand, kEnd, kEpi := key("prologue"), key("each-iteration-conserves"), key("hand-over"), key("every-part-is-consumed"), key("success-only-when-nothing-remains")
	obl.expect(kPro, fn.Pos(), "the loops start with R := amount at the first part, nothing but a zero amount appended before them")
	obl.expect(kIter, fn.Pos(), "per iteration: appended parts add up to the consumed part A_i with its account; R decreases by what the first result received; no part exceeds what remains")
	obl.expect(kHand, fn.Pos(), "between two loops nothing is appended and the next loop continues at the index (and remaining amount) where the previous one stopped")
	obl.expect(kEnd, fn.Pos(), "the function returns only when the parts are exhausted or the rest was appended to the second result")
	if needExact {
		obl.expect(kEpi, fn.Pos(), "a success return lies behind the guard R = 0")
	}
	if len(fn.Params) < 2 {
		obl.undecided(key("loop-structure"), fn.Pos(), "unexpected signature")
		return
	}
	heads := loopHeads(fn)
	// the two result locals, by return position
	var resLocal [2]*ssa.Alloc
	for _, b := range fn.Blocks {
		if r, ok := b.Instrs[len(b.Instrs)-1].(*ssa.Return); ok && len(r.Results) >= 2 {
			for k := 0; k < 2; k++ {
				if u, ok := r.Results[k].(*ssa.UnOp); ok && u.Op == token.MUL {
					if a, ok := u.X.(*ssa.Alloc); ok {
						resLocal[k] = a
					}
				}
			}
		}
	}
	type loopInfo struct {
		head     *ssa.BasicBlock
		money    *ssa.Phi
		idx      *ssa.Phi
		isRange  bool
		elemIdx  string // description of the value that indexes f.Parts in the body
		elemAff  aff
		base     ssa.Value // the slice the loop indexes: f.Parts, or f.Parts[low:]
		baseD    string
		low      ssa.Value // non-nil when base is f.Parts[low:]
	}
	loops := map[*ssa.BasicBlock]*loopInfo{}
	for h := range heads {
		li := &loopInfo{head: h}
		nMoney, nInt := 0, 0
		for _, ins := range h.Instrs {
			phi, ok := ins.(*ssa.Phi)
			if !ok {
				break
			}
			if strings.HasSuffix(phi.Type().String(), "machine.MonetaryInt") {
				li.money = phi
				nMoney++
			} else if b, ok := phi.Type().Underlying().(*types.Basic); ok && b.Info()&types.IsInteger != 0 {
				li.idx = phi
				nInt++
			}
		}
		if nInt != 1 || nMoney > 1 {
			obl.undecided(key("loop-structure"), fn.Pos(), fmt.Sprintf("loop at block %d carries %d index and %d money values (expected one index, at most one amount)", h.Index, nInt, nMoney))
			return
		}
		li.elemIdx, li.elemAff = descr(li.idx, 0), affSym(descr(li.idx, 0))
		if li.idx.Comment == "rangeindex" {
			li.isRange = true
			for _, r := range *li.idx.Referrers() {
				if bo, ok := r.(*ssa.BinOp); ok && bo.Op == token.ADD && bo.X == ssa.Value(li.idx) {
					if n, isC := constInt(bo.Y); isC && n == 1 {
						li.elemIdx = bo.Name()
						li.elemAff = affSym(descr(li.idx, 0)).plus(aff{"1": 1}, 1)
					}
				}
			}
		}
		// the slice indexed with the loop's index
		var idxVal ssa.Value = li.idx
		if li.isRange {
			for _, r := range *li.idx.Referrers() {
				if bo, ok := r.(*ssa.BinOp); ok && bo.Op == token.ADD && bo.X == ssa.Value(li.idx) {
					idxVal = bo
				}
			}
		}
		for _, b := range fn.Blocks {
			for _, ins := range b.Instrs {
				if ia, ok := ins.(*ssa.IndexAddr); ok && ia.Index == idxVal {
					root := ia.X
					if sl, ok := root.(*ssa.Slice); ok && sl.High == nil && sl.Low != nil {
						if descr(sl.X, 0) == fn.Params[0].Name()+".Parts" {
							li.base, li.baseD, li.low = sl, descr(sl, 0), sl.Low
						}
					} else if descr(root, 0) == fn.Params[0].Name()+".Parts" {
						li.base, li.baseD = root, descr(root, 0)
					}
				}
			}
		}
		if li.base == nil {
			obl.undecided(key("loop-structure"), fn.Pos(), fmt.Sprintf("the loop at block %d does not index the parts of the funding with its index", h.Index))
			return
		}
		loops[h] = li
	}
	if len(loops) == 0 || resLocal[0] == nil || resLocal[1] == nil {
		obl.undecided(key("loop-structure"), fn.Pos(), "no loop over the parts, or the two result locals were not found")
		return
	}
	amountParam := moneyParam(fn)
	if amountParam == nil {
		obl.undecided(key("loop-structure"), fn.Pos(), "the function does not take exactly one amount")
		return
	}
	amountSym := affSym(amountParam.Name())
	partAmount := func(li *loopInfo) aff { return affSym(li.baseD + "[" + li.elemIdx + "].Amount") }
	partAccount := func(li *loopInfo) string { return li.baseD + "[" + li.elemIdx + "].Account" }

	hook := splitHook(c, fn, resLocal, amountF, accountF, partsF)
	sum := func(as []aff) aff {
		t := affZero()
		for _, a := range as {
			t = t.plus(a, 1)
		}
		return t
	}
	// a ≡ b possibly using one `g == 0` guard of the path
	eqUnder := func(p *affPath, a, b aff) bool {
		d := a.plus(b, -1)
		if d.isZero() {
			return true
		}
		for _, g := range p.guards {
			if g.op != "==0" {
				continue
			}
			for _, k := range []int64{1, -1, 2, -2} {
				if d.plus(g.e, -k).isZero() {
					return true
				}
			}
		}
		return false
	}
	// exhausted: the path left loop li through the false side of `index < len(f.Parts)`
	exhausted := func(p *affPath, li *loopInfo) bool {
		for _, f := range p.facts {
			bo, ok := f.X.(*ssa.BinOp)
			if !ok || bo.Op != token.LSS {
				continue
			}
			b, isB := constBool(f.Y)
			if !isB || (b == f.Eq) != false {
				continue
			}
			lenCall, ok := bo.Y.(*ssa.Call)
			if !ok {
				continue
			}
			if bi, ok := lenCall.Call.Value.(*ssa.Builtin); !ok || bi.Name() != "len" || descr(lenCall.Call.Args[0], 0) != li.baseD {
				continue
			}
			if bo.X == ssa.Value(li.idx) || bo.X.Name() == li.elemIdx {
				return true
			}
		}
		return false
	}
	var ev *affEval
	seen := map[string]int{}
	visit := func(start *ssa.BasicBlock) func(p *affPath) {
		return func(p *affPath) {
			if len(p.strs["bad"]) > 0 {
				obl.violate(kIter, fn.Pos(), "a result's part list is rebuilt from something else than itself plus freshly built parts (at "+strings.Join(p.strs["bad"], ", ")+")", []string{p.trail()})
			}
			res0, res1 := p.notes["res0"], p.notes["res1"]
			accs := append(append([]string(nil), p.strs["res0"]...), p.strs["res1"]...)
			all := sum(append(append([]aff(nil), res0...), res1...))
			tails0, tails1 := p.notes["tail0"], p.notes["tail1"]
			s, e := loops[start], loops[p.endHead]
			switch {
			case p.endHead != nil && s == nil: // prologue: entry → loop e
				seen["prologue"]++
				if e.money != nil {
					if r, _ := ev.phiIn(p, e.money); !r.equal(amountSym) {
						obl.violate(kPro, fn.Pos(), fmt.Sprintf("the loop starts with `%s` still to take instead of the requested amount", r), []string{p.trail()})
					}
				}
				if i, _ := ev.phiIn(p, e.idx); !e.isRange && !i.isZero() {
					obl.violate(kPro, fn.Pos(), fmt.Sprintf("the loop starts at part `%s` instead of part 0", i), []string{p.trail()})
				}
				if e.low != nil {
					if lo := ev.of(p, e.low); !lo.isZero() {
						obl.violate(kPro, fn.Pos(), fmt.Sprintf("the first loop ranges over the parts from `%s` on instead of from the first one", lo), []string{p.trail()})
					}
				}
				if !eqUnder(p, all, affZero()) || len(tails0)+len(tails1) > 0 {
					obl.violate(kPro, fn.Pos(), fmt.Sprintf("before the loops parts adding up to `%s` are handed out under guards %v: funds appear from nowhere", all, p.guards), []string{p.trail()})
				}
			case p.endHead != nil && s == e: // one iteration of loop s
				seen["iteration"]++
				A := partAmount(s)
				if len(tails0)+len(tails1) > 0 {
					obl.violate(kIter, fn.Pos(), "the rest of the funding is appended in an iteration that continues the loop: the parts after this one are handed out twice", []string{p.trail()})
				}
				if !eqUnder(p, all, A) {
					obl.violate(kIter, fn.Pos(), fmt.Sprintf("on path %s the parts appended in one iteration add up to `%s` instead of the consumed part `%s`: the split creates or loses funds", p.trail(), all, A), []string{p.trail()})
				}
				for _, acc := range accs {
					if acc != partAccount(s) {
						obl.violate(kIter, fn.Pos(), fmt.Sprintf("a part built from part %s is attributed to `%s` instead of `%s`: the posting will debit another account than the one the funds were withdrawn from", s.elemIdx, acc, partAccount(s)), []string{p.trail()})
					}
				}
				R := affZero()
				if s.money != nil {
					R = affSym(descr(s.money, 0))
					r, _ := ev.phiIn(p, s.money)
					if !eqUnder(p, R.plus(r, -1), sum(res0)) {
						obl.violate(kIter, fn.Pos(), fmt.Sprintf("on path %s the amount still to take goes from `%s` to `%s` while `%s` is appended to the result: what is taken and what is counted as taken differ", p.trail(), R, r, sum(res0)), []string{p.trail()})
					}
				} else if len(res0) > 0 {
					obl.violate(kIter, fn.Pos(), "a loop that does not carry the amount still to take appends to the result", []string{p.trail()})
				}
				if !s.isRange {
					I := affSym(descr(s.idx, 0))
					if i, _ := ev.phiIn(p, s.idx); !i.equal(I.plus(aff{"1": 1}, 1)) {
						obl.violate(kIter, fn.Pos(), fmt.Sprintf("the part index goes from `%s` to `%s` (expected +1): a part is skipped or consumed twice", I, i), []string{p.trail()})
					}
				}
				for _, t := range res0 {
					okT := t.equal(R) || (t.equal(A) && impliesNonNegative(p.guards, R.plus(A, -1)))
					if !okT {
						obl.violate(kIter, fn.Pos(), fmt.Sprintf("on path %s `%s` is taken from a part while `%s` remains to be taken, under guards %v: more than requested (or than the part holds) can be taken", p.trail(), t, R, p.guards), []string{p.trail()})
					}
				}
				for _, t := range res1 {
					if !(t.equal(A) || (t.equal(A.plus(R, -1)) && impliesNonNegative(p.guards, t))) {
						obl.violate(kIter, fn.Pos(), fmt.Sprintf("on path %s `%s` is left in the remainder under guards %v: not the part itself nor its provably non-negative excess", p.trail(), t, p.guards), []string{p.trail()})
					}
				}
			case p.endHead != nil: // hand-over s → e
				seen["hand-over"]++
				if len(res0)+len(res1)+len(tails0)+len(tails1) > 0 {
					obl.violate(kHand, fn.Pos(), fmt.Sprintf("parts adding up to `%s` are appended between two loops", all), []string{p.trail()})
				}
				j, _ := ev.phiIn(p, e.idx)
				okStart := !e.isRange && e.low == nil && j.equal(s.elemAff)
				if e.isRange && e.low != nil {
					// `for … range f.Parts[i:]`: the tail starts at the previous loop's current part
					okStart = ev.of(p, e.low).equal(s.elemAff)
				}
				if !okStart {
					obl.violate(kHand, fn.Pos(), fmt.Sprintf("the next loop does not start at `%s`, where the previous one stopped: parts are skipped or consumed twice", s.elemAff), []string{p.trail()})
				}
				if e.money != nil {
					want := amountSym
					if s.money != nil {
						want = affSym(descr(s.money, 0))
					}
					if r, _ := ev.phiIn(p, e.money); !r.equal(want) {
						obl.violate(kHand, fn.Pos(), fmt.Sprintf("the next loop starts with `%s` still to take instead of `%s`", r, want), []string{p.trail()})
					}
				}
			case p.ret != nil:
				seen["return"]++
				if leftIdx >= 0 && leftIdx < len(p.ret.Results) {
					// the helper reports what it could not cover: the loop-carried amount itself
					okLeft := false
					for _, li := range loops {
						if li.money != nil && ev.of(p, p.ret.Results[leftIdx]).equal(affSym(descr(li.money, 0))) {
							okLeft = true
						}
					}
					if !okLeft {
						obl.violate(kEnd, p.ret.Pos(), fmt.Sprintf("the amount reported as not covered is `%s`, not the amount the loop still had to take", ev.of(p, p.ret.Results[leftIdx])), []string{p.trail()})
					}
				}
				if s != nil {
					// leaving loop s for good
					tailOK := len(tails1) == 1 && len(tails0) == 0 && len(res0)+len(res1) == 0 && tails1[0].equal(s.elemAff)
					if len(tails0)+len(tails1)+len(res0)+len(res1) > 0 && !tailOK {
						obl.violate(kEnd, p.ret.Pos(), fmt.Sprintf("on the way out of the loop parts are appended that are not exactly the rest of the funding from the current part on (result: %v %v, remainder: %v %v, current part %s)", res0, tails0, res1, tails1, s.elemAff), []string{p.trail()})
					}
					if !tailOK && !exhausted(p, s) {
						obl.violate(kEnd, p.ret.Pos(), "the function returns from inside the loop over the parts without having consumed (or handed back) the remaining parts: funds disappear", []string{p.trail()})
					}
				} else if len(res0)+len(res1)+len(tails0)+len(tails1) > 0 {
					if !eqUnder(p, all, affZero()) {
						obl.violate(kPro, p.ret.Pos(), "parts are handed out on a path that never enters the loops", []string{p.trail()})
					}
				}
				if needExact && isNilConst(p.ret.Results[len(p.ret.Results)-1]) {
					seen["success"]++
					okG := false
					for _, li := range loops {
						if li.money == nil {
							continue
						}
						R := affSym(descr(li.money, 0))
						for _, g := range p.guards {
							if g.op == "==0" && (g.e.equal(R) || g.e.equal(affZero().plus(R, -1))) {
								okG = true
							}
						}
					}
					if !okG {
						obl.violate(kEpi, p.ret.Pos(), fmt.Sprintf("a success return is reached without the guard `remaining = 0` (guards %v): a funding shorter than the requested amount is handed out as if it covered it", p.guards), []string{p.trail()})
					}
				}
			default:
				obl.undecided(key("segment"), fn.Pos(), fmt.Sprintf("unexpected segment from block %d", start.Index))
			}
		}
	}
	starts := []*ssa.BasicBlock{fn.Blocks[0]}
	for _, b := range fn.Blocks {
		if heads[b] {
			starts = append(starts, b)
		}
	}
	for _, s := range starts {
		ev = &affEval{c: c, fn: fn, isCell: func(ssa.Value) (string, bool) { return "", false }, amountF: nil, zero: zero, heads: heads, hook: hook}
		ev.visit = visit(s)
		if !ev.run(s) {
			obl.undecided(key("path-budget"), fn.Pos(), "too many paths")
		}
	}
	if seen["prologue"] == 0 || seen["iteration"] == 0 || seen["return"] == 0 || (needExact && seen["success"] == 0) {
		obl.undecided(key("segments-seen"), fn.Pos(), fmt.Sprintf("segments seen: %v", seen))
	}
}

// splitHook: bookkeeping of appended parts: amount and account per part value → array → result local.
func splitHook(c *Ctx, fn *ssa.Function, resLocal [2]*ssa.Alloc, amountF, accountF, partsF *types.Var) func(p *affPath, ins ssa.Instruction) {
	fName := fn.Params[0].Name()
	return func(p *affPath, ins ssa.Instruction) {
		st, ok := ins.(*ssa.Store)
		if !ok {
			return
		}
		switch a := st.Addr.(type) {
		case *ssa.Alloc:
			// part := f.Parts[i] (a whole part copied into a local)
			if isNamed(a.Type().(*types.Pointer).Elem(), pkgMachine, "FundingPart") {
				d := descr(st.Val, 0)
				p.notes["lit:"+a.Name()] = []aff{affSym(d + ".Amount")}
				p.strs["lit:"+a.Name()] = []string{d + ".Account"}
			}
		case *ssa.FieldAddr:
			f := fieldOfAddr(a)
			if lit, ok := a.X.(*ssa.Alloc); ok {
				if sameField(f, amountF) {
					p.notes["lit:"+lit.Name()] = []aff{affOfHook(p, st.Val)}
				}
				if sameField(f, accountF) {
					p.strs["lit:"+lit.Name()] = []string{descr(st.Val, 0)}
				}
				if sameField(f, partsF) {
					which := -1
					for k := 0; k < 2; k++ {
						if lit == resLocal[k] {
							which = k
						}
					}
					call, isCall := st.Val.(*ssa.Call)
					okShape := false
					if which >= 0 && isCall {
						if bi, ok := call.Call.Value.(*ssa.Builtin); ok && bi.Name() == "append" && len(call.Call.Args) == 2 {
							if _, base := anyFieldRead(call.Call.Args[0]); base == ssa.Value(lit) {
								if sl, ok := call.Call.Args[1].(*ssa.Slice); ok {
									rk := fmt.Sprintf("res%d", which)
									if arr, ok := sl.X.(*ssa.Alloc); ok {
										okShape = true
										p.notes[rk] = append(p.notes[rk], p.notes["arr:"+arr.Name()]...)
										p.strs[rk] = append(p.strs[rk], p.strs["arr:"+arr.Name()]...)
									} else if descr(sl.X, 0) == fName+".Parts" && sl.Low != nil && sl.High == nil {
										// the rest of the funding from an index on
										okShape = true
										p.notes[fmt.Sprintf("tail%d", which)] = append(p.notes[fmt.Sprintf("tail%d", which)], affOfHook(p, sl.Low))
									}
								}
							}
						}
					}
					if !okShape {
						p.strs["bad"] = append(p.strs["bad"], c.pos(st.Pos()))
					}
				}
			}
		case *ssa.IndexAddr:
			// arr[k] = load(part value)
			if arr, ok := a.X.(*ssa.Alloc); ok {
				if u, ok := st.Val.(*ssa.UnOp); ok && u.Op == token.MUL {
					if lit, ok := u.X.(*ssa.Alloc); ok {
						p.notes["arr:"+arr.Name()] = append(p.notes["arr:"+arr.Name()], p.notes["lit:"+lit.Name()]...)
						p.strs["arr:"+arr.Name()] = append(p.strs["arr:"+arr.Name()], p.strs["lit:"+lit.Name()]...)
					}
				}
			}
		}
	}
}

// affOfHook evaluates a value in the path's environment (the hook has no access to the evaluator).
func affOfHook(p *affPath, v ssa.Value) aff {
	if a, ok := p.val[v]; ok {
		return a
	}
	for i := 0; i < 4; i++ {
		switch x := v.(type) {
		case *ssa.ChangeType:
			v = x.X
			if a, ok := p.val[v]; ok {
				return a
			}
		case *ssa.Convert:
			v = x.X
			if a, ok := p.val[v]; ok {
				return a
			}
		}
	}
	return affSym(descr(v, 0))
}

// moneyParam: the only parameter of type *MonetaryInt (the requested amount of a splitting function).
func moneyParam(fn *ssa.Function) *ssa.Parameter {
	var out *ssa.Parameter
	for _, p := range fn.Params {
		if strings.HasSuffix(p.Type().String(), "machine.MonetaryInt") {
			if out != nil {
				return nil
			}
			out = p
		}
	}
	return out
}
