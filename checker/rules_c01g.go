package main

// R01g — Funding.Take / Funding.TakeMax split a funding without creating or losing money, decided as a
// loop invariant in the affine domain (affine.go, segment mode: paths are cut at loop heads, whose phis are
// arbitrary, so every segment is one loop iteration, the prologue, the hand-over between the loops or the
// epilogue).
//
// Let R be the loop-carried amount still to take and i the loop-carried index of the taking loop, j the
// index of the draining loop, A_k = f.Parts[k].Amount.
//   prologue        R := amount, i := 0, and what was appended adds up to 0 (the zero-amount marker part)
//   taking loop     the parts appended to the two results add up to A_i and carry the account of part i;
//                   R decreases by exactly what was appended to the first result; a part of the first result
//                   is R itself or A_i under the guard A_i ≤ R; a part of the second is A_i − R under the guard
//                   A_i > R; i := i + 1
//   hand-over       nothing appended, j := i
//   draining loop   one part A_j with the account of part j appended to the second result only; j := j + 1
//   epilogue        (Take) a success return lies behind the guard R = 0
// Together: first result + second result = f, first result = amount − R, R = 0 on success.

import (
	"fmt"
	"go/token"
	"go/types"
	"strings"

	"golang.org/x/tools/go/ssa"
)

func ruleR01g(c *Ctx) {
	const rule = "R01g"
	amountF := c.MustField(rule, pkgMachine, "FundingPart", "Amount")
	accountF := c.MustField(rule, pkgMachine, "FundingPart", "Account")
	partsF := c.MustField(rule, pkgMachine, "Funding", "Parts")
	if amountF == nil || accountF == nil || partsF == nil {
		return
	}
	var zero *ssa.Global
	if p := c.SSAPkg(pkgMachine); p != nil {
		zero, _ = p.Members["Zero"].(*ssa.Global)
	}
	for _, name := range []string{"Take", "TakeMax"} {
		fn := c.MustFn(rule, pkgMachine, "Funding."+name)
		if fn == nil {
			continue
		}
		fundingSplit(c, rule, fn, name, amountF, accountF, partsF, zero, name == "Take")
	}
}

func fundingSplit(c *Ctx, rule string, fn *ssa.Function, name string, amountF, accountF, partsF *types.Var, zero *ssa.Global, needExact bool) {
	obl := newOblSet(c, rule)
	defer obl.flush()
	key := func(s string) string { return "Funding." + name + ":" + s }
	kPro, kIter, kHand, kDrain, kEpi := key("prologue"), key("taking-loop-conserves"), key("hand-over"), key("draining-loop-conserves"), key("success-only-when-nothing-remains")
	obl.expect(kPro, fn.Pos(), "R := amount, i := 0, nothing but a zero amount appended")
	obl.expect(kIter, fn.Pos(), "per iteration: appended parts add up to A_i with the account of part i; R decreases by what the first result received; no part exceeds what remains; i advances by one")
	obl.expect(kHand, fn.Pos(), "between the loops nothing is appended and the draining index starts where the taking index stopped")
	obl.expect(kDrain, fn.Pos(), "per iteration: A_j with the account of part j goes to the second result; j advances by one")
	if needExact {
		obl.expect(kEpi, fn.Pos(), "a success return lies behind the guard R = 0")
	}
	heads := loopHeads(fn)
	// the two result locals, by return position
	var resLocal [2]*ssa.Alloc
	for _, b := range fn.Blocks {
		if r, ok := b.Instrs[len(b.Instrs)-1].(*ssa.Return); ok && len(r.Results) >= 2 {
			for k := 0; k < 2; k++ {
				if u, ok := r.Results[k].(*ssa.UnOp); ok && u.Op == token.MUL {
					if a, ok := u.X.(*ssa.Alloc); ok {
						resLocal[k] = a
					}
				}
			}
		}
	}
	// loop heads: the taking loop carries a money value, the draining loop only an index
	var takeHead, drainHead *ssa.BasicBlock
	var rPhi, iPhi, jPhi *ssa.Phi
	for h := range heads {
		var money, ints []*ssa.Phi
		for _, ins := range h.Instrs {
			phi, ok := ins.(*ssa.Phi)
			if !ok {
				break
			}
			if isNamed(phi.Type(), pkgMachine, "MonetaryInt") || strings.HasSuffix(phi.Type().String(), "machine.MonetaryInt") {
				money = append(money, phi)
			} else if b, ok := phi.Type().Underlying().(*types.Basic); ok && b.Info()&types.IsInteger != 0 {
				ints = append(ints, phi)
			}
		}
		switch {
		case len(money) == 1 && len(ints) == 1 && takeHead == nil:
			takeHead, rPhi, iPhi = h, money[0], ints[0]
		case len(money) == 0 && len(ints) == 1 && drainHead == nil:
			drainHead, jPhi = h, ints[0]
		default:
			obl.undecided(key("loop-structure"), fn.Pos(), "the function does not have the expected loop structure (one loop carrying the remaining amount and an index, one loop carrying an index)")
			return
		}
	}
	if takeHead == nil || drainHead == nil || resLocal[0] == nil || resLocal[1] == nil || len(fn.Params) < 2 {
		obl.undecided(key("loop-structure"), fn.Pos(), "taking loop, draining loop or the two result locals not found")
		return
	}
	fName := fn.Params[0].Name()
	amountSym := affSym(fn.Params[1].Name())
	R, I, J := affSym(descr(rPhi, 0)), affSym(descr(iPhi, 0)), affSym(descr(jPhi, 0))
	partAmount := func(idx *ssa.Phi) aff {
		return affSym(fName + ".Parts[" + descr(idx, 0) + "].Amount")
	}
	partAccount := func(idx *ssa.Phi) string { return fName + ".Parts[" + descr(idx, 0) + "].Account" }

	// bookkeeping of appended parts: amount and account per part literal → array → result local
	hook := func(p *affPath, ins ssa.Instruction) {
		st, ok := ins.(*ssa.Store)
		if !ok {
			return
		}
		switch a := st.Addr.(type) {
		case *ssa.FieldAddr:
			f := fieldOfAddr(a)
			if lit, ok := a.X.(*ssa.Alloc); ok {
				if sameField(f, amountF) {
					p.notes["lit:"+lit.Name()] = []aff{affOfHook(p, st.Val)}
				}
				if sameField(f, accountF) {
					p.strs["lit:"+lit.Name()] = []string{descr(st.Val, 0)}
				}
				if sameField(f, partsF) {
					// L.Parts = append(load L.Parts, slice(arr)…)
					which := -1
					for k := 0; k < 2; k++ {
						if lit == resLocal[k] {
							which = k
						}
					}
					call, isCall := st.Val.(*ssa.Call)
					okShape := false
					if which >= 0 && isCall {
						if bi, ok := call.Call.Value.(*ssa.Builtin); ok && bi.Name() == "append" && len(call.Call.Args) == 2 {
							if _, base := anyFieldRead(call.Call.Args[0]); base == ssa.Value(lit) {
								if sl, ok := call.Call.Args[1].(*ssa.Slice); ok {
									if arr, ok := sl.X.(*ssa.Alloc); ok {
										okShape = true
										rk := fmt.Sprintf("res%d", which)
										p.notes[rk] = append(p.notes[rk], p.notes["arr:"+arr.Name()]...)
										p.strs[rk] = append(p.strs[rk], p.strs["arr:"+arr.Name()]...)
									}
								}
							}
						}
					}
					if !okShape {
						p.strs["bad"] = append(p.strs["bad"], c.pos(st.Pos()))
					}
				}
			}
		case *ssa.IndexAddr:
			// arr[k] = load(part literal)
			if arr, ok := a.X.(*ssa.Alloc); ok {
				if u, ok := st.Val.(*ssa.UnOp); ok && u.Op == token.MUL {
					if lit, ok := u.X.(*ssa.Alloc); ok {
						p.notes["arr:"+arr.Name()] = append(p.notes["arr:"+arr.Name()], p.notes["lit:"+lit.Name()]...)
						p.strs["arr:"+arr.Name()] = append(p.strs["arr:"+arr.Name()], p.strs["lit:"+lit.Name()]...)
					}
				}
			}
		}
	}
	sum := func(as []aff) aff {
		t := affZero()
		for _, a := range as {
			t = t.plus(a, 1)
		}
		return t
	}
	// a ≡ b possibly using one `g == 0` guard of the path
	eqUnder := func(p *affPath, a, b aff) bool {
		d := a.plus(b, -1)
		if d.isZero() {
			return true
		}
		for _, g := range p.guards {
			if g.op != "==0" {
				continue
			}
			for _, k := range []int64{1, -1, 2, -2} {
				if d.plus(g.e, -k).isZero() {
					return true
				}
			}
		}
		return false
	}
	var ev *affEval
	nIter, nDrain, nPro, nHand, nEpi := 0, 0, 0, 0, 0
	visit := func(start *ssa.BasicBlock) func(p *affPath) {
		return func(p *affPath) {
			if len(p.strs["bad"]) > 0 {
				obl.violate(kIter, fn.Pos(), "a result's part list is rebuilt from something else than itself plus freshly built parts (at "+strings.Join(p.strs["bad"], ", ")+")", []string{p.trail()})
			}
			res0, res1 := p.notes["res0"], p.notes["res1"]
			all := sum(append(append([]aff(nil), res0...), res1...))
			switch {
			case start == fn.Blocks[0] && p.endHead == takeHead: // prologue
				nPro++
				r, _ := ev.phiIn(p, rPhi)
				i, _ := ev.phiIn(p, iPhi)
				if !r.equal(amountSym) || !i.isZero() {
					obl.violate(kPro, fn.Pos(), fmt.Sprintf("the taking loop starts with R = %s and i = %s (expected the requested amount and 0)", r, i), []string{p.trail()})
				}
				if !eqUnder(p, all, affZero()) {
					obl.violate(kPro, fn.Pos(), fmt.Sprintf("before the loops parts adding up to `%s` are handed out under guards %v: funds appear from nowhere", all, p.guards), []string{p.trail()})
				}
			case start == takeHead && p.endHead == takeHead: // one taking iteration
				nIter++
				A := partAmount(iPhi)
				if !all.equal(A) {
					obl.violate(kIter, fn.Pos(), fmt.Sprintf("on path %s the parts appended in one iteration add up to `%s` instead of the consumed part `%s`: the split creates or loses funds", p.trail(), all, A), []string{p.trail()})
				}
				for _, acc := range append(append([]string(nil), p.strs["res0"]...), p.strs["res1"]...) {
					if acc != partAccount(iPhi) {
						obl.violate(kIter, fn.Pos(), fmt.Sprintf("a part built from part i is attributed to `%s` instead of `%s`: the posting will debit another account than the one the funds were withdrawn from", acc, partAccount(iPhi)), []string{p.trail()})
					}
				}
				r, _ := ev.phiIn(p, rPhi)
				if !R.plus(r, -1).equal(sum(res0)) {
					obl.violate(kIter, fn.Pos(), fmt.Sprintf("on path %s the remaining amount goes from `%s` to `%s` while `%s` is appended to the result: what is taken and what is counted as taken differ", p.trail(), R, r, sum(res0)), []string{p.trail()})
				}
				i, _ := ev.phiIn(p, iPhi)
				if !i.equal(I.plus(aff{"1": 1}, 1)) {
					obl.violate(kIter, fn.Pos(), fmt.Sprintf("the part index goes from `%s` to `%s` (expected +1): a part is skipped or consumed twice", I, i), []string{p.trail()})
				}
				for _, t := range res0 {
					okT := t.equal(R) || (t.equal(A) && impliesNonNegative(p.guards, R.plus(A, -1)))
					if !okT {
						obl.violate(kIter, fn.Pos(), fmt.Sprintf("on path %s `%s` is taken from a part while `%s` remains to be taken, under guards %v: more than requested (or than the part holds) can be taken", p.trail(), t, R, p.guards), []string{p.trail()})
					}
				}
				for _, t := range res1 {
					if !(t.equal(A.plus(R, -1)) && impliesNonNegative(p.guards, t)) {
						obl.violate(kIter, fn.Pos(), fmt.Sprintf("on path %s `%s` is left in the remainder under guards %v: not the provably non-negative excess of the part", p.trail(), t, p.guards), []string{p.trail()})
					}
				}
			case start == takeHead && p.endHead == drainHead: // hand-over
				nHand++
				j, _ := ev.phiIn(p, jPhi)
				if !all.isZero() || len(res0)+len(res1) > 0 || !j.equal(I) {
					obl.violate(kHand, fn.Pos(), fmt.Sprintf("between the loops: appended `%s`, draining index starts at `%s` instead of `%s`: the parts not consumed by the taking loop are not exactly the ones drained", all, j, I), []string{p.trail()})
				}
			case start == drainHead && p.endHead == drainHead:
				nDrain++
				A := partAmount(jPhi)
				if len(res0) > 0 || !sum(res1).equal(A) || len(res1) != 1 {
					obl.violate(kDrain, fn.Pos(), fmt.Sprintf("a draining iteration appends `%s` to the result and `%s` to the remainder instead of nothing and `%s`", sum(res0), sum(res1), A), []string{p.trail()})
				}
				for _, acc := range p.strs["res1"] {
					if acc != partAccount(jPhi) {
						obl.violate(kDrain, fn.Pos(), fmt.Sprintf("a drained part is attributed to `%s` instead of `%s`", acc, partAccount(jPhi)), []string{p.trail()})
					}
				}
				j, _ := ev.phiIn(p, jPhi)
				if !j.equal(J.plus(aff{"1": 1}, 1)) {
					obl.violate(kDrain, fn.Pos(), fmt.Sprintf("the draining index goes from `%s` to `%s` (expected +1)", J, j), []string{p.trail()})
				}
			case p.ret != nil:
				if len(res0)+len(res1) > 0 && start != fn.Blocks[0] {
					obl.violate(kDrain, p.ret.Pos(), "parts are appended after the loops", []string{p.trail()})
				}
				if needExact && isNilConst(p.ret.Results[len(p.ret.Results)-1]) {
					nEpi++
					okG := false
					for _, g := range p.guards {
						if g.op == "==0" && (g.e.equal(R) || g.e.equal(affZero().plus(R, -1))) {
							okG = true
						}
					}
					if !okG {
						obl.violate(kEpi, p.ret.Pos(), fmt.Sprintf("a success return is reached without the guard `%s = 0` (guards %v): a funding shorter than the requested amount is handed out as if it covered it", R, p.guards), []string{p.trail()})
					}
				}
			default:
				obl.undecided(key("segment"), fn.Pos(), fmt.Sprintf("unexpected segment from block %d to %v", start.Index, p.endHead))
			}
		}
	}
	starts := []*ssa.BasicBlock{fn.Blocks[0], takeHead, drainHead}
	for _, s := range starts {
		ev = &affEval{c: c, fn: fn, isCell: func(ssa.Value) (string, bool) { return "", false }, amountF: nil, zero: zero, heads: heads, hook: hook}
		ev.visit = visit(s)
		if !ev.run(s) {
			obl.undecided(key("path-budget"), fn.Pos(), "too many paths")
		}
	}
	if nPro == 0 || nIter == 0 || nHand == 0 || nDrain == 0 || (needExact && nEpi == 0) {
		obl.undecided(key("segments-seen"), fn.Pos(), fmt.Sprintf("segments seen: prologue %d, taking %d, hand-over %d, draining %d, success returns %d", nPro, nIter, nHand, nDrain, nEpi))
	}
}

// affOfHook evaluates a value in the path's environment (the hook has no access to the evaluator).
func affOfHook(p *affPath, v ssa.Value) aff {
	if a, ok := p.val[v]; ok {
		return a
	}
	for i := 0; i < 4; i++ {
		switch x := v.(type) {
		case *ssa.ChangeType:
			v = x.X
			if a, ok := p.val[v]; ok {
				return a
			}
		case *ssa.Convert:
			v = x.X
			if a, ok := p.val[v]; ok {
				return a
			}
		}
	}
	return affSym(descr(v, 0))
}
