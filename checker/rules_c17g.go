package main

// R17g — walking a collection page by page follows the `next` token.
//
// Functions of the repository that fetch a page, read a token out of the cursor they were handed and decode it into
// the query of the following fetch (bunpaginate.Iterate, used by the ledger listings of the driver, the analytics
// worker and the v1 info handler) take that token from the field `Next` of the cursor. Decided for every call of
// UnmarshalCursor inside a loop whose argument is read from a field of api.Cursor.

import (
	"fmt"
	"go/token"
	"go/types"
	"sort"

	"golang.org/x/tools/go/ssa"
)

func ruleR17g(c *Ctx) {
	const rule = "R17g"
	var fns []*ssa.Function
	for _, fn := range c.RepoFuncs() {
		if len(fn.Blocks) > 0 {
			fns = append(fns, fn)
		}
	}
	sort.Slice(fns, func(i, j int) bool { return fns[i].Pos() < fns[j].Pos() })
	n := 0
	done := map[string]bool{}
	for _, fn := range fns {
		for _, b := range fn.Blocks {
			for _, ins := range b.Instrs {
				call, ok := ins.(*ssa.Call)
				if !ok {
					continue
				}
				g := staticCallee(call)
				if g == nil || origName(g) != "UnmarshalCursor" || len(call.Call.Args) < 1 {
					continue
				}
				f, base := anyFieldRead(call.Call.Args[0])
				if f == nil || !isCursorType(base.Type()) {
					continue
				}
				if !blockInLoop(b) {
					continue
				}
				key := fmt.Sprintf("%s:following-page-is-next", fnName(origin(fn)))
				if done[key] {
					continue
				}
				done[key] = true
				n++
				if f.Name() == "Next" {
					c.ok(rule, key, call.Pos(), "the query of the following fetch is decoded from Cursor.Next")
				} else {
					c.bad(rule, key, call.Pos(), "the page walk decodes the query of the following fetch from Cursor."+f.Name()+" instead of Cursor.Next: the walk does not advance (pages are skipped, repeated, or the decode of an empty token fails)")
				}
			}
		}
	}
	if n < 1 {
		c.undecided(rule, "floor:page-walks", token.NoPos, "no loop decoding the token of a fetched cursor found (bunpaginate.Iterate and its copy in internal/storage/paginate confirmed by reading)")
	}
}

func blockInLoop(b *ssa.BasicBlock) bool {
	seen := map[*ssa.BasicBlock]bool{}
	var stack []*ssa.BasicBlock
	stack = append(stack, b.Succs...)
	for len(stack) > 0 {
		x := stack[len(stack)-1]
		stack = stack[:len(stack)-1]
		if x == b {
			return true
		}
		if seen[x] {
			continue
		}
		seen[x] = true
		stack = append(stack, x.Succs...)
	}
	return false
}

func isCursorType(t types.Type) bool {
	t = types.Unalias(t)
	if p, ok := t.Underlying().(*types.Pointer); ok {
		t = types.Unalias(p.Elem())
	}
	n, ok := t.(*types.Named)
	return ok && n.Obj().Name() == "Cursor" && n.Obj().Pkg() != nil && n.Obj().Pkg().Name() == "api"
}
