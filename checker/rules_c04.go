package main

import (
	"fmt"
	"go/token"
	"go/types"
	"regexp"
	"sort"
	"strings"

	"golang.org/x/tools/go/ssa"
)

const pkgBun = "github.com/uptrace/bun"

func init() {
	register("C04", propMeta{
		Level: "other",
		Explanation: "Only the isolation clause of the statement is decided (`entries of one ledger never affect another ledger sharing the same database`), for every query the store can build and every SQL function of the schema. R04a: the ledger-partitioned tables are read from the migration (tables with a `ledger` column); in package ledgerstore every chain of bun.SelectQuery calls (followed through helper functions, Apply'd builders and phis) that names such a table as its FROM table carries a Where whose constant format is `[alias.]ledger = ?` bound to Store.name; joined tables must be keyed by a *_seq foreign key (unique across ledgers) or carry the predicate; SQL functions taking `_ledger` must be passed Store.name first. " +
			"R04b: in the migration, every statement scope of every function that reads or updates a partitioned table contains `[alias.]ledger = _ledger|new.ledger` (or is keyed by accounts_seq / transactions_seq in the frozen list of sequence-keyed functions), inserts list the ledger column, handle_log passes new.ledger to every callee, and callers pass `_ledger` through. " +
			"R04d (a necessary condition of the replay clause, not the clause): the running totals moves.post_commit_volumes / post_commit_effective_volumes are read from 'the latest move' — every selection over moves that keeps one row per group (ORDER BY … LIMIT 1, DISTINCT ON … ORDER BY …) in a referenced SQL function, an SQL text built in Go, or a bun chain (through Apply'd helpers) orders by the key under which the column it feeds is a running total, and that pairing is read from the writer (the function inserting into moves: seq for the first, effective_date, seq for the second); and the instant such a selection is cut at (`insertion_date|effective_date <= …`, also through Apply'd factories whose column is bound at the call site) is the instant of that ordering — predicates on an SQL parameter that no caller supplies are inert and listed. R04h (in-memory store): a record is selected by identity — the result of a big.Int Cmp is compared with 0 by == or != only, and a function that filters a collection takes element 0 of the filtered result. R04g (in-memory store): a loop that folds amounts into a balance is left only when its range is exhausted (no break / return inside). R04f (in-memory store): in the fold of postings into a balance, on every path of an iteration where the source test held the destination test is evaluated too (a posting from an account to itself is debited AND credited).",
		NotDecided:  "everything else in the statement: equality of volumes/balances/metadata with a replay of the log, the point-in-time predicates, double entry. These are SQL/run-time value semantics (trigger insert_move, effective-date patching); no SQL analyser exists in the sandbox. R04d does not decide the arithmetic of the writer.",
		Trusted:     []string{"bun renders Where/Join/TableExpr formats verbatim and binds ? arguments", "lexical scan of 0-init-schema.sql", "seq columns are bigserial primary keys, unique across ledgers"},
		Assumptions: []string{"migrations_v1.go (one-shot import from the v1 per-ledger schema) is out of scope: it reads another schema, not the shared tables"},
	}, func(c *Ctx) {
		ruleR04a(c)
		ruleR04b(c)
		ruleR04c(c)
		ruleR04d(c)
		ruleR04f(c)
		ruleFoldExaminesAll(c, "R04g")
		ruleInMemoryIdentityLookups(c, "R04h")
		ruleLastElementOfSameSlice(c, "R04i")
		ruleLastMeansLast(c, "R04j")
	})
}

type ledgerSchema struct {
	partitioned map[string]bool
	ledgerFns   map[string]bool // SQL functions whose first parameter is _ledger
	ledgerArg   map[string]int  // SQL function -> index of its _ledger parameter
}

func loadLedgerSchema(c *Ctx, rule string) *ledgerSchema {
	schema, err := loadSQLSchema(c, migrationSQL)
	if err != nil {
		c.undecided(rule, "anchor:migration", token.NoPos, err.Error())
		return nil
	}
	ls := &ledgerSchema{partitioned: map[string]bool{}, ledgerFns: map[string]bool{}, ledgerArg: map[string]int{}}
	for name, t := range schema.Tables {
		for _, col := range t.Columns {
			if col == "ledger" {
				ls.partitioned[name] = true
			}
		}
	}
	for _, f := range schema.Funcs {
		if len(f.Params) > 0 && f.Params[0] == "_ledger" {
			ls.ledgerFns[f.Name] = true
		}
		for i, p := range f.Params {
			if p == "_ledger" {
				ls.ledgerArg[f.Name] = i
			}
		}
	}
	if len(ls.partitioned) < 4 {
		c.undecided(rule, "floor:partitioned-tables", token.NoPos, fmt.Sprintf("only %d tables with a ledger column found in the migration", len(ls.partitioned)))
		return nil
	}
	return ls
}

type qFacts struct {
	from        map[string]token.Pos // partitioned tables named as FROM
	joins       []string             // problems found in joins
	ledgerWhere bool
	ledgerQ     map[string]token.Pos // qualifiers of the `q.ledger = ?` predicates seen ("" = unqualified)
	aliases     map[string]bool      // aliases given to the FROM tables
	withNames   map[string]bool
	bodyOf      map[string]bool // this chain is the body of the CTE(s) of these names
	problems    []string
	// R04d: what selects "the latest row"
	selExprs []string   // constant texts of ColumnExpr / DistinctOn / Where (columns read by the chain)
	orders   []string   // ORDER BY keys in call order (constants); "¤" when one is not a constant
	orderPos token.Pos
	limit1   bool
	composedOf []*ssa.Function // the builders given together at the call this chain stands for (compositions)
	wheres   []string // texts of the Where formats (¤ for non-constant pieces), factory parameters resolved per Apply site
}

func newQFacts() *qFacts {
	return &qFacts{from: map[string]token.Pos{}, withNames: map[string]bool{}, bodyOf: map[string]bool{}, ledgerQ: map[string]token.Pos{}, aliases: map[string]bool{}}
}

func (a *qFacts) merge(b *qFacts) {
	if b == nil {
		return
	}
	for k, v := range b.from {
		if _, ok := a.from[k]; !ok {
			a.from[k] = v
		}
	}
	a.ledgerWhere = a.ledgerWhere || b.ledgerWhere
	for k, v := range b.ledgerQ {
		a.ledgerQ[k] = v
	}
	for k := range b.aliases {
		a.aliases[k] = true
	}
	a.problems = append(a.problems, b.problems...)
	for k := range b.withNames {
		a.withNames[k] = true
	}
	a.selExprs = append(a.selExprs, b.selExprs...)
	a.orders = append(a.orders, b.orders...)
	if a.orderPos == token.NoPos {
		a.orderPos = b.orderPos
	}
	a.limit1 = a.limit1 || b.limit1
	a.wheres = append(a.wheres, b.wheres...)
}

var (
	reJoinTable = regexp.MustCompile(`(?is)\bjoin\s+(lateral\s+)?(\(\s*select\b.*?\bfrom\s+)?([a-z_][a-z0-9_]*)\s*(\()?`)
	reIdent     = regexp.MustCompile(`^\s*"?([a-zA-Z_][a-zA-Z0-9_]*)"?\s*(\(|$|\s)`)
	reSeqKey    = regexp.MustCompile(`(?i)\b[a-z_]*\.?(accounts_seq|transactions_seq|seq)\s*=\s*[a-z_]+\.(accounts_seq|transactions_seq|seq)\b`)
	reTableAlias = regexp.MustCompile(`(?i)^\s*"?[a-z_][a-z0-9_]*"?\s+(as\s+)?([a-z_][a-z0-9_]*)\s*$`)
	reLedgerQ   = regexp.MustCompile(`(?i)(^|[\s(])([a-z_][a-z0-9_]*\.)?ledger\s*=\s*\?`)
)

type qAnalyzer struct {
	c         *Ctx
	ls        *ledgerSchema
	nameField *types.Var
	memo      map[*ssa.Function]*qFacts // facts of the parameter chain of a helper / builder
	busy      map[*ssa.Function]bool
}

func isSelectQuery(t types.Type) bool { return isNamed(t, pkgBun, "SelectQuery") }

func (qa *qAnalyzer) argIsStoreName(v ssa.Value) bool {
	_, ok := fieldRead(strip(v), qa.nameField)
	return ok
}

// analyse returns the facts of every query chain (equivalence class) of fn; paramClass is the class of
// the *bun.SelectQuery parameter (nil if none).
func (qa *qAnalyzer) analyse(fn *ssa.Function) (classes map[ssa.Value]*qFacts, find func(ssa.Value) ssa.Value) {
	parent := map[ssa.Value]ssa.Value{}
	var findF func(v ssa.Value) ssa.Value
	findF = func(v ssa.Value) ssa.Value {
		p, ok := parent[v]
		if !ok || p == v {
			parent[v] = v
			return v
		}
		r := findF(p)
		parent[v] = r
		return r
	}
	union := func(a, b ssa.Value) {
		ra, rb := findF(a), findF(b)
		if ra != rb {
			parent[ra] = rb
		}
	}
	type ev struct {
		recv   ssa.Value
		method string
		call   *ssa.Call
	}
	var events []ev
	type inh struct {
		cls     ssa.Value
		fns     []*ssa.Function
		factory bool // Apply(factory(…)): the Where texts are taken per call site (factoryWhereTexts)
	}
	var inherits []inh
	type factoryApply struct {
		cls  ssa.Value
		call *ssa.Call
	}
	var factoryApplies []factoryApply
	var compositions []ssa.Value
	compMembers := map[ssa.Value][]*ssa.Function{}
	ri := &reachInfo{c: qa.c, memo: map[*ssa.Function]map[string]string{}, impls: map[*types.Func][]*ssa.Function{}}
	for _, b := range fn.Blocks {
		for _, ins := range b.Instrs {
			switch x := ins.(type) {
			case *ssa.Phi:
				if isSelectQuery(x.Type()) {
					for _, e := range x.Edges {
						union(x, e)
					}
				}
			case *ssa.Call:
				name := calleeFullName(x)
				if strings.HasPrefix(name, "(*"+pkgBun+".SelectQuery).") {
					m := strings.TrimPrefix(name, "(*"+pkgBun+".SelectQuery).")
					recv := x.Call.Args[0]
					if m == "NewSelect" {
						findF(x)
						continue
					}
					if isSelectQuery(x.Type()) {
						union(recv, x)
					}
					events = append(events, ev{recv, m, x})
					if m == "Apply" && len(x.Call.Args) > 1 {
						fc, isFactory := x.Call.Args[1].(*ssa.Call)
						inherits = append(inherits, inh{recv, ri.funcsOfValue(x.Call.Args[1], 0), isFactory})
						if isFactory {
							factoryApplies = append(factoryApplies, factoryApply{recv, fc})
						}
					}
					continue
				}
				// a repository function given query builders (`store.newSelect(selectLatestMoves, store.filterLedger("moves"))`,
				// `fetch(store, ctx, func(q) …)`): the builders given together make one chain, the call stands for it
				if callee := staticCallee(x); callee != nil && inRepo(fnPkgPath(origin(callee))) {
					var members []ssa.Value
					for _, a := range x.Call.Args {
						if isBuilderType(a.Type()) {
							members = append(members, a)
						} else if sl, ok := a.(*ssa.Slice); ok {
							for _, e := range variadicElems(sl) {
								if isBuilderType(e.Type()) {
									members = append(members, e)
								}
							}
						}
					}
					var given []ssa.Value
					for _, m := range members {
						switch strip(m).(type) {
						case *ssa.Function, *ssa.MakeClosure, *ssa.Call:
							given = append(given, strip(m))
						}
					}
					if len(given) > 0 && len(given) == len(members) {
						findF(x)
						compositions = append(compositions, x)
						for _, m := range given {
							fc, isFactory := m.(*ssa.Call)
							fns := ri.funcsOfValue(m, 0)
							inherits = append(inherits, inh{x, fns, isFactory})
							if isFactory {
								factoryApplies = append(factoryApplies, factoryApply{x, fc})
							}
							compMembers[x] = append(compMembers[x], fns...)
						}
					}
				}
				// helper of the repository taking and returning a query
				if isSelectQuery(x.Type()) {
					for _, f := range qa.c.CalleesOf(x) {
						if !inRepo(fnPkgPath(f)) {
							continue
						}
						for _, a := range x.Call.Args {
							if isSelectQuery(a.Type()) {
								union(a, x)
								inherits = append(inherits, inh{x, []*ssa.Function{f}, false})
							}
						}
					}
				}
			}
		}
	}
	classes = map[ssa.Value]*qFacts{}
	get := func(v ssa.Value) *qFacts {
		r := findF(v)
		if classes[r] == nil {
			classes[r] = newQFacts()
		}
		return classes[r]
	}
	for _, e := range events {
		f := get(e.recv)
		args := e.call.Call.Args[1:]
		constArg := func(i int) (string, bool) {
			if i < len(args) {
				return constString(args[i])
			}
			return "", false
		}
		bound := func() []ssa.Value {
			if len(args) >= 2 {
				return variadicElems(args[len(args)-1])
			}
			return nil
		}
		switch e.method {
		case "Table":
			for _, v := range variadicElems(args[0]) {
				if s, ok := constString(v); ok && qa.ls.partitioned[s] {
					f.from[s] = e.call.Pos()
				}
			}
		case "TableExpr", "ModelTableExpr":
			s, ok := constString(args[0])
			if !ok {
				continue // built from another rendered query: that query is a chain of its own
			}
			if m := reIdent.FindStringSubmatch(s); m != nil {
				name := strings.ToLower(m[1])
				if m[2] == "(" && qa.ls.ledgerFns[name] {
					b := bound()
					if len(b) == 0 || !qa.argIsStoreName(b[0]) {
						f.problems = append(f.problems, "SQL function "+name+"(_ledger, …) is not given Store.name as its first argument")
					}
				} else if qa.ls.partitioned[name] {
					f.from[name] = e.call.Pos()
					if am := reTableAlias.FindStringSubmatch(s); am != nil {
						f.aliases[strings.ToLower(am[2])] = true
					}
				}
			}
		case "Join":
			s, ok := constString(args[0])
			if !ok {
				continue
			}
			for _, m := range reJoinTable.FindAllStringSubmatch(s, -1) {
				name := strings.ToLower(m[3])
				if m[4] == "(" && qa.ls.ledgerFns[name] {
					b := bound()
					if len(b) == 0 || !qa.argIsStoreName(b[0]) {
						f.problems = append(f.problems, "joined SQL function "+name+"(_ledger, …) is not given Store.name as its first argument")
					}
					continue
				}
				if qa.ls.partitioned[name] {
					if !reSeqKey.MatchString(s) && !reLedgerQ.MatchString(s) {
						f.problems = append(f.problems, "table "+name+" is joined without a *_seq key or a ledger predicate")
					}
				}
			}
		case "Order", "OrderExpr":
			if f.orderPos == token.NoPos {
				f.orderPos = e.call.Pos()
			}
			if e.method == "Order" {
				for _, v := range variadicElems(args[0]) {
					if s, ok := constString(v); ok {
						f.orders = append(f.orders, splitOrderKeys(s)...)
					} else {
						f.orders = append(f.orders, dynMark)
					}
				}
			} else if s, ok := constArg(0); ok {
				f.orders = append(f.orders, splitOrderKeys(s)...)
			} else {
				f.orders = append(f.orders, dynMark)
			}
		case "Limit":
			if n, ok := constInt(args[0]); ok && n == 1 {
				f.limit1 = true
			}
		case "DistinctOn":
			if s, ok := constArg(0); ok {
				f.selExprs = append(f.selExprs, "distinct on ("+s+")")
			}
		case "ColumnExpr":
			if s, ok := constString(args[0]); ok {
				f.selExprs = append(f.selExprs, s)
			}
			if s, ok := constString(args[0]); ok {
				for name := range qa.ls.ledgerFns {
					if strings.Contains(strings.ToLower(s), name+"(") {
						b := bound()
						if len(b) == 0 || !qa.argIsStoreName(b[0]) {
							f.problems = append(f.problems, "SQL function "+name+"(_ledger, …) is not given Store.name as its first argument")
						}
					}
				}
			}
		case "Where", "WhereOr":
			if len(args) > 0 {
				f.wheres = append(f.wheres, strVariants(args[0])...)
			}
			if s, ok := constArg(0); ok {
				if reLedgerQ.MatchString(s) {
					okBound := false
					for _, b := range bound() {
						if qa.argIsStoreName(b) {
							okBound = true
						}
					}
					if okBound {
						f.ledgerWhere = true
						for _, m := range reLedgerQ.FindAllStringSubmatch(s, -1) {
							f.ledgerQ[strings.ToLower(strings.TrimSuffix(m[2], "."))] = e.call.Pos()
						}
					} else {
						f.problems = append(f.problems, "`ledger = ?` is bound to something else than Store.name")
					}
				}
				if reSeqKey.MatchString(s) {
					// correlated sub-select keyed by a sequence: scoped by its outer query
					f.ledgerWhere = true
				}
			}
		case "With":
			if s, ok := constArg(0); ok {
				f.withNames[strings.ToLower(s)] = true
				if len(args) > 1 {
					get(strip(args[1])).bodyOf[strings.ToLower(s)] = true
				}
			}
		}
	}
	for _, in := range inherits {
		f := get(in.cls)
		for _, g := range in.fns {
			n := len(f.wheres)
			f.merge(qa.paramFacts(g))
			if in.factory {
				f.wheres = f.wheres[:n]
			}
		}
	}
	for _, fa := range factoryApplies {
		f := get(fa.cls)
		texts, ledgerBound := factoryWhereTexts(fa.call, qa)
		f.wheres = append(f.wheres, texts...)
		for i, w := range texts {
			if reLedgerQ.MatchString(w) && ledgerBound[i] {
				f.ledgerWhere = true
				for _, m := range reLedgerQ.FindAllStringSubmatch(w, -1) {
					f.ledgerQ[strings.ToLower(strings.TrimSuffix(m[2], "."))] = fa.call.Pos()
				}
			}
		}
	}
	// a composition whose only member naming a table scopes it itself adds nothing: that member is decided on its own
	for _, x := range compositions {
		r := findF(x)
		f := classes[r]
		if f == nil {
			continue
		}
		f.composedOf = compMembers[x]
		nFrom, selfSufficient := 0, true
		for _, m := range compMembers[x] {
			mf := qa.paramFacts(m)
			if mf == nil || len(mf.from) == 0 {
				continue
			}
			nFrom++
			if !mf.ledgerWhere {
				selfSufficient = false
			}
		}
		if nFrom <= 1 && selfSufficient && !isSelectQuery(x.Type()) {
			delete(classes, r)
		}
	}
	return classes, findF
}

// paramFacts: the facts of the chain that starts at the *bun.SelectQuery parameter of a helper/builder
// (for a factory such as filterPIT: of the literal it returns).
func (qa *qAnalyzer) paramFacts(fn *ssa.Function) *qFacts {
	if f, ok := qa.memo[fn]; ok {
		return f
	}
	if qa.busy[fn] {
		return nil
	}
	qa.busy[fn] = true
	defer delete(qa.busy, fn)
	res := newQFacts()
	var qp *ssa.Parameter
	for _, p := range fn.Params {
		if isSelectQuery(p.Type()) {
			qp = p
		}
	}
	if qp == nil {
		// a factory returning a builder literal
		for _, lit := range fn.AnonFuncs {
			res.merge(qa.paramFacts(lit))
		}
		qa.memo[fn] = res
		return res
	}
	classes, find := qa.analyse(fn)
	if f := classes[find(qp)]; f != nil {
		res.merge(f)
	}
	qa.memo[fn] = res
	return res
}

func ruleR04a(c *Ctx) {
	const rule = "R04a"
	ls := loadLedgerSchema(c, rule)
	if ls == nil {
		return
	}
	nameField := c.MustField(rule, pkgLedgerstore, "Store", "name")
	if nameField == nil {
		return
	}
	var tn []string
	for t := range ls.partitioned {
		tn = append(tn, t)
	}
	sort.Strings(tn)
	c.Info["ledger_partitioned_tables"] = tn
	qa := &qAnalyzer{c: c, ls: ls, nameField: nameField, memo: map[*ssa.Function]*qFacts{}, busy: map[*ssa.Function]bool{}}
	nChains := 0
	compSeen := map[string]int{}
	// builders given as values (to Apply, or to a function of the repository)
	givenAsBuilder := map[*ssa.Function]bool{}
	for _, fn := range c.FuncsIn(pkgLedgerstore) {
		allCalls(fn, func(ci ssa.CallInstruction) {
			name := calleeFullName(ci)
			callee := staticCallee(ci)
			if name != "(*"+pkgBun+".SelectQuery).Apply" && (callee == nil || !inRepo(fnPkgPath(origin(callee)))) {
				return
			}
			mark := func(v ssa.Value) {
				switch x := strip(v).(type) {
				case *ssa.Function:
					givenAsBuilder[x] = true
				case *ssa.MakeClosure:
					if f, ok := x.Fn.(*ssa.Function); ok {
						givenAsBuilder[f] = true
					}
				}
			}
			for _, a := range ci.Common().Args {
				if isBuilderType(a.Type()) {
					mark(a)
				} else if sl, ok := a.(*ssa.Slice); ok {
					for _, e := range variadicElems(sl) {
						if isBuilderType(e.Type()) {
							mark(e)
						}
					}
				}
			}
		})
	}
	for _, fn := range c.FuncsIn(pkgLedgerstore) {
		if len(fn.Blocks) == 0 || fn.Synthetic != "" {
			continue
		}
		if strings.HasSuffix(c.Fset.Position(fn.Pos()).Filename, "migrations_v1.go") {
			continue // one-shot import from the v1 per-ledger schema (reads "<ledger>".log etc.), see assumptions
		}
		classes, find := qa.analyse(fn)
		// a named helper that transforms the query it is given (`selectLastLog(q)`): the chain continues at its
		// call sites, where its facts are merged with the caller's (Where, …): the obligation is decided there
		var deferred *qFacts
		if fn.Parent() == nil {
			nStatic := 0
			for _, site := range c.CallersOf(fn) {
				if sc := staticCallee(site); sc != nil && origin(sc) == origin(fn) && site.Parent() != nil && fnPkgPath(origin(site.Parent())) == pkgLedgerstore {
					nStatic++
				}
			}
			if nStatic > 0 {
				for _, p := range fn.Params {
					if isSelectQuery(p.Type()) {
						deferred = classes[find(p)]
					}
				}
			}
		}
		// a builder given as a value to a repository function or to Apply: its chain is one part of the chain built at
		// that call (a composition, or the chain Apply is called on), decided there
		if givenAsBuilder[fn] {
			for _, p := range fn.Params {
				if isSelectQuery(p.Type()) {
					deferred = classes[find(p)]
				}
			}
		}
		// With-names of the whole function (a CTE may be attached to another chain than the one that reads it)
		withNames := map[string]bool{}
		for _, f := range classes {
			for k := range f.withNames {
				withNames[k] = true
			}
		}
		// stable order
		type item struct {
			table string
			f     *qFacts
		}
		var items []item
		seenProblem := map[string]bool{}
		for _, f := range classes {
			for t := range f.from {
				items = append(items, item{t, f})
			}
			for _, p := range f.problems {
				if !seenProblem[p] {
					seenProblem[p] = true
					c.bad(rule, fnName(fn)+":"+p, fn.Pos(), p+": rows or aggregates of other ledgers sharing the bucket leak into this ledger's reads")
				}
			}
		}
		sort.Slice(items, func(i, j int) bool { return items[i].table < items[j].table })
		for _, it := range items {
			c.seeFn(fn)
			if deferred != nil && it.f == deferred && !it.f.ledgerWhere {
				continue
			}
			nChains++
			key := fnName(fn) + ":from-" + it.table
			if len(it.f.composedOf) > 0 {
				// named after the builder that brings the table, as when that builder is decided on its own
				for _, m := range it.f.composedOf {
					if mf := qa.paramFacts(m); mf != nil {
						if _, has := mf.from[it.table]; has {
							key = fnName(m) + ":from-" + it.table
							break
						}
					}
				}
				compSeen[key]++
				if n := compSeen[key]; n > 1 {
					key = fmt.Sprintf("%s#%d", key, n)
				}
			}
			if withNames[it.table] && !it.f.bodyOf[it.table] && !it.f.ledgerWhere {
				// reads a CTE of that name; the CTE's own chain is checked where it is built
				c.ok(rule, key, it.f.from[it.table], "reads the CTE `"+it.table+"` defined with With(…) in this function")
				continue
			}
			if it.f.ledgerWhere && len(it.f.ledgerQ) > 0 {
				// qualified predicates must qualify a table of this chain (or its alias)
				own := false
				var foreign []string
				for q := range it.f.ledgerQ {
					if q == "" || it.f.aliases[q] {
						own = true
						continue
					}
					if _, isFrom := it.f.from[q]; isFrom {
						own = true
						continue
					}
					foreign = append(foreign, q)
				}
				if !own {
					sort.Strings(foreign)
					c.bad(rule, key, it.f.from[it.table], fmt.Sprintf("the only ledger predicate of the chain selecting from %s is qualified by %v, which is not a table of this chain: it constrains an outer row and leaves %s unscoped", it.table, foreign, it.table))
					continue
				}
			}
			c.check(it.f.ledgerWhere, rule, key, it.f.from[it.table], "the chain selecting from "+it.table+" carries `ledger = ?` bound to Store.name",
				"a query selects from the ledger-partitioned table "+it.table+" without a `ledger = ?` predicate bound to Store.name: it returns the rows of every ledger sharing the bucket")
		}
	}
	if nChains < 8 {
		c.undecided(rule, "floor:query-chains", token.NoPos, fmt.Sprintf("only %d query chains naming a partitioned table found in package ledgerstore", nChains))
	}
}

func qualsOf(ref sqlTableRef) map[string]bool {
	q := map[string]bool{ref.Table: true}
	if ref.Alias != "" {
		q[ref.Alias] = true
		delete(q, ref.Table) // an aliased table is only visible under its alias
	}
	return q
}

// ---- R04c: SQL fragments assembled in Go ------------------------------------------------------------
//
// Filters and joins are also written as raw SQL text (constants, concatenations, Sprintf) handed to bun.
// Every text a string expression of package ledgerstore can denote is scanned: each (sub-)select, join,
// update or delete naming a ledger-partitioned table must carry, in its own scope, `[q.]ledger = ?` with
// q absent or the table/alias itself, or be keyed by a sequence of another row.
func ruleR04c(c *Ctx) {
	const rule = "R04c"
	ls := loadLedgerSchema(c, rule)
	if ls == nil {
		return
	}
	rhs := func(toks []sqlTok, i int) (int, bool) {
		if i < len(toks) && (toks[i].Text == "?" || toks[i].Text == "_ledger") {
			return i + 1, true
		}
		return i, false
	}
	nFrag := 0
	seenKey := map[string]bool{}
	ordOf := map[string]map[ssa.Instruction]int{}
	for _, fn := range c.FuncsIn(pkgLedgerstore) {
		if len(fn.Blocks) == 0 || fn.Synthetic != "" {
			continue
		}
		if strings.HasSuffix(c.Fset.Position(fn.Pos()).Filename, "migrations_v1.go") {
			continue
		}
		for _, b := range fn.Blocks {
			for _, ins := range b.Instrs {
				var ops []*ssa.Value
				for _, op := range ins.Operands(ops) {
					if *op == nil || !isStringType((*op).Type()) || isStringBuilding(ins, *op) {
						continue
					}
					for _, text := range strVariants(*op) {
						low := strings.ToLower(text)
						if !strings.Contains(low, "from") && !strings.Contains(low, "join") && !strings.Contains(low, "update") {
							continue
						}
						toks := sqlTokenize(text, 0)
						for _, ref := range tableRefs(toks, ls.partitioned) {
							if ref.Verb == "insert" {
								continue
							}
							nFrag++
							lo, hi := scopeOf(toks, ref.Idx)
							d := toks[ref.Idx].Depth
							q := qualsOf(ref)
							base := fmt.Sprintf("%s:fragment:%s-%s", fnName(fn), ref.Verb, ref.Table)
							if ordOf[base] == nil {
								ordOf[base] = map[ssa.Instruction]int{}
							}
							if _, ok := ordOf[base][ins]; !ok {
								ordOf[base][ins] = len(ordOf[base]) + 1
							}
							key := fmt.Sprintf("%s#%d", base, ordOf[base][ins])
							pos := ins.Pos()
							if !pos.IsValid() {
								pos = fn.Pos()
							}
							switch {
							case hasLedgerPredicate(toks, lo, hi, d, rhs, q):
								if !seenKey[key] {
									c.ok(rule, key, pos, "the fragment's scope carries a ledger predicate on "+ref.Table)
								}
							case hasSeqKey(toks, lo, hi, d, q):
								if !seenKey[key] {
									c.ok(rule, key, pos, "the fragment's scope is keyed by a sequence of another row")
								}
							case scopeHasDyn(toks, lo, hi):
								c.undecided(rule, key, pos, "the scope reading "+ref.Table+" contains text that is not a compile-time constant: its ledger predicate cannot be read")
							default:
								c.bad(rule, key, pos, fmt.Sprintf("an SQL fragment reads %s (%s) without a ledger predicate on that table in its own scope (`[%s.]ledger = ?`) and without a sequence key: rows of the other ledgers of the bucket are read. Fragment: %s", ref.Table, ref.Verb, ref.Table, oneLine(text)))
							}
							seenKey[key] = true
						}
					}
				}
			}
		}
	}
	c.NSites += nFrag
	if nFrag < 4 {
		c.undecided(rule, "floor:sql-fragments", token.NoPos, fmt.Sprintf("only %d SQL fragments naming a partitioned table found in package ledgerstore", nFrag))
	}
}

func scopeHasDyn(toks []sqlTok, lo, hi int) bool {
	for i := lo; i < hi; i++ {
		if strings.Contains(toks[i].Text, dynMark) {
			return true
		}
	}
	return false
}

func oneLine(s string) string {
	s = strings.Join(strings.Fields(s), " ")
	if len(s) > 220 {
		s = s[:220] + "…"
	}
	return s
}

// ---- R04b ------------------------------------------------------------------------------------

// functions whose statements on partitioned tables are keyed by a sequence obtained under a ledger
// predicate (frozen, one reason each)
var seqKeyedFuncs = map[string]string{
	"insert_move":                         "moves are addressed by accounts_seq, which is looked up with `ledger = _ledger` in the same function",
	"update_account_metadata_history":     "trigger: the revision sub-select is keyed by accounts_seq = new.seq",
	"update_transaction_metadata_history": "trigger: the revision sub-select is keyed by transactions_seq = new.seq",
}

func ruleR04b(c *Ctx) {
	const rule = "R04b"
	ls := loadLedgerSchema(c, rule)
	if ls == nil {
		return
	}
	schema, _ := loadSQLSchema(c, migrationSQL)
	ledgerRHS := func(toks []sqlTok, i int) (int, bool) {
		if i < len(toks) && toks[i].Text == "_ledger" {
			return i + 1, true
		}
		if i+2 < len(toks) && toks[i].Text == "new" && toks[i+1].Text == "." && toks[i+2].Text == "ledger" {
			return i + 3, true
		}
		return i, false
	}
	nStmts := 0
	for _, f := range schema.Funcs {
		refs := tableRefs(f.Body, ls.partitioned)
		perTable := map[string]int{}
		for _, ref := range refs {
			nStmts++
			perTable[ref.Table+":"+ref.Verb]++
			key := fmt.Sprintf("sql.%s:%s-%s", f.Name, ref.Verb, ref.Table)
			if n := perTable[ref.Table+":"+ref.Verb]; n > 1 {
				key = fmt.Sprintf("%s#%d", key, n)
			}
			lo, hi := scopeOf(f.Body, ref.Idx)
			d := f.Body[ref.Idx].Depth
			if ref.Verb == "insert" {
				// column list must contain ledger and the values must mention _ledger / new.ledger
				hasCol, hasVal := false, false
				for i := ref.Idx; i < hi; i++ {
					if f.Body[i].Text == "ledger" && f.Body[i].Depth == d+1 {
						hasCol = true
					}
					if _, ok := ledgerRHS(f.Body, i); ok {
						hasVal = true
					}
				}
				c.check(hasCol && hasVal, rule, key, token.NoPos, "the insert sets the ledger column from _ledger / new.ledger", fmt.Sprintf("SQL function %s inserts into %s without setting the ledger column from its ledger argument (line %d)", f.Name, ref.Table, ref.Line))
				continue
			}
			okPred := hasLedgerPredicate(f.Body, lo, hi, d, ledgerRHS, qualsOf(ref))
			if !okPred {
				if why, isSeq := seqKeyedFuncs[f.Name]; isSeq && scopeHasSeqKey(f.Body, lo, hi, d) {
					c.ok(rule, key, token.NoPos, "exempt: "+why)
					continue
				}
			}
			c.check(okPred, rule, key, token.NoPos, "the statement is scoped by `ledger = _ledger`", fmt.Sprintf("SQL function %s reads or updates %s (line %d) without `ledger = _ledger` in the scope of that statement: entries of another ledger in the same bucket are read or modified", f.Name, ref.Table, ref.Line))
		}
		// calls to ledger functions pass the ledger through
		for i := 0; i+2 < len(f.Body); i++ {
			t := f.Body[i]
			argIdx, isLF := ls.ledgerArg[t.Text]
			if t.Kind == 'w' && isLF && f.Body[i+1].Text == "(" && t.Text != f.Name {
				if i > 0 && f.Body[i-1].Text == "function" {
					continue
				}
				key := fmt.Sprintf("sql.%s:calls-%s", f.Name, t.Text)
				// start of the argIdx-th argument
				start := i + 2
				d := f.Body[i+1].Depth + 1
				for n := 0; n < argIdx && start < len(f.Body); start++ {
					if f.Body[start].Text == "," && f.Body[start].Depth == d {
						n++
					}
					if f.Body[start].Depth < d {
						break
					}
				}
				_, ok := ledgerRHS(f.Body, start)
				c.check(ok, rule, key, token.NoPos, "its ledger argument is _ledger / new.ledger", fmt.Sprintf("SQL function %s calls %s (line %d) with a ledger argument that is not its own ledger", f.Name, t.Text, t.Line))
				nStmts++
			}
		}
	}
	c.NSites += nStmts
	if nStmts < 20 {
		c.undecided(rule, "floor:statements", token.NoPos, fmt.Sprintf("only %d statements on partitioned tables found in the migration", nStmts))
	}
}

func scopeHasSeqKey(toks []sqlTok, lo, hi, d int) bool {
	for i := lo; i+1 < hi; i++ {
		if toks[i].Depth == d && (toks[i].Text == "accounts_seq" || toks[i].Text == "transactions_seq") && toks[i+1].Text == "=" {
			return true
		}
	}
	return false
}

// factoryWhereTexts: `Apply(factory(a, "col"))` — the Where formats of the builder literal the factory returns, with
// the literal's captured variables resolved to the factory's parameters and those to the arguments of this call.
func factoryWhereTexts(call *ssa.Call, qa *qAnalyzer) (out []string, ledgerBound []bool) {
	g := staticCallee(call)
	if g == nil || len(g.Blocks) == 0 {
		return nil, nil
	}
	for _, lit := range g.AnonFuncs {
		// bindings of the literal
		var mc *ssa.MakeClosure
		for _, b := range g.Blocks {
			for _, ins := range b.Instrs {
				if m, ok := ins.(*ssa.MakeClosure); ok && m.Fn == lit {
					mc = m
				}
			}
		}
		if mc == nil {
			continue
		}
		resolve := func(v ssa.Value) (string, bool) {
			fv, ok := stripLoadOfParamCell(v).(*ssa.FreeVar)
			if !ok {
				if u, isU := v.(*ssa.UnOp); isU {
					fv, ok = u.X.(*ssa.FreeVar)
				}
				if !ok {
					return "", false
				}
			}
			for i, f := range lit.FreeVars {
				if f != fv || i >= len(mc.Bindings) {
					continue
				}
				bnd := mc.Bindings[i]
				// the binding is the factory's parameter, or the cell it was spilled into
				var prm *ssa.Parameter
				if p, ok := bnd.(*ssa.Parameter); ok {
					prm = p
				} else if a, ok := bnd.(*ssa.Alloc); ok {
					if sv := singleStore(a); sv != nil {
						prm, _ = sv.(*ssa.Parameter)
					}
				}
				if prm == nil {
					return "", false
				}
				idx := paramIndex(prm)
				if idx < 0 || idx >= len(call.Call.Args) {
					return "", false
				}
				return constString(call.Call.Args[idx])
			}
			return "", false
		}
		allCalls(lit, func(ci ssa.CallInstruction) {
			name := calleeFullName(ci)
			if name != "(*"+pkgBun+".SelectQuery).Where" && name != "(*"+pkgBun+".SelectQuery).WhereOr" {
				return
			}
			args := ci.Common().Args
			if len(args) < 2 {
				return
			}
			for _, variant := range strParts(args[1]) {
				text := ""
				for _, pt := range variant {
					if pt.isLit() {
						text += pt.lit
					} else if s, ok := resolve(pt.dyn); ok {
						text += s
					} else {
						text += dynMark
					}
				}
				out = append(out, text)
				bound := false
				if qa != nil && len(args) > 2 {
					for _, b := range variadicElems(args[len(args)-1]) {
						if qa.argIsStoreName(b) {
							bound = true
						}
					}
				}
				ledgerBound = append(ledgerBound, bound)
			}
		})
	}
	return out, ledgerBound
}

func isBuilderType(t types.Type) bool {
	sig, ok := t.Underlying().(*types.Signature)
	if !ok || sig.Params().Len() != 1 || sig.Results().Len() != 1 {
		return false
	}
	return isSelectQuery(sig.Params().At(0).Type()) && isSelectQuery(sig.Results().At(0).Type())
}
