package main

import (
	"fmt"
	"strings"
	"go/token"
	"go/types"

	"golang.org/x/tools/go/ssa"
)

const pkgLedgerstore = modPath + "/internal/storage/ledgerstore"

func init() {
	register("C06", propMeta{
		Level: "other",
		Explanation: "Acknowledgement ordering decided on every path (all schedules, all store failures): R06a in executionContext.run the chained log obtained from the executor is stored/returned only after a receive on the executor's done channel (a log found by idempotency key is already persisted); every hand-off (call of a function that reaches Batcher.Append and returns the done channel) happens in an executor passed to run or in another such function that returns the channel. " +
			"R06b the done channel is closed only inside the callback given to the hand-off or on the DryRun edge. R06c the batch callback field is invoked only in batcherJob.Terminated; Job.Terminated is invoked only in Runner.Run on values received from the channel the worker sends to, and the worker sends a job there only on the nil-error edge of the runner call. " +
			"R06d on the error edge of the runner call every path panics; the error channel arm of Runner.Run panics. R06e InsertLogs does all its statements inside withTransaction→RunInTx on the transaction handle and drops no error. R06f no executor returns an error after a successful hand-off. R06g when the completion channel carries the outcome (chan error), no received outcome is discarded. R05h (shared with C05) a batch taken from the batcher never aliases the buffer later appends write into: the callback that acknowledges a write belongs to the log that was persisted. R06j Store.withTransaction and the literal it gives RunInTx discard no error and return nil only behind a nil test. R06i the job NewBatcher hands to the runner returns the error of the persistence call on every path (nil only behind its nil edge). R06h the hand-off cannot refuse: every returning path of Batcher.Append has queued its object, so a request is never rejected after the commander advanced the chain head and the transaction id for it (a rejected request leaves no trace).",
		NotDecided:  "durability of PostgreSQL commits; client-visible behaviour when the process dies between commit and acknowledgement (the log exists, the client saw no answer — allowed by the statement).",
		Trusted:     []string{"channel close/receive semantics", "pond worker pool runs the submitted function", "database/sql transaction semantics"},
		Assumptions: []string{"the process terminates on an unrecovered panic in the commander's goroutine"},
	}, func(c *Ctx) {
		ruleR06ab(c)
		ruleR06cd(c)
		ruleR06e(c)
		ruleR06f(c)
		ruleR06g(c)
		ruleAppendAlwaysEnqueues(c, "R06h")
		ruleR06i(c)
		ruleTxWrapperPropagates(c, "R06j")
		ruleRunErrorIsReturned(c, "R06k")
		ruleR05h(c)
	})
}

func ruleR06ab(c *Ctx) {
	const rule = "R06a"
	m := c.cmdModel(rule)
	if !m.ok {
		return
	}
	obl := newOblSet(c, rule)
	defer obl.flush()
	// Propagate-or-wait: a call that hands a log off (a function of the package that reaches
	// Batcher.Append and returns the done channel, or a dynamic call of an executor that resolves to
	// such functions) yields a done channel. The calling function must either pass that channel on to
	// its own caller (together with the log), or receive on it on every path before it returns. By
	// induction up the call chain every successful answer is preceded by the persistence signal.
	nCalls, nWaiters := 0, 0
	for _, fn := range m.fns {
		var calls []*ssa.Call
		allCalls(fn, func(ci ssa.CallInstruction) {
			if call, ok := ci.(*ssa.Call); ok {
				if _, _, ok := m.appendCall(c, call); ok {
					calls = append(calls, call)
				}
			}
		})
		if len(calls) == 0 {
			continue
		}
		name := fnName(fn)
		cells := resultCells(fn)
		fnChan := chanResultIdx(fn.Signature)
		for ci, call := range calls {
			nCalls++
			ch, errI, _ := m.appendCall(c, call)
			k := fmt.Sprintf("%s:handoff#%d:propagated-or-waited", name, ci+1)
			// does fn pass the channel on?
			passes := false
			if fnChan >= 0 {
				for _, b := range fn.Blocks {
					for _, ins := range b.Instrs {
						switch x := ins.(type) {
						case *ssa.Return:
							if len(x.Results) == 1 && x.Results[0] == ssa.Value(call) {
								passes = true
							}
							if fnChan < len(x.Results) {
								if e, ok := x.Results[fnChan].(*ssa.Extract); ok && e.Tuple == ssa.Value(call) && e.Index == ch {
									passes = true
								}
							}
						case *ssa.Store:
							if a, ok := x.Addr.(*ssa.Alloc); ok && cells[fnChan] == a {
								if e, ok := x.Val.(*ssa.Extract); ok && e.Tuple == ssa.Value(call) && e.Index == ch {
									passes = true
								}
							}
						}
					}
				}
				// `return f(...)` of a tuple-returning call
				for _, b := range fn.Blocks {
					if ret, ok := b.Instrs[len(b.Instrs)-1].(*ssa.Return); ok && fnChan < len(ret.Results) {
						if e, ok := ret.Results[fnChan].(*ssa.Extract); ok && e.Tuple == ssa.Value(call) {
							passes = true
						}
					}
				}
			}
			if passes {
				obl.expect(k, call.Pos(), "the done channel of the hand-off is passed on to the caller, which inherits the obligation to wait")
				continue
			}
			nWaiters++
			obl.expect(k, call.Pos(), "the function receives on the done channel of the hand-off on every path before it returns")
			const pending = 1
			theCall := call
			pr := &PathRule{
				Step: func(pc *PathCtx, s uint64, ins ssa.Instruction) uint64 {
					if w := m.waitedDone(c, ins); w != nil {
						if e, ok := w.(*ssa.Extract); ok && e.Tuple == ssa.Value(theCall) && e.Index == ch {
							return s &^ pending
						}
					}
					switch x := ins.(type) {
					case *ssa.Call:
						if x == theCall {
							pc.Note("log handed off at %s", c.pos(x.Pos()))
							return s | pending
						}
					case *ssa.UnOp:
						if x.Op == token.ARROW {
							if e, ok := x.X.(*ssa.Extract); ok && e.Tuple == ssa.Value(theCall) && e.Index == ch {
								return s &^ pending
							}
						}
					case *ssa.Select:
						// a select that can complete through another arm is not a wait
					}
					return s
				},
				Edge: func(pc *PathCtx, s uint64, from *ssa.BasicBlock, si int) (uint64, bool) {
					for _, f := range pc.edgeFacts(from, si) {
						if e, ok := f.X.(*ssa.Extract); ok && e.Tuple == ssa.Value(theCall) && e.Index == errI && isNilConst(f.Y) && !f.Eq {
							return s &^ pending, true // the hand-off itself failed: nothing was handed off
						}
					}
					return s, true
				},
				Exit: func(pc *PathCtx, s uint64, ins ssa.Instruction) {
					if _, ok := ins.(*ssa.Return); ok && s&pending != 0 {
						obl.violate(k, ins.Pos(), "the function returns on a path that handed a log to the batcher but neither passes the done channel on nor has received on it: the write is answered (success or failure) before it is persisted", pc.Trail())
					}
				},
			}
			c.RunPaths(fn, 0, pr)
		}
		// where fn does not return a channel, the log it returns must come from a hand-off or from the store
		if fnChan < 0 && chainedLogResultIdx(fn.Signature) >= 0 {
			li := chainedLogResultIdx(fn.Signature)
			checkSrc := func(v ssa.Value, pos token.Pos) {
				if isNilConst(v) {
					return
				}
				if call, idx := resultOf(v); call != nil && idx == 0 {
					if _, _, ok := m.appendCall(c, call); ok {
						return
					}
					if isCallTo(call, m.readLogIK) || returnsStoredLog(c, m, call, idx, 0) {
						obl.expect(name+":replayed-log-is-persisted", pos, "a log answered without executing comes from Store.ReadLogWithIdempotencyKey")
						return
					}
				}
				if u, ok := v.(*ssa.UnOp); ok && u.Op == token.MUL {
					if a, ok := u.X.(*ssa.Alloc); ok && cells[li] == a {
						return
					}
				}
				obl.violate(name+":log-source", pos, "the function answers with a log that is neither the result of a hand-off (after the wait) nor one read from the store by idempotency key", nil)
			}
			for _, b := range fn.Blocks {
				for _, ins := range b.Instrs {
					switch x := ins.(type) {
					case *ssa.Store:
						if a, ok := x.Addr.(*ssa.Alloc); ok && cells[li] == a {
							checkSrc(x.Val, x.Pos())
						}
					case *ssa.Return:
						if li < len(x.Results) {
							checkSrc(x.Results[li], x.Pos())
						}
					}
				}
			}
		}
	}
	c.Info["handoff_calls"] = nCalls
	if nCalls < 3 || nWaiters == 0 {
		obl.undecided("floor:handoff-calls", token.NoPos, fmt.Sprintf("expected hand-off calls with at least one waiting function, found %d calls / %d waiters", nCalls, nWaiters))
	}

	// R06b: who closes a done channel
	oblB := newOblSet(c, "R06b")
	defer oblB.flush()
	nClose := 0
	// a close event: a close(ch) instruction, or a call of a package function that only makes, closes and returns a
	// channel (`closedChan()`), in which case the event is the call and the channel its result
	type closeEvent struct {
		fn  *ssa.Function
		ins *ssa.Call
		ch  ssa.Value
	}
	var events []closeEvent
	ctors := map[*ssa.Function]bool{}
	for _, fn := range m.fns {
		for _, b := range fn.Blocks {
			for _, ins := range b.Instrs {
				call, ok := ins.(*ssa.Call)
				if !ok {
					continue
				}
				bi, ok := call.Call.Value.(*ssa.Builtin)
				if !ok || bi.Name() != "close" || !isDoneChanType(call.Call.Args[0].Type()) {
					continue
				}
				if isClosedChanConstructor(fn, call) {
					ctors[fn] = true
					continue
				}
				if chanResultIdx(fnOrParentSig(fn)) < 0 {
					continue
				}
				events = append(events, closeEvent{fn, call, call.Call.Args[0]})
			}
		}
	}
	for _, fn := range m.fns {
		allCalls(fn, func(ci ssa.CallInstruction) {
			if call, ok := ci.(*ssa.Call); ok {
				if g := staticCallee(call); g != nil && ctors[g] {
					events = append(events, closeEvent{fn, call, call})
				}
			}
		})
	}
	for _, ev := range events {
		fn, call := ev.fn, ev.ins
		nClose++
		k := fnName(fn) + ":close-of-done"
		if fn.Parent() != nil && closurePassedToAppender(c, m, fn) {
			oblB.expect(k, call.Pos(), "closed inside the callback handed to the batcher (runs after InsertLogs succeeded, R06c)")
			continue
		}
		if guardedByFieldFact(c, fn, call, m.fDryRun, true) {
			oblB.expect(k, call.Pos(), "closed on the DryRun edge (nothing is persisted, nothing to wait for)")
			continue
		}
		// the preview branch lives in a helper (`return e.dryRunLog(builder)`): every call of the helper is on the DryRun edge
		if fn.Parent() == nil && fnPkgPath(origin(fn)) == pkgCommand {
			n, all := 0, true
			for _, site := range c.CallersOf(fn) {
				p := site.Parent()
				if p == nil || (p.Synthetic != "" && !strings.HasPrefix(p.Synthetic, "instance of")) {
					continue
				}
				if strings.HasSuffix(c.Fset.Position(site.Pos()).Filename, "_test.go") {
					continue
				}
				n++
				sc, isCall := site.(*ssa.Call)
				if !isCall || !guardedByFieldFact(c, p, sc, m.fDryRun, true) {
					all = false
				}
			}
			if n > 0 && all {
				oblB.expect(k, call.Pos(), "closed in a helper that is only called on the DryRun edge (nothing is persisted, nothing to wait for)")
				continue
			}
		}
		// a fresh channel closed at once is legitimate only when it accompanies a log that is already
		// persisted (found by idempotency key)
		if pairedWithStoredLog(c, m, fn, ev.ch) {
			oblB.expect(k, call.Pos(), "an already-closed channel returned together with a log read from the store")
			continue
		}
		oblB.violate(k, call.Pos(), "the done channel is closed outside the batcher callback, outside the dry-run branch and not for a log read back from the store: waiters are released before the log is persisted", nil)
	}
	if nClose == 0 {
		oblB.undecided("floor:close-sites", token.NoPos, "no close of a done channel found in package command")
	}
}

func chainedLogResultIdx(sig *types.Signature) int {
	for i := 0; i < sig.Results().Len(); i++ {
		if isNamed(sig.Results().At(i).Type(), pkgLedger, "ChainedLog") {
			return i
		}
	}
	return -1
}

// pairedWithStoredLog: the channel closed by `closeCall` is returned by fn in the same return as a log
// that comes from Store.ReadLogWithIdempotencyKey.
func pairedWithStoredLog(c *Ctx, m *cmdModel, fn *ssa.Function, ch ssa.Value) bool {
	li, ci := chainedLogResultIdx(fn.Signature), chanResultIdx(fn.Signature)
	if li < 0 || ci < 0 {
		return false
	}
	cells := resultCells(fn)
	found, okAll := false, true
	fromStore := func(v ssa.Value) bool {
		for _, r := range roots(v, nil) {
			if call, idx := resultOf(r); call != nil && idx == 0 && isCallTo(call, m.readLogIK) {
				return true
			}
		}
		return false
	}
	for _, b := range fn.Blocks {
		var logV, chV ssa.Value
		for _, ins := range b.Instrs {
			switch x := ins.(type) {
			case *ssa.Store:
				if a, ok := x.Addr.(*ssa.Alloc); ok {
					if cells[li] == a {
						logV = x.Val
					}
					if cells[ci] == a {
						chV = x.Val
					}
				}
			case *ssa.Return:
				if cells[li] == nil && li < len(x.Results) {
					logV, chV = x.Results[li], x.Results[ci]
				}
			}
		}
		if chV != nil && strip(chV) == strip(ch) {
			found = true
			if logV == nil || !fromStore(logV) {
				okAll = false
			}
		}
	}
	return found && okAll
}

func fnOrParentSig(fn *ssa.Function) *types.Signature {
	for fn.Parent() != nil {
		fn = fn.Parent()
	}
	return fn.Signature
}

func isDoneChanType(t types.Type) bool {
	ch, ok := t.Underlying().(*types.Chan)
	if !ok {
		return false
	}
	if st, ok := ch.Elem().Underlying().(*types.Struct); ok && st.NumFields() == 0 {
		return true
	}
	// a completion channel may also carry the outcome of the persistence
	return isErrorType(ch.Elem())
}

func isExecLog(v ssa.Value, execParam *ssa.Parameter) bool {
	e, ok := v.(*ssa.Extract)
	if !ok || e.Index != 0 {
		return false
	}
	call, ok := e.Tuple.(*ssa.Call)
	return ok && call.Call.Value == ssa.Value(execParam)
}

// closurePassedToAppender: is the literal fn passed (as a MakeClosure argument) to a call whose callee
// reaches Batcher.Append or is Batcher.Append?
func closurePassedToAppender(c *Ctx, m *cmdModel, fn *ssa.Function) bool {
	parent := fn.Parent()
	for _, b := range parent.Blocks {
		for _, ins := range b.Instrs {
			ci, ok := ins.(ssa.CallInstruction)
			if !ok {
				continue
			}
			for _, a := range ci.Common().Args {
				if mc, ok := a.(*ssa.MakeClosure); ok && mc.Fn == fn {
					if isCallTo(ci, m.batcherAppend) {
						return true
					}
					for _, f := range c.CalleesOf(ci) {
						if m.appenders[f] {
							return true
						}
					}
				}
			}
		}
	}
	return false
}

// guardedByFieldFact: is `target` reached only through edges establishing <field> == want?
func guardedByFieldFact(c *Ctx, fn *ssa.Function, target ssa.Instruction, field *types.Var, want bool) bool {
	ok := true
	seen := false
	pr := &PathRule{
		Edge: func(pc *PathCtx, s uint64, from *ssa.BasicBlock, si int) (uint64, bool) {
			for _, f := range pc.edgeFacts(from, si) {
				if _, isRead := fieldRead(f.X, field); isRead {
					if b, isB := constBool(f.Y); isB {
						if (b == f.Eq) == want {
							s |= 1
						} else {
							s &^= 1
						}
					}
				}
			}
			return s, true
		},
		Step: func(pc *PathCtx, s uint64, ins ssa.Instruction) uint64 {
			if ins == target {
				seen = true
				if s&1 == 0 {
					ok = false
				}
			}
			return s
		},
	}
	c.RunPaths(fn, 0, pr)
	return ok && seen
}

// ---- R06c / R06d ---------------------------------------------------------------------------------

func ruleR06cd(c *Ctx) {
	const rule = "R06c"
	runnerField := c.MustField(rule, pkgJob, "Runner", "runner")
	callbackField := c.MustFieldLike(rule, pkgBatching, "pending", "callback", func(t types.Type) bool {
		sig, ok := t.Underlying().(*types.Signature)
		return ok && sig.Params().Len() == 0 && sig.Results().Len() == 0
	})
	terminated := c.IfaceMethod(pkgJob, "Job", "Terminated")
	if runnerField == nil || callbackField == nil || terminated == nil {
		if terminated == nil {
			c.undecided(rule, "anchor:job.Job.Terminated", token.NoPos, "interface method not found")
		}
		return
	}
	obl := newOblSet(c, rule)
	oblD := newOblSet(c, "R06d")
	defer obl.flush()
	defer oblD.flush()
	// (1) pending.callback is invoked only inside batcherJob.Terminated
	nCb := 0
	for _, fn := range c.RepoFuncs() {
		for _, b := range fn.Blocks {
			for _, ins := range b.Instrs {
				call, ok := ins.(ssa.CallInstruction)
				if !ok {
					continue
				}
				if _, isCb := fieldRead(call.Common().Value, callbackField); !isCb {
					continue
				}
				nCb++
				o := fn
				if fn.Origin() != nil {
					o = fn.Origin()
				}
				k := fnName(o) + ":callback-invoked-in-Terminated"
				if o.Name() == "Terminated" && recvTypeName(o) == "batcherJob" {
					obl.expect(k, call.Pos(), "the per-log callback is invoked by batcherJob.Terminated only")
				} else {
					obl.violate(k, call.Pos(), "a batch callback (which acknowledges the write) is invoked outside batcherJob.Terminated, i.e. not tied to the completion of InsertLogs", nil)
				}
			}
		}
	}
	if nCb == 0 {
		obl.undecided("floor:callback-invocations", token.NoPos, "pending.callback is never invoked")
	}
	// (2) worker: send of the job on the terminated channel only after runner returned nil; error edge panics
	nWorkers := 0
	var sendCells []ssa.Value
	for _, fn := range c.FuncsIn(pkgJob) {
		if fn.TypeParams().Len() > 0 && len(fn.TypeArgs()) == 0 {
			// generic body: analysed as is (types are parametric, structure identical)
		}
		var runnerCall *ssa.Call
		for _, b := range fn.Blocks {
			for _, ins := range b.Instrs {
				if call, ok := ins.(*ssa.Call); ok {
					if _, isR := fieldRead(call.Call.Value, runnerField); isR {
						runnerCall = call
					}
				}
			}
		}
		if runnerCall == nil {
			continue
		}
		nWorkers++
		name := fnName(fn)
		job := runnerCall.Call.Args[len(runnerCall.Call.Args)-1]
		kSend := name + ":terminated-only-after-success"
		kPanic := name + ":runner-error-stops-the-process"
		obl.expect(kSend, runnerCall.Pos(), "the job is reported as terminated only on the nil-error edge of the runner call")
		oblD.expect(kPanic, runnerCall.Pos(), "every path from the error edge of the runner call ends in panic")
		const (
			ran  = 1
			okE  = 2
			errE = 4
		)
		nSend := 0
		pr := &PathRule{
			Step: func(pc *PathCtx, s uint64, ins ssa.Instruction) uint64 {
				switch x := ins.(type) {
				case *ssa.Call:
					if x == runnerCall {
						return ran
					}
				case *ssa.Send:
					if x.X == job {
						nSend++
						sendCells = append(sendCells, chanCellCtx(c, x.Chan, 0))
						if s&okE == 0 {
							obl.violate(kSend, x.Pos(), "the worker reports the job as terminated on a path where the runner (InsertLogs) did not return nil: the batch callbacks acknowledge writes that were not persisted", pc.Trail())
						}
					}
				}
				return s
			},
			Edge: func(pc *PathCtx, s uint64, from *ssa.BasicBlock, si int) (uint64, bool) {
				for _, f := range pc.edgeFacts(from, si) {
					if f.X == ssa.Value(runnerCall) && isNilConst(f.Y) {
						if f.Eq {
							return (s | okE) &^ errE, true
						}
						return (s | errE) &^ okE, true
					}
				}
				return s, true
			},
			Exit: func(pc *PathCtx, s uint64, ins ssa.Instruction) {
				if _, isRet := ins.(*ssa.Return); isRet && s&errE != 0 {
					oblD.violate(kPanic, ins.Pos(), "a failing runner (InsertLogs) does not stop the worker with a panic: the failure is swallowed", pc.Trail())
				}
			},
		}
		// loops: the err state must not survive into the next iteration's send either (it cannot: Step resets at the call)
		c.RunPaths(fn, 0, pr)
		if nSend == 0 {
			obl.undecided(name+":floor:terminated-send", runnerCall.Pos(), "the worker never sends the finished job anywhere")
		}
	}
	if nWorkers == 0 {
		obl.undecided("floor:worker", token.NoPos, "no function of package job calls Runner.runner")
	}
	// (3) Job.Terminated invoked only in Runner.Run on values received from the channel the worker sends to;
	//     the error-channel arm panics
	nTerm := 0
	for _, fn := range c.RepoFuncs() {
		for _, b := range fn.Blocks {
			for _, ins := range b.Instrs {
				call, ok := ins.(ssa.CallInstruction)
				if !ok {
					continue
				}
				isTerm := isCallTo(call, terminated) && ifaceMethodOf(call) != nil
				if f := staticCallee(call); f != nil && origName(f) == "Terminated" && f.Signature.Recv() != nil {
					if jobT := c.Named(pkgJob, "Job"); jobT != nil {
						if it, ok := jobT.Underlying().(*types.Interface); ok && (types.Implements(f.Signature.Recv().Type(), it) || types.Implements(types.NewPointer(f.Signature.Recv().Type()), it)) {
							isTerm = true
						}
					}
				}
				if !isTerm || (fn.Synthetic != "" && !strings.HasPrefix(fn.Synthetic, "instance of")) {
					continue
				}
				nTerm++
				o := fn
				if fn.Origin() != nil {
					o = fn.Origin()
				}
				k := fnName(o) + ":Terminated-on-received-job"
				recvVal := call.Common().Value
				if !call.Common().IsInvoke() && len(call.Common().Args) > 0 {
					recvVal = call.Common().Args[0]
				}
				// received from the channel the worker sends successful jobs to — directly, or as the argument every
				// caller of a helper of the package passes (`r.onJobTerminated(job)`)
				var fromSuccessChan func(v ssa.Value, in *ssa.Function, depth int) bool
				matches := func(ch ssa.Value) bool {
					cell := chanCellCtx(c, ch, 0)
					for _, sc := range sendCells {
						if sc != nil && cell != nil && (sc == cell || (sc.Pos().IsValid() && sc.Pos() == cell.Pos())) {
							return true
						}
					}
					return false
				}
				fromSuccessChan = func(v ssa.Value, in *ssa.Function, depth int) bool {
					rs := roots(v, nil)
					if len(rs) == 0 || depth > 3 {
						return false
					}
					for _, r := range rs {
						okRoot := false
						switch x := r.(type) {
						case *ssa.Extract:
							if sel, ok := x.Tuple.(*ssa.Select); ok {
								// which state delivers this extract? recv values start at index 2
								ri := 2
								for _, st := range sel.States {
									if st.Dir == types.RecvOnly {
										if ri == x.Index && matches(st.Chan) {
											okRoot = true
										}
										ri++
									}
								}
							}
							if u, ok := x.Tuple.(*ssa.UnOp); ok && u.Op == token.ARROW && x.Index == 0 && matches(u.X) {
								okRoot = true
							}
						case *ssa.UnOp:
							if x.Op == token.ARROW && matches(x.X) {
								okRoot = true
							}
							if x.Op == token.MUL && x.X != v {
								okRoot = fromSuccessChan(x.X, in, depth+1)
							}
						case *ssa.Parameter:
							oo := origin(in)
							if fnPkgPath(oo) == pkgJob {
								idx := paramIndex(x)
								n := 0
								all := true
								for _, site := range c.CallersOf(in) {
									if site.Parent() == nil || idx >= len(site.Common().Args) {
										continue
									}
									if syn := site.Parent().Synthetic; syn != "" && !strings.HasPrefix(syn, "instance of") {
										continue // promoted-method / bound-method wrappers: never called themselves
									}
									n++
									if !fromSuccessChan(site.Common().Args[idx], site.Parent(), depth+1) {
										all = false
									}
								}
								okRoot = n > 0 && all
							}
						}
						if !okRoot {
							return false
						}
					}
					return true
				}
				fromChan := fromSuccessChan(recvVal, fn, 0)
				if fnPkgPath(o) == pkgJob && fromChan {
					obl.expect(k, call.Pos(), "Terminated is invoked on a job received from the channel the worker sends successful jobs to")
				} else {
					obl.violate(k, call.Pos(), "Job.Terminated (which fires the acknowledgement callbacks) is invoked on a value that was not received from the worker's success channel", nil)
				}
			}
		}
	}
	if nTerm == 0 {
		obl.undecided("floor:Terminated-invocations", token.NoPos, "Job.Terminated is never invoked")
	}
	// error-channel arm of Run panics
	for _, fn := range c.FuncsIn(pkgJob) {
		o := fn
		if fn.Origin() != nil {
			o = fn.Origin()
		}
		if o.Name() != "Run" || fn.Parent() != nil || (fn.TypeParams().Len() > 0 && len(fn.TypeArgs()) == 0 && false) {
			continue
		}
		for _, b := range fn.Blocks {
			for _, ins := range b.Instrs {
				sel, ok := ins.(*ssa.Select)
				if !ok {
					continue
				}
				for i, st := range sel.States {
					ch, ok := st.Chan.Type().Underlying().(*types.Chan)
					if !ok || !isErrorType(ch.Elem()) {
						continue
					}
					k := fnName(o) + ":error-channel-arm-panics"
					oblD.expect(k, sel.Pos(), "the arm that receives a worker error panics")
					idx := i
					pr := &PathRule{
						Edge: func(pc *PathCtx, s uint64, from *ssa.BasicBlock, si int) (uint64, bool) {
							for _, f := range pc.edgeFacts(from, si) {
								if e, ok := f.X.(*ssa.Extract); ok && e.Tuple == ssa.Value(sel) && e.Index == 0 {
									if n, ok := constInt(f.Y); ok && int(n) == idx && f.Eq {
										return s | 1, true
									}
								}
							}
							return s, true
						},
						Step: func(pc *PathCtx, s uint64, ins ssa.Instruction) uint64 {
							if ins == ssa.Instruction(sel) && s&1 != 0 {
								oblD.violate(k, sel.Pos(), "after receiving a worker error the loop goes on instead of panicking: a failed InsertLogs does not stop the process", pc.Trail())
							}
							return s
						},
						Exit: func(pc *PathCtx, s uint64, ins ssa.Instruction) {
							if _, isRet := ins.(*ssa.Return); isRet && s&1 != 0 {
								oblD.violate(k, ins.Pos(), "after receiving a worker error Run returns instead of panicking", pc.Trail())
							}
						},
					}
					c.RunPaths(fn, 0, pr)
				}
			}
		}
	}
}

// chanCell identifies a channel held in a local cell (possibly captured): the Alloc it lives in.
// chanCellCtx: like chanCell, also through conversions (chan → chan<-) and through a parameter of a package
// function to the argument at its (static) call sites, when they all agree.
func chanCellCtx(c *Ctx, v ssa.Value, depth int) ssa.Value {
	if depth > 4 || v == nil {
		return nil
	}
	switch x := v.(type) {
	case *ssa.ChangeType:
		return chanCellCtx(c, x.X, depth+1)
	case *ssa.Convert:
		return chanCellCtx(c, x.X, depth+1)
	case *ssa.MakeChan:
		return x
	case *ssa.Parameter:
		fn := x.Parent()
		idx := paramIndex(x)
		var cell ssa.Value
		// call sites of every version of the function (generic body, instances): the channel is the same variable of
		// the source, identified by its position
		var sites []ssa.CallInstruction
		for f := range c.AllFns {
			if origin(f) == origin(fn) {
				sites = append(sites, c.CallersOf(f)...)
			}
		}
		for _, site := range sites {
			if p := site.Parent(); p == nil || (p.Synthetic != "" && !strings.HasPrefix(p.Synthetic, "instance of")) {
				continue // promoted-method and bound-method wrappers only forward their own parameters
			}
			args := site.Common().Args
			if idx < 0 || idx >= len(args) {
				return nil
			}
			cc := chanCellCtx(c, args[idx], depth+1)
			if cc == nil || (cell != nil && cell.Pos() != cc.Pos()) {
				return nil
			}
			cell = cc
		}
		return cell
	}
	if cell := chanCell(v); cell != nil {
		// a cell assigned exactly once (a parameter spilled because a literal captures it, `ch := make(…)`):
		// the channel is what was assigned
		if a, ok := cell.(*ssa.Alloc); ok {
			if st := singleStore(a); st != nil {
				if r := chanCellCtx(c, st, depth+1); r != nil {
					return r
				}
			}
		}
		return cell
	}
	if u, ok := v.(*ssa.UnOp); ok && u.Op == token.MUL {
		if st := singleStore(u.X); st != nil {
			return chanCellCtx(c, st, depth+1)
		}
	}
	return nil
}

func chanCell(v ssa.Value) ssa.Value {
	u, ok := v.(*ssa.UnOp)
	if !ok || u.Op != token.MUL {
		return nil
	}
	switch a := u.X.(type) {
	case *ssa.Alloc:
		return a
	case *ssa.FreeVar:
		fn := a.Parent()
		for i, fv := range fn.FreeVars {
			if fv == a && fn.Parent() != nil {
				for _, b := range fn.Parent().Blocks {
					for _, ins := range b.Instrs {
						if mc, ok := ins.(*ssa.MakeClosure); ok && mc.Fn == fn && i < len(mc.Bindings) {
							if al, ok := mc.Bindings[i].(*ssa.Alloc); ok {
								return al
							}
							if fv2, ok := mc.Bindings[i].(*ssa.FreeVar); ok {
								return chanCell(&ssa.UnOp{Op: token.MUL, X: fv2})
							}
						}
					}
				}
			}
		}
	}
	return nil
}

// ---- R06e ------------------------------------------------------------------------------------

func ruleR06e(c *Ctx) {
	const rule = "R06e"
	insert := c.MustFn(rule, pkgLedgerstore, "Store.InsertLogs")
	withTx := c.MustFn(rule, pkgLedgerstore, "Store.withTransaction")
	if insert == nil || withTx == nil {
		return
	}
	// withTransaction -> RunInTx, callback called with the tx of RunInTx's closure
	runInTx := false
	for _, fn := range withLiterals(withTx) {
		allCalls(fn, func(ci ssa.CallInstruction) {
			if calleeFullName(ci) == "(*github.com/uptrace/bun.DB).RunInTx" {
				runInTx = true
			}
		})
	}
	c.check(runInTx, rule, "withTransaction:RunInTx", withTx.Pos(), "withTransaction runs its callback inside bun.DB.RunInTx", "Store.withTransaction no longer wraps its callback in RunInTx: a batch of logs is not inserted atomically")
	// InsertLogs: body = call of withTransaction with a literal; every DB statement inside the literal, on tx
	var lit *ssa.Function
	direct := 0
	allCalls(insert, func(ci ssa.CallInstruction) {
		if callsFn(ci, withTx) {
			for _, a := range ci.Common().Args {
				if mc, ok := a.(*ssa.MakeClosure); ok {
					lit, _ = mc.Fn.(*ssa.Function)
				}
			}
			return
		}
		n := calleeFullName(ci)
		if isDBCall(n) {
			direct++
		}
	})
	c.check(lit != nil && direct == 0, rule, "InsertLogs:inside-one-transaction", insert.Pos(), "every statement of InsertLogs runs inside the literal given to withTransaction", "InsertLogs performs database statements outside withTransaction (or does not use it): a batch can be partially inserted")
	if lit == nil {
		return
	}
	nStmt := 0
	// the literal, the literals nested in it, and the helpers of the package they call (statement preparation, row
	// encoding, final flush), each instruction with the binding of helper parameters to the caller's values
	var flat []flatIns
	for _, fn := range withLiterals(lit) {
		if fn == lit {
			flat = append(flat, flattenCalls(fn, pkgLedgerstore, 2)...)
		} else {
			flat = append(flat, flattenCalls(fn, pkgLedgerstore, 2)...)
		}
	}
	seenIns := map[ssa.Instruction]bool{}
	for _, fi := range flat {
		call, ok := fi.ins.(*ssa.Call)
		if !ok || seenIns[fi.ins] {
			continue
		}
		seenIns[fi.ins] = true
		n := calleeFullName(call)
		if !isDBCall(n) {
			// a helper of the package that reports an error: its error must be used as well
			if g := staticCallee(call); g != nil && fnPkgPath(origin(g)) == pkgLedgerstore && len(g.Blocks) > 0 && g != withTx {
				if rs := g.Signature.Results(); rs.Len() > 0 && isErrorType(rs.At(rs.Len()-1).Type()) {
					c.check(errorIsUsed(call), rule, "InsertLogs:"+g.Name()+":error-propagated", call.Pos(), "its error is tested/returned", "the error of "+g.Name()+" is dropped: a failing insert would be reported as success and the write acknowledged")
				}
			}
			continue
		}
		nStmt++
		k := "InsertLogs:" + shortCallee(n)
		// receiver: tx parameter or a statement prepared on it
		if n == "(github.com/uptrace/bun.Tx).Prepare" || n == "(github.com/uptrace/bun.Tx).PrepareContext" {
			onTx := false
			for _, r := range rootsEnv(call.Call.Args[0], fi.env, pkgLedgerstore) {
				if r.v == ssa.Value(lit.Params[0]) {
					onTx = true
				}
			}
			onTx = onTx || call.Call.Args[0] == ssa.Value(lit.Params[0]) || rootBase(call.Call.Args[0]) == ssa.Value(lit.Params[0])
			c.check(onTx, rule, k+":on-tx", call.Pos(), "prepared on the transaction handle", "the COPY statement is not prepared on the transaction handle passed by withTransaction")
		}
		// error discipline: the error result must be tested or returned
		c.check(errorIsUsed(call), rule, k+":error-propagated", call.Pos(), "its error is tested/returned", "the error of "+shortCallee(n)+" is dropped: a failing insert would be reported as success and the write acknowledged")
	}
	if nStmt < 3 {
		c.undecided(rule, "floor:statements", lit.Pos(), fmt.Sprintf("expected Prepare/Exec/Close in InsertLogs, found %d database calls", nStmt))
	}
	c.NSites += nStmt
}

func isDBCall(n string) bool {
	switch n {
	case "(github.com/uptrace/bun.Tx).Prepare", "(github.com/uptrace/bun.Tx).PrepareContext", "(*database/sql.Stmt).Exec", "(*database/sql.Stmt).ExecContext", "(*database/sql.Stmt).Close",
		"(github.com/uptrace/bun.Tx).Exec", "(github.com/uptrace/bun.Tx).ExecContext", "(*github.com/uptrace/bun.DB).Exec", "(*github.com/uptrace/bun.DB).ExecContext", "(*github.com/uptrace/bun.DB).Prepare":
		return true
	}
	return false
}

func shortCallee(n string) string {
	for i := len(n) - 1; i >= 0; i-- {
		if n[i] == '/' {
			return n[i+1:]
		}
	}
	return n
}

// errorIsUsed: the error result of call reaches an If condition, a Return or a Store (not dropped).
func errorIsUsed(call *ssa.Call) bool {
	sig := call.Call.Signature()
	ei := errResultIdx(sig)
	if ei < 0 {
		return true
	}
	var errVal ssa.Value
	if sig.Results().Len() == 1 {
		errVal = call
	} else {
		for _, r := range *call.Referrers() {
			if e, ok := r.(*ssa.Extract); ok && e.Index == ei {
				errVal = e
			}
		}
	}
	if errVal == nil {
		return false
	}
	for _, r := range *errVal.Referrers() {
		switch r.(type) {
		case *ssa.BinOp, *ssa.Return, *ssa.Store, *ssa.Call, *ssa.MakeInterface, *ssa.Phi, *ssa.ChangeInterface:
			return true
		}
	}
	return false
}

// ---- R06f ------------------------------------------------------------------------------------

func ruleR06f(c *Ctx) {
	ruleR06fAs(c, "R06f", "a path returns an error although the log was already handed to the batcher: the caller sees a failure but the entry is persisted")
}

func ruleR06fAs(c *Ctx, rule, message string) {
	m := c.cmdModel(rule)
	if !m.ok {
		return
	}
	obl := newOblSet(c, rule)
	defer obl.flush()
	const (
		appended = 1
		errNil   = 2
	)
	n := 0
	for _, fn := range m.fns {
		has := false
		allCalls(fn, func(ci ssa.CallInstruction) {
			if _, _, ok := m.appendCall(c, ci); ok {
				has = true
			}
		})
		if !has {
			continue
		}
		n++
		name := fnName(fn)
		key := name + ":no-error-after-handoff"
		obl.expect(key, fn.Pos(), "no path returns an error after a log was handed to the batcher")
		et := newErrTracker(fn)
		pr := &PathRule{
			Step: func(pc *PathCtx, s uint64, ins ssa.Instruction) uint64 {
				if ci, ok := ins.(ssa.CallInstruction); ok {
					if _, _, ok := m.appendCall(c, ci); ok {
						pc.Note("log handed off at %s", c.pos(ci.Pos()))
						return s | appended
					}
				}
				if changed, isNil := et.onStore(ins); changed {
					if !isNil {
						// the hand-off's own error passed on as is: nil whenever something was handed off
						if e, ok := ins.(*ssa.Store).Val.(*ssa.Extract); ok {
							if call, ok := e.Tuple.(*ssa.Call); ok {
								if _, ei, ok := m.appendCall(c, call); ok && ei == e.Index {
									isNil = true
								}
							}
						}
					}
					if isNil {
						return s | errNil
					}
					return s &^ errNil
				}
				return s
			},
			Edge: func(pc *PathCtx, s uint64, from *ssa.BasicBlock, si int) (uint64, bool) {
				for _, f := range pc.edgeFacts(from, si) {
					if e, ok := f.X.(*ssa.Extract); ok && isNilConst(f.Y) && !f.Eq {
						if call, ok := e.Tuple.(*ssa.Call); ok {
							if _, ei, ok := m.appendCall(c, call); ok && ei == e.Index {
								return s &^ appended, true
							}
						}
					}
				}
				return s, true
			},
			Exit: func(pc *PathCtx, s uint64, ins ssa.Instruction) {
				ret, ok := ins.(*ssa.Return)
				if !ok || s&appended == 0 {
					return
				}
				isNil := s&errNil != 0
				if known, dn := et.directNil(ret); known {
					isNil = dn
					// returning the append call's own results directly: its error is nil when it appended
					if !dn && et.errIdx < len(ret.Results) {
						if e, ok := ret.Results[et.errIdx].(*ssa.Extract); ok {
							if call, ok := e.Tuple.(*ssa.Call); ok {
								if _, ei, ok := m.appendCall(c, call); ok && ei == e.Index {
									isNil = true
								}
							}
						}
					}
				}
				if !isNil {
					obl.violate(key, ret.Pos(), message, pc.Trail())
				}
			},
		}
		c.RunPaths(fn, 0, pr)
	}
	if n == 0 {
		obl.undecided("floor:handoff-functions", token.NoPos, "no function hands a log off")
	}
}


// R06g — a completion channel that carries the outcome of the persistence (chan error): the received value is
// the only trace of a failed insertion, so it must be used where it is received; and since the value is
// delivered once (the channel is then closed, later receives see nil), a path may receive at most once from the
// channel of one hand-off before the outcome is returned.
func ruleR06g(c *Ctx) {
	const rule = "R06g"
	m := c.cmdModel(rule)
	if !m.ok {
		return
	}
	n := 0
	for _, fn := range m.fns {
		for _, b := range fn.Blocks {
			for _, ins := range b.Instrs {
				u, ok := ins.(*ssa.UnOp)
				if !ok || u.Op != token.ARROW {
					continue
				}
				ch, ok := u.X.Type().Underlying().(*types.Chan)
				if !ok || !isErrorType(ch.Elem()) {
					continue
				}
				n++
				c.check(hasRealReferrer(u), rule, fmt.Sprintf("%s:received-outcome-used#%d", fnName(fn), n), u.Pos(), "the received outcome is used", fnName(fn)+" receives the outcome of the persistence from the completion channel and discards it: the single error value is consumed here, every later receive sees nil, and a failed insertion is acknowledged as a success")
			}
		}
	}
	if n == 0 {
		c.ok(rule, "completion-channels-carry-no-outcome", token.NoPos, "the completion channels of package command carry no value (chan struct{}): there is no outcome to lose")
	}
}


// isClosedChanConstructor: fn makes a channel, closes it (closeCall) and returns it — and does nothing else with it.
func isClosedChanConstructor(fn *ssa.Function, closeCall *ssa.Call) bool {
	mk, ok := closeCall.Call.Args[0].(*ssa.MakeChan)
	if !ok || mk.Parent() != fn || fn.Signature.Results().Len() != 1 || fn.Signature.Params().Len() != 0 {
		return false
	}
	for _, r := range *mk.Referrers() {
		switch u := r.(type) {
		case *ssa.Return, *ssa.DebugRef:
		case *ssa.Call:
			if u != closeCall {
				return false
			}
		default:
			return false
		}
	}
	return true
}

// returnsStoredLog: result idx of the call is, on every return of the (static, package) callee, nil or the log
// read by Store.ReadLogWithIdempotencyKey.
func returnsStoredLog(c *Ctx, m *cmdModel, call *ssa.Call, idx int, depth int) bool {
	callee := staticCallee(call)
	if callee == nil || fnPkgPath(callee) != pkgCommand || len(callee.Blocks) == 0 || depth > 3 {
		return false
	}
	cells := resultCells(callee)
	n := 0
	okAll := true
	check := func(v ssa.Value) {
		if isNilConst(v) {
			return
		}
		n++
		for _, r := range roots(v, nil) {
			if cl, i := resultOf(r); cl != nil && i == 0 && (isCallTo(cl, m.readLogIK) || returnsStoredLog(c, m, cl, i, depth+1)) {
				return
			}
		}
		okAll = false
	}
	for _, b := range callee.Blocks {
		for _, ins := range b.Instrs {
			switch x := ins.(type) {
			case *ssa.Store:
				if a, ok := x.Addr.(*ssa.Alloc); ok && cells[idx] == a {
					check(x.Val)
				}
			case *ssa.Return:
				if cells[idx] == nil && idx < len(x.Results) {
					check(x.Results[idx])
				}
			}
		}
	}
	return n > 0 && okAll
}
