package main

// R08f — the text of a composite parse-tree node is not an identity.
//
// antlr's GetText() of a rule context concatenates the texts of its tokens and drops what the lexer skipped
// (white space): `[COIN1 23]` and `[COIN12 3]` have the same text. The text of a context that has child *rules*
// (read off the generated context type: it has an accessor returning an I…Context) therefore never decides
// which resource, variable or cached result a node stands for: in package compiler such a text does not reach
// a map key, a map lookup or an equality test. Texts of single-token contexts (variable names, type keywords,
// literals) are exact and free to be used as keys.

import (
	"fmt"
	"go/token"
	"go/types"
	"strings"

	"golang.org/x/tools/go/ssa"
)

func ruleR08f(c *Ctx, rule string) {
	pkgParser := modPath + "/internal/machine/script/parser"
	// composite(T): the context type has an accessor that returns a rule context (I…Context or a slice of them)
	isRuleCtx := func(t types.Type) bool {
		if sl, ok := t.Underlying().(*types.Slice); ok {
			t = sl.Elem()
		}
		n := namedOf(t)
		return n != nil && n.Obj().Pkg() != nil && n.Obj().Pkg().Path() == pkgParser && strings.HasSuffix(n.Obj().Name(), "Context")
	}
	compositeNamed := func(n *types.Named) bool {
		ms := types.NewMethodSet(types.NewPointer(n))
		for i := 0; i < ms.Len(); i++ {
			m := ms.At(i).Obj().(*types.Func)
			if strings.HasPrefix(m.Name(), "Get") || strings.HasPrefix(m.Name(), "Set") || !m.Exported() {
				// labelled children (GetAsset) are reported too: a labelled rule child is a rule child
				if !strings.HasPrefix(m.Name(), "Get") || m.Name() == "GetParser" || m.Name() == "GetRuleContext" || m.Name() == "GetParent" || m.Name() == "GetChild" || m.Name() == "GetChildren" || m.Name() == "GetPayload" || m.Name() == "GetBaseRuleContext" {
					continue
				}
			}
			sig := m.Type().(*types.Signature)
			if sig.Params().Len() != 0 || sig.Results().Len() != 1 {
				continue
			}
			if isRuleCtx(sig.Results().At(0).Type()) {
				return true
			}
		}
		return false
	}
	var parserStructs []*types.Named
	if p := c.ByPath[pkgParser]; p != nil && p.Types != nil {
		sc := p.Types.Scope()
		for _, name := range sc.Names() {
			if tn, ok := sc.Lookup(name).(*types.TypeName); ok {
				if n, ok := tn.Type().(*types.Named); ok {
					if _, isStruct := n.Underlying().(*types.Struct); isStruct && strings.HasSuffix(name, "Context") {
						parserStructs = append(parserStructs, n)
					}
				}
			}
		}
	}
	if len(parserStructs) < 10 {
		c.undecided(rule, "anchor:parser-contexts", token.NoPos, fmt.Sprintf("only %d generated context types found in %s", len(parserStructs), pkgParser))
		return
	}
	composite := func(t types.Type) (bool, string) {
		n := namedOf(t)
		if n == nil {
			return false, ""
		}
		if it, ok := n.Underlying().(*types.Interface); ok {
			for _, s := range parserStructs {
				if types.Implements(types.NewPointer(s), it) && compositeNamed(s) {
					return true, s.Obj().Name()
				}
			}
			return false, ""
		}
		if n.Obj().Pkg() != nil && n.Obj().Pkg().Path() == pkgParser {
			return compositeNamed(n), n.Obj().Name()
		}
		return false, ""
	}
	nTexts, nComposite := 0, 0
	seen := map[string]int{}
	for _, fn := range c.RepoFuncs() {
		if fnPkgPath(origin(fn)) != pkgCompiler || len(fn.Blocks) == 0 {
			continue
		}
		for _, b := range fn.Blocks {
			for _, ins := range b.Instrs {
				call, ok := ins.(*ssa.Call)
				if !ok {
					continue
				}
				var recvT types.Type
				if call.Call.IsInvoke() {
					if call.Call.Method.Name() != "GetText" {
						continue
					}
					recvT = call.Call.Value.Type()
				} else if f := call.Call.StaticCallee(); f != nil && f.Name() == "GetText" && len(call.Call.Args) == 1 {
					// a promoted method: the receiver is reached through the embedded fields of the context
					rv := call.Call.Args[0]
					for i := 0; i < 8; i++ {
						if u, ok := rv.(*ssa.UnOp); ok && u.Op == token.MUL {
							if fa, ok := u.X.(*ssa.FieldAddr); ok && fieldOfAddr(fa) != nil && fieldOfAddr(fa).Embedded() {
								rv = fa.X
								continue
							}
						}
						if fa, ok := rv.(*ssa.FieldAddr); ok && fieldOfAddr(fa) != nil && fieldOfAddr(fa).Embedded() {
							rv = fa.X
							continue
						}
						break
					}
					recvT = rv.Type()
				} else {
					continue
				}
				nTexts++
				isComp, tn := composite(recvT)
				if !isComp {
					continue
				}
				nComposite++
				c.seeFn(fn)
				key := fmt.Sprintf("%s:text-of-%s-is-not-an-identity", fnName(fn), tn)
				seen[key]++
				if n := seen[key]; n > 1 {
					key = fmt.Sprintf("%s#%d", key, n)
				}
				use := identityUse(call, 0, map[ssa.Value]bool{})
				c.check(use == "", rule, key, call.Pos(), "the text is parsed or reported, never used to identify the node",
					"the text of a composite parse node ("+tn+") is used as "+use+": GetText concatenates tokens without the skipped white space, so two different nodes (`[COIN1 23]`, `[COIN12 3]`) share it and one is compiled as the other")
			}
		}
	}
	c.Info["gettext_calls_in_compiler"] = nTexts
	c.Info["gettext_on_composite_contexts"] = nComposite
	if nTexts < 8 {
		c.undecided(rule, "floor:GetText-calls", token.NoPos, fmt.Sprintf("only %d GetText calls found in package compiler", nTexts))
	}
}

// identityUse: is the string (or a slice/trim/conversion of it) used as a map key, a map index or an equality operand?
func identityUse(v ssa.Value, depth int, seen map[ssa.Value]bool) string {
	if depth > 6 || seen[v] || v.Referrers() == nil {
		return ""
	}
	seen[v] = true
	for _, r := range *v.Referrers() {
		switch x := r.(type) {
		case *ssa.MapUpdate:
			if x.Key == v {
				return "the key of a map update"
			}
		case *ssa.Lookup:
			if x.Index == v {
				if _, isMap := x.X.Type().Underlying().(*types.Map); isMap {
					return "the key of a map lookup"
				}
			}
		case *ssa.BinOp:
			if x.Op == token.EQL || x.Op == token.NEQ {
				other := x.X
				if other == v {
					other = x.Y
				}
				if k, ok := other.(*ssa.Const); ok && k.Value != nil {
					continue // compared with a constant: a vocabulary test, not an identity between nodes
				}
				return "an operand of an equality test"
			}
		case *ssa.Slice:
			if u := identityUse(x, depth+1, seen); u != "" {
				return u
			}
		case *ssa.Convert:
			if u := identityUse(x, depth+1, seen); u != "" {
				return u
			}
		case *ssa.ChangeType:
			if u := identityUse(x, depth+1, seen); u != "" {
				return u
			}
		case *ssa.Phi:
			if u := identityUse(x, depth+1, seen); u != "" {
				return u
			}
		case *ssa.MakeInterface:
			if u := identityUse(x, depth+1, seen); u != "" {
				return u
			}
		case *ssa.Store:
			// a local: follow its loads
			if a, ok := x.Addr.(*ssa.Alloc); ok && x.Val == v {
				for _, rr := range *a.Referrers() {
					if ld, ok := rr.(*ssa.UnOp); ok && ld.Op == token.MUL {
						if u := identityUse(ld, depth+1, seen); u != "" {
							return u
						}
					}
				}
			}
		case *ssa.Call:
			name := calleeFullName(x)
			if strings.HasPrefix(name, "strings.Trim") || strings.HasPrefix(name, "strings.To") || name == "strings.Clone" {
				if u := identityUse(x, depth+1, seen); u != "" {
					return u
				}
			}
		}
	}
	return ""
}
