package main

// R08g — the operands of a subtraction are taken in the order the compiler pushed them.
//
// The compiler emits the left operand, then the right operand, then the opcode; the machine pops the right operand
// first. For the non-commutative opcodes (OP_ISUB, OP_MONETARY_SUB) the value computed must be
// (second value popped) − (first value popped). Decided in the clause of each opcode (or in a method of the machine
// the clause calls): the receiver of the Sub call derives from the pop that comes later in the code, its argument
// from the pop that comes first; with a helper that pops both (`a, b := popOperands(m)`), the helper's first result is
// its later pop.

import (
	"fmt"
	"go/token"

	"golang.org/x/tools/go/ssa"
)

func ruleR08g(c *Ctx, rule string) {
	tick := c.MustFn(rule, pkgVM, "Machine.tick")
	if tick == nil {
		return
	}
	isPop := func(call *ssa.Call) bool {
		g := staticCallee(call)
		if g == nil || fnPkgPath(origin(g)) != pkgVM {
			return false
		}
		n := origName(g)
		return n == "pop" || n == "popValue"
	}
	// the pop a value derives from (through fields, type assertions, conversions); for a helper returning two popped
	// values, the pop of the selected result
	var popOf func(v ssa.Value, depth int) *ssa.Call
	popOf = func(v ssa.Value, depth int) *ssa.Call {
		if depth > 6 {
			return nil
		}
		for _, r := range roots(v, nil) {
			switch x := r.(type) {
			case *ssa.Call:
				if isPop(x) {
					return x
				}
			case *ssa.Extract:
				if call, ok := x.Tuple.(*ssa.Call); ok {
					if g := staticCallee(call); g != nil && fnPkgPath(origin(g)) == pkgVM && len(g.Blocks) > 0 {
						for _, b := range g.Blocks {
							if ret, ok := b.Instrs[len(b.Instrs)-1].(*ssa.Return); ok && x.Index < len(ret.Results) {
								if p := popOf(ret.Results[x.Index], depth+1); p != nil {
									return p
								}
							}
						}
					}
				}
			case *ssa.UnOp:
				if f, base := anyFieldRead(x); f != nil {
					if p := popOf(base, depth+1); p != nil {
						return p
					}
					if a, ok := base.(*ssa.Alloc); ok {
						if sv := singleStore(a); sv != nil {
							if p := popOf(sv, depth+1); p != nil {
								return p
							}
						}
					}
				}
			case *ssa.Field:
				if p := popOf(x.X, depth+1); p != nil {
					return p
				}
			}
		}
		return nil
	}
	n := 0
	for _, op := range []string{"OP_ISUB", "OP_MONETARY_SUB"} {
		lo, hi := opClauseRange(c, op)
		key := "tick:" + op + ":left-minus-right"
		if !lo.IsValid() {
			c.undecided(rule, key, tick.Pos(), "no clause for "+op+" found in Machine.tick")
			continue
		}
		// the clause, and the methods of the machine it calls
		fns := map[*ssa.Function]bool{}
		var subs []*ssa.Call
		var scan func(fn *ssa.Function, inRange bool, depth int)
		scan = func(fn *ssa.Function, inRange bool, depth int) {
			for _, b := range fn.Blocks {
				for _, ins := range b.Instrs {
					call, ok := ins.(*ssa.Call)
					if !ok {
						continue
					}
					if inRange && (call.Pos() < lo || call.Pos() > hi) {
						continue
					}
					g := staticCallee(call)
					if g == nil {
						continue
					}
					if origName(g) == "Sub" && fnPkgPath(origin(g)) == pkgMachine && len(call.Call.Args) == 2 {
						subs = append(subs, call)
					}
					if depth < 2 && fnPkgPath(origin(g)) == pkgVM && len(g.Blocks) > 0 && g.Signature.Recv() != nil && !fns[g] && !isPop(call) {
						fns[g] = true
						scan(g, false, depth+1)
					}
				}
			}
		}
		scan(tick, true, 0)
		if len(subs) != 1 {
			c.undecided(rule, key, tick.Pos(), fmt.Sprintf("expected one subtraction in the clause of %s, found %d", op, len(subs)))
			continue
		}
		n++
		sub := subs[0]
		left, right := popOf(sub.Call.Args[0], 0), popOf(sub.Call.Args[1], 0)
		switch {
		case left == nil || right == nil || left == right:
			c.undecided(rule, key, sub.Pos(), "the operands of the subtraction are not two values popped from the stack")
		case left.Parent() == right.Parent() && left.Pos() > right.Pos():
			c.ok(rule, key, sub.Pos(), "the minuend is the value popped second (pushed first: the left operand)")
		case left.Parent() == right.Parent():
			c.bad(rule, key, sub.Pos(), op+" computes (first value popped) − (second value popped): the compiler pushes the left operand first, so `a - b` evaluates to b − a — valid sends are refused, invalid ones accepted with the wrong amount")
		default:
			c.undecided(rule, key, sub.Pos(), "the two operands are popped in different functions")
		}
	}
	if n == 0 {
		c.undecided(rule, "floor:subtractions", token.NoPos, "no subtraction opcode could be read")
	}
}
