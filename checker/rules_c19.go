package main

import (
	"fmt"
	"go/token"
	"go/types"
	"sort"
	"strings"

	"golang.org/x/tools/go/ssa"
)

const (
	pkgAPI     = modPath + "/internal/api"
	pkgV1      = modPath + "/internal/api/v1"
	pkgBackend = modPath + "/internal/api/backend"
	pkgChi     = "github.com/go-chi/chi/v5"
)

func init() {
	register("C19", propMeta{
		Level: "proof",
		Explanation: "Three obligations families, all discharged statically for every route, method and body: R19a in api.ReadOnly the wrapped handler is invoked only on edges establishing r.Method ∈ {GET, HEAD, OPTIONS}, and no code of the repository assigns http.Request.Method; R19b in api.NewRouter, on every path where readOnly may be true, mux.Use(ReadOnly) precedes every route registration on the root mux, and the versioned routers are built only inside api.NewRouter (which is the only router the server module mounts); " +
			"R19e the switch reaches the router: api.Config.ReadOnly is read from the configuration registry under a constant key, and every command-line flag of that name is declared on a flag set that is bound to the registry (viper.BindPFlags on the same command and flag-set kind, or BindPFlag) — otherwise `serve --read-only` runs without the gate; R19d the method the gate tests is the one the router dispatches on: no repository function stores into http.Request.Method or chi.Context.RouteMethod (constant safe verbs excepted) or uses a third-party function that does; R19c the route table of both API versions is extracted from the chi registration calls (all functions of the repository that call chi.Router methods); for every handler registered for a safe method (Get/Head/Options), for every method-agnostic registration (Handle, HandleFunc, Method*, NotFound, MethodNotAllowed) and for every middleware (Use/With), the set of functions reachable from the handler value (static calls, function values created or referenced, implementations of repository interfaces) contains no write sink: invoke of backend.Ledger.{CreateTransaction,RevertTransaction,SaveMeta,DeleteMetadata}, ProcessBulk, the Commander write methods, Batcher.Append. Obligations = registrations × sinks; floors require that Post/Delete routes do reach each write method (so the extraction is not vacuous).",
		NotDecided:  "ledger creation (POST /v2/{ledger}, v1 auto-create middleware) is not one of the four writes named by the property and is not covered.",
		Trusted: []string{"chi: a route registered with Get/Head/Options is dispatched for that method only; Use middlewares wrap every route registered afterwards on that mux, including mounted sub-routers", "net/http sets Request.Method from the request line",
			"go/types + go/ssa; calls through standard-library interfaces (http.Handler.ServeHTTP of the next handler) are routing, not reachability"},
		Assumptions: []string{"reflection is not used to invoke backend methods (none in internal/api)"},
	}, runC19)
}

var chiRegistrars = map[string]string{
	"Get": "safe", "Head": "safe", "Options": "safe",
	"Post": "unsafe", "Put": "unsafe", "Patch": "unsafe", "Delete": "unsafe", "Connect": "unsafe", "Trace": "unsafe",
	"Handle": "any", "HandleFunc": "any", "NotFound": "any", "MethodNotAllowed": "any",
	"Method": "method", "MethodFunc": "method",
	"Use": "middleware", "With": "middleware",
	"Mount": "mount", "Route": "nest", "Group": "nest",
}

type registration struct {
	fn     *ssa.Function
	call   ssa.CallInstruction
	method string // chi method name
	class  string
	path   string
	vals   []ssa.Value // handler / middleware values
}

func isChiRouterRecv(t types.Type) bool {
	return isNamed(t, pkgChi, "Router") || isNamed(t, pkgChi, "Mux") || isNamed(t, pkgChi, "Routes")
}

func chiRegistrations(c *Ctx) []registration {
	var out []registration
	for _, fn := range c.RepoFuncs() {
		allCalls(fn, func(ci ssa.CallInstruction) {
			cc := ci.Common()
			var name string
			var recvT types.Type
			args := cc.Args
			if cc.IsInvoke() {
				name = cc.Method.Name()
				recvT = cc.Value.Type()
			} else if f := staticCallee(ci); f != nil && f.Signature.Recv() != nil {
				name = f.Name()
				recvT = f.Signature.Recv().Type()
				if len(args) > 0 {
					args = args[1:]
				}
			} else {
				return
			}
			class, ok := chiRegistrars[name]
			if !ok || !isChiRouterRecv(recvT) {
				return
			}
			r := registration{fn: fn, call: ci, method: name, class: class}
			for _, a := range args {
				if s, ok := constString(a); ok && r.path == "" {
					r.path = s
					continue
				}
				switch a.Type().Underlying().(type) {
				case *types.Signature, *types.Interface:
					r.vals = append(r.vals, a)
				case *types.Slice:
					r.vals = append(r.vals, variadicElems(a)...)
				}
			}
			out = append(out, r)
		})
	}
	return out
}

type reachInfo struct {
	c     *Ctx
	sinks func(ci ssa.CallInstruction) string
	memo  map[*ssa.Function]map[string]string // fn -> sink -> chain
	impls map[*types.Func][]*ssa.Function
}

// funcsOfValue: the functions a handler/middleware value may denote or produce.
func (ri *reachInfo) funcsOfValue(v ssa.Value, depth int) []*ssa.Function {
	c := ri.c
	if depth > 6 || v == nil {
		return nil
	}
	v = strip(v)
	if fs := c.resolveFuncValue(v, 0); fs != nil {
		return fs
	}
	switch x := v.(type) {
	case *ssa.Call:
		// result of a factory: everything the factory can return / create
		var out []*ssa.Function
		for _, f := range c.CalleesOf(x) {
			out = append(out, f)
		}
		if len(out) == 0 && x.Call.IsInvoke() {
			out = append(out, ri.implementations(x.Call.Method)...)
		}
		return out
	case *ssa.MakeClosure:
		if f, ok := x.Fn.(*ssa.Function); ok {
			return []*ssa.Function{f}
		}
	case *ssa.Extract:
		return ri.funcsOfValue(x.Tuple, depth+1)
	case *ssa.Phi:
		var out []*ssa.Function
		for _, e := range x.Edges {
			out = append(out, ri.funcsOfValue(e, depth+1)...)
		}
		return out
	case *ssa.UnOp:
		if f, base := anyFieldRead(x); f != nil {
			// a field holding a function (e.g. cors.Handler bound method): the method value's target
			_ = base
		}
	}
	return nil
}

func (ri *reachInfo) implementations(m *types.Func) []*ssa.Function {
	if m == nil || m.Pkg() == nil || !inRepo(m.Pkg().Path()) {
		return nil
	}
	if r, ok := ri.impls[m]; ok {
		return r
	}
	c := ri.c
	recv := m.Type().(*types.Signature).Recv()
	var out []*ssa.Function
	if recv != nil {
		if it, ok := recv.Type().Underlying().(*types.Interface); ok {
			for path, p := range c.ByPath {
				if !inRepo(path) || p.Types == nil {
					continue
				}
				sc := p.Types.Scope()
				for _, n := range sc.Names() {
					tn, ok := sc.Lookup(n).(*types.TypeName)
					if !ok {
						continue
					}
					named, ok := tn.Type().(*types.Named)
					if !ok || named.TypeParams().Len() > 0 {
						continue
					}
					if _, isI := named.Underlying().(*types.Interface); isI {
						continue
					}
					for _, t := range []types.Type{named, types.NewPointer(named)} {
						if types.Implements(t, it) {
							ms := c.Prog.MethodSets.MethodSet(t)
							if sel := ms.Lookup(m.Pkg(), m.Name()); sel != nil {
								if f := c.Prog.MethodValue(sel); f != nil {
									out = append(out, f)
								}
							}
							break
						}
					}
				}
			}
		}
	}
	ri.impls[m] = dedupFns(out)
	return ri.impls[m]
}

// reach computes, for fn, which sinks are reachable and through which chain.
func (ri *reachInfo) reach(fn *ssa.Function, depth int) map[string]string {
	if fn == nil {
		return nil
	}
	if r, ok := ri.memo[fn]; ok {
		return r
	}
	res := map[string]string{}
	ri.memo[fn] = res
	if depth > 40 || len(fn.Blocks) == 0 || !inRepo(fnPkgPath(fn)) {
		return res
	}
	c := ri.c
	c.seeFn(fn)
	add := func(sub map[string]string, via string) {
		for k, v := range sub {
			if _, ok := res[k]; !ok {
				res[k] = fnName(fn) + " → " + v
				_ = via
			}
		}
	}
	for _, b := range fn.Blocks {
		for _, ins := range b.Instrs {
			if ci, ok := ins.(ssa.CallInstruction); ok {
				if s := ri.sinks(ci); s != "" {
					if _, have := res[s]; !have {
						res[s] = fnName(fn) + " calls " + s + " at " + c.pos(ci.Pos())
					}
				}
				cc := ci.Common()
				if cc.IsInvoke() {
					// next-handler dispatch is routing
					if cc.Method.Name() == "ServeHTTP" && cc.Method.Pkg() != nil && cc.Method.Pkg().Path() == "net/http" {
						continue
					}
					for _, f := range ri.implementations(cc.Method) {
						add(ri.reach(f, depth+1), "")
					}
				} else {
					for _, f := range c.CalleesOf(ci) {
						add(ri.reach(f, depth+1), "")
					}
				}
			}
			// function values created or referenced
			for _, op := range ins.Operands(nil) {
				switch x := (*op).(type) {
				case *ssa.Function:
					if _, isCall := ins.(ssa.CallInstruction); isCall && ins.(ssa.CallInstruction).Common().Value == ssa.Value(x) {
						continue
					}
					add(ri.reach(x, depth+1), "")
				case *ssa.MakeClosure:
					if f, ok := x.Fn.(*ssa.Function); ok {
						add(ri.reach(f, depth+1), "")
					}
				}
			}
			if mc, ok := ins.(*ssa.MakeClosure); ok {
				if f, ok := mc.Fn.(*ssa.Function); ok {
					add(ri.reach(f, depth+1), "")
				}
			}
		}
	}
	return res
}

func runC19(c *Ctx) {
	m := c.cmdModel("R19c")
	if !m.ok {
		return
	}
	// ---- sinks
	writeNames := []string{"CreateTransaction", "RevertTransaction", "SaveMeta", "DeleteMetadata"}
	var ledgerWrites []*types.Func
	for _, n := range writeNames {
		if f := c.IfaceMethod(pkgBackend, "Ledger", n); f != nil {
			ledgerWrites = append(ledgerWrites, f)
		} else {
			c.undecided("R19c", "anchor:backend.Ledger."+n, token.NoPos, "write method not found on backend.Ledger")
		}
	}
	processBulk := c.Fn(pkgV2, "ProcessBulk")
	ri := &reachInfo{c: c, memo: map[*ssa.Function]map[string]string{}, impls: map[*types.Func][]*ssa.Function{}}
	ri.sinks = func(ci ssa.CallInstruction) string {
		for _, w := range ledgerWrites {
			if isCallTo(ci, w) && ifaceMethodOf(ci) != nil {
				return "backend.Ledger." + w.Name()
			}
		}
		if f := staticCallee(ci); f != nil {
			if processBulk != nil && f == processBulk {
				return "v2.ProcessBulk"
			}
			if recvTypeName(f) == "Commander" && fnPkgPath(f) == pkgCommand {
				for _, n := range writeNames {
					if f.Name() == n {
						return "command.Commander." + n
					}
				}
			}
		}
		if isCallTo(ci, m.batcherAppend) {
			return "batching.Batcher.Append"
		}
		return ""
	}

	// ---- R19a: the gate
	ruleR19a(c)
	// ---- R19b: installed first
	ruleR19b(c)
	ruleR19d(c)
	ruleR19e(c)

	// ---- R19c
	regs := chiRegistrations(c)
	sort.SliceStable(regs, func(i, j int) bool { return regs[i].call.Pos() < regs[j].call.Pos() })
	classCount := map[string]int{}
	writeReached := map[string]bool{}
	seenKey := map[string]int{}
	for _, r := range regs {
		classCount[r.class]++
		effClass := r.class
		if r.class == "method" {
			// first argument: the HTTP method
			effClass = "any"
			args := r.call.Common().Args
			for _, a := range args {
				if s, ok := constString(a); ok {
					switch strings.ToUpper(s) {
					case "GET", "HEAD", "OPTIONS":
						effClass = "safe"
					case "POST", "PUT", "PATCH", "DELETE":
						effClass = "unsafe"
					}
					break
				}
			}
		}
		label := fmt.Sprintf("%s %s %q", fnName(r.fn), r.method, r.path)
		seenKey[label]++
		if n := seenKey[label]; n > 1 {
			label = fmt.Sprintf("%s#%d", label, n)
		}
		switch effClass {
		case "nest":
			continue
		case "mount":
			// the mounted value must be a router built by one of the analysed constructors
			for _, v := range r.vals {
				okCtor := false
				for _, root := range roots(v, nil) {
					if call, _ := resultOf(root); call != nil {
						if f := staticCallee(call); f != nil && f.Name() == "NewRouter" && inRepo(fnPkgPath(f)) {
							okCtor = true
						}
					}
					// a router injected as a parameter: every provider of chi.Router in the repository
					// must hand out api.NewRouter(...)
					if p, ok := root.(*ssa.Parameter); ok && isNamed(p.Type(), pkgChi, "Router") && routerProvidersAreGated(c) {
						okCtor = true
					}
				}
				c.check(okCtor, "R19c", "mount:"+label, r.call.Pos(), "mounts a router built by a NewRouter of this repository (its routes are part of the table)", "a handler is mounted that is not built by an analysed NewRouter: its routes are invisible to the route table")
			}
			continue
		}
		var fns []*ssa.Function
		unresolved := false
		for _, v := range r.vals {
			fs := ri.funcsOfValue(v, 0)
			if len(fs) == 0 {
				// values from third-party packages (cors handler, recoverer, otelchi): no repo code behind them
				if thirdPartyValue(v) {
					continue
				}
				unresolved = true
			}
			fns = append(fns, fs...)
		}
		reached := map[string]string{}
		for _, f := range fns {
			for k, v := range ri.reach(f, 0) {
				if _, ok := reached[k]; !ok {
					reached[k] = v
				}
			}
		}
		if effClass == "unsafe" {
			for k := range reached {
				writeReached[k] = true
			}
			continue
		}
		if unresolved {
			c.undecided("R19c", "route:"+label, r.call.Pos(), "cannot resolve the handler value of this registration to functions")
			continue
		}
		if len(reached) == 0 {
			c.ok("R19c", "route:"+label, r.call.Pos(), fmt.Sprintf("%s registration: no write sink reachable from its %d handler function(s)", effClass, len(fns)))
		} else {
			var ks []string
			for k := range reached {
				ks = append(ks, k)
			}
			sort.Strings(ks)
			c.bad("R19c", "route:"+label, r.call.Pos(), fmt.Sprintf("a %s registration (%s) reaches a write: %s — in read-only mode a %s request executes it", effClass, r.method, reached[ks[0]], map[string]string{"safe": "GET/HEAD/OPTIONS", "any": "GET", "middleware": "GET"}[effClass]))
		}
		c.NSites++
	}
	c.Info["route_registrations"] = classCount
	// floors: the extraction sees the write routes
	for _, w := range writeNames {
		c.check(writeReached["backend.Ledger."+w], "R19c", "floor:unsafe-route-reaches:"+w, token.NoPos, "some Post/Delete route reaches backend.Ledger."+w+" (the extraction and the reachability are not vacuous)", "no Post/Delete route reaches backend.Ledger."+w+": the route extraction or the reachability analysis lost the write path")
	}
	c.check(writeReached["v2.ProcessBulk"], "R19c", "floor:unsafe-route-reaches:ProcessBulk", token.NoPos, "the bulk route is seen", "no unsafe route reaches ProcessBulk")
	if classCount["safe"] < 10 {
		c.undecided("R19c", "floor:safe-routes", token.NoPos, fmt.Sprintf("only %d safe-method registrations found", classCount["safe"]))
	}
	// the engine side: from the four backend.Ledger write implementations the persistence sinks are reachable
	// (so a safe handler calling e.g. engine.Ledger.SaveMeta directly would be seen)
	for _, w := range ledgerWrites {
		for _, impl := range ri.implementations(w) {
			if fnPkgPath(impl) != pkgEngine {
				continue
			}
			r := ri.reach(impl, 0)
			_, ok := r["batching.Batcher.Append"]
			c.check(ok, "R19c", "floor:engine-write-reaches-append:"+w.Name(), impl.Pos(), "engine.Ledger."+w.Name()+" reaches Batcher.Append through the resolved call structure", "the reachability analysis does not connect engine.Ledger."+w.Name()+" to the batcher: call resolution is incomplete")
		}
	}
}

func thirdPartyValue(v ssa.Value) bool {
	v = strip(v)
	switch x := v.(type) {
	case *ssa.Call:
		if f := staticCallee(x); f != nil && !inRepo(fnPkgPath(f)) {
			return true
		}
		if x.Call.IsInvoke() && x.Call.Method.Pkg() != nil && !inRepo(x.Call.Method.Pkg().Path()) {
			return true
		}
	case *ssa.Function:
		return !inRepo(fnPkgPath(x))
	case *ssa.MakeClosure:
		if f, ok := x.Fn.(*ssa.Function); ok {
			// bound method of a third-party type
			if f.Synthetic != "" && strings.Contains(f.Synthetic, "bound method") {
				return !inRepo(fnPkgPath(f)) || strings.Contains(f.String(), "github.com/go-chi/") || strings.Contains(f.String(), "libs/go-libs/health")
			}
			return !inRepo(fnPkgPath(f))
		}
	}
	return false
}

func ruleR19a(c *Ctx) {
	const rule = "R19a"
	ro := c.MustFn(rule, pkgAPI, "ReadOnly")
	if ro == nil {
		return
	}
	safe := map[string]bool{"GET": true, "HEAD": true, "OPTIONS": true}
	n := 0
	for _, fn := range withLiterals(ro) {
		for _, b := range fn.Blocks {
			for _, ins := range b.Instrs {
				call, ok := ins.(*ssa.Call)
				if !ok || !call.Call.IsInvoke() || call.Call.Method.Name() != "ServeHTTP" {
					continue
				}
				n++
				// every path to this call must have established Method == one of the safe constants
				okAll := true
				var trail []string
				pr := &PathRule{
					Edge: func(pc *PathCtx, s uint64, from *ssa.BasicBlock, si int) (uint64, bool) {
						for _, f := range pc.edgeFacts(from, si) {
							fld, _ := anyFieldRead(f.X)
							if fld == nil || fld.Name() != "Method" || fld.Pkg() == nil || fld.Pkg().Path() != "net/http" {
								continue
							}
							if str, ok := constString(f.Y); ok && f.Eq && safe[str] {
								s |= 1
							}
						}
						return s, true
					},
					Step: func(pc *PathCtx, s uint64, i2 ssa.Instruction) uint64 {
						if i2 == ssa.Instruction(call) && s&1 == 0 {
							okAll = false
							trail = pc.Trail()
						}
						return s
					},
				}
				c.RunPaths(fn, 0, pr)
				if okAll {
					c.ok(rule, "ReadOnly:next-handler-only-for-safe-methods", call.Pos(), "the wrapped handler is invoked only on edges establishing r.Method ∈ {GET, HEAD, OPTIONS}")
				} else {
					c.add(rule, "ReadOnly:next-handler-only-for-safe-methods", call.Pos(), Violated, "api.ReadOnly passes a request on to the wrapped handler on a path that has not established that its method is GET, HEAD or OPTIONS", trail...)
				}
			}
		}
	}
	if n == 0 {
		c.undecided(rule, "floor:ServeHTTP-in-ReadOnly", ro.Pos(), "api.ReadOnly never invokes the wrapped handler")
	}
	// nobody assigns http.Request.Method
	nw := 0
	for _, fn := range c.RepoFuncs() {
		for _, b := range fn.Blocks {
			for _, ins := range b.Instrs {
				st, ok := ins.(*ssa.Store)
				if !ok {
					continue
				}
				if fa, ok := st.Addr.(*ssa.FieldAddr); ok {
					f := fieldOfAddr(fa)
					if f != nil && f.Name() == "Method" && f.Pkg() != nil && f.Pkg().Path() == "net/http" && isNamed(fa.X.Type(), "net/http", "Request") {
						if !freshBase(fa.X) {
							nw++
							c.bad(rule, "request-method-rewritten:"+fnName(fn), st.Pos(), "the repository assigns http.Request.Method: a request that passed the read-only gate as GET can be turned into a write")
						}
					}
				}
			}
		}
	}
	if nw == 0 {
		c.ok(rule, "request-method-never-rewritten", token.NoPos, "no instruction of the repository stores into http.Request.Method of an existing request")
	}
}

func ruleR19b(c *Ctx) {
	const rule = "R19b"
	nr := c.MustFn(rule, pkgAPI, "NewRouter")
	ro := c.MustFn(rule, pkgAPI, "ReadOnly")
	if nr == nil || ro == nil {
		return
	}
	var roParam *ssa.Parameter
	for _, p := range nr.Params {
		if bt, ok := p.Type().Underlying().(*types.Basic); ok && bt.Kind() == types.Bool {
			roParam = p
		}
	}
	if roParam == nil {
		c.undecided(rule, "NewRouter:readOnly-parameter", nr.Pos(), "api.NewRouter has no bool parameter")
		return
	}
	const (
		roFalse = 1
		gate    = 2
	)
	key := "NewRouter:gate-installed-before-any-route"
	violated := false
	nReg, nGate := 0, 0
	gatedRouters := map[ssa.Value]bool{}
	pr := &PathRule{
		Edge: func(pc *PathCtx, s uint64, from *ssa.BasicBlock, si int) (uint64, bool) {
			for _, f := range pc.edgeFacts(from, si) {
				if f.X == ssa.Value(roParam) {
					if b, ok := constBool(f.Y); ok && (b == f.Eq) == false {
						s |= roFalse
					}
				}
			}
			return s, true
		},
		Step: func(pc *PathCtx, s uint64, ins ssa.Instruction) uint64 {
			ci, ok := ins.(ssa.CallInstruction)
			if !ok {
				return s
			}
			cc := ci.Common()
			var name string
			var recvT types.Type
			args := cc.Args
			if cc.IsInvoke() {
				name, recvT = cc.Method.Name(), cc.Value.Type()
			} else if f := staticCallee(ci); f != nil && f.Signature.Recv() != nil {
				name, recvT = f.Name(), f.Signature.Recv().Type()
				args = args[1:]
			} else {
				return s
			}
			class, isReg := chiRegistrars[name]
			if !isReg || !isChiRouterRecv(recvT) {
				return s
			}
			var recvVal ssa.Value
			if cc.IsInvoke() {
				recvVal = cc.Value
			} else if len(cc.Args) > 0 {
				recvVal = cc.Args[0]
			}
			if class == "middleware" {
				hasGate := false
				for _, a := range args {
					for _, v := range variadicElems(a) {
						if f := closureOf(strip(v), 0); f == ro {
							hasGate = true
						}
					}
					if f := closureOf(strip(a), 0); f == ro {
						hasGate = true
					}
				}
				if !hasGate {
					// the chain built by a helper that is given the switch: `mux.Use(rootMiddlewares(readOnly)...)`
					for _, a := range args {
						for _, r := range roots(a, nil) {
							call, ok := r.(*ssa.Call)
							if !ok {
								continue
							}
							g := staticCallee(call)
							if g == nil || len(g.Blocks) == 0 || !inRepo(fnPkgPath(origin(g))) {
								continue
							}
							for i, ga := range call.Call.Args {
								if strip(ga) == ssa.Value(roParam) && i < len(g.Params) && chainHasGateWhenSet(c, g, g.Params[i], ro) {
									hasGate = true
								}
							}
						}
					}
				}
				if !hasGate {
					return s
				}
				// Use installs the middleware on the router itself; With only on the router it RETURNS (a `mux.With(ReadOnly)`
				// whose result is dropped installs nothing)
				if name == "Use" {
					nGate++
					return s | gate
				}
				if v, ok := ins.(ssa.Value); ok {
					gatedRouters[v] = true
					nGate++
				}
				return s
			}
			nReg++
			if recvVal != nil && gatedRouters[strip(recvVal)] {
				return s // registered on the router returned by With(ReadOnly)
			}
			if s&(roFalse|gate) == 0 && !violated {
				violated = true
				c.add(rule, key, ci.Pos(), Violated, "a route is registered on the root router on a path where readOnly may be true and the ReadOnly middleware has not been installed yet: chi applies a middleware only to routes registered after it", pc.Trail()...)
			}
			return s
		},
	}
	c.RunPaths(nr, 0, pr)
	if !violated {
		if nGate == 0 {
			c.bad(rule, key, nr.Pos(), "api.NewRouter never installs the ReadOnly middleware")
		} else if nReg == 0 {
			c.undecided(rule, key, nr.Pos(), "api.NewRouter registers no route on the root router")
		} else {
			c.ok(rule, key, nr.Pos(), "on every path where readOnly may be true, Use(ReadOnly) precedes every registration on the root router")
		}
	}
	// versioned routers are only built inside api.NewRouter; api.NewRouter is the router of the module
	for _, p := range []string{pkgV1, pkgV2} {
		f := c.Fn(p, "NewRouter")
		if f == nil {
			c.undecided(rule, "anchor:"+shortPkg(p)+".NewRouter", token.NoPos, "not found")
			continue
		}
		okAll := true
		n := 0
		for _, ci := range c.CallersOf(f) {
			n++
			parent := ci.Parent()
			for parent.Parent() != nil {
				parent = parent.Parent()
			}
			if parent != nr {
				okAll = false
			}
		}
		c.check(okAll && n > 0, rule, shortPkg(p)+".NewRouter:built-only-behind-the-gate", f.Pos(), "built only inside api.NewRouter", "the versioned router is also built outside api.NewRouter, i.e. can be served without the read-only gate")
	}
	// the readOnly argument at the call sites of api.NewRouter comes from configuration (not a constant false)
	for _, ci := range c.CallersOf(nr) {
		args := ci.Common().Args
		last := args[len(args)-1]
		_, isConst := constBool(last)
		c.check(!isConst, rule, "NewRouter-call:readOnly-from-config:"+fnName(ci.Parent()), ci.Pos(), "the readOnly argument is not a constant", "api.NewRouter is called with a constant readOnly argument: the configuration flag is ignored")
	}
}

// routerProvidersAreGated: every function of the repository that returns a chi.Router and is not one of
// the NewRouter constructors returns the result of api.NewRouter.
func routerProvidersAreGated(c *Ctx) bool {
	apiNR := c.Fn(pkgAPI, "NewRouter")
	if apiNR == nil {
		return false
	}
	for _, fn := range c.RepoFuncs() {
		res := fn.Signature.Results()
		if res.Len() == 0 || !isNamed(res.At(0).Type(), pkgChi, "Router") || len(fn.Blocks) == 0 {
			continue
		}
		if fn.Parent() == nil && fn.Name() == "NewRouter" {
			continue
		}
		if fn.Synthetic != "" {
			continue
		}
		for _, b := range fn.Blocks {
			ret, ok := b.Instrs[len(b.Instrs)-1].(*ssa.Return)
			if !ok {
				continue
			}
			good := false
			for _, r := range roots(ret.Results[0], nil) {
				if call, _ := resultOf(r); call != nil && callsFn(call, apiNR) {
					good = true
				}
			}
			if !good {
				return false
			}
		}
	}
	return true
}

// chainHasGateWhenSet: every returning path of g on which the boolean parameter p was not shown false stores the
// gate function into the chain it builds (slice literal element or appended element).
func chainHasGateWhenSet(c *Ctx, g *ssa.Function, p *ssa.Parameter, gate *ssa.Function) bool {
	const (
		pFalse uint64 = 1 << iota
		has
	)
	ok, nRet := true, 0
	c.RunPaths(g, 0, &PathRule{
		Edge: func(pc *PathCtx, s uint64, from *ssa.BasicBlock, si int) (uint64, bool) {
			for _, f := range pc.edgeFacts(from, si) {
				if f.X == ssa.Value(p) {
					if b, isC := constBool(f.Y); isC && (b == f.Eq) == false {
						s |= pFalse
					}
				}
			}
			return s, true
		},
		Step: func(pc *PathCtx, s uint64, ins ssa.Instruction) uint64 {
			if st, isStore := ins.(*ssa.Store); isStore {
				if f := closureOf(strip(st.Val), 0); f == gate {
					return s | has
				}
			}
			return s
		},
		Exit: func(pc *PathCtx, s uint64, ins ssa.Instruction) {
			if _, isRet := ins.(*ssa.Return); isRet {
				nRet++
				if s&(pFalse|has) == 0 {
					ok = false
				}
			}
		},
	})
	return ok && nRet > 0
}
