package main

// Small structural rules added after the second micro-mutation wave.

import (
	"fmt"
	"go/token"
	"go/types"
	"sort"
	"strings"

	"golang.org/x/tools/go/ssa"
)

// R02g — the sort.Interface the compiler sorts the source accounts with exchanges two elements.
//
// Program.Sources (the write set of the account lock) is sorted with sort.Stable over machine.Addresses. A Swap that
// assigns sequentially (`a[i] = a[j]; a[j] = a[i]`) duplicates one source and drops another: the dropped account is
// only read-locked. Rule for every `Swap(i, j int)` method on a slice type of the repository: the element stored at
// index i was loaded from index j and vice versa, and both loads precede both stores.
func ruleSwapExchanges(c *Ctx, rule string, pkgPrefix string, floor int) {
	n := 0
	var fns []*ssa.Function
	for _, fn := range c.RepoFuncs() {
		if fn.Name() != "Swap" || fn.Signature.Recv() == nil || len(fn.Blocks) == 0 || fn.Synthetic != "" {
			continue
		}
		if !strings.HasPrefix(fnPkgPath(origin(fn)), pkgPrefix) {
			continue
		}
		if _, ok := fn.Signature.Recv().Type().Underlying().(*types.Slice); !ok {
			continue
		}
		if ps := fn.Signature.Params(); ps.Len() != 2 {
			continue
		}
		fns = append(fns, fn)
	}
	sort.Slice(fns, func(i, j int) bool { return fns[i].Pos() < fns[j].Pos() })
	for _, fn := range fns {
		n++
		c.seeFn(fn)
		key := recvTypeName(fn) + ".Swap:exchanges-two-elements"
		pi, pj := fn.Params[1], fn.Params[2]
		type acc struct {
			pos int
			idx ssa.Value
			val ssa.Value
		}
		var loads, stores []acc
		k := 0
		for _, b := range fn.Blocks {
			for _, ins := range b.Instrs {
				k++
				switch x := ins.(type) {
				case *ssa.UnOp:
					if ia, ok := x.X.(*ssa.IndexAddr); ok && x.Op == token.MUL {
						loads = append(loads, acc{k, ia.Index, x})
					}
				case *ssa.Store:
					if ia, ok := x.Addr.(*ssa.IndexAddr); ok {
						stores = append(stores, acc{k, ia.Index, x.Val})
					}
				}
			}
		}
		loadOf := func(v ssa.Value) (ssa.Value, int) {
			for _, l := range loads {
				if l.val == v {
					return l.idx, l.pos
				}
			}
			return nil, 0
		}
		ok := len(stores) == 2 && len(fn.Blocks) == 1
		firstStore := 1 << 30
		for _, s := range stores {
			if s.pos < firstStore {
				firstStore = s.pos
			}
		}
		for _, s := range stores {
			from, at := loadOf(s.val)
			other := ssa.Value(pj)
			if s.idx == ssa.Value(pj) {
				other = pi
			} else if s.idx != ssa.Value(pi) {
				ok = false
			}
			if from != other || at > firstStore {
				ok = false
			}
		}
		if len(stores) == 2 && stores[0].idx == stores[1].idx {
			ok = false
		}
		if ok {
			c.ok(rule, key, fn.Pos(), "each element is stored from the value the other index held before either store")
		} else {
			c.bad(rule, key, fn.Pos(), recvTypeName(fn)+".Swap does not exchange a[i] and a[j] (each stored value must be the other element, loaded before either store): sorting duplicates one element and drops another — a source account missing from Program.Sources is only read-locked")
		}
	}
	if n < floor {
		c.undecided(rule, "floor:swap-methods", token.NoPos, fmt.Sprintf("expected at least %d Swap method(s) on slice types under %s (machine.Addresses), found %d", floor, pkgPrefix, n))
	}
}

// R08i — numbers of a script are read in base 10.
//
// Every parse of a number text in the machine packages (big.Int.SetString, strconv.ParseInt/ParseUint) is given the
// constant base 10: base 0 reads `0100` as 64 and accepts `0x10`, which the grammar and the documentation do not.
func ruleDecimalParses(c *Ctx, rule string, floor int) {
	n := 0
	var fns []*ssa.Function
	for _, fn := range c.RepoFuncs() {
		pp := fnPkgPath(origin(fn))
		if len(fn.Blocks) == 0 || !(pp == pkgMachine || strings.HasPrefix(pp, pkgMachine+"/")) {
			continue
		}
		if strings.HasSuffix(c.Fset.Position(fn.Pos()).Filename, "_test.go") {
			continue
		}
		fns = append(fns, fn)
	}
	sort.Slice(fns, func(i, j int) bool { return fns[i].Pos() < fns[j].Pos() })
	seen := map[token.Pos]bool{}
	for _, fn := range fns {
		k := 0
		allCalls(fn, func(ci ssa.CallInstruction) {
			name := calleeFullName(ci)
			baseIdx := -1
			switch name {
			case "(*math/big.Int).SetString":
				baseIdx = 2
			case "strconv.ParseInt", "strconv.ParseUint":
				baseIdx = 1
			}
			if baseIdx < 0 || baseIdx >= len(ci.Common().Args) || seen[ci.Pos()] {
				return
			}
			seen[ci.Pos()] = true
			n++
			k++
			key := fmt.Sprintf("%s:%s#%d:base-10", fnName(origin(fn)), name[strings.LastIndex(name, ".")+1:], k)
			base, ok := constInt(ci.Common().Args[baseIdx])
			switch {
			case !ok:
				c.undecided(rule, key, ci.Pos(), "the base of the parse is not a constant")
			case base == 10:
				c.ok(rule, key, ci.Pos(), "parsed in base 10")
			default:
				c.bad(rule, key, ci.Pos(), fmt.Sprintf("a number of the script (or of a variable) is parsed with base %d: `0100` is not read as one hundred, `0x10` is accepted — the program moves another amount than the source says", base))
			}
		})
	}
	if n < floor {
		c.undecided(rule, "floor:number-parses", token.NoPos, fmt.Sprintf("expected at least %d number parse(s) in the machine packages (ParseMonetaryInt), found %d", floor, n))
	}
}

// R17h — mapping a page keeps its position.
//
// api.MapCursor (the conversion every listing goes through between the store and the JSON answer) builds a new
// Cursor: every field of the Cursor type is stored, and every field other than the mapped Data is stored from the
// same field of the cursor it was given (a dropped HasMore tells the client the walk is over after the first page).
func ruleMapCursorCopies(c *Ctx, rule string) {
	var fn *ssa.Function
	for f := range c.AllFns {
		o := origin(f)
		if fnPkgPath(o) != libsPath+"/api" || o.Name() != "MapCursor" || len(f.Blocks) == 0 {
			continue
		}
		// a ground instance is preferred (the helpers it calls are instantiated, hence built)
		fInst, fnInst := strings.HasPrefix(f.Synthetic, "instance of"), fn != nil && strings.HasPrefix(fn.Synthetic, "instance of")
		if fn == nil || (fInst && !fnInst) || (fInst == fnInst && f.String() < fn.String()) {
			fn = f
		}
	}
	if fn == nil {
		c.undecided(rule, "anchor:api.MapCursor", token.NoPos, "not found")
		return
	}
	c.seeFn(fn)
	src := fn.Params[0]
	// the cursor may be built by a helper of the package that is handed the source cursor
	body := fn
	if !buildsCursor(fn) {
		allCalls(fn, func(ci ssa.CallInstruction) {
			g := staticCallee(ci)
			if g == nil || len(g.Blocks) == 0 || fnPkgPath(origin(g)) != libsPath+"/api" || !buildsCursor(g) {
				return
			}
			for i, a := range ci.Common().Args {
				if a == ssa.Value(fn.Params[0]) && i < len(g.Params) {
					body, src = g, g.Params[i]
				}
			}
		})
	}
	for _, b := range body.Blocks {
		for _, ins := range b.Instrs {
			al, ok := ins.(*ssa.Alloc)
			if !ok || !isCursorType(al.Type()) {
				continue
			}
			st, _ := al.Type().Underlying().(*types.Pointer).Elem().Underlying().(*types.Struct)
			if st == nil {
				continue
			}
			from := map[string]string{}
			for _, r := range *al.Referrers() {
				fa, ok := r.(*ssa.FieldAddr)
				if !ok {
					continue
				}
				for _, r2 := range *fa.Referrers() {
					s, ok := r2.(*ssa.Store)
					if !ok || s.Addr != ssa.Value(fa) {
						continue
					}
					name := st.Field(fa.Field).Name()
					from[name] = "?"
					if f, base := anyFieldRead(s.Val); f != nil && base == ssa.Value(src) {
						from[name] = f.Name()
					}
				}
			}
			for i := 0; i < st.NumFields(); i++ {
				name := st.Field(i).Name()
				key := "MapCursor:carries-" + name
				got, stored := from[name]
				switch {
				case !stored:
					c.bad(rule, key, al.Pos(), "api.MapCursor does not set Cursor."+name+": every mapped page loses it (without HasMore a client that follows `next` while hasMore is true stops after the first page)")
				case name == "Data" || got == name:
					c.ok(rule, key, al.Pos(), "Cursor."+name+" is carried over")
				default:
					c.bad(rule, key, al.Pos(), "api.MapCursor fills Cursor."+name+" from "+got+" of the source cursor")
				}
			}
			return
		}
	}
	c.undecided(rule, "MapCursor:builds-a-cursor", fn.Pos(), "no Cursor composite found in MapCursor")
}

// negativeSpellings: what no reader of a boolean flag may read as "set".
var negativeSpellings = []string{"0", "FALSE", "NO", "OFF", "F", "N"}

// R18i — the boolean query parameters are not read upside down.
//
// Every function of the repository with the shape `func(*http.Request, string) bool` that compares the query
// parameter with constants (api.QueryParamBool: continueOnFailure, force, …): the set of values read as true is not
// empty and contains none of the conventional negative spellings (0, false, no, off). `continueOnFailure=0` must stop
// at the first failure.
func ruleBoolReaders(c *Ctx, rule string, floor int) {
	n := 0
	var fns []*ssa.Function
	for _, fn := range c.RepoFuncs() {
		if len(fn.Blocks) == 0 || fn.Synthetic != "" || fn.Signature.Recv() != nil {
			continue
		}
		ps, rs := fn.Signature.Params(), fn.Signature.Results()
		if ps.Len() != 2 || rs.Len() != 1 {
			continue
		}
		pt, ok := ps.At(0).Type().(*types.Pointer)
		if !ok || !isNamed(pt.Elem(), "net/http", "Request") {
			continue
		}
		if b, ok := ps.At(1).Type().Underlying().(*types.Basic); !ok || b.Kind() != types.String {
			continue
		}
		if b, ok := rs.At(0).Type().Underlying().(*types.Basic); !ok || b.Kind() != types.Bool {
			continue
		}
		if strings.HasSuffix(c.Fset.Position(fn.Pos()).Filename, "_test.go") {
			continue
		}
		fns = append(fns, fn)
	}
	sort.Slice(fns, func(i, j int) bool { return fnName(fns[i]) < fnName(fns[j]) })
	for _, fn := range fns {
		set, _ := acceptedSpellings(fn)
		if len(set) == 0 {
			continue
		}
		n++
		c.seeFn(fn)
		key := fnName(fn) + ":no-negative-spelling-read-as-true"
		var bad []string
		for s := range set {
			for _, neg := range negativeSpellings {
				if strings.EqualFold(s.text, neg) {
					bad = append(bad, s.String())
				}
			}
		}
		sort.Strings(bad)
		if len(bad) == 0 {
			c.ok(rule, key, fn.Pos(), "none of the values read as true is a negative spelling")
		} else {
			c.bad(rule, key, fn.Pos(), fnName(fn)+" reads "+strings.Join(bad, ", ")+" as true: a request that switches the option off gets it switched on (continueOnFailure=0 keeps executing after a failure)")
		}
	}
	if n < floor {
		c.undecided(rule, "floor:bool-readers", token.NoPos, fmt.Sprintf("expected at least %d reader(s) of boolean query parameters (api.QueryParamBool), found %d", floor, n))
	}
}

func buildsCursor(fn *ssa.Function) bool {
	for _, b := range fn.Blocks {
		for _, ins := range b.Instrs {
			if al, ok := ins.(*ssa.Alloc); ok && isCursorType(al.Type()) {
				return true
			}
		}
	}
	return false
}
