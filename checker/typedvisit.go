package main

// Typed-visit helpers of the compiler: a function that compiles a sub-expression and REQUIRES a given static type
// (`visitExprOfType(c, push, expected, …) (*Address, *CompileError)`). The contract is decided once — every path of
// the helper to a nil-error return passes an edge on which the type returned by the visit it makes equals its
// `expected` parameter — and the rules about type checks then read a call of the helper with a nil error as
// "the type of that expression equals the expected argument".

import (
	"go/types"
	"sort"

	"golang.org/x/tools/go/ssa"
)

type typedVisit struct {
	fn       *ssa.Function
	expected int // index in fn.Params of the machine.Type parameter
	exprArg  int // index in fn.Params of the parse-tree node that is visited
	ok       bool
}

func (c *Ctx) typedVisitHelpers() map[*ssa.Function]*typedVisit {
	if c.typedVisits != nil {
		return c.typedVisits
	}
	out := map[*ssa.Function]*typedVisit{}
	c.typedVisits = out
	isTypeT := func(t types.Type) bool { return isNamed(t, pkgMachine, "Type") }
	var fns []*ssa.Function
	for _, fn := range c.FuncsIn(pkgCompiler) {
		if len(fn.Blocks) > 0 && fn.Synthetic == "" {
			fns = append(fns, fn)
		}
	}
	sort.Slice(fns, func(i, j int) bool { return fns[i].Pos() < fns[j].Pos() })
	for _, fn := range fns {
		rs := fn.Signature.Results()
		if rs.Len() == 0 || (rs.Len() > 0 && isTypeT(rs.At(0).Type())) {
			continue // a visit itself
		}
		pt, ok := types.Unalias(rs.At(rs.Len() - 1).Type()).(*types.Pointer)
		if !ok || !isNamed(pt.Elem(), pkgCompiler, "CompileError") {
			continue
		}
		exp, node := -1, -1
		for i, p := range fn.Params {
			if isTypeT(p.Type()) {
				exp = i
			}
			if typeFromPkg(p.Type(), modPath+"/internal/machine/script/parser") && node < 0 {
				node = i
			}
		}
		if exp < 0 || node < 0 {
			continue
		}
		// the visit it makes on that node
		var ty ssa.Value
		for _, b := range fn.Blocks {
			for _, ins := range b.Instrs {
				call, ok := ins.(*ssa.Call)
				if !ok {
					continue
				}
				g := staticCallee(call)
				if g == nil || fnPkgPath(origin(g)) != pkgCompiler || g.Signature.Results().Len() < 2 || !isTypeT(g.Signature.Results().At(0).Type()) {
					continue
				}
				uses := false
				for _, a := range call.Call.Args {
					if a == ssa.Value(fn.Params[node]) {
						uses = true
					}
				}
				if !uses {
					continue
				}
				for _, r := range *call.Referrers() {
					if ex, ok := r.(*ssa.Extract); ok && ex.Index == 0 {
						ty = ex
					}
				}
			}
		}
		if ty == nil {
			continue
		}
		tv := &typedVisit{fn: fn, expected: exp, exprArg: node, ok: true}
		nOK := 0
		c.RunPaths(fn, 0, &PathRule{
			Edge: func(pc *PathCtx, s uint64, from *ssa.BasicBlock, si int) (uint64, bool) {
				for _, f := range pc.edgeFacts(from, si) {
					if f.Eq && ((f.X == ty && f.Y == ssa.Value(fn.Params[exp])) || (f.Y == ty && f.X == ssa.Value(fn.Params[exp]))) {
						s |= 1
					}
				}
				return s, true
			},
			Exit: func(pc *PathCtx, s uint64, ins ssa.Instruction) {
				r, ok := ins.(*ssa.Return)
				if !ok || len(r.Results) == 0 || !isNilConst(r.Results[len(r.Results)-1]) {
					return
				}
				nOK++
				if s&1 == 0 {
					tv.ok = false
				}
			},
		})
		if nOK == 0 {
			tv.ok = false
		}
		out[fn] = tv
	}
	return out
}

// typedVisitOfErr: v is the error result of a call of a typed-visit helper.
func (c *Ctx) typedVisitOfErr(v ssa.Value) (*ssa.Call, *typedVisit) {
	ex, ok := v.(*ssa.Extract)
	if !ok {
		return nil, nil
	}
	call, ok := ex.Tuple.(*ssa.Call)
	if !ok {
		return nil, nil
	}
	g := staticCallee(call)
	if g == nil {
		return nil, nil
	}
	tv := c.typedVisitHelpers()[g]
	if tv == nil || ex.Index != g.Signature.Results().Len()-1 {
		return nil, nil
	}
	return call, tv
}
