package main

// R20f — client text is spliced into SQL between quotes only.
//
// Where package ledgerstore builds an SQL fragment with fmt.Sprintf and a constant format, a `%s` / `%v` that stands
// OUTSIDE single quotes in the format receives a column name or a sub-fragment — never text that comes from the
// client. Client text here is: a string parameter of the enclosing function that some caller binds to a non-constant
// (the `address` of filterAccountAddress, not its `key`), and what is derived from it by splitting, indexing, ranging,
// converting or JSON-encoding. (The validation of that text by the address regexp is R20a's matter; here the text must
// also stay DATA: swapped arguments or dropped quotes turn it into an identifier or raw tokens.)

import (
	"fmt"
	"go/token"
	"go/types"
	"sort"
	"strings"

	"golang.org/x/tools/go/ssa"
)

func ruleR20f(c *Ctx, rule string) {
	n := 0
	var fns []*ssa.Function
	for _, fn := range c.FuncsIn(pkgLedgerstore) {
		if len(fn.Blocks) > 0 && fn.Synthetic == "" && !strings.HasSuffix(c.Fset.Position(fn.Pos()).Filename, "_test.go") {
			fns = append(fns, fn)
		}
	}
	sort.Slice(fns, func(i, j int) bool { return fns[i].Pos() < fns[j].Pos() })
	constBound := func(p *ssa.Parameter) bool {
		sites := c.CallersOf(p.Parent())
		idx := paramIndex(p)
		if len(sites) == 0 || idx < 0 {
			return false
		}
		for _, s := range sites {
			if idx >= len(s.Common().Args) {
				return false
			}
			if _, ok := strip(s.Common().Args[idx]).(*ssa.Const); !ok {
				return false
			}
		}
		return true
	}
	// a parameter that every caller binds to a constant or to a parameter that is itself so bound (a column name
	// handed down through helpers)
	var columnBound func(p *ssa.Parameter, depth int) bool
	columnBound = func(p *ssa.Parameter, depth int) bool {
		sites := c.CallersOf(p.Parent())
		idx := paramIndex(p)
		if len(sites) == 0 || idx < 0 || depth > 3 {
			return false
		}
		for _, s := range sites {
			if idx >= len(s.Common().Args) {
				return false
			}
			switch a := strip(s.Common().Args[idx]).(type) {
			case *ssa.Const:
			case *ssa.Parameter:
				if !constBound(a) && !columnBound(a, depth+1) {
					return false
				}
			default:
				return false
			}
		}
		return true
	}
	for _, fn := range fns {
		hasClientParam := false
		for _, p := range fn.Params {
			if b, ok := p.Type().Underlying().(*types.Basic); ok && b.Kind() == types.String && !constBound(p) {
				hasClientParam = true
			}
		}
		if !hasClientParam || fn.Parent() != nil {
			continue // filter literals validate their key and value themselves (R20a)
		}
		// the fragment builders the filter literals hand the client's value to
		var reachedFromLiteral func(f *ssa.Function, depth int) bool
		reachedFromLiteral = func(f *ssa.Function, depth int) bool {
			if depth > 3 {
				return false
			}
			for _, cs := range c.CallersOf(f) {
				p := cs.Parent()
				if p == nil || fnPkgPath(origin(p)) != pkgLedgerstore {
					continue
				}
				if p.Parent() != nil {
					// a filter literal: (string, []any, error)
					if rs := p.Signature.Results(); rs.Len() == 3 && isErrorType(rs.At(2).Type()) {
						if b, ok := rs.At(0).Type().Underlying().(*types.Basic); ok && b.Kind() == types.String {
							return true
						}
					}
					continue
				}
				if reachedFromLiteral(p, depth+1) {
					return true
				}
			}
			return false
		}
		if !reachedFromLiteral(fn, 0) {
			continue
		}
		var client func(v ssa.Value, depth int) bool
		client = func(v ssa.Value, depth int) bool {
			if depth > 8 || v == nil {
				return false
			}
			switch x := v.(type) {
			case *ssa.Parameter:
				b, ok := x.Type().Underlying().(*types.Basic)
				return ok && b.Kind() == types.String && x.Parent() == fn && !constBound(x) && !columnBound(x, 0)
			case *ssa.Convert:
				return client(x.X, depth+1)
			case *ssa.ChangeType:
				return client(x.X, depth+1)
			case *ssa.MakeInterface:
				return client(x.X, depth+1)
			case *ssa.Slice:
				return client(x.X, depth+1)
			case *ssa.Phi:
				for _, e := range x.Edges {
					if client(e, depth+1) {
						return true
					}
				}
			case *ssa.UnOp:
				if x.Op == token.MUL {
					if ia, ok := x.X.(*ssa.IndexAddr); ok {
						return client(ia.X, depth+1)
					}
					if al, ok := x.X.(*ssa.Alloc); ok {
						if sv := singleStore(al); sv != nil {
							return client(sv, depth+1)
						}
					}
				}
			case *ssa.Extract:
				switch t := x.Tuple.(type) {
				case *ssa.Next:
					if rg, ok := t.Iter.(*ssa.Range); ok {
						return client(rg.X, depth+1)
					}
				case *ssa.Call:
					return client(t, depth+1)
				}
			case *ssa.Call:
				name := calleeFullName(x)
				switch {
				case strings.HasPrefix(name, "strings.") && len(x.Call.Args) > 0:
					return client(x.Call.Args[0], depth+1)
				case name == "encoding/json.Marshal":
					return true // the encoding of something built from the function's client text
				}
			}
			return false
		}
		k := 0
		allCalls(fn, func(ci ssa.CallInstruction) {
			call, ok := ci.(*ssa.Call)
			if !ok || calleeFullName(call) != "fmt.Sprintf" || len(call.Call.Args) < 2 {
				return
			}
			format, ok := constString(call.Call.Args[0])
			if !ok {
				return
			}
			args := variadicElems(call.Call.Args[1])
			// verbs and whether they stand between single quotes
			type verb struct{ quoted bool }
			var verbs []verb
			inQ := false
			for i := 0; i < len(format); i++ {
				switch format[i] {
				case '\'':
					inQ = !inQ
				case '%':
					if i+1 < len(format) && format[i+1] == '%' {
						i++
						continue
					}
					j := i + 1
					for j < len(format) && strings.ContainsRune("+-# 0123456789.*", rune(format[j])) {
						j++
					}
					if j < len(format) {
						verbs = append(verbs, verb{inQ})
					}
					i = j
				}
			}
			if len(verbs) != len(args) {
				return
			}
			// a fragment that is itself handed to a quoting helper (`quoteLiteral(fmt.Sprintf(…))`) is text of a literal
			quotedLater := len(*call.Referrers()) > 0
			for _, r := range *call.Referrers() {
				uc, ok := r.(*ssa.Call)
				if !ok || !isQuoter(staticCallee(uc)) {
					quotedLater = false
				}
			}
			for i, a := range args {
				if !client(a, 0) {
					continue
				}
				if quotedLater {
					verbs[i].quoted = true
				}
				n++
				k++
				c.seeFn(fn)
				key := fmt.Sprintf("%s:sprintf#%d:client-text-between-quotes", fnName(fn), k)
				if verbs[i].quoted {
					c.ok(rule, key, call.Pos(), "the client's text fills a verb that stands between single quotes")
				} else {
					c.bad(rule, key, call.Pos(), fmt.Sprintf("argument %d of this Sprintf is text from the client and fills a verb that stands OUTSIDE the quotes of the format %q: the text becomes an identifier or raw SQL tokens instead of a literal", i+1, format))
				}
			}
		})
	}
	if n < 1 {
		c.undecided(rule, "floor:client-text-in-formats", token.NoPos, fmt.Sprintf("expected at least 1 Sprintf arguments carrying client text in ledgerstore (the address filters), found %d", n))
	}
}

// isQuoter: a helper that returns its only string parameter between single quotes (`"'" + v + "'"` or Sprintf("'%s'", v)).
func isQuoter(g *ssa.Function) bool {
	if g == nil || len(g.Blocks) != 1 || len(g.Params) != 1 {
		return false
	}
	ret, ok := g.Blocks[0].Instrs[len(g.Blocks[0].Instrs)-1].(*ssa.Return)
	if !ok || len(ret.Results) != 1 {
		return false
	}
	// "'" + p + "'"
	if outer, ok := ret.Results[0].(*ssa.BinOp); ok && outer.Op == token.ADD {
		if q, ok := constString(outer.Y); ok && q == "'" {
			if inner, ok := outer.X.(*ssa.BinOp); ok && inner.Op == token.ADD {
				if q2, ok := constString(inner.X); ok && q2 == "'" && inner.Y == ssa.Value(g.Params[0]) {
					return true
				}
			}
		}
	}
	if call, ok := ret.Results[0].(*ssa.Call); ok && calleeFullName(call) == "fmt.Sprintf" {
		if f, ok := constString(call.Call.Args[0]); ok && f == "'%s'" {
			return true
		}
	}
	return false
}
